/-
  Helper lemmas for C14 at the Workflow / ResourceFunction / FunctionTest level.
-/
import Koreo.WorkflowPrep
import Koreo.Lemmas.CelAst

namespace Koreo.WorkflowPrep
open Koreo.CelAst

/-! ## stages of `_load_step` -/

theorem Acc.add_needed (acc : Acc) (keys : List String) :
    (acc.add keys).needed = acc.needed ++ stepDeps keys := rfl

theorem scanFld_spec {f : Fld} {acc acc' : Acc} (h : scanFld f acc = .ok (some acc')) :
    (f = .absent ∧ acc' = acc) ∨ (∃ t ks, f = .ast t ∧ extract t = .ok ks ∧ acc' = acc.add ks) := by
  unfold scanFld at h
  cases f with
  | absent => left; simp [pure, Except.pure] at h; exact ⟨rfl, h.symm⟩
  | parseFail => simp [pure, Except.pure] at h
  | ast t =>
    right
    cases he : extract t with
    | error e => simp [he] at h
    | ok ks =>
      simp only [he, pure, Except.pure, Except.ok.injEq, Option.some.injEq] at h
      exact ⟨t, ks, rfl, he, h.symm⟩

theorem scanForEach_spec {fe : Option ForEachSpec} {acc acc' : Acc} (h : scanForEach fe acc = .ok (some acc')) :
    (fe = none ∧ acc' = acc) ∨
    (∃ x t ks, fe = some x ∧ x.itemIn = .ast t ∧ extract t = .ok ks ∧ acc' = acc.add ks) := by
  unfold scanForEach at h
  cases fe with
  | none => left; simp [pure, Except.pure] at h; exact ⟨rfl, h.symm⟩
  | some x =>
    right
    simp only at h
    cases hi : x.itemIn with
    | absent => simp [hi, pure, Except.pure] at h
    | parseFail => simp [hi, pure, Except.pure] at h
    | ast t =>
      simp only [hi] at h
      cases he : extract t with
      | error e => simp [he] at h
      | ok ks =>
        simp only [he] at h
        split at h
        · simp [pure, Except.pure] at h
        · simp only [pure, Except.pure, Except.ok.injEq, Option.some.injEq] at h
          exact ⟨x, t, ks, rfl, hi, he, h.symm⟩

/-- what a completed run of the four stages has gathered -/
theorem runStages_done {s : StepSpec} {acc0 acc : Acc} (h : runStages (stages s) acc0 = .ok (.inr acc)) :
    ∃ a1 a2 a3, scanFld s.skipIf acc0 = .ok (some a1) ∧ scanForEach s.forEach a1 = .ok (some a2) ∧
      scanFld s.inputs a2 = .ok (some a3) ∧ scanFld s.state a3 = .ok (some acc) := by
  simp only [stages, runStages] at h
  cases h1 : scanFld s.skipIf acc0 with
  | error e => simp [h1] at h
  | ok o1 =>
    cases o1 with
    | none => simp [h1, pure, Except.pure] at h
    | some a1 =>
      simp only [h1] at h
      cases h2 : scanForEach s.forEach a1 with
      | error e => simp [h2] at h
      | ok o2 =>
        cases o2 with
        | none => simp [h2, pure, Except.pure] at h
        | some a2 =>
          simp only [h2] at h
          cases h3 : scanFld s.inputs a2 with
          | error e => simp [h3] at h
          | ok o3 =>
            cases o3 with
            | none => simp [h3, pure, Except.pure] at h
            | some a3 =>
              simp only [h3] at h
              cases h4 : scanFld s.state a3 with
              | error e => simp [h4] at h
              | ok o4 =>
                cases o4 with
                | none => simp [h4, pure, Except.pure] at h
                | some a4 =>
                  simp only [h4, pure, Except.pure, Except.ok.injEq, Sum.inr.injEq] at h
                  subst h
                  refine ⟨a1, a2, a3, ?_, ?_, ?_, ?_⟩ <;> first | rfl | assumption

theorem scanFld_mono {f : Fld} {acc acc' : Acc} (h : scanFld f acc = .ok (some acc')) :
    ∀ n ∈ acc.needed, n ∈ acc'.needed := by
  rcases scanFld_spec h with ⟨_, rfl⟩ | ⟨t, ks, _, _, rfl⟩
  · exact fun n hn => hn
  · intro n hn; rw [Acc.add_needed]; exact List.mem_append_left _ hn

theorem scanForEach_mono {fe : Option ForEachSpec} {acc acc' : Acc} (h : scanForEach fe acc = .ok (some acc')) :
    ∀ n ∈ acc.needed, n ∈ acc'.needed := by
  rcases scanForEach_spec h with ⟨_, rfl⟩ | ⟨x, t, ks, _, _, _, rfl⟩
  · exact fun n hn => hn
  · intro n hn; rw [Acc.add_needed]; exact List.mem_append_left _ hn

/-- a statically named label of a scanned tree is in what the stage adds -/
theorem add_has_ref {acc : Acc} {t : Cel} {ks : List String} {n : String}
    (he : extract t = .ok ks) (hr : StaticRef t n) : n ∈ (acc.add ks).needed := by
  rw [Acc.add_needed]
  apply List.mem_append_right
  obtain ⟨s, hs, hrn⟩ := staticRef_subtree hr
  have hv := visit_refNode hrn
  have hk : R.key ("steps." ++ n) ∈ t.subtrees.map (visit modelDispatch) :=
    List.mem_map.2 ⟨s, hs, hv⟩
  have hmem := collect_mem (rs := t.subtrees.map (visit modelDispatch)) he hk
  have hlabel : LabelOk n := by cases hrn <;> assumption
  exact List.mem_filterMap.2 ⟨_, hmem, stepsName_steps_dot n hlabel⟩

/-! ## `_load_step` -/

/-- the accumulator `_load_step` ends with when it builds a `Step` -/
theorem loadStep_step {env : Env} {s : StepSpec} {known : List String} {out : StepOut} {deps : List String}
    (h : loadStep env s known = .ok out) (hr : out.result = .step deps) :
    ∃ res logic acc0 acc, loadStepLogic env s = .ok (res, logic, acc0) ∧
      runStages (stages s) acc0 = .ok (.inr acc) ∧ deps = acc.needed ∧
      acc.needed.all (known.contains ·) = true ∧ out.resources = res := by
  unfold loadStep at h
  split at h
  · simp only [pure, Except.pure, Except.ok.injEq] at h; subst h; cases hr
  · cases hl : loadStepLogic env s with
    | error e => simp [hl] at h
    | ok v =>
      obtain ⟨res, logic, acc0⟩ := v
      simp only [hl] at h
      split at h
      · simp only [pure, Except.pure, Except.ok.injEq] at h; subst h; cases hr
      · split at h
        · simp only [pure, Except.pure, Except.ok.injEq] at h; subst h; cases hr
        · simp only [pure, Except.pure, Except.ok.injEq] at h; subst h; cases hr
        · cases hs : runStages (stages s) acc0 with
          | error e => simp [hs] at h
          | ok v =>
            cases v with
            | inl acc => simp only [hs, pure, Except.pure, Except.ok.injEq] at h; subst h; cases hr
            | inr acc =>
              simp only [hs] at h
              split at h
              · rename_i hall
                simp only [pure, Except.pure, Except.ok.injEq] at h; subst h
                simp only [StepR.step.injEq] at hr
                exact ⟨res, _, acc0, acc, by first | rfl | exact hl, by first | rfl | exact hs, hr.symm, hall, rfl⟩
              · simp only [pure, Except.pure, Except.ok.injEq] at h; subst h; cases hr

theorem loadStepLogic_switch_acc {env : Env} {s : StepSpec} {sw : SwitchSpec} {res : Option (List Res)}
    {logic : Option Logic} {acc0 : Acc} (hn : s.ref = none) (hsw : s.refSwitch = some sw)
    (h : loadStepLogic env s = .ok (res, logic, acc0)) (hl : ∀ l, logic = some l → l.isOk = true)
    {t : Cel} (ht : sw.switchOn = .ast t) : ∃ ks, extract t = .ok ks ∧ acc0 = (⟨[], []⟩ : Acc).add ks := by
  unfold loadStepLogic at h
  simp only [hn, hsw] at h
  cases hls : loadLogicSwitch env sw with
  | error e => simp [hls] at h
  | ok v =>
    obtain ⟨r, l⟩ := v
    simp only [hls] at h
    split at h
    · simp only [ht] at h
      cases he : extract t with
      | error e => simp [he] at h
      | ok ks =>
        simp only [he, pure, Except.pure, Except.ok.injEq, Prod.mk.injEq] at h
        exact ⟨ks, rfl, h.2.2.symm⟩
    · rename_i hnok
      simp only [pure, Except.pure, Except.ok.injEq, Prod.mk.injEq] at h
      exact absurd (hl l h.2.1.symm) hnok

/-! ## the loop over steps -/

/-- `known_steps` after the steps `pre` have been looked at -/
def knownAfter : List StepSpec → List String → List String
  | [], known => known
  | s :: rest, known => if known.contains s.lbl then knownAfter rest known else knownAfter rest (s.lbl :: known)

theorem mem_knownAfter {x : String} : ∀ (pre : List StepSpec) (known : List String),
    x ∈ knownAfter pre known ↔ x ∈ known ∨ x ∈ pre.map StepSpec.lbl
  | [], known => by simp [knownAfter]
  | s :: rest, known => by
    unfold knownAfter
    split
    · rename_i hc
      rw [mem_knownAfter rest known]
      have : s.lbl ∈ known := by simpa using hc
      constructor
      · rintro (h | h)
        · exact Or.inl h
        · exact Or.inr (by simp [h])
      · rintro (h | h)
        · exact Or.inl h
        · simp only [List.map_cons, List.mem_cons] at h
          rcases h with rfl | h
          · exact Or.inl this
          · exact Or.inr h
    · rw [mem_knownAfter rest (s.lbl :: known)]
      simp only [List.mem_cons, List.map_cons]
      constructor
      · rintro ((h | h) | h)
        · exact Or.inr (Or.inl h)
        · exact Or.inl h
        · exact Or.inr (Or.inr h)
      · rintro (h | h | h)
        · exact Or.inl (Or.inr h)
        · exact Or.inl (Or.inl h)
        · exact Or.inr h

/-- the result the loop records for the step after `pre` -/
theorem loadStepsLoop_at {env : Env} : ∀ (pre : List StepSpec) (s : StepSpec) (post : List StepSpec)
    (known : List String) (rs : List StepR) (res : List Res) (pp : List String),
    loadStepsLoop env (pre ++ s :: post) known = .ok (rs, res, pp) →
    ∃ r, rs[pre.length]? = some r ∧
      (((knownAfter pre known).contains s.lbl = true ∧ r = .error .permFail) ∨
       ((knownAfter pre known).contains s.lbl = false ∧
          ∃ out, loadStep env s (knownAfter pre known) = .ok out ∧ r = out.result ∧
            ∀ x ∈ out.resources.getD [], x ∈ res))
  | [], s, post, known, rs, res, pp, h => by
    simp only [List.nil_append, loadStepsLoop] at h
    split at h
    · rename_i hc
      cases hl : loadStepsLoop env post known with
      | error e => simp [hl] at h
      | ok v =>
        obtain ⟨rs', res', pp'⟩ := v
        simp only [hl, pure, Except.pure, Except.ok.injEq, Prod.mk.injEq] at h
        obtain ⟨rfl, _, _⟩ := h
        exact ⟨_, by simp, Or.inl ⟨by simpa [knownAfter] using hc, rfl⟩⟩
    · rename_i hc
      cases hs : loadStep env s known with
      | error e => simp [hs] at h
      | ok out =>
        simp only [hs] at h
        cases hl : loadStepsLoop env post (s.lbl :: known) with
        | error e => simp [hl] at h
        | ok v =>
          obtain ⟨rs', res', pp'⟩ := v
          simp only [hl, pure, Except.pure, Except.ok.injEq, Prod.mk.injEq] at h
          obtain ⟨rfl, rfl, _⟩ := h
          refine ⟨_, by simp, Or.inr ⟨by simpa [knownAfter] using hc, out, by simpa [knownAfter] using hs, rfl, ?_⟩⟩
          intro x hx; exact List.mem_append_left _ hx
  | p :: pre, s, post, known, rs, res, pp, h => by
    simp only [List.cons_append, loadStepsLoop] at h
    split at h
    · rename_i hc
      cases hl : loadStepsLoop env (pre ++ s :: post) known with
      | error e => simp [hl] at h
      | ok v =>
        obtain ⟨rs', res', pp'⟩ := v
        simp only [hl, pure, Except.pure, Except.ok.injEq, Prod.mk.injEq] at h
        obtain ⟨rfl, rfl, _⟩ := h
        obtain ⟨r, hr, hcase⟩ := loadStepsLoop_at pre s post known rs' res' pp' hl
        refine ⟨r, by simpa using hr, ?_⟩
        have hk : knownAfter (p :: pre) known = knownAfter pre known := by
          simp only [knownAfter, hc, if_true]
        rw [hk]; exact hcase
    · rename_i hc
      cases hs : loadStep env p known with
      | error e => simp [hs] at h
      | ok out =>
        simp only [hs] at h
        cases hl : loadStepsLoop env (pre ++ s :: post) (p.lbl :: known) with
        | error e => simp [hl] at h
        | ok v =>
          obtain ⟨rs', res', pp'⟩ := v
          simp only [hl, pure, Except.pure, Except.ok.injEq, Prod.mk.injEq] at h
          obtain ⟨rfl, rfl, _⟩ := h
          obtain ⟨r, hr, hcase⟩ := loadStepsLoop_at pre s post (p.lbl :: known) rs' res' pp' hl
          refine ⟨r, by simpa using hr, ?_⟩
          have hk : knownAfter (p :: pre) known = knownAfter pre (p.lbl :: known) := by
            have hc' : known.contains p.lbl = false := by simpa using hc
            simp only [knownAfter, hc', Bool.false_eq_true, if_false]
          rw [hk]
          rcases hcase with h1 | ⟨h1, out', h2, h3, h4⟩
          · exact Or.inl h1
          · exact Or.inr ⟨h1, out', h2, h3, fun x hx => List.mem_append_right _ (h4 x hx)⟩

theorem readyOf_error {rs : List StepR} {r : StepR} (hm : r ∈ rs) (he : r.isError = true) :
    readyOf rs ≠ .ok := by
  unfold readyOf
  split
  · intro h; cases h
  · split
    · intro h; cases h
    · rename_i hany
      exact absurd (List.any_eq_true.2 ⟨r, hm, he⟩) hany

/-! ## refSwitch cases -/

def Ref.valid (r : Ref) : Prop := r.kind ≠ "" ∧ r.name ≠ "" ∧ logicKinds.contains r.kind = true

theorem loadLogic_valid {env : Env} {r : Ref} (h : r.valid) :
    (loadLogic env r).1 = some [(r.kind, r.name)] := by
  obtain ⟨h1, h2, h3⟩ := h
  unfold loadLogic
  simp only [h1, h2, h3, if_false, Bool.not_true]
  cases env r <;> rfl

theorem switchLoop_resources {env : Env} : ∀ (cases : List CaseSpec) (acc acc' : SwitchAcc),
    switchLoop env cases acc = some acc' →
    (∀ x ∈ acc.resources, x ∈ acc'.resources) ∧
    (∀ c ∈ cases, c.ref.valid → (c.ref.kind, c.ref.name) ∈ acc'.resources)
  | [], acc, acc', h => by
    simp only [switchLoop, Option.some.injEq] at h; subst h
    exact ⟨fun _ hx => hx, fun c hc => by cases hc⟩
  | c :: rest, acc, acc', h => by
    unfold switchLoop at h
    split at h
    · cases h
    · simp only at h
      obtain ⟨ih1, ih2⟩ := switchLoop_resources rest _ acc' h
      constructor
      · intro x hx
        exact ih1 x (List.mem_append_left _ hx)
      · intro c' hc' hv
        rcases List.mem_cons.1 hc' with rfl | hc'
        · apply ih1
          apply List.mem_append_right
          rw [loadLogic_valid hv]; simp
        · exact ih2 c' hc' hv

theorem switchLoop_some {env : Env} : ∀ (cases : List CaseSpec) (acc : SwitchAcc),
    (if acc.default.isSome then 1 else 0) + (cases.filter (·.isDefault)).length ≤ 1 →
    ∃ acc', switchLoop env cases acc = some acc'
  | [], acc, _ => ⟨acc, rfl⟩
  | c :: rest, acc, h => by
    unfold switchLoop
    cases hd : c.isDefault with
    | false =>
      simp only [Bool.false_and, Bool.false_eq_true, if_false]
      apply switchLoop_some rest
      simp only [List.filter_cons, hd, Bool.false_eq_true, if_false] at h ⊢
      exact h
    | true =>
      simp only [List.filter_cons, hd, if_true, List.length_cons] at h
      have hnone : acc.default.isSome = false := by
        cases hs : acc.default.isSome with
        | false => rfl
        | true => simp only [hs, if_true] at h; omega
      simp only [hnone, Bool.false_eq_true, if_false] at h
      simp only [Bool.true_and, hnone, Bool.false_eq_true, if_false]
      apply switchLoop_some rest
      simp only [if_true, Option.isSome_some]
      omega

/-! ## overlays -/

theorem overlayWatched_mem : ∀ (os : List OverlaySpec) (o : OverlaySpec) (n : String),
    o ∈ os → o.skipIf ≠ .parseFail → o.hasInline = false → o.refName = some n →
    ("ValueFunction", n) ∈ overlayWatched os
  | [], _, _, h, _, _, _ => by cases h
  | x :: rest, o, n, hm, h1, h2, h3 => by
    rcases List.mem_cons.1 hm with rfl | hm
    · unfold overlayWatched
      cases hs : o.skipIf with
      | parseFail => exact absurd hs h1
      | absent => simp [h2, h3]
      | ast t => simp [h2, h3]
    · have ih := overlayWatched_mem rest o n hm h1 h2 h3
      unfold overlayWatched
      cases x.skipIf with
      | parseFail => exact ih
      | absent =>
        simp only
        split
        · exact ih
        · split
          · exact List.mem_cons_of_mem _ ih
          · exact ih
      | ast t =>
        simp only
        split
        · exact ih
        · split
          · exact List.mem_cons_of_mem _ ih
          · exact ih

end Koreo.WorkflowPrep

namespace Koreo.C14Aux
open Koreo.CelAst Koreo.WorkflowPrep

/-- a prepared step depends on already seen labels only (used by Props/C14 and by PrepToWorkflow) -/
theorem deps_known {env : Env} {s : StepSpec} {known : List String} {out : StepOut} {deps : List String}
    (h : loadStep env s known = .ok out) (hr : out.result = .step deps) : ∀ n ∈ deps, n ∈ known := by
  obtain ⟨_, _, _, acc, _, _, rfl, hall, _⟩ := loadStep_step h hr
  intro n hn
  have := List.all_eq_true.1 hall n hn
  simpa using this

end Koreo.C14Aux
