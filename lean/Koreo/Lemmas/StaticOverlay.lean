/-
  C11, round 6 — helper lemmas: an overlay-type block (`return`, `overlays[].overlay`,
  `create.overlay`) whose leaves are all literals, compiled by `_overlay_indexer` and applied by
  `_overlay_applier` onto a map that holds none of its top-level keys, arrives as written.
  Built on the model and lemmas of `Koreo/Overlay.lean` (C12).
-/
import Koreo.Lemmas.Overlay
namespace Koreo.Overlay
open Koreo JVal

variable {ε : Type}

theorem insert_fresh (k : String) (v : JVal) : ∀ l : Fields, k ∉ JVal.keys l → JVal.insert k v l = l ++ [(k, v)]
  | [], _ => rfl
  | (k', v') :: rest, h => by
    have h1 : k' ≠ k := fun e => h (by simp [JVal.keys, e])
    have h2 : k ∉ JVal.keys rest := fun m => h (by simp only [JVal.keys, List.map_cons, List.mem_cons]; exact Or.inr m)
    simp [JVal.insert, h1, insert_fresh k v rest h2]

mutual
/-- a written value merged into nothing is the written value -/
theorem mergeV_static : ∀ (v : JVal), HD v → ∀ (b : Option JVal), (∀ kvs, b ≠ some (.obj kvs)) →
    mergeV b (OSpec.ofJVal v) = v
  | .obj [], _, _, _ => rfl
  | .obj ((k, x) :: rest), h, b, hb => by
    have hf : fieldsOf b = [] := by
      cases b with
      | none => rfl
      | some j => cases j <;> first | rfl | exact absurd rfl (hb _)
    have := mergeO_static ((k, x) :: rest) h [] (by simp [JVal.keys])
    simp only [OSpec.ofJVal, mergeV, hf]
    simpa [OSpec.ofFields] using this
  | .null, _, _, _ => rfl
  | .bool _, _, _, _ => rfl
  | .int _, _, _, _ => rfl
  | .flt _, _, _, _ => rfl
  | .str _, _, _, _ => rfl
  | .arr _, _, _, _ => rfl
/-- the fields of a written map, merged one after the other into a map that has none of these keys,
    are appended as written -/
theorem mergeO_static : ∀ (kvs : Fields), HDO kvs → ∀ (acc : Fields), (∀ k ∈ JVal.keys kvs, k ∉ JVal.keys acc) →
    mergeO acc (OSpec.ofFields kvs) = acc ++ kvs
  | [], _, acc, _ => by simp [OSpec.ofFields, mergeO]
  | (k, v) :: rest, h, acc, hd => by
    obtain ⟨hk, hv, hr⟩ := h
    have hka : k ∉ JVal.keys acc := hd k (by simp [JVal.keys])
    have hl : JVal.lookup k acc = none := lookup_none_of_not_mem hka
    have hm : mergeV none (OSpec.ofJVal v) = v := mergeV_static v hv none (fun _ e => by cases e)
    have hd' : ∀ k' ∈ JVal.keys rest, k' ∉ JVal.keys (acc ++ [(k, v)]) := by
      intro k' hk' hm'
      simp only [JVal.keys, List.map_append, List.map_cons, List.map_nil, List.mem_append, List.mem_singleton] at hm'
      rcases hm' with hm' | hm'
      · exact hd k' (by simp only [JVal.keys, List.map_cons, List.mem_cons]; exact Or.inr hk') hm'
      · exact hk (hm' ▸ hk')
    simp only [OSpec.ofFields, mergeO, hl, hm, insert_fresh k v acc hka]
    rw [mergeO_static rest hr (acc ++ [(k, v)]) hd']
    simp
end

mutual
theorem mapV_id : ∀ (s : OSpec ε), mapV id s = s
  | .leaf _ => rfl
  | .node kvs => by simp [mapV, mapO_id kvs]
theorem mapO_id : ∀ (kvs : List (String × OSpec ε)), mapO id kvs = kvs
  | [] => rfl
  | (k, s) :: rest => by simp [mapO, mapV_id s, mapO_id rest]
end

end Koreo.Overlay
