/-
  C04: the payload (the target without its directives) meets the target, with itself as last-applied tree.
-/
import Koreo.Lemmas.Compare
namespace Koreo.Compare
open Koreo Koreo.JVal

theorem strip_scalar (v : JVal) (h : isScalar v = true) : strip v = v := by
  cases v <;> first | rfl | simp [isScalar] at h

theorem lookup_stripO (k : String) (hk : isDirective k = false) : ∀ kvs : List (String × JVal),
    lookup k (stripO kvs) = (lookup k kvs).map strip := by
  intro kvs
  induction kvs with
  | nil => rfl
  | cons kv rest ih =>
    obtain ⟨k', v'⟩ := kv
    by_cases hd : isDirective k' = true
    · have hne : k' ≠ k := by intro e; subst e; rw [hd] at hk; cases hk
      simp [stripO, hd, lookup, hne, ih]
    · by_cases hke : k' = k
      · subst hke; simp [stripO, hk, lookup]
      · simp [stripO, hd, lookup, hke, ih]

theorem mem_lookup_nodup : ∀ (kvs : List (String × JVal)) (k : String) (v : JVal),
    keysNoDup kvs = true → (k, v) ∈ kvs → lookup k kvs = some v := by
  intro kvs
  induction kvs with
  | nil => intro k v _ h; cases h
  | cons kv rest ih =>
    intro k v hn hm
    obtain ⟨k', v'⟩ := kv
    simp only [keysNoDup, Bool.and_eq_true, Option.isNone_iff_eq_none] at hn
    rcases List.mem_cons.mp hm with e | hm'
    · cases e; simp [lookup]
    · have := ih k v hn.2 hm'
      by_cases hke : k' = k
      · subst hke; rw [hn.1] at this; cases this
      · simp [lookup, hke, this]

theorem allObj_stripL : ∀ xs : List JVal, allObj (stripL xs) = allObj xs := by
  intro xs
  induction xs with
  | nil => rfl
  | cons x xs ih => cases x <;> simp [stripL, strip, allObj, ih]

theorem stripL_scalars : ∀ xs : List JVal, xs.all isScalar = true → stripL xs = xs := by
  intro xs
  induction xs with
  | nil => intro _; rfl
  | cons x xs ih =>
    intro h
    rw [List.all_cons, Bool.and_eq_true] at h
    simp only [stripL, strip_scalar x h.1, ih h.2]

theorem allObj_mem : ∀ (xs : List JVal), allObj xs = true → ∀ x ∈ xs, ∃ kvs, x = .obj kvs := by
  intro xs
  induction xs with
  | nil => intro _ x h; cases h
  | cons y ys ih =>
    intro hao x hx
    cases y <;> simp only [allObj] at hao <;> try cases hao
    rcases List.mem_cons.mp hx with e | h'
    · exact ⟨_, e⟩
    · exact ih hao x h'

theorem mem_stripL : ∀ (xs : List JVal) (l : JVal), l ∈ stripL xs → ∃ x ∈ xs, l = strip x := by
  intro xs
  induction xs with
  | nil => intro l h; cases h
  | cons x xs ih =>
    intro l h
    simp only [stripL] at h
    rcases List.mem_cons.mp h with e | h'
    · exact ⟨x, List.mem_cons_self .., e⟩
    · obtain ⟨y, hy, e⟩ := ih l h'
      exact ⟨y, List.mem_cons_of_mem _ hy, e⟩

theorem strip_mem_stripL : ∀ (xs : List JVal) (x : JVal), x ∈ xs → strip x ∈ stripL xs := by
  intro xs
  induction xs with
  | nil => intro x h; cases h
  | cons y ys ih =>
    intro x h
    simp only [stripL]
    rcases List.mem_cons.mp h with e | h'
    · subst e; exact List.mem_cons_self ..
    · exact List.mem_cons_of_mem _ (ih x h')

theorem keyPart_strip (f : JVal) (hf : fieldOk f = true) (mkvs : List (String × JVal))
    (hs : ∀ s, f = .str s → isScalar ((lookup s mkvs).getD .null) = true) :
    keyPart f (stripO mkvs) = keyPart f mkvs := by
  cases f <;> simp only [fieldOk] at hf <;> try cases hf
  rename_i s
  have hd : isDirective s = false := by simpa using hf
  simp only [keyPart, lookup_stripO s hd]
  have := hs s rfl
  cases hl : lookup s mkvs with
  | none => rfl
  | some v => rw [hl] at this; simp only [Option.map_some, Option.getD_some] at this ⊢; rw [strip_scalar v this]

theorem objKey_strip (fields : List JVal) (hf : fields.all fieldOk = true) (mkvs : List (String × JVal))
    (hs : keyValsScalar fields (.obj mkvs) = true) : objKey fields (stripO mkvs) = objKey fields mkvs := by
  induction fields with
  | nil => rfl
  | cons f fs ih =>
    rw [List.all_cons, Bool.and_eq_true] at hf
    simp only [keyValsScalar, List.all_cons, Bool.and_eq_true] at hs
    have ih := ih hf.2 (by simpa [keyValsScalar] using hs.2)
    have hp := keyPart_strip f hf.1 mkvs (by intro s e; subst e; exact hs.1)
    rw [objKey.eq_2, objKey.eq_2, hp, ih]

theorem memberKey_strip (fields : List JVal) (hf : fields.all fieldOk = true) (m : JVal)
    (hs : keyValsScalar fields m = true) : memberKey fields (strip m) = memberKey fields m := by
  cases m <;> try rfl
  rename_i mkvs
  simp only [strip, memberKey]
  exact objKey_strip fields hf mkvs hs

theorem hasKey_iff (fields : List JVal) (k : String) : ∀ xs : List JVal,
    hasKey fields k xs = true ↔ ∃ l ∈ xs, memberKey fields l = some k := by
  intro xs
  induction xs with
  | nil => simp [hasKey]
  | cons x xs ih =>
    cases x <;> simp [hasKey, memberKey, ih]

theorem key_unique (fields : List JVal) : ∀ (tms : List JVal), keysDistinct fields tms = true →
    ∀ a b k, a ∈ tms → b ∈ tms → memberKey fields a = some k → memberKey fields b = some k → a = b := by
  intro tms
  induction tms with
  | nil => intro _ a b k ha; cases ha
  | cons m rest ih =>
    intro hd a b k ha hb hka hkb
    simp only [keysDistinct, Bool.and_eq_true] at hd
    obtain ⟨hd1, hd2⟩ := hd
    have hno : ∀ x ∈ rest, memberKey fields x = memberKey fields m → False := by
      intro x hx e
      cases hm : memberKey fields m with
      | none => rw [hm] at hd1; simp at hd1
      | some km =>
        rw [hm] at hd1
        simp only [Bool.and_eq_true, Bool.not_eq_true'] at hd1
        have : hasKey fields km rest = true := (hasKey_iff fields km rest).mpr ⟨x, hx, by rw [e, hm]⟩
        rw [this] at hd1; cases hd1.2
    rcases List.mem_cons.mp ha with ea | ha' <;> rcases List.mem_cons.mp hb with eb | hb'
    · rw [ea, eb]
    · subst ea; exact absurd (by rw [hka, hkb]) (hno b hb')
    · subst eb; exact absurd (by rw [hka, hkb]) (hno a ha')
    · exact ih hd2 a b k ha' hb' hka hkb

mutual
theorem meets_strip_self (t : JVal) (hw : wfB t = true) (hn : noDupB t = true) :
    meetsB .full t (strip t) (strip t) = true := by
  match t with
  | .obj tkvs =>
    rw [wfB.eq_1, Bool.and_eq_true] at hw
    rw [noDupB.eq_2, Bool.and_eq_true] at hn
    rw [strip.eq_1, meetsB.eq_1, Bool.and_eq_true]
    refine ⟨by simp [laMapOk], ?_⟩
    exact meetsO_strip_self (specDirs tkvs) (stripO tkvs) tkvs tkvs (fun k f hf => specMap_strs _ k f hf)
      (fun k tv hm hd => by rw [lookup_stripO k hd, mem_lookup_nodup tkvs k tv hn.1 hm]; rfl)
      (fun k tv hm hd => Or.inl (by rw [lookup_stripO k hd, mem_lookup_nodup tkvs k tv hn.1 hm]; rfl)) hw.2 hn.2
  | .arr txs =>
    rw [wfB.eq_2] at hw
    rw [noDupB.eq_1] at hn
    rw [strip.eq_2, meetsB.eq_3, Bool.and_eq_true]
    exact ⟨by simp [laArrOk], meetsL_strip_self txs hw hn⟩
  | .null | .bool _ | .int _ | .flt _ | .str _ =>
    rw [strip.eq_def, meetsB.eq_def]; simp [scalarEq]
termination_by structural t
theorem meetsO_strip_self (d : Dirs) (L all tkvs : List (String × JVal))
    (hd : ∀ k f, fieldsFor k d.asMap = some f → f.all isStr = true)
    (hsub : ∀ k tv, (k, tv) ∈ tkvs → isDirective k = false → lookup k (stripO all) = some (strip tv))
    (hsubL : ∀ k tv, (k, tv) ∈ tkvs → isDirective k = false → lookup k L = some (strip tv) ∨
      (∃ lv, lookup k L = some lv ∧ meetsB .full tv lv (strip tv) = true ∧ fieldsFor k d.asMap = none ∧
        (d.asSet.contains k && isArr tv) = false ∧ d.lastApplied.contains k = false))
    (hw : wfO d tkvs = true) (hn : noDupO tkvs = true) :
    meetsO .full d L (laObjKvs (.obj (stripO all))) tkvs = true := by
  match tkvs with
  | [] => rw [meetsO.eq_1]
  | (k, tv) :: rest =>
    rw [wfO.eq_2, Bool.and_eq_true, Bool.and_eq_true] at hw
    rw [noDupO.eq_2, Bool.and_eq_true] at hn
    have ih := meetsO_strip_self d L all rest hd
      (fun k' tv' hm hdk => hsub k' tv' (List.mem_cons_of_mem _ hm) hdk)
      (fun k' tv' hm hdk => hsubL k' tv' (List.mem_cons_of_mem _ hm) hdk) hw.2 hn.2
    by_cases hdir : isDirective k = true
    · rw [meetsO_cons_dir _ _ _ _ _ _ _ hdir]; exact ih
    · have hdir : isDirective k = false := by simpa using hdir
      have hc : compared .full d k = true := by
        show (!isDirective k && !(Mode.full == Mode.excl && _)) = true
        rw [hdir]; rfl
      have hkd : keyDirOk d k tv = true := by simpa [hdir] using hw.1.1
      have hl := hsub k tv (List.mem_cons_self ..) hdir
      have hlav : laVal (laObjKvs (.obj (stripO all))) k = strip tv := by
        simp only [laVal, laObjKvs, hl, Option.getD_some]
      rcases hsubL k tv (List.mem_cons_self ..) hdir with hL | ⟨lv, hL, hmv, hnf, hns, hnl⟩
      case inr =>
        have hcv : cmpValue d k L (laVal (laObjKvs (.obj (stripO all))) k) = some lv := by
          simp only [cmpValue, hnl, Bool.false_eq_true, ↓reduceIte, hL]
        rw [meetsO_cons_plain _ _ _ _ _ _ _ hc hcv hnf, Bool.and_eq_true, hns, hlav]
        exact ⟨hmv, ih⟩
      have hcv : cmpValue d k L (laVal (laObjKvs (.obj (stripO all))) k) = some (strip tv) := by
        simp only [cmpValue, hlav, hL, ite_self]
      match hf : fieldsFor k d.asMap with
      | some fields =>
        cases tv with
        | arr tms =>
          simp only [keyDirOk, hf, Bool.and_eq_true] at hkd
          rw [strip.eq_2] at hcv hlav
          rw [meetsO_cons_keyed _ _ _ _ _ _ hc hcv hf, hlav, Bool.and_eq_true, Bool.and_eq_true]
          rw [wfB.eq_2] at hw
          rw [noDupB.eq_1] at hn
          have hao : allObj (stripL tms) = true := by rw [allObj_stripL]; exact hkd.1.1
          refine ⟨⟨by simp [hao], ?_⟩, ih⟩
          have : laMembers (.arr (stripL tms)) = stripL tms := by simp [laMembers, hao]
          rw [this]
          exact meetsK_strip_self fields (hd k fields hf) hkd.2.1 tms hkd.1.1 hkd.1.2 hkd.2.2 tms
            (fun _ h => h) hw.1.2 hn.1
        | _ => simp [keyDirOk, hf] at hkd
      | none =>
        rw [meetsO_cons_plain _ _ _ _ _ _ _ hc hcv hf, Bool.and_eq_true]
        refine ⟨?_, ih⟩
        by_cases hset : (d.asSet.contains k && isArr tv) = true
        · rw [if_pos hset]
          rw [Bool.and_eq_true] at hset
          cases tv with
          | arr txs =>
            simp only [keyDirOk, hf, hset.1, ↓reduceIte] at hkd
            have hs : stripL txs = txs := stripL_scalars txs hkd
            rw [strip.eq_2, hs]
            simp only [setSpecOf, setEqSpec, hkd, Bool.true_and, Bool.and_eq_true]
            constructor <;>
            · simp only [subsetBy, List.all_eq_true, List.any_eq_true]
              intro x hx
              refine ⟨x, hx, ?_⟩
              have := List.all_eq_true.mp hkd x hx
              cases x <;> simp_all [scalarEq, isScalar]
          | _ => simp [isArr] at hset
        · rw [if_neg hset, hlav]
          exact meets_strip_self tv hw.1.2 hn.1
termination_by structural tkvs
theorem meetsL_strip_self (txs : List JVal) (hw : wfL txs = true) (hn : noDupL txs = true) :
    meetsL .full txs (stripL txs) (laArrItems (.arr (stripL txs))) = true := by
  match txs with
  | [] => simp only [stripL]; rw [meetsL.eq_1]
  | t :: ts =>
    rw [wfL.eq_2, Bool.and_eq_true] at hw
    rw [noDupL.eq_2, Bool.and_eq_true] at hn
    simp only [stripL, laArrItems]
    rw [meetsL.eq_2, Bool.and_eq_true]
    exact ⟨meets_strip_self t hw.1 hn.1, meetsL_strip_self ts hw.2 hn.2⟩
termination_by structural txs
theorem meetsK_strip_self (fields : List JVal) (hf : fields.all isStr = true) (hfo : fields.all fieldOk = true)
    (all : List JVal) (hao : allObj all = true) (hdist : keysDistinct fields all = true)
    (hsc : all.all (keyValsScalar fields) = true)
    (tms : List JVal) (hsub : ∀ tm ∈ tms, tm ∈ all) (hw : wfL tms = true) (hn : noDupL tms = true) :
    meetsK .full fields (stripL all) (stripL all) tms = true := by
  match tms with
  | [] => rw [meetsK.eq_1]
  | tm :: rest =>
    rw [wfL.eq_2, Bool.and_eq_true] at hw
    rw [noDupL.eq_2, Bool.and_eq_true] at hn
    have ih := meetsK_strip_self fields hf hfo all hao hdist hsc rest
      (fun x hx => hsub x (List.mem_cons_of_mem _ hx)) hw.2 hn.2
    have hmem := hsub tm (List.mem_cons_self ..)
    cases tm with
    | obj mkvs =>
      obtain ⟨key, hkey⟩ := objKey_isSome fields hf mkvs
      have hmk : memberKey fields (.obj mkvs) = some key := hkey
      have hstripKey : ∀ x ∈ all, memberKey fields (strip x) = memberKey fields x := fun x hx =>
        memberKey_strip fields hfo x (List.all_eq_true.mp hsc x hx)
      -- every member of the stripped list with this key is the stripped member itself
      have honly : ∀ l ∈ stripL all, memberKey fields l = some key → l = strip (.obj mkvs) := by
        intro l hl hk
        obtain ⟨x, hx, rfl⟩ := mem_stripL all l hl
        rw [hstripKey x hx] at hk
        rw [key_unique fields all hdist x (.obj mkvs) key hx hmem hk hmk]
      have hhas : hasKey fields key (stripL all) = true :=
        (hasKey_iff fields key _).mpr ⟨_, strip_mem_stripL all _ hmem, by rw [hstripKey _ hmem]; exact hmk⟩
      have hlam : laMember fields key (stripL all) = strip (.obj mkvs) := by
        obtain ⟨h1, h2⟩ := laMember_spec fields key (stripL all) hhas
        exact honly _ h1 h2
      rw [meetsK.eq_2, Bool.and_eq_true]
      refine ⟨?_, ih⟩
      simp only [hkey, show (Mode.full == Mode.full) = true from rfl, ↓reduceIte, hhas, Bool.true_and, hlam]
      rw [List.all_eq_true]
      intro l hl
      by_cases hk : memberKey fields l = some key
      · rw [honly l hl hk]
        simp only [Bool.or_eq_true]
        exact Or.inr (meets_strip_self (.obj mkvs) hw.1 hn.1)
      · simp [hk]
    | _ => obtain ⟨_, e⟩ := allObj_mem all hao _ hmem; cases e
termination_by structural tms
end

end Koreo.Compare
