/-
  Helper lemmas for C14: strings and the name patterns, membership in `subtrees`, `collect`,
  and "a statically named reference is visited on its own and named `steps.<label>`".
-/
import Koreo.CelAst

namespace Koreo.CelAst
open Cel

/-! ## characters -/

theorem takeWhile_all {p : Char → Bool} : ∀ (l : List Char), (∀ c ∈ l, p c = true) → l.takeWhile p = l
  | [], _ => rfl
  | a :: l, h => by
    simp only [List.takeWhile, h a List.mem_cons_self]
    rw [takeWhile_all l (fun c hc => h c (List.mem_cons_of_mem _ hc))]

theorem dropWhile_head_ne {q : Char} : ∀ (l : List Char), (∀ a ∈ l.head?, a ≠ q) → l.dropWhile (· == q) = l
  | [], _ => rfl
  | a :: l, h => by
    have : a ≠ q := h a (by simp)
    have hb : (a == q) = false := by simp [this]
    simp [List.dropWhile, hb]

/-- `("q" + n + "q").strip("q")` is `n` when `n` is non-empty and does not contain the quote -/
theorem pyStripFirst_quoted (q : Char) (n : List Char) (hne : n ≠ []) (hq : q ∉ n) :
    pyStripFirst (q :: n ++ [q]) = n := by
  have h1 : (q :: n ++ [q]).dropWhile (· == q) = n ++ [q] := by
    have : (q :: (n ++ [q])).dropWhile (· == q) = (n ++ [q]).dropWhile (· == q) := by simp [List.dropWhile]
    rw [List.cons_append, this]
    apply dropWhile_head_ne
    intro a ha
    cases n with
    | nil => exact absurd rfl hne
    | cons b n' =>
      simp at ha; subst ha
      intro e; exact hq (by simp [e])
  have h2 : (n ++ [q]).reverse.dropWhile (· == q) = n.reverse := by
    rw [List.reverse_append]
    simp only [List.reverse_cons, List.reverse_nil, List.nil_append, List.singleton_append]
    have : (q :: n.reverse).dropWhile (· == q) = n.reverse.dropWhile (· == q) := by simp [List.dropWhile]
    rw [this]
    apply dropWhile_head_ne
    intro a ha
    have hmem : a ∈ n.reverse := List.mem_of_mem_head? ha
    intro e; subst e; exact hq (List.mem_reverse.1 hmem)
  unfold pyStripFirst
  simp only [List.cons_append]
  rw [← List.cons_append, h1, h2, List.reverse_reverse]

/-! ## the name patterns -/

theorem stepsMatch_steps_dot (n : String) (h : LabelOk n) :
    stepsMatch ("steps." ++ n) = some ⟨some n⟩ := by
  obtain ⟨hne, hall⟩ := h
  have htl : ("steps." ++ n).toList = 's' :: 't' :: 'e' :: 'p' :: 's' :: '.' :: n.toList := by
    rw [String.toList_append]; rfl
  unfold stepsMatch
  rw [htl]
  have htw : n.toList.takeWhile (fun ch => ch != '.' && ch != '[') = n.toList := by
    apply takeWhile_all
    intro c hc
    obtain ⟨h1, h2, _⟩ := hall c hc
    simp [h1, h2]
  simp only [htw]
  have : n.toList.isEmpty = false := by cases hl : n.toList <;> simp_all
  simp [this, String.ofList_toList]

theorem stepsName_steps_dot (n : String) (h : LabelOk n) : stepsName ("steps." ++ n) = some n := by
  rw [stepsName, stepsMatch_steps_dot n h]; rfl

/-- whatever `STEPS_NAME_PATTERN` matches, the named group took part -/
theorem stepsMatch_name_some {key : String} {m : ReMatch} (h : stepsMatch key = some m) : m.name ≠ none := by
  unfold stepsMatch at h
  split at h
  · split at h
    · cases h
    · dsimp only at h
      split at h
      · cases h
      · cases h; simp
  · cases h

/-! ## subtrees -/

theorem subtrees_self (k : Kind) (cs : List Cel) : Cel.node k cs ∈ (Cel.node k cs).subtrees := by
  simp [Cel.subtrees]

theorem subtreesL_of_mem {c : Cel} : ∀ {cs : List Cel}, c ∈ cs → ∀ s ∈ c.subtrees, s ∈ Cel.subtreesL cs
  | [], h, _, _ => by cases h
  | x :: xs, h, s, hs => by
    simp only [Cel.subtreesL, List.mem_append]
    rcases List.mem_cons.1 h with rfl | h
    · exact Or.inl hs
    · exact Or.inr (subtreesL_of_mem h s hs)

theorem subtrees_of_child {k : Kind} {cs : List Cel} {c : Cel} (h : c ∈ cs) :
    ∀ s ∈ c.subtrees, s ∈ (Cel.node k cs).subtrees := by
  intro s hs
  simp only [Cel.subtrees, List.mem_cons]
  exact Or.inr (subtreesL_of_mem h s hs)

/-! ## collect -/

theorem collect_mem : ∀ {rs : List R} {ks : List String} {s : String},
    collect rs = .ok ks → R.key s ∈ rs → s ∈ ks
  | [], _, _, _, h => by cases h
  | r :: rest, ks, s, hc, hm => by
    cases r with
    | key s' =>
      simp only [collect] at hc
      cases hr : collect rest with
      | error e => simp [hr, Except.map] at hc
      | ok ks' =>
        simp only [hr, Except.map, Except.ok.injEq] at hc
        subst hc
        rcases List.mem_cons.1 hm with h | h
        · cases h; simp
        · exact List.mem_cons_of_mem _ (collect_mem hr h)
    | skip =>
      simp only [collect] at hc
      rcases List.mem_cons.1 hm with h | h
      · cases h
      · exact collect_mem hc h
    | raise m => simp [collect] at hc

/-- keys come from visited nodes only -/
theorem collect_sub : ∀ {rs : List R} {ks : List String} {s : String},
    collect rs = .ok ks → s ∈ ks → R.key s ∈ rs
  | [], _, _, h, hm => by cases h; cases hm
  | r :: rest, ks, s, hc, hm => by
    cases r with
    | key s' =>
      simp only [collect] at hc
      cases hr : collect rest with
      | error e => simp [hr, Except.map] at hc
      | ok ks' =>
        simp only [hr, Except.map, Except.ok.injEq] at hc
        subst hc
        rcases List.mem_cons.1 hm with h | h
        · subst h; simp
        · exact List.mem_cons_of_mem _ (collect_sub hr h)
    | skip =>
      simp only [collect] at hc
      exact List.mem_cons_of_mem _ (collect_sub hc hm)
    | raise m => simp [collect] at hc

/-! ## a reference node is named `steps.<label>` -/

/-- the two shapes of a static reference -/
inductive RefNode : Cel → String → Prop
  | dot (n : String) : LabelOk n → RefNode (Cel.memberDot (Cel.var "steps") n) n
  | index (n : String) (q : Char) : LabelOk n → q = '"' ∨ q = '\'' →
      RefNode (Cel.memberIndex (Cel.var "steps")
        (Cel.litExpr .STRING_LIT (String.ofList (q :: n.toList ++ [q])))) n

theorem staticRef_subtree {e : Cel} {n : String} (h : StaticRef e n) :
    ∃ s ∈ e.subtrees, RefNode s n := by
  induction h with
  | dot n hn => exact ⟨_, subtrees_self _ _, .dot n hn⟩
  | index n q hn hq => exact ⟨_, subtrees_self _ _, .index n q hn hq⟩
  | inside k cs c n hc _ ih =>
    obtain ⟨s, hs, hr⟩ := ih
    exact ⟨s, subtrees_of_child hc s hs, hr⟩

theorem visit_refNode {s : Cel} {n : String} (h : RefNode s n) :
    visit modelDispatch s = .key ("steps." ++ n) := by
  cases h with
  | dot n hn =>
    simp [visit, Cel.memberDot, Cel.var, Cel.member, Cel.primary, Cel.ident, modelDispatch,
      processMemberDot, processPrimary, R.dot, Cel.strOf]
  | index n q hn hq =>
    obtain ⟨hne, hall⟩ := hn
    have hqn : q ∉ n.toList := by
      intro hm
      obtain ⟨_, _, h3, h4, _⟩ := hall q hm
      rcases hq with rfl | rfl
      · exact h3 rfl
      · exact h4 rfl
    have hstrip := pyStripFirst_quoted q n.toList hne hqn
    rw [List.cons_append] at hstrip
    have hne' : String.ofList (q :: n.toList ++ [q]) ≠ "" := by
      intro e
      have := congrArg String.toList e
      simp at this
    have hn' : n ≠ "" := by
      intro e; subst e; exact hne rfl
    simp [visit, Cel.memberIndex, Cel.var, Cel.member, Cel.primary, Cel.ident, modelDispatch,
      processMemberIndex, indexTerminal, processPrimary, R.dot, Cel.strOf, Cel.litExpr, Cel.liftMember,
      Cel.expr1, Cel.or1, Cel.and1, Cel.rel1, Cel.add1, Cel.mul1, Cel.unaryMember, Cel.literal, descend,
      hstrip, String.ofList_toList, hn']

end Koreo.CelAst
