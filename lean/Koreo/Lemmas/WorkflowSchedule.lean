/-
  Non-vacuity of C02 in general: every well-formed workflow HAS a valid complete schedule — the one
  that completes everything in listed / source order (`listedSchedule`).  So the hypothesis
  `ValidComplete wf σ` of `schedule_independent` is satisfiable for every well-formed workflow,
  whatever the oracles.
-/
import Koreo.Lemmas.WorkflowAsync

namespace Koreo.Workflow
open Koreo Koreo.Result

theorem runEvents_append (eval : EvalFn) (run : RunFn) (trig : JVal) (wf : Workflow)
    (a b : List Event) (st : AState) :
    runEvents eval run trig wf (a ++ b) st =
      (runEvents eval run trig wf a st).bind (runEvents eval run trig wf b) := by
  induction a generalizing st with
  | nil => rfl
  | cons e rest ih =>
    simp only [List.cons_append, runEvents]
    cases stepEvent eval run trig wf st e with
    | none => rfl
    | some st' => exact ih st'

/-- the iteration entries `(l, i), (l, i+1), …` for a list of iteration results -/
def itemEntries (l : Label) : List StepOut → Nat → List ((Label × Nat) × StepOut)
  | [], _ => []
  | o :: rest, i => ((l, i), o) :: itemEntries l rest (i + 1)

theorem lookupI_append_of_none {l : Label} {j : Nat} {xs ys : List ((Label × Nat) × StepOut)}
    (h : lookupI l j xs = none) : lookupI l j (xs ++ ys) = lookupI l j ys := by
  induction xs with
  | nil => rfl
  | cons x rest ih =>
    obtain ⟨⟨k, i⟩, v⟩ := x
    simp only [lookupI] at h
    simp only [List.cons_append, lookupI]
    split at h
    · cases h
    · next hne => rw [if_neg hne]; exact ih h

theorem lookupI_append_of_some {l : Label} {j : Nat} {xs ys : List ((Label × Nat) × StepOut)} {o}
    (h : lookupI l j xs = some o) : lookupI l j (xs ++ ys) = some o := by
  induction xs with
  | nil => simp [lookupI] at h
  | cons x rest ih =>
    obtain ⟨⟨k, i⟩, v⟩ := x
    simp only [lookupI] at h
    simp only [List.cons_append, lookupI]
    split at h
    · next he => rw [if_pos he]; exact h
    · next hne => rw [if_neg hne]; exact ih h

theorem lookupI_itemEntries (l : Label) (outs : List StepOut) (i j : Nat) :
    lookupI l j (itemEntries l outs i) = if i ≤ j then outs[j - i]? else none := by
  induction outs generalizing i with
  | nil => simp [itemEntries, lookupI]
  | cons o rest ih =>
    simp only [itemEntries, lookupI, true_and]
    by_cases hij : i = j
    · subst hij; simp
    · rw [if_neg hij, ih]
      by_cases hle : i ≤ j
      · have h1 : i + 1 ≤ j := by omega
        have h2 : j - i = (j - (i + 1)) + 1 := by omega
        simp [hle, h1, h2]
      · have h1 : ¬ i + 1 ≤ j := by omega
        simp [hle, h1]

theorem lookupI_itemEntries_other {l l' : Label} (hne : l' ≠ l) (outs : List StepOut) (i j : Nat) :
    lookupI l' j (itemEntries l outs i) = none := by
  induction outs generalizing i with
  | nil => rfl
  | cons o rest ih =>
    simp only [itemEntries, lookupI]
    have : ¬ (l = l' ∧ i = j) := fun h => hne h.1.symm
    rw [if_neg this]
    exact ih (i + 1)

theorem gatherItems_of_lookup (st : AState) (l : Label) (outs : List StepOut) (i : Nat)
    (h : ∀ j, lookupI l (i + j) st.items = outs[j]?) : gatherItems st l i outs.length = some outs := by
  induction outs generalizing i with
  | nil => rfl
  | cons o rest ih =>
    have h0 : lookupI l i st.items = some o := by simpa using h 0
    have hrest := ih (i + 1) (by
      intro j
      have := h (j + 1)
      have e : i + (j + 1) = i + 1 + j := by omega
      rw [e] at this
      simpa using this)
    simp only [List.length_cons, gatherItems, h0, hrest]

/-- the state after the iterations `i, i+1, …` of a forEach step finished in source order -/
theorem run_item_events (eval : EvalFn) (run : RunFn) (trig : JVal) (wf : Workflow) (s : Step)
    (hf : findStep s.label wf.steps = some s) (act inputs key) (items : List JVal)
    (suffix : List JVal) (i : Nat) (st : AState)
    (hsuf : ∀ j it, suffix[j]? = some it → items[i + j]? = some it)
    (hnd : isDone st s.label = false) (hdeps : s.deps.all (isDone st) = true)
    (hg : gate eval trig (depRes st.done s.deps) s = .each act inputs key items)
    (hfree : ∀ j, i ≤ j → lookupI s.label j st.items = none) :
    runEvents eval run trig wf ((List.range' i suffix.length).map (Event.item s.label)) st =
      some { st with items := (st.items ++
        itemEntries s.label ((runItems eval run s.label act inputs key s.logic i suffix).map (·.1)) i) } := by
  induction suffix generalizing i st with
  | nil => simp [runEvents, runItems, itemEntries]
  | cons it rest ih =>
    have hit : items[i]? = some it := by simpa using hsuf 0 it (by simp)
    simp only [List.length_cons, List.range'_succ, List.map_cons, runEvents]
    have hev : stepEvent eval run trig wf st (.item s.label i) =
        some { st with items := (st.items ++
          [((s.label, i), (runLogic eval run s.label (some i) act (setKey key it inputs) s.logic).1)]) } := by
      simp only [stepEvent, hf, hnd, hdeps, hfree i (Nat.le_refl _), hg, hit]
      simp
    rw [hev]
    simp only
    have := ih (i + 1)
      { st with items := (st.items ++
          [((s.label, i), (runLogic eval run s.label (some i) act (setKey key it inputs) s.logic).1)]) }
      (by
        intro j it' h'
        have := hsuf (j + 1) it' (by simpa using h')
        have e : i + (j + 1) = i + 1 + j := by omega
        rw [e] at this; exact this)
      (by simpa [isDone] using hnd)
      (by simpa [isDone] using hdeps)
      hg
      (by
        intro j hj
        show lookupI s.label j (st.items ++ _) = none
        rw [lookupI_append_of_none (hfree j (by omega))]
        simp only [lookupI, true_and]
        rw [if_neg (by omega)])
    rw [this]
    simp [runItems, itemEntries, List.append_assoc]

/-- running the listed-order schedule of a suffix of the steps reproduces the sequential trace -/
theorem listedSchedule_run (eval : EvalFn) (run : RunFn) (trig : JVal) (wf : Workflow)
    (hndl : (labels wf.steps).Nodup) :
    ∀ (steps : List Step) (t : Trace) (st : AState),
      (∀ s ∈ steps, s ∈ wf.steps) →
      wfSteps (t.results.map (·.1)) steps = true →
      st.done = t.results →
      (∀ l j o, lookupI l j st.items = some o → l ∈ t.results.map (·.1)) →
      ∃ st', runEvents eval run trig wf (listedSchedule eval run trig steps t) st = some st' ∧
        st'.done = (runSteps eval run trig steps t).results := by
  intro steps
  induction steps with
  | nil => intro t st _ _ hd _; exact ⟨st, rfl, hd⟩
  | cons s rest ih =>
    intro t st hmem hwf hd hitems
    obtain ⟨hdeps, hfresh, hrest⟩ := wfSteps_cons hwf
    have hs : s ∈ wf.steps := hmem s (by simp)
    have hf := findStep_of_mem hndl hs
    have hnd : isDone st s.label = false := by
      simp [isDone, hd, lookupL_none_of_not_mem hfresh]
    have hdone : s.deps.all (isDone st) = true := by
      apply List.all_eq_true.2
      intro d hdm
      obtain ⟨v, hv⟩ := lookupL_isSome_of_mem (hdeps d hdm)
      simp [isDone, hd, hv]
    let r := stepResult eval run trig (depRes t.results s.deps) s
    let t' : Trace := ⟨t.results ++ [(s.label, r.1)], t.calls ++ r.2⟩
    -- the head's events bring `done` to `t'.results`
    have hsplit : listedSchedule eval run trig (s :: rest) t =
        listedSchedule eval run trig [s] t ++ listedSchedule eval run trig rest t' := by
      simp [listedSchedule, t', r]
    have head : ∃ st1, runEvents eval run trig wf (listedSchedule eval run trig [s] t) st = some st1 ∧
        st1.done = t'.results ∧
        (∀ l j o, lookupI l j st1.items = some o → l ∈ t'.results.map (·.1)) := by
      cases hg : gate eval trig (depRes t.results s.deps) s with
      | done o =>
        refine ⟨{ st with done := st.done ++ [(s.label, o)] }, ?_, ?_, ?_⟩
        · simp [listedSchedule, runEvents, stepEvent, hf, hnd, hdone, hd, hg]
        · simp [t', r, hd, stepResult_done hg]
        · intro l j o' h; simpa [t'] using Or.inl (hitems l j o' h)
      | single act inputs =>
        refine ⟨{ st with done := (st.done ++
          [(s.label, (runLogic eval run s.label none act inputs s.logic).1)]) }, ?_, ?_, ?_⟩
        · simp [listedSchedule, runEvents, stepEvent, hf, hnd, hdone, hd, hg]
        · simp only [t', r, hd]; unfold stepResult; rw [hg]
        · intro l j o' h; simpa [t'] using Or.inl (hitems l j o' h)
      | each act inputs key items =>
        simp only [listedSchedule, hg, List.append_nil]
        rw [runEvents_append]
        have hfree : ∀ j, 0 ≤ j → lookupI s.label j st.items = none := by
          intro j _
          cases hl : lookupI s.label j st.items with
          | none => rfl
          | some o => exact absurd (hitems _ _ _ hl) hfresh
        have hrun := run_item_events eval run trig wf s hf act inputs key items items 0 st
          (by intro j it h; simpa using h) hnd hdone (by rw [hd]; exact hg) hfree
        rw [List.range_eq_range', hrun]
        simp only [Option.bind_some]
        generalize houts : (runItems eval run s.label act inputs key s.logic 0 items).map (·.1) = outs
        have hlen : outs.length = items.length := by simp [← houts, runItems_length]
        have hgather : gatherItems
            { st with items := st.items ++ itemEntries s.label outs 0 } s.label 0 items.length = some outs := by
          rw [← hlen]
          apply gatherItems_of_lookup
          intro j
          rw [Nat.zero_add]
          show lookupI s.label j (st.items ++ itemEntries s.label outs 0) = outs[j]?
          rw [lookupI_append_of_none (hfree _ (Nat.zero_le _)), lookupI_itemEntries]
          simp
        refine ⟨{ items := st.items ++ itemEntries s.label outs 0,
                  done := st.done ++ [(s.label, combineItems outs)] }, ?_, ?_, ?_⟩
        · simp only [runEvents, stepEvent, hf]
          have h1 : isDone { st with items := st.items ++ itemEntries s.label outs 0 } s.label = false := by
            simpa [isDone] using hnd
          have h2 : s.deps.all (isDone { st with items := st.items ++ itemEntries s.label outs 0 }) = true := by
            simpa [isDone] using hdone
          simp only [h1, h2, Bool.not_true, Bool.or_self, Bool.false_eq_true, if_false]
          rw [show ({ st with items := st.items ++ itemEntries s.label outs 0 } : AState).done = t.results from hd,
            hg]
          rw [hd] at hgather
          simp only [hgather]
        · simp only [t', r, hd]; unfold stepResult; rw [hg]; simp only [houts]
        · intro l j o' h
          show l ∈ t'.results.map (·.1)
          simp only [t', List.map_append, List.map_cons, List.map_nil, List.mem_append, List.mem_singleton]
          by_cases hl : l = s.label
          · exact Or.inr hl
          · left
            cases hb : lookupI l j st.items with
            | some o0 => exact hitems l j o0 hb
            | none =>
              have h' : lookupI l j (st.items ++ itemEntries s.label outs 0) = some o' := h
              rw [lookupI_append_of_none hb, lookupI_itemEntries_other hl] at h'
              cases h'
    obtain ⟨st1, hrun1, hd1, hit1⟩ := head
    obtain ⟨st', hrun', hd'⟩ := ih t' st1 (fun s' h' => hmem s' (List.mem_cons_of_mem _ h'))
      (by simpa [t'] using hrest) hd1 hit1
    refine ⟨st', ?_, hd'⟩
    rw [hsplit, runEvents_append, hrun1]
    exact hrun'

/-- every well-formed workflow has a valid complete schedule (listed order) -/
theorem listedSchedule_validComplete (eval : EvalFn) (run : RunFn) (trig : JVal) (wf : Workflow)
    (hwf : wf.WF = true) :
    ValidComplete eval run trig wf (listedSchedule eval run trig wf.steps {}) := by
  have hw : wfSteps [] wf.steps = true := by simpa [Workflow.WF] using hwf
  have hnd := (wfSteps_labels_nodup hw).1
  obtain ⟨st', hrun, hd⟩ := listedSchedule_run eval run trig wf hnd wf.steps {} {}
    (fun s h => h) (by simpa using hw) rfl (by intro l j o h; simp [lookupI] at h)
  refine ⟨st', hrun, ?_⟩
  intro s hs
  have hlab : s.label ∈ (runSteps eval run trig wf.steps {}).results.map (·.1) := by
    rw [runSteps_labels]; simp [labels]; exact ⟨s, hs, rfl⟩
  obtain ⟨v, hv⟩ := lookupL_isSome_of_mem hlab
  simp [isDone, hd, hv]

end Koreo.Workflow
