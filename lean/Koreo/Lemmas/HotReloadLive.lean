/-
  C16, liveness side: from every reachable state the monitors alone bring the system to an
  idle state (so "once the system is idle" is not a vacuous premise).  Frame lemmas for
  `reprepare` / `drain` / `bg`, then one pass over the monitors in rank order.
-/
import Koreo.Lemmas.HotReload

set_option linter.unusedSectionVars false

namespace Koreo.HotReload
variable {R : Type} [DecidableEq R] {Spec : Type}

/-- nothing left to do for `x`'s monitor -/
def Quiet (s : State R Spec) (x : R) : Prop :=
  s.mon x ≠ .starting ∧ (s.mon x = .waiting → s.queue x = some [])

theorem idle_iff_quiet (s : State R Spec) : Idle s ↔ ∀ x, Quiet s x := Iff.rfl

/-! ### what `reprepare s r` leaves alone -/

theorem reprepare_frame (decl : Spec → (R → Bool) → List R) (s : State R Spec) (r : R) :
    (reprepare decl s r).mon = s.mon ∧
    (∀ x, x ≠ r → (reprepare decl s r).subs x = s.subs x) ∧
    (∀ e, s.cache r = some e →
        (∃ e', (reprepare decl s r).cache r = some e' ∧ e'.spec = e.spec ∧ e'.version = e.version) ∧
        (∀ x, (x ≠ r → r ∉ s.subs x) → (x = r → ∀ c, r ∉ decl e.spec c) →
          (reprepare decl s r).queue x = s.queue x)) ∧
    (s.cache r = none → reprepare decl s r = s) := by
  cases hc : s.cache r with
  | none =>
    have : reprepare decl s r = s := by simp [reprepare, hc]
    rw [this]
    exact ⟨rfl, fun _ _ => rfl, fun e he => absurd he (by simp), fun _ => rfl⟩
  | some e =>
    rw [reprepare_eq hc, handle_eq]
    refine ⟨by simp [commitState, tick], ?_, ?_, fun h => absurd h (by simp)⟩
    · intro x hx; simp [commitState, tick, upd_other _ _ _ hx]
    · intro e0 he0
      cases he0
      refine ⟨⟨{ version := e.version, spec := e.spec, deps := decl e.spec (cachedB (tick s)),
                 seen := (tick s).gen }, by simp [commitState], rfl, rfl⟩, ?_⟩
      intro x h1 h2
      simp only [commitState, tick]
      by_cases hxr : x = r
      · subst hxr
        have := h2 rfl (cachedB (tick s))
        simp only [tick] at this
        simp [this]
      · have := h1 hxr
        simp [upd_other _ _ _ hxr, this]

/-- facts about `drain s r q` for a resource whose cached spec (if any) never makes its preparer
    name the resource itself -/
theorem drain_frame (decl : Spec → (R → Bool) → List R) (q : List Nat) (s : State R Spec) (r : R)
    (hself : ∀ e, s.cache r = some e → ∀ c, r ∉ decl e.spec c) :
    (drain decl s r q).mon = s.mon ∧
    (∀ x, x ≠ r → (drain decl s r q).subs x = s.subs x) ∧
    (drain decl s r q).queue r = s.queue r ∧
    (∀ x, x ≠ r → r ∉ s.subs x → (drain decl s r q).queue x = s.queue x) := by
  induction q generalizing s with
  | nil => exact ⟨rfl, fun _ _ => rfl, rfl, fun _ _ _ => rfl⟩
  | cons t rest ih =>
    unfold drain
    split
    · exact ih s hself
    · obtain ⟨fm, fs, fc, fn⟩ := reprepare_frame decl s r
      cases hc : s.cache r with
      | none => rw [fn hc]; exact ih s hself
      | some e =>
        obtain ⟨⟨e', hce', hse', -⟩, fq⟩ := fc e hc
        have hself' : ∀ e1, (reprepare decl s r).cache r = some e1 → ∀ c, r ∉ decl e1.spec c := by
          intro e1 h1; rw [hce'] at h1; cases h1; rw [hse']; exact hself e hc
        obtain ⟨im, is, iq, io⟩ := ih (reprepare decl s r) hself'
        refine ⟨im.trans fm, fun x hx => (is x hx).trans (fs x hx), ?_, ?_⟩
        · rw [iq]; exact fq r (fun h => absurd rfl h) (fun _ => hself e hc)
        · intro x hx hns
          rw [io x hx (by rw [fs x hx]; exact hns)]
          exact fq x (fun _ => hns) (fun h => absurd h hx)

theorem inv_no_self {decl : Spec → (R → Bool) → List R} {rank : R → Nat} {s : State R Spec}
    (h : Inv decl rank s) (r : R) : ∀ e, s.cache r = some e → ∀ c, r ∉ decl e.spec c := by
  intro e hc c hmem
  exact Nat.lt_irrefl _ (h.specOk r e hc c r hmem)

/-- one scheduling of `r`'s monitor leaves `r` quiet and disturbs only `r`'s watchers,
    all of which rank strictly higher -/
theorem bg_quiet {decl : Spec → (R → Bool) → List R} {rank : R → Nat} {s : State R Spec}
    (h : Inv decl rank s) (r : R) :
    Quiet (bg decl s r) r ∧
    (∀ x, x ≠ r → (bg decl s r).mon x = s.mon x) ∧
    (∀ x, x ≠ r → ¬ rank r < rank x → Quiet s x → Quiet (bg decl s r) x) := by
  have hself := inv_no_self h r
  -- facts about runDrain from a state whose `r` is registered
  have key : ∀ s' : State R Spec, (∀ e, s'.cache r = some e → ∀ c, r ∉ decl e.spec c) →
      (runDrain decl s' r).mon = s'.mon ∧
      (∀ q, s'.queue r = some q → (runDrain decl s' r).queue r = some []) ∧
      (∀ x, x ≠ r → r ∉ s'.subs x → (runDrain decl s' r).queue x = s'.queue x) := by
    intro s' hs'
    unfold runDrain
    cases hq : s'.queue r with
    | none => exact ⟨rfl, fun q hq' => absurd hq' (by simp), fun _ _ _ => rfl⟩
    | some q =>
      simp only
      obtain ⟨dm, -, dq, dother⟩ :=
        drain_frame decl q { s' with queue := upd s'.queue r (some []) } r hs'
      refine ⟨dm, fun _ _ => by rw [dq]; simp, ?_⟩
      intro x hx hns
      rw [dother x hx hns]; simp [upd_other _ _ _ hx]
  have hsub_rank : ∀ x, r ∈ s.subs x → rank r < rank x := fun x hx => h.ranked x r hx
  cases hm : s.mon r with
  | none =>
    have hb : bg decl s r = s := by simp [bg, hm]
    rw [hb]
    exact ⟨⟨by simp [hm], by simp [hm]⟩, fun _ _ => rfl, fun _ _ _ hq => hq⟩
  | waiting =>
    have hb : bg decl s r = runDrain decl s r := by simp [bg, hm]
    rw [hb]
    obtain ⟨km, kq, ko⟩ := key s hself
    -- a waiting monitor belongs to a cached, hence registered, resource
    have hreg : ∃ q, s.queue r = some q := by
      cases hc : s.cache r with
      | none => have := (h.uncached r hc).2.1; rw [hm] at this; cases this
      | some e =>
        have := (h.cached r e hc).2
        cases hq : s.queue r with
        | none => rw [hq] at this; cases this
        | some q => exact ⟨q, rfl⟩
    obtain ⟨q, hq⟩ := hreg
    refine ⟨⟨by rw [km, hm]; simp, fun _ => kq q hq⟩, fun x _ => by rw [km], ?_⟩
    intro x hx hnr ⟨q1, q2⟩
    have hns : r ∉ s.subs x := fun hmem => hnr (hsub_rank x hmem)
    exact ⟨by rw [km]; exact q1, fun hw => by rw [ko x hx hns]; exact q2 (by rw [km] at hw; exact hw)⟩
  | starting =>
    have hb : bg decl s r = runDrain decl (let s1 := register s r; { s1 with mon := upd s1.mon r .waiting }) r := by
      simp [bg, hm]
    rw [hb]
    simp only
    have hreg : ∃ q, s.queue r = some q := by
      cases hc : s.cache r with
      | none => have := (h.uncached r hc).2.1; rw [hm] at this; cases this
      | some e =>
        have := (h.cached r e hc).2
        cases hq : s.queue r with
        | none => rw [hq] at this; cases this
        | some q => exact ⟨q, rfl⟩
    obtain ⟨q, hq⟩ := hreg
    rw [register_some hq]
    obtain ⟨km, kq, ko⟩ := key { s with mon := upd s.mon r .waiting } hself
    refine ⟨⟨by rw [km]; simp, fun _ => kq q hq⟩, fun x hx => by rw [km]; simp [upd_other _ _ _ hx], ?_⟩
    intro x hx hnr ⟨q1, q2⟩
    have hns : r ∉ s.subs x := fun hmem => hnr (hsub_rank x hmem)
    refine ⟨by rw [km]; simp only [upd_other _ _ _ hx]; exact q1, fun hw => ?_⟩
    rw [ko x hx hns]
    exact q2 (by rw [km] at hw; simpa [upd_other _ _ _ hx] using hw)

/-- one pass over the monitors in rank order -/
theorem settle_aux {decl : Spec → (R → Bool) → List R} {rank : R → Nat} (rs : List R) {s : State R Spec}
    (h : Inv decl rank s)
    (hsorted : rs.Pairwise (fun a b => rank a ≤ rank b))
    (hcover : ∀ x, x ∈ rs ∨ s.mon x = .none ∨ (Quiet s x ∧ ∀ y ∈ rs, ¬ rank y < rank x)) :
    Idle (run decl s (rs.map Action.bg)) := by
  induction rs generalizing s with
  | nil =>
    intro x
    simp only [List.map_nil, run, List.foldl_nil]
    rcases hcover x with hx | hx | hx
    · cases hx
    · exact ⟨by rw [hx]; simp, by rw [hx]; simp⟩
    · exact hx.1
  | cons r rest ih =>
    simp only [List.map_cons, run, List.foldl_cons, step]
    obtain ⟨hqr, hmo, hframe⟩ := bg_quiet h r
    have hs := List.pairwise_cons.1 hsorted
    apply ih (inv_bg h r) hs.2
    intro x
    by_cases hxrest : x ∈ rest
    · exact Or.inl hxrest
    · by_cases hxr : x = r
      · subst hxr
        exact Or.inr (Or.inr ⟨hqr, fun y hy => Nat.not_lt.2 (hs.1 y hy)⟩)
      · rcases hcover x with hx | hx | ⟨hq, hlow⟩
        · simp only [List.mem_cons] at hx
          rcases hx with hx | hx
          · exact absurd hx hxr
          · exact absurd hx hxrest
        · exact Or.inr (Or.inl (by rw [hmo x hxr]; exact hx))
        · exact Or.inr (Or.inr ⟨hframe x hxr (hlow r (by simp)) hq,
            fun y hy => hlow y (by simp [hy])⟩)

/-- the resources an action list ever offers -/
def offered : List (Action R Spec) → List R
  | [] => []
  | .offer r _ _ :: rest => r :: offered rest
  | _ :: rest => offered rest

/-- a monitor only ever exists for a resource that was offered -/
theorem mon_only_offered (decl : Spec → (R → Bool) → List R) (acts : List (Action R Spec)) (s : State R Spec)
    (x : R) (h : (run decl s acts).mon x ≠ .none) : s.mon x ≠ .none ∨ x ∈ offered acts := by
  induction acts generalizing s with
  | nil => exact Or.inl h
  | cons a rest ih =>
    simp only [run, List.foldl_cons] at h
    rcases ih (step decl s a) h with h1 | h1
    · cases a with
      | offer r v deps =>
        by_cases hxr : x = r
        · subst hxr; exact Or.inr (by simp [offered])
        · left
          -- offering `r` does not touch the monitor of another resource
          have : (offer decl s r v deps).mon x = s.mon x := by
            unfold offer
            have hnew : (offerNew decl s r v deps).mon x = s.mon x := by
              rw [offerNew_eq, handle_eq]
              simp only [commitState]
              have hreg : (register (tick s) r).mon = s.mon := by unfold register; split <;> rfl
              split
              · rw [upd_other _ _ _ hxr, hreg]
              · rw [hreg]
            split
            · split
              · rfl
              · exact hnew
            · exact hnew
          simp only [step] at h1; rw [this] at h1; exact h1
      | delete r ver =>
        left
        simp only [step] at h1
        intro h0; apply h1
        unfold delete
        cases hc : s.cache r with
        | none => exact h0
        | some e =>
          simp only
          split
          · exact h0
          · simp only [notify, tick]
            by_cases hxr : x = r
            · subst hxr; simp
            · rw [upd_other _ _ _ hxr]; exact h0
      | bg r =>
        left
        simp only [step] at h1
        intro h0; apply h1
        -- a monitor step never creates a monitor
        have hrun : ∀ s' : State R Spec, (runDrain decl s' r).mon = s'.mon := by
          intro s'
          unfold runDrain
          split
          · rfl
          · rename_i q _
            have hd : ∀ (q : List Nat) (s'' : State R Spec), (drain decl s'' r q).mon = s''.mon := by
              intro q
              induction q with
              | nil => intro s''; rfl
              | cons t rest ihq =>
                intro s''; unfold drain; split
                · exact ihq s''
                · rw [ihq]; exact (reprepare_frame decl s'' r).1
            rw [hd]
        unfold bg
        cases hm : s.mon r with
        | none => exact h0
        | waiting => simp only; rw [hrun]; exact h0
        | starting =>
          simp only; rw [hrun]
          have hreg : (register s r).mon = s.mon := by unfold register; split <;> rfl
          by_cases hxr : x = r
          · subst hxr; rw [hm] at h0; cases h0
          · simp only [upd_other _ _ _ hxr, hreg]; exact h0
    · cases a <;> simp [offered, h1]

/-! ### the cache shows the last effective offer, whatever the monitors do (C15's "latest wins"
     clause in the presence of background re-preparation) -/

/-- the externally visible part of a cache entry: the offered version and the offered spec -/
def view (s : State R Spec) (x : R) : Option (Nat × Spec) := (s.cache x).map (fun e => (e.version, e.spec))

/-- a plain map that follows offers and deletes and ignores monitor steps (the C15 specification) -/
def track (m : R → Option (Nat × Spec)) : Action R Spec → (R → Option (Nat × Spec))
  | .offer r v deps =>
    match m r with
    | some (v', _) => if v' = v then m else upd m r (some (v, deps))
    | none => upd m r (some (v, deps))
  | .delete r ver =>
    match m r with
    | none => m
    | some (v', _) => if staleVersion ver v' then m else upd m r none
  | .bg _ => m

theorem register_cache (s : State R Spec) (r : R) : (register s r).cache = s.cache := by
  unfold register; split <;> rfl

theorem view_reprepare (decl : Spec → (R → Bool) → List R) (s : State R Spec) (r : R) :
    view (reprepare decl s r) = view s := by
  cases hc : s.cache r with
  | none => rw [(reprepare_frame decl s r).2.2.2 hc]
  | some e =>
    rw [reprepare_eq hc, handle_eq]
    funext x
    by_cases hx : x = r
    · subst hx; simp [view, commitState, tick, hc]
    · simp [view, commitState, tick, upd_other _ _ _ hx]

theorem view_drain (decl : Spec → (R → Bool) → List R) (q : List Nat) (s : State R Spec) (r : R) :
    view (drain decl s r q) = view s := by
  induction q generalizing s with
  | nil => rfl
  | cons t rest ih =>
    unfold drain; split
    · exact ih s
    · rw [ih, view_reprepare]

theorem view_runDrain (decl : Spec → (R → Bool) → List R) (s : State R Spec) (r : R) :
    view (runDrain decl s r) = view s := by
  unfold runDrain
  split
  · rfl
  · rw [view_drain]; rfl

theorem view_bg (decl : Spec → (R → Bool) → List R) (s : State R Spec) (r : R) : view (bg decl s r) = view s := by
  unfold bg
  split
  · rfl
  · rw [view_runDrain]; funext x; simp [view, register_cache]
  · exact view_runDrain decl s r

theorem view_offerNew (decl : Spec → (R → Bool) → List R) (s : State R Spec) (r : R) (v : Nat) (spec : Spec) :
    view (offerNew decl s r v spec) = upd (view s) r (some (v, spec)) := by
  rw [offerNew_eq, handle_eq]
  funext x
  by_cases hx : x = r
  · subst hx; simp [view, commitState]
  · simp [view, commitState, upd_other _ _ _ hx, register_cache, tick]

theorem view_step (decl : Spec → (R → Bool) → List R) (s : State R Spec) (a : Action R Spec) :
    view (step decl s a) = track (view s) a := by
  cases a with
  | bg r => exact view_bg decl s r
  | offer r v deps =>
    simp only [step, track, offer]
    cases hc : s.cache r with
    | none => simp [view, hc, view_offerNew]
    | some e =>
      have hv : view s r = some (e.version, e.spec) := by simp [view, hc]
      rw [hv]
      by_cases hev : e.version = v
      · simp [hev]
      · simp [hev, view_offerNew]
  | delete r ver =>
    simp only [step, track]
    cases hc : s.cache r with
    | none => simp [view, hc, delete]
    | some e =>
      have hv : view s r = some (e.version, e.spec) := by simp [view, hc]
      rw [hv]
      cases hs : staleVersion ver e.version with
      | true => simp [delete, hc, hs]
      | false =>
        rw [delete_eq hc hs]
        funext x
        by_cases hx : x = r
        · subst hx; simp [view, deleteState, hs]
        · simp [view, deleteState, upd_other _ _ _ hx, hs]

theorem view_run (decl : Spec → (R → Bool) → List R) (acts : List (Action R Spec)) (s : State R Spec) :
    view (run decl s acts) = acts.foldl track (view s) := by
  induction acts generalizing s with
  | nil => rfl
  | cons a rest ih =>
    simp only [run, List.foldl_cons]
    have := ih (step decl s a)
    simp only [run] at this
    rw [this, view_step]

end Koreo.HotReload
