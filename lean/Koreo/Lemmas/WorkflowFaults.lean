/-
  Helper lemmas for C09 over `Koreo/WorkflowFaults.lean`.

  1. outcome algebra: an error among the parts makes the whole an error (through the C03 theorems)
  2. one step under faults (`evalStep`)
  3. the whole group (`runStepsF`): every step's entry is `evalStep` on the FINAL entries
  4. one ResourceFunction evaluation under a fault (`rfPass`)
  5. repeated passes over a DAG of reconcilers (`DagSys`)
-/
import Koreo.WorkflowFaults
import Koreo.Lemmas.Workflow
import Koreo.Lemmas.Result

namespace Koreo.WorkflowFaults
open Koreo Koreo.Workflow Koreo.Result

/-! ## 1. outcome algebra -/

theorem toOutcome_rank_of_isErr {r : StepRes} (h : r.isErr = true) : 3 ≤ r.toOutcome.cls.rank := by
  cases r <;> simp_all [StepRes.isErr, StepRes.toOutcome, Outcome.cls, Cls.rank]

theorem toOutcome_rank_le_of_not_isErr {r : StepRes} (h : r.isErr = false) : r.toOutcome.cls.rank ≤ 2 := by
  cases r <;> simp_all [StepRes.isErr, StepRes.toOutcome, Outcome.cls, Cls.rank]

theorem ofCombined_isErr {c : Combined JVal} : (StepRes.ofCombined c).isErr = true ↔ 3 ≤ c.cls.rank := by
  cases c with
  | okList vs l => simp [StepRes.ofCombined, StepRes.isErr, Combined.cls, Cls.rank]
  | nonOk o => cases o <;> simp [StepRes.ofCombined, StepRes.ofOutcome, StepRes.isErr, Combined.cls, Outcome.cls, Cls.rank]

theorem ofCombined_isOk {c : Combined JVal} (h : (StepRes.ofCombined c).isOk = true) : c.cls.rank = 2 := by
  cases c with
  | okList vs l => simp [Combined.cls, Cls.rank]
  | nonOk o => cases o <;> simp_all [StepRes.ofCombined, StepRes.ofOutcome, StepRes.isOk, Combined.cls, Outcome.cls, Cls.rank]

/-- every element is at most as severe as the fold (C03's `combine_class_is_max`, re-derived here from the
    C03 lemmas so that this file does not depend on a regenerated table) -/
theorem fold_rank_ge {α : Type} (xs : List (Outcome α)) {x : Outcome α} (hx : x ∈ xs) :
    x.cls.rank ≤ (fold xs).cls.rank := by
  unfold fold
  rw [fold_cls_rank]
  exact (foldl_max_ge _ xs).2 x hx

theorem combine_rank_ge {α : Type} (xs : List (Outcome α)) {x : Outcome α} (hx : x ∈ xs) :
    x.cls.rank ≤ (Result.combine xs).cls.rank := by
  have hne : xs.isEmpty = false := by cases xs <;> simp_all
  have h := fold_rank_ge xs hx
  unfold Result.combine
  simp only [hne]
  cases hf : fold xs <;> simp_all [Combined.cls, Outcome.cls]

theorem unwrappedCombine_rank_ge {α : Type} (xs : List (Unwrapped α)) {x : Unwrapped α} (hx : x ∈ xs) :
    x.lift.cls.rank ≤ (unwrappedCombine xs).cls.rank := by
  have hne : xs.isEmpty = false := by cases xs <;> simp_all
  have h := fold_rank_ge (xs.map Unwrapped.lift) (List.mem_map.2 ⟨x, hx, rfl⟩)
  unfold unwrappedCombine
  simp only [hne]
  cases hf : fold (xs.map Unwrapped.lift) <;> simp_all [Combined.cls, Outcome.cls]

/-- one failing iteration makes the forEach step fail -/
theorem combineItems_err {outs : List StepOut} (h : ∃ o ∈ outs, o.res.isErr = true) :
    (combineItems outs).res.isErr = true := by
  obtain ⟨o, ho, he⟩ := h
  have hmem : o.res.toOutcome ∈ (outs.filter fun o => o.res.isErr).map fun o => o.res.toOutcome :=
    List.mem_map.2 ⟨o, List.mem_filter.2 ⟨ho, he⟩, rfl⟩
  have hmax := combine_rank_ge _ hmem
  have h3 := toOutcome_rank_of_isErr he
  have hc : (StepRes.ofCombined (Result.combine
      ((outs.filter fun o => o.res.isErr).map fun o => o.res.toOutcome))).isErr = true :=
    ofCombined_isErr.2 (by omega)
  unfold combineItems
  simp only [hc, if_true]

theorem toUnwrapped_lift_cls (o : StepOut) : (toUnwrapped o).lift.cls = o.res.toOutcome.cls := by
  unfold toUnwrapped
  cases o.res <;> rfl

/-- the overall outcome is an error as soon as one step's is -/
theorem overallOf_err {outs : List StepOut} (h : ∃ o ∈ outs, o.res.isErr = true) :
    (overallOf outs).isErr = true := by
  obtain ⟨o, ho, he⟩ := h
  have hmax := unwrappedCombine_rank_ge (outs.map toUnwrapped) (List.mem_map.2 ⟨o, ho, rfl⟩)
  rw [toUnwrapped_lift_cls] at hmax
  have h3 := toOutcome_rank_of_isErr he
  unfold overallOf
  apply ofCombined_isErr.2
  omega

/-- … and Ok only if none is -/
theorem overallOf_ok {outs : List StepOut} (h : (overallOf outs).isOk = true) :
    ∀ o ∈ outs, o.res.isErr = false := by
  intro o ho
  cases he : o.res.isErr with
  | false => rfl
  | true =>
    have := overallOf_err ⟨o, ho, he⟩
    cases hr : overallOf outs <;> simp_all [StepRes.isOk, StepRes.isErr]

theorem isErr_cases {r : StepRes} (h : r.isErr = true) : (∃ d, r = .retry d) ∨ r = .permFail := by
  cases r <;> simp_all [StepRes.isErr]

theorem reason_ne_ready {r : StepRes} (h : r.isOk = false) : reason r ≠ "Ready" := by
  cases r <;> simp_all [StepRes.isOk, reason]

theorem reason_ready_isOk {r : StepRes} (h : reason r = "Ready") : r.isOk = true := by
  cases r <;> simp_all [StepRes.isOk, reason]

/-! ## 2. one step -/

theorem classify_not_done {t : Tag} (h : t ≠ .done) (o : StepOut) :
    classify t o = ⟨.retry timeoutDelay, .null⟩ ∨ classify t o = ⟨.retry errorDelay, .null⟩ := by
  cases t with
  | done => exact absurd rfl h
  | raised => exact Or.inr rfl
  | cancelled => exact Or.inl rfl

theorem classify_isErr {t : Tag} (h : t ≠ .done) (o : StepOut) : (classify t o).res.isErr = true := by
  rcases classify_not_done h o with e | e <;> rw [e] <;> rfl

theorem taskOut_err_of_faulty {cause : Bool} {a : FAns} {t : Tag} (hf : a.faulty = true)
    (hok : tagOK cause a t = true) : (taskOut a t).res.isErr = true := by
  cases t with
  | done =>
    cases a with
    | ans o => simpa [taskOut, classify, FAns.out, FAns.faulty] using hf
    | raised => simp [tagOK] at hok
    | hung => simp [tagOK] at hok
  | raised => exact classify_isErr (by decide) _
  | cancelled => exact classify_isErr (by decide) _

theorem zipOut_mem_of_faulty {cause : Bool} :
    ∀ {as : List FAns} {ts : List Tag}, zipOK cause as ts = true →
      ∀ a ∈ as, a.faulty = true → ∃ o ∈ zipOut as ts, o.res.isErr = true
  | [], [], _, a, ha, _ => by simp at ha
  | a0 :: as, t :: ts, hok, a, ha, hf => by
    simp only [zipOK, Bool.and_eq_true] at hok
    rcases List.mem_cons.1 ha with rfl | ha
    · exact ⟨taskOut a t, by simp [zipOut], taskOut_err_of_faulty hf hok.1⟩
    · obtain ⟨o, ho, he⟩ := zipOut_mem_of_faulty hok.2 a ha hf
      exact ⟨o, by simp [zipOut, ho], he⟩
  | [], _ :: _, hok, _, _, _ => by simp [zipOK] at hok
  | _ :: _, [], hok, _, _, _ => by simp [zipOK] at hok

/-- **an affected step is stored as an error**, however its task ended -/
theorem evalStep_affected_err {eval : EvalFn} {frun : FRun} {trig : JVal} {cause : Bool}
    {dd : Option (List (Label × StepRes))} {s : Step} {tg : StepTags}
    (haff : Affected eval frun trig dd s)
    (hok : (evalStep eval frun trig cause dd s tg).ok = true) :
    (evalStep eval frun trig cause dd s tg).out.res.isErr = true := by
  obtain ⟨dr, rfl, h⟩ := haff
  rcases h with ⟨act, inputs, hg, hf⟩ | ⟨act, inputs, key, items, hg, a, ha, hf⟩
  · simp only [evalStep, hg] at hok ⊢
    simp only [Bool.and_eq_true] at hok
    exact taskOut_err_of_faulty hf hok.1
  · simp only [evalStep, hg] at hok ⊢
    cases hits : tg.items with
    | nil => simp only [hits] at hok ⊢; rfl
    | cons t0 ts =>
      simp only [hits] at hok ⊢
      cases htag : tg.tag with
      | done =>
        simp only [htag] at hok ⊢
        exact combineItems_err (zipOut_mem_of_faulty hok a ha hf)
      | cancelled => rfl
      | raised => rfl

theorem plainStep_mayRun (cause : Bool) (tg : StepTags) (o : StepOut) (b : Bool) :
    (plainStep cause tg o b).mayRun = b := by
  unfold plainStep; cases tg.tag <;> rfl

/-- a step with a dependency that did not complete normally, or completed with anything but Ok, never
    evaluates its Logic; it is cancelled or stored as DepSkip -/
theorem evalStep_gated {eval : EvalFn} {frun : FRun} {trig : JVal} {cause : Bool}
    {dd : Option (List (Label × StepRes))} {s : Step} {tg : StepTags}
    (h : dd = none ∨ ∃ dr, dd = some dr ∧ okVals dr = none) :
    (evalStep eval frun trig cause dd s tg).mayRun = false ∧
    ((evalStep eval frun trig cause dd s tg).ok = true →
      (tg.tag = .cancelled ∧ (evalStep eval frun trig cause dd s tg).out = ⟨.retry timeoutDelay, .null⟩) ∨
      (tg.tag = .done ∧ (evalStep eval frun trig cause dd s tg).out = ⟨.depSkip, .null⟩)) := by
  rcases h with rfl | ⟨dr, rfl, hdr⟩
  · refine ⟨rfl, fun hok => Or.inl ?_⟩
    simp only [evalStep, Bool.and_eq_true, decide_eq_true_eq] at hok
    exact ⟨hok.1.1, rfl⟩
  · have hg : gate eval trig dr s = .done ⟨.depSkip, .null⟩ := by unfold gate; rw [hdr]
    simp only [evalStep, hg]
    refine ⟨plainStep_mayRun _ _ _ _, fun hok => ?_⟩
    unfold plainStep at hok ⊢
    cases htag : tg.tag with
    | done => exact Or.inr ⟨rfl, rfl⟩
    | cancelled => exact Or.inl ⟨rfl, rfl⟩
    | raised => simp [htag] at hok

/-- under consistency, a task that did not complete normally is stored as Retry with one of the two delays -/
theorem evalStep_not_done {eval : EvalFn} {frun : FRun} {trig : JVal} {cause : Bool}
    {dd : Option (List (Label × StepRes))} {s : Step} {tg : StepTags}
    (hok : (evalStep eval frun trig cause dd s tg).ok = true) (ht : tg.tag ≠ .done) :
    (evalStep eval frun trig cause dd s tg).out = ⟨.retry timeoutDelay, .null⟩ ∨
    (evalStep eval frun trig cause dd s tg).out = ⟨.retry errorDelay, .null⟩ := by
  cases dd with
  | none => exact Or.inl rfl
  | some dr =>
    simp only [evalStep] at hok ⊢
    cases hg : gate eval trig dr s with
    | done o =>
      simp only [hg, plainStep] at hok ⊢
      cases htag : tg.tag with
      | done => exact absurd htag ht
      | cancelled => exact Or.inl rfl
      | raised => simp [htag] at hok
    | single act inputs =>
      simp only [hg] at hok ⊢
      exact classify_not_done ht _
    | each act inputs key items =>
      simp only [hg] at hok ⊢
      cases hits : tg.items with
      | nil => exact Or.inl rfl
      | cons t0 ts =>
        simp only [hits] at hok ⊢
        cases htag : tg.tag with
        | done => exact absurd htag ht
        | cancelled => exact Or.inl rfl
        | raised => simp [htag] at hok

/-! ## 3. the whole group -/

theorem depsDone_congr {pre pre' : List (Label × Entry)} {deps : List Label}
    (h : ∀ d ∈ deps, lookupL d pre = lookupL d pre') : depsDone pre deps = depsDone pre' deps := by
  induction deps with
  | nil => rfl
  | cons d rest ih =>
    simp only [depsDone]
    rw [h d (by simp), ih (fun d' hd' => h d' (List.mem_cons_of_mem _ hd'))]

/-- what `depsDone` says about one dependency -/
theorem depsDone_some_mem {pre : List (Label × Entry)} {deps : List Label} {dr}
    (h : depsDone pre deps = some dr) {d : Label} (hd : d ∈ deps) :
    ∃ o, lookupL d pre = some (.done, o) ∧ (d, o.res) ∈ dr := by
  induction deps generalizing dr with
  | nil => simp at hd
  | cons d0 rest ih =>
    simp only [depsDone] at h
    split at h
    · next o more h1 h2 =>
      cases h
      rcases List.mem_cons.1 hd with rfl | hd
      · exact ⟨o, h1, by simp⟩
      · obtain ⟨o', ho', hm⟩ := ih h2 hd
        exact ⟨o', ho', List.mem_cons_of_mem _ hm⟩
    · cases h

theorem depsDone_none_of_not_done {pre : List (Label × Entry)} {deps : List Label} {d : Label}
    (hd : d ∈ deps) (h : ∀ o, lookupL d pre ≠ some (.done, o)) : depsDone pre deps = none := by
  cases hdd : depsDone pre deps with
  | none => rfl
  | some dr =>
    obtain ⟨o, ho, -⟩ := depsDone_some_mem hdd hd
    exact absurd ho (h o)

theorem runStepsF_pre (eval : EvalFn) (frun : FRun) (trig : JVal) (cause : Bool) (steps : List Step)
    (tags : List (Label × StepTags)) (acc : RunEval) :
    ∃ xs, (runStepsF eval frun trig cause steps tags acc).pre = acc.pre ++ xs := by
  induction steps generalizing tags acc with
  | nil =>
    cases tags with
    | nil => exact ⟨[], by simp [runStepsF]⟩
    | cons t ts => exact ⟨[], by simp [runStepsF]⟩
  | cons s ss ih =>
    cases tags with
    | nil => exact ⟨[], by simp [runStepsF]⟩
    | cons t ts =>
      obtain ⟨l, tg⟩ := t
      simp only [runStepsF]
      obtain ⟨xs, hx⟩ := ih ts _
      exact ⟨(s.label, (tg.tag, (evalStep eval frun trig cause (depsDone acc.pre s.deps) s tg).out)) :: xs,
        by rw [hx]; simp⟩

/-- **fixpoint characterisation** of a consistent group: every listed step has tags, its entry is `evalStep` on
    the dependencies' FINAL entries, that evaluation is consistent, and only steps whose evaluation says so
    are in `mayRun` -/
theorem runStepsF_spec (eval : EvalFn) (frun : FRun) (trig : JVal) (cause : Bool) (steps : List Step)
    (tags : List (Label × StepTags)) (acc : RunEval)
    (hwf : wfSteps (acc.pre.map (·.1)) steps = true)
    (hok : (runStepsF eval frun trig cause steps tags acc).ok = true) :
    acc.ok = true ∧
    (∀ s ∈ steps, ∃ tg, lookupL s.label tags = some tg ∧
      (evalStep eval frun trig cause
        (depsDone (runStepsF eval frun trig cause steps tags acc).pre s.deps) s tg).ok = true ∧
      lookupL s.label (runStepsF eval frun trig cause steps tags acc).pre =
        some (tg.tag, (evalStep eval frun trig cause
          (depsDone (runStepsF eval frun trig cause steps tags acc).pre s.deps) s tg).out)) ∧
    (∀ l ∈ (runStepsF eval frun trig cause steps tags acc).mayRun, l ∈ acc.mayRun ∨
      ∃ s ∈ steps, s.label = l ∧ ∃ tg, lookupL s.label tags = some tg ∧
        (evalStep eval frun trig cause
          (depsDone (runStepsF eval frun trig cause steps tags acc).pre s.deps) s tg).mayRun = true) := by
  induction steps generalizing tags acc with
  | nil =>
    cases tags with
    | nil => exact ⟨by simpa [runStepsF] using hok, by simp, fun l hl => Or.inl (by simpa [runStepsF] using hl)⟩
    | cons t ts => simp [runStepsF] at hok
  | cons s0 rest ih =>
    cases tags with
    | nil => simp [runStepsF] at hok
    | cons t ts =>
      obtain ⟨l0, tg0⟩ := t
      obtain ⟨hdeps, hfresh, hrest⟩ := wfSteps_cons hwf
      let e0 := evalStep eval frun trig cause (depsDone acc.pre s0.deps) s0 tg0
      let acc' : RunEval := ⟨acc.ok && e0.ok && decide (l0 = s0.label),
        acc.pre ++ [(s0.label, (tg0.tag, e0.out))],
        if e0.mayRun then acc.mayRun ++ [s0.label] else acc.mayRun⟩
      have hrun : runStepsF eval frun trig cause (s0 :: rest) ((l0, tg0) :: ts) acc =
          runStepsF eval frun trig cause rest ts acc' := rfl
      rw [hrun] at hok ⊢
      have hwf' : wfSteps (acc'.pre.map (·.1)) rest = true := by simpa [acc'] using hrest
      obtain ⟨hacc', hsteps, hmay⟩ := ih ts acc' hwf' hok
      have hacc'' : (acc.ok = true ∧ e0.ok = true) ∧ l0 = s0.label := by
        simpa [acc', Bool.and_eq_true] using hacc'
      obtain ⟨⟨hacc, he0⟩, hl0⟩ := hacc''
      subst hl0
      obtain ⟨xs, hx⟩ := runStepsF_pre eval frun trig cause rest ts acc'
      have hnd := wfSteps_labels_nodup hrest
      -- the head's dependencies are all in `acc.pre`, a prefix of the final list
      have hdd : depsDone (runStepsF eval frun trig cause rest ts acc').pre s0.deps =
          depsDone acc.pre s0.deps := by
        apply depsDone_congr
        intro d hd
        obtain ⟨v, hv⟩ := lookupL_isSome_of_mem (hdeps d hd)
        rw [hx, hv]
        exact lookupL_append_left (lookupL_append_left hv)
      refine ⟨hacc, ?_, ?_⟩
      · intro s hs
        rcases List.mem_cons.1 hs with rfl | hs
        · refine ⟨tg0, by simp [lookupL], ?_, ?_⟩
          · rw [hdd]; exact he0
          · rw [hdd, hx]
            apply lookupL_append_left
            show lookupL s.label (acc.pre ++ [(s.label, (tg0.tag, e0.out))]) = _
            rw [lookupL_append_right hfresh]
            exact lookupL_singleton _ _
        · obtain ⟨tg, htg, h1, h2⟩ := hsteps s hs
          have hne : s0.label ≠ s.label := by
            intro e
            exact hnd.2 s.label (List.mem_map.2 ⟨s, hs, rfl⟩) (by simp [e])
          exact ⟨tg, by simp [lookupL, hne, htg], h1, h2⟩
      · intro l hl
        rcases hmay l hl with h | ⟨s, hs, hsl, tg, htg, hm⟩
        · by_cases hm0 : e0.mayRun = true
          · simp only [acc', hm0, if_true, List.mem_append, List.mem_singleton] at h
            rcases h with h | rfl
            · exact Or.inl h
            · refine Or.inr ⟨s0, by simp, rfl, tg0, by simp [lookupL], ?_⟩
              rw [hdd]; exact hm0
          · simp only [acc', hm0] at h
            exact Or.inl (by simpa using h)
        · have hne : s0.label ≠ s.label := by
            intro e
            exact hnd.2 s.label (List.mem_map.2 ⟨s, hs, rfl⟩) (by simp [e])
          exact Or.inr ⟨s, List.mem_cons_of_mem _ hs, hsl, tg, by simp [lookupL, hne, htg], hm⟩

theorem runStepsF_labels (eval : EvalFn) (frun : FRun) (trig : JVal) (cause : Bool) (steps : List Step)
    (tags : List (Label × StepTags)) (acc : RunEval)
    (hok : (runStepsF eval frun trig cause steps tags acc).ok = true) :
    (runStepsF eval frun trig cause steps tags acc).pre.map (·.1) = acc.pre.map (·.1) ++ labels steps := by
  induction steps generalizing tags acc with
  | nil =>
    cases tags with
    | nil => simp [runStepsF, labels]
    | cons t ts => simp [runStepsF] at hok
  | cons s ss ih =>
    cases tags with
    | nil => simp [runStepsF] at hok
    | cons t ts =>
      obtain ⟨l, tg⟩ := t
      simp only [runStepsF] at hok ⊢
      rw [ih ts _ hok]
      simp [labels]

theorem lookupL_map_snd {α β : Type} (f : α → β) (l : Label) (xs : List (Label × α)) :
    lookupL l (xs.map fun p => (p.1, f p.2)) = (lookupL l xs).map f := by
  induction xs with
  | nil => rfl
  | cons x xs ih =>
    obtain ⟨k, v⟩ := x
    simp only [List.map_cons, lookupL]
    split <;> simp_all

/-- what `Possible` says about one listed step (the fixpoint characterisation at top level) -/
theorem possible_step {eval : EvalFn} {frun : FRun} {trig : JVal} {interrupted : Bool} {wf : Workflow}
    {tags : List (Label × StepTags)} (hwf : wf.WF = true)
    (hp : Possible eval frun trig interrupted wf tags) {s : Step} (hs : s ∈ wf.steps) :
    ∃ tg, lookupL s.label tags = some tg ∧
      (evalStep eval frun trig (causeOf interrupted tags)
        (depsDone (entriesF eval frun trig interrupted wf tags) s.deps) s tg).ok = true ∧
      lookupL s.label (entriesF eval frun trig interrupted wf tags) =
        some (tg.tag, (evalStep eval frun trig (causeOf interrupted tags)
          (depsDone (entriesF eval frun trig interrupted wf tags) s.deps) s tg).out) :=
  (runStepsF_spec eval frun trig (causeOf interrupted tags) wf.steps tags {}
    (by simpa [Workflow.WF] using hwf) hp).2.1 s hs

theorem possible_mayRun {eval : EvalFn} {frun : FRun} {trig : JVal} {interrupted : Bool} {wf : Workflow}
    {tags : List (Label × StepTags)} (hwf : wf.WF = true)
    (hp : Possible eval frun trig interrupted wf tags) {l : Label}
    (hl : l ∈ mayRunF eval frun trig interrupted wf tags) :
    ∃ s ∈ wf.steps, s.label = l ∧ ∃ tg, lookupL s.label tags = some tg ∧
      (evalStep eval frun trig (causeOf interrupted tags)
        (depsDone (entriesF eval frun trig interrupted wf tags) s.deps) s tg).mayRun = true := by
  rcases (runStepsF_spec eval frun trig (causeOf interrupted tags) wf.steps tags {}
    (by simpa [Workflow.WF] using hwf) hp).2.2 l hl with h | h
  · simp at h
  · exact h

theorem possible_labels {eval : EvalFn} {frun : FRun} {trig : JVal} {interrupted : Bool} {wf : Workflow}
    {tags : List (Label × StepTags)} (hp : Possible eval frun trig interrupted wf tags) :
    (entriesF eval frun trig interrupted wf tags).map (·.1) = labels wf.steps := by
  have := runStepsF_labels eval frun trig (causeOf interrupted tags) wf.steps tags {} hp
  simpa [entriesF, runF] using this

/-- an entry of a listed step is among the outcomes the overall outcome is combined from -/
theorem mem_listed_of_lookup {wf : Workflow} {res : List (Label × StepOut)} {s : Step} {o : StepOut}
    (hs : s ∈ wf.steps) (h : lookupL s.label res = some o) : o ∈ (listed wf res).map (·.2) := by
  apply List.mem_map.2
  refine ⟨(s, o), ?_, rfl⟩
  unfold listed
  apply List.mem_filterMap.2
  exact ⟨s, hs, by rw [h]; rfl⟩

theorem listed_mem {wf : Workflow} {res : List (Label × StepOut)} {p : Step × StepOut}
    (h : p ∈ listed wf res) : p.1 ∈ wf.steps ∧ lookupL p.1.label res = some p.2 := by
  unfold listed at h
  obtain ⟨s, hs, he⟩ := List.mem_filterMap.1 h
  cases hl : lookupL s.label res with
  | none => simp [hl] at he
  | some o => simp [hl] at he; subst he; exact ⟨hs, hl⟩

/-! ### the fault-free corner is C01's sequential semantics -/

theorem evalLogicF_lift (eval : EvalFn) (run : RunFn) (l : Label) (i : Option Nat) (act inputs) (logic : Logic) :
    ∃ fo, (evalLogicF eval (liftRun run) l i act inputs logic).1 = .ans fo ∧
      (⟨fo.res, fo.rid⟩ : StepOut) = (runLogic eval run l i act inputs logic).1 := by
  cases logic with
  | ref t => exact ⟨run t inputs, rfl, rfl⟩
  | switch on cases dflt =>
    simp only [evalLogicF, runLogic]
    cases select eval on cases dflt act inputs with
    | hit t => exact ⟨run t inputs, rfl, rfl⟩
    | evalFail => exact ⟨_, rfl, rfl⟩
    | badType => exact ⟨_, rfl, rfl⟩
    | noMatch => exact ⟨_, rfl, rfl⟩

theorem itemAnswers_lift (eval : EvalFn) (run : RunFn) (l : Label) (act inputs key logic) (cause : Bool) :
    ∀ (i : Nat) (items : List JVal),
      zipOK cause (itemAnswers eval (liftRun run) l act inputs key logic i items)
        (items.map fun _ => Tag.done) = true ∧
      zipOut (itemAnswers eval (liftRun run) l act inputs key logic i items) (items.map fun _ => Tag.done) =
        (runItems eval run l act inputs key logic i items).map (·.1)
  | _, [] => ⟨rfl, rfl⟩
  | i, it :: rest => by
    obtain ⟨fo, h1, h2⟩ := evalLogicF_lift eval run l (some i) act (setKey key it inputs) logic
    obtain ⟨ih1, ih2⟩ := itemAnswers_lift eval run l act inputs key logic cause (i + 1) rest
    simp only [itemAnswers, List.map_cons, zipOK, zipOut, runItems, h1, tagOK, Bool.true_and]
    refine ⟨ih1, ?_⟩
    rw [ih2]
    simp only [taskOut, classify, FAns.out]
    rw [h2]

theorem depsDone_all_done (res : List (Label × StepOut)) (deps : List Label)
    (h : ∀ d ∈ deps, d ∈ res.map (·.1)) :
    depsDone (res.map fun p => (p.1, (Tag.done, p.2))) deps = some (depRes res deps) := by
  induction deps with
  | nil => rfl
  | cons d rest ih =>
    obtain ⟨o, ho⟩ := lookupL_isSome_of_mem (h d (by simp))
    have hl : lookupL d (res.map fun p => (p.1, (Tag.done, p.2))) = some (Tag.done, o) := by
      rw [lookupL_map_snd (fun o : StepOut => (Tag.done, o)) d res, ho]; rfl
    simp only [depsDone, hl, ih (fun d' hd' => h d' (List.mem_cons_of_mem _ hd'))]
    simp [depRes, ho]

/-- with every task done the fault model's step is C01's `stepResult` -/
theorem evalStep_fault_free (eval : EvalFn) (run : RunFn) (trig : JVal) (cause : Bool)
    (dr : List (Label × StepRes)) (s : Step) :
    (evalStep eval (liftRun run) trig cause (some dr) s
      ⟨.done, match gate eval trig dr s with
        | .each _ _ _ items => items.map fun _ => Tag.done
        | _ => []⟩).ok = true ∧
    (evalStep eval (liftRun run) trig cause (some dr) s
      ⟨.done, match gate eval trig dr s with
        | .each _ _ _ items => items.map fun _ => Tag.done
        | _ => []⟩).out = (stepResult eval run trig dr s).1 := by
  cases hg : gate eval trig dr s with
  | done o => simp [evalStep, stepResult, hg, plainStep]
  | single act inputs =>
    obtain ⟨fo, h1, h2⟩ := evalLogicF_lift eval run s.label none act inputs s.logic
    simp only [evalStep, stepResult, hg, h1, tagOK, List.isEmpty_nil, Bool.and_self, true_and]
    simp only [taskOut, classify, FAns.out]
    exact h2
  | each act inputs key items =>
    obtain ⟨-, -, -, -, -, -, -, -, -, hne⟩ := gate_each hg
    obtain ⟨z1, z2⟩ := itemAnswers_lift eval run s.label act inputs key s.logic
      (cause || (items.map fun _ => Tag.done).any fun t => decide (t = Tag.raised)) 0 items
    cases items with
    | nil => exact absurd rfl hne
    | cons it rest =>
      simp only [evalStep, stepResult, hg]
      simp only [List.map_cons] at z1 z2 ⊢
      exact ⟨z1, by rw [z2]⟩

theorem runStepsF_fault_free (eval : EvalFn) (run : RunFn) (trig : JVal) (cause : Bool) :
    ∀ (steps : List Step) (t : Trace) (acc : RunEval),
      wfSteps (t.results.map (·.1)) steps = true →
      acc.ok = true → acc.pre = t.results.map (fun p => (p.1, (Tag.done, p.2))) →
      (runStepsF eval (liftRun run) trig cause steps (doneTags eval run trig steps t) acc).ok = true ∧
      (runStepsF eval (liftRun run) trig cause steps (doneTags eval run trig steps t) acc).pre =
        (runSteps eval run trig steps t).results.map (fun p => (p.1, (Tag.done, p.2)))
  | [], t, acc, _, hok, hpre => ⟨by simpa [runStepsF, doneTags] using hok, by simpa [runStepsF, doneTags, runSteps] using hpre⟩
  | s :: rest, t, acc, hwf, hok, hpre => by
    obtain ⟨hdeps, -, hrest⟩ := wfSteps_cons hwf
    have hdd : depsDone acc.pre s.deps = some (depRes t.results s.deps) := by
      rw [hpre]; exact depsDone_all_done t.results s.deps hdeps
    obtain ⟨e1, e2⟩ := evalStep_fault_free eval run trig cause (depRes t.results s.deps) s
    simp only [doneTags, runStepsF, runSteps, hdd]
    apply runStepsF_fault_free eval run trig cause rest
    · simpa using hrest
    · simp only [hok, Bool.true_and, decide_true, Bool.and_true]
      exact e1
    · simp only [hpre, List.map_append, List.map_cons, List.map_nil]
      exact congrArg (fun o => List.map (fun p : Label × StepOut => (p.1, (Tag.done, p.2))) t.results ++
        [(s.label, (Tag.done, o))]) e2

theorem stepCondsF_all_done (res : List (Label × StepOut)) (steps : List Step) :
    (steps.flatMap fun s => match lookupL s.label (res.map fun p => (p.1, (Tag.done, p.2))) with
      | some e => condsOfStep s e
      | none => []) =
    stepConds (steps.filterMap fun s => (lookupL s.label res).map fun o => (s, o)) := by
  induction steps with
  | nil => rfl
  | cons s rest ih =>
    rw [List.flatMap_cons, List.filterMap_cons, ih,
      lookupL_map_snd (fun o : StepOut => (Tag.done, o)) s.label res]
    cases hl : lookupL s.label res with
    | none => simp
    | some o =>
      simp only [Option.map_some, stepConds, List.filterMap_cons, condsOfStep]
      cases s.cond <;> simp

/-- a time-out before anything completed is always a possible outcome -/
theorem evalStep_cancelled_ok (eval : EvalFn) (frun : FRun) (trig : JVal)
    (dd : Option (List (Label × StepRes))) (s : Step) :
    (evalStep eval frun trig true dd s ⟨.cancelled, []⟩).ok = true := by
  cases dd with
  | none => rfl
  | some dr =>
    simp only [evalStep]
    cases gate eval trig dr s with
    | done o => rfl
    | single act inputs => rfl
    | each act inputs key items => rfl

theorem runStepsF_all_cancelled (eval : EvalFn) (frun : FRun) (trig : JVal) :
    ∀ (steps : List Step) (acc : RunEval), acc.ok = true →
      (runStepsF eval frun trig true steps (steps.map fun s => (s.label, ⟨.cancelled, []⟩)) acc).ok = true
  | [], acc, h => by simpa [runStepsF] using h
  | s :: rest, acc, h => by
    simp only [List.map_cons, runStepsF]
    apply runStepsF_all_cancelled eval frun trig rest
    simp [h, evalStep_cancelled_ok]

/-! ## 4. one ResourceFunction evaluation under a fault -/

section rf
set_option linter.unusedSimpArgs false
variable {S : Type} (m : RMach S) (cfg : RfCfg)

/-- a fault placed beyond the second call is never reached -/
theorem rfPass_far {j : Nat} (k : FaultKind) (hj : 2 ≤ j) (s : S) :
    rfPass m cfg (some (j, k)) s = rfPass m cfg none s := by
  have h0 : ¬ j = 0 := by omega
  have h1 : ¬ j = 1 := by omega
  simp [rfPass, faultAt, h0, h1]

/-- **each faulty evaluation either took effect or did not**: the state afterwards is the old one or the
    one the fault-free evaluation would have produced -/
theorem rfPass_state_between (fault : Option (Nat × FaultKind)) (s : S) :
    (rfPass m cfg fault s).st = s ∨ (rfPass m cfg fault s).st = (rfPass m cfg none s).st := by
  rcases fault with _ | ⟨j, k⟩
  · exact Or.inr rfl
  · by_cases h0 : j = 0
    · subst h0
      cases k <;> cases hp : m.present s <;> cases hde : cfg.deleteIfExists <;> cases hr : cfg.readonly <;> cases hc : cfg.createEnabled <;>
        cases hm : m.meets s <;> cases hpol : cfg.policy <;>
        simp [rfPass, faultAt, mutateUnguarded, hp, hde, hr, hc, hm, hpol]
    · by_cases h1 : j = 1
      · subst h1
        cases k <;> cases hp : m.present s <;> cases hde : cfg.deleteIfExists <;> cases hr : cfg.readonly <;> cases hc : cfg.createEnabled <;>
          cases hm : m.meets s <;> cases hpol : cfg.policy <;>
          simp [rfPass, faultAt, mutateUnguarded, hp, hde, hr, hc, hm, hpol]
      · rw [rfPass_far m cfg k (by omega)]; exact Or.inr rfl

/-- an evaluation that answers Ok saw the object it returns and changed nothing -/
theorem rfPass_ok_unchanged (fault : Option (Nat × FaultKind)) (s x : S)
    (h : (rfPass m cfg fault s).ans = .ok x) : (rfPass m cfg fault s).st = s ∧ x = s := by
  rcases fault with _ | ⟨j, k⟩
  · revert h
    cases hp : m.present s <;> cases hde : cfg.deleteIfExists <;> cases hr : cfg.readonly <;> cases hc : cfg.createEnabled <;>
      cases hm : m.meets s <;> cases hpol : cfg.policy <;>
      simp [rfPass, faultAt, mutateUnguarded, hp, hde, hr, hc, hm, hpol] <;> intro h <;> exact h.symm
  · by_cases h0 : j = 0
    · subst h0; revert h
      cases k <;> cases hp : m.present s <;> cases hde : cfg.deleteIfExists <;> cases hr : cfg.readonly <;> cases hc : cfg.createEnabled <;>
        cases hm : m.meets s <;> cases hpol : cfg.policy <;>
        simp [rfPass, faultAt, mutateUnguarded, hp, hde, hr, hc, hm, hpol] <;> intro h <;> exact h.symm
    · by_cases h1 : j = 1
      · subst h1; revert h
        cases k <;> cases hp : m.present s <;> cases hde : cfg.deleteIfExists <;> cases hr : cfg.readonly <;> cases hc : cfg.createEnabled <;>
          cases hm : m.meets s <;> cases hpol : cfg.policy <;>
          simp [rfPass, faultAt, mutateUnguarded, hp, hde, hr, hc, hm, hpol] <;> intro h <;> exact h.symm
      · rw [rfPass_far m cfg k (by omega)] at h ⊢
        revert h
        cases hp : m.present s <;> cases hde : cfg.deleteIfExists <;> cases hr : cfg.readonly <;> cases hc : cfg.createEnabled <;>
          cases hm : m.meets s <;> cases hpol : cfg.policy <;>
          simp [rfPass, faultAt, mutateUnguarded, hp, hde, hr, hc, hm, hpol] <;> intro h <;> exact h.symm

/-- the one fault a Function cannot tell from the truth: a 404 on the GET of a `deleteIfExists` Function says "the
    object is gone", which is all that Function wants to hear -/
def Believable (cfg : RfCfg) (j : Nat) (k : FaultKind) : Prop :=
  cfg.deleteIfExists = true ∧ j = 0 ∧ k = .e404

/-- **a fault that is hit is never answered with Ok** (`j < calls.length`: the faulted call was issued) — except the
    believable 404 above -/
theorem rfPass_fault_never_ok (j : Nat) (k : FaultKind) (s : S)
    (hhit : j < (rfPass m cfg (some (j, k)) s).calls.length) (hnb : ¬ Believable cfg j k) :
    ∀ x, (rfPass m cfg (some (j, k)) s).ans ≠ .ok x := by
  intro x
  unfold Believable at hnb
  by_cases h0 : j = 0
  · subst h0; revert hhit hnb
    cases k <;> cases hp : m.present s <;> cases hde : cfg.deleteIfExists <;> cases hr : cfg.readonly <;> cases hc : cfg.createEnabled <;>
      cases hm : m.meets s <;> cases hpol : cfg.policy <;>
      simp [rfPass, faultAt, mutateUnguarded, hp, hde, hr, hc, hm, hpol]
  · by_cases h1 : j = 1
    · subst h1; revert hhit
      cases k <;> cases hp : m.present s <;> cases hde : cfg.deleteIfExists <;> cases hr : cfg.readonly <;> cases hc : cfg.createEnabled <;>
        cases hm : m.meets s <;> cases hpol : cfg.policy <;>
        simp [rfPass, faultAt, mutateUnguarded, hp, hde, hr, hc, hm, hpol]
    · exfalso
      rw [rfPass_far m cfg k (by omega)] at hhit
      revert hhit
      cases hp : m.present s <;> cases hde : cfg.deleteIfExists <;> cases hr : cfg.readonly <;> cases hc : cfg.createEnabled <;>
        cases hm : m.meets s <;> cases hpol : cfg.policy <;>
        simp [rfPass, faultAt, mutateUnguarded, hp, hde, hr, hc, hm, hpol] <;> omega

/-- the answer to a fault that is hit: Retry, PermFail, an escaping exception or a hang -/
theorem rfPass_fault_answer (j : Nat) (k : FaultKind) (s : S)
    (hhit : j < (rfPass m cfg (some (j, k)) s).calls.length) (hnb : ¬ Believable cfg j k) :
    (∃ d, (rfPass m cfg (some (j, k)) s).ans = .retry d) ∨ (rfPass m cfg (some (j, k)) s).ans = .permFail ∨
    (rfPass m cfg (some (j, k)) s).ans = .raised ∨ (rfPass m cfg (some (j, k)) s).ans = .hung := by
  cases h : (rfPass m cfg (some (j, k)) s).ans with
  | ok x => exact absurd h (rfPass_fault_never_ok m cfg j k s hhit hnb x)
  | retry d => exact Or.inl ⟨d, rfl⟩
  | permFail => exact Or.inr (Or.inl rfl)
  | raised => exact Or.inr (Or.inr (Or.inl rfl))
  | hung => exact Or.inr (Or.inr (Or.inr rfl))

/-- with create and patch reaching a matching object (C04) and no delete-to-recreate policy, the state after
    ONE fault-free evaluation is stable -/
theorem rfPass_stable (hconv : Converges m) (hpol : cfg.policy ≠ .recreate) (hnd : cfg.deleteIfExists = false)
    (s : S) :
    (rfPass m cfg none (rfPass m cfg none s).st).st = (rfPass m cfg none s).st := by
  cases hp : m.present s with
  | false =>
    obtain ⟨h1, h2⟩ := hconv.create_ok s hp
    cases hr : cfg.readonly <;> cases hc : cfg.createEnabled <;>
      simp [rfPass, faultAt, mutateUnguarded, hp, hr, hc, h1, h2, hnd]
  | true =>
    obtain ⟨h1, h2⟩ := hconv.patch_ok s hp
    cases hr : cfg.readonly <;> cases hm : m.meets s <;> cases hpo : cfg.policy <;>
      simp_all [rfPass, faultAt, mutateUnguarded]

theorem iter_stable (hconv : Converges m) (hpol : cfg.policy ≠ .recreate) (hnd : cfg.deleteIfExists = false)
    (s : S) :
    ∀ n, 1 ≤ n → iter m cfg n s = iter m cfg 1 s := by
  intro n hn
  induction n with
  | zero => omega
  | succ k ih =>
    cases k with
    | zero => rfl
    | succ k' =>
      have e : iter m cfg (k' + 1 + 1) s = iter m cfg (k' + 1) (rfPass m cfg none s).st := rfl
      rw [e]
      have : ∀ n s', (rfPass m cfg none s').st = s' → iter m cfg n s' = s' := by
        intro n
        induction n with
        | zero => intro s' _; rfl
        | succ q ihq => intro s' hs'; simp only [iter]; rw [hs']; exact ihq s' hs'
      rw [this _ _ (rfPass_stable m cfg hconv hpol hnd s)]
      rfl

/-- after any sequence of faulty evaluations the resource is where it started or where one fault-free
    evaluation takes it -/
theorem afterFaults_on_trajectory (hconv : Converges m) (hpol : cfg.policy ≠ .recreate)
    (hnd : cfg.deleteIfExists = false) (fs : List (Option (Nat × FaultKind))) (s0 : S) :
    afterFaults m cfg fs s0 = s0 ∨ afterFaults m cfg fs s0 = iter m cfg 1 s0 := by
  suffices h : ∀ s, (s = s0 ∨ s = iter m cfg 1 s0) →
      (afterFaults m cfg fs s = s0 ∨ afterFaults m cfg fs s = iter m cfg 1 s0) from h s0 (Or.inl rfl)
  induction fs with
  | nil => intro s hs; exact hs
  | cons f fs ih =>
    intro s hs
    simp only [afterFaults]
    apply ih
    rcases hs with rfl | rfl
    · rcases rfPass_state_between m cfg f s with h | h
      · exact Or.inl h
      · exact Or.inr h
    · right
      have hst : (rfPass m cfg none (iter m cfg 1 s0)).st = iter m cfg 1 s0 :=
        rfPass_stable m cfg hconv hpol hnd s0
      rcases rfPass_state_between m cfg f (iter m cfg 1 s0) with h | h
      · exact h
      · rw [h, hst]

end rf

/-! ## 5. repeated passes over a DAG of reconcilers -/

section dag
variable {S V R : Type}

theorem depVals_congr {okv : R → Option V} {r r' : Nat → R} {ds : List Nat}
    (h : ∀ d ∈ ds, okv (r d) = okv (r' d)) : depVals okv r ds = depVals okv r' ds := by
  induction ds with
  | nil => rfl
  | cons d ds ih =>
    simp only [depVals]
    rw [h d (by simp), ih (fun d' hd' => h d' (List.mem_cons_of_mem _ hd'))]

/-- if every Ok value in `r` is also the Ok value in `r'`, dependencies that are all Ok in `r` are so in `r'` -/
theorem depVals_mono {okv : R → Option V} {r r' : Nat → R} {ds : List Nat} {vs : List V}
    (h : ∀ d ∈ ds, ∀ v, okv (r d) = some v → okv (r' d) = some v)
    (hv : depVals okv r ds = some vs) : depVals okv r' ds = some vs := by
  induction ds generalizing vs with
  | nil => exact hv
  | cons d ds ih =>
    simp only [depVals] at hv ⊢
    cases h1 : okv (r d) with
    | none => simp [h1] at hv
    | some v =>
      cases h2 : depVals okv r ds with
      | none => simp [h1, h2] at hv
      | some ws =>
        rw [h1, h2] at hv
        rw [h d (by simp) v h1, ih (fun d' hd' => h d' (List.mem_cons_of_mem _ hd')) h2]
        exact hv

/-- the assumptions of the convergence theorem: dependencies point backwards; every reconciler is stable
    after one fault-free evaluation, changes nothing when it answers Ok, and a faulty evaluation does not
    change where the next fault-free one lands -/
structure Hyps (sys : DagSys S V R) (F : Nat → List V → S → S → Prop) : Prop where
  wf : ∀ i, ∀ d ∈ sys.deps i, d < i
  gated_not_ok : sys.okv sys.gated = none
  stable : ∀ i vs s, (sys.pass i vs (sys.pass i vs s).1).1 = (sys.pass i vs s).1
  ok_unchanged : ∀ i vs s v, sys.okv (sys.pass i vs s).2 = some v → (sys.pass i vs s).1 = s
  faulty_same_target : ∀ i vs s s', F i vs s s' → (sys.pass i vs s').1 = (sys.pass i vs s).1

variable {sys : DagSys S V R} {F : Nat → List V → S → S → Prop}

theorem finF_fuel (hwf : ∀ i, ∀ d ∈ sys.deps i, d < i) (c0 : Nat → S) :
    ∀ i fuel, i < fuel → finF sys c0 fuel i = finF sys c0 (i + 1) i := by
  intro i
  induction i using Nat.strongRecOn with
  | ind i ih =>
    intro fuel hf
    cases fuel with
    | zero => omega
    | succ f =>
      have hc : depVals sys.okv (fun d => (finF sys c0 f d).2) (sys.deps i) =
          depVals sys.okv (fun d => (finF sys c0 i d).2) (sys.deps i) := by
        apply depVals_congr
        intro d hd
        have hdi := hwf i d hd
        show sys.okv (finF sys c0 f d).2 = sys.okv (finF sys c0 i d).2
        rw [ih d hdi f (by omega), ih d hdi i hdi]
      simp only [finF]
      rw [hc]

/-- the defining equation of the limit -/
theorem fin_eq (hwf : ∀ i, ∀ d ∈ sys.deps i, d < i) (c0 : Nat → S) (i : Nat) :
    (finS sys c0 i, finR sys c0 i) =
      match depVals sys.okv (finR sys c0) (sys.deps i) with
      | some vs => ((sys.pass i vs (c0 i)).1, (sys.pass i vs (sys.pass i vs (c0 i)).1).2)
      | none => (c0 i, sys.gated) := by
  have hc : depVals sys.okv (fun d => (finF sys c0 i d).2) (sys.deps i) =
      depVals sys.okv (finR sys c0) (sys.deps i) := by
    apply depVals_congr
    intro d hd
    show sys.okv (finF sys c0 i d).2 = sys.okv (finF sys c0 (d + 1) d).2
    rw [finF_fuel hwf c0 d i (hwf i d hd)]
  show finF sys c0 (i + 1) i = _
  simp only [finF]
  rw [hc]
  cases depVals sys.okv (finR sys c0) (sys.deps i) <;> rfl

theorem fin_some (hwf : ∀ i, ∀ d ∈ sys.deps i, d < i) (c0 : Nat → S) (i : Nat) {vs : List V}
    (hd : depVals sys.okv (finR sys c0) (sys.deps i) = some vs) :
    finS sys c0 i = (sys.pass i vs (c0 i)).1 ∧
    finR sys c0 i = (sys.pass i vs (sys.pass i vs (c0 i)).1).2 := by
  have he := fin_eq hwf c0 i
  rw [hd] at he
  simp only [Prod.mk.injEq] at he
  exact he

theorem fin_none (hwf : ∀ i, ∀ d ∈ sys.deps i, d < i) (c0 : Nat → S) (i : Nat)
    (hd : depVals sys.okv (finR sys c0) (sys.deps i) = none) :
    finS sys c0 i = c0 i ∧ finR sys c0 i = sys.gated := by
  have he := fin_eq hwf c0 i
  rw [hd] at he
  simp only [Prod.mk.injEq] at he
  exact he

theorem passF_fuel (hwf : ∀ i, ∀ d ∈ sys.deps i, d < i) (c : Nat → S) :
    ∀ i fuel, i < fuel → passF sys c fuel i = passF sys c (i + 1) i := by
  intro i
  induction i using Nat.strongRecOn with
  | ind i ih =>
    intro fuel hf
    cases fuel with
    | zero => omega
    | succ f =>
      have hc : depVals sys.okv (fun d => (passF sys c f d).2) (sys.deps i) =
          depVals sys.okv (fun d => (passF sys c i d).2) (sys.deps i) := by
        apply depVals_congr
        intro d hd
        have hdi := hwf i d hd
        show sys.okv (passF sys c f d).2 = sys.okv (passF sys c i d).2
        rw [ih d hdi f (by omega), ih d hdi i hdi]
      simp only [passF]
      rw [hc]

/-- fault-free passes exist: `passS`/`passR` is one -/
theorem passF_isPass (hwf : ∀ i, ∀ d ∈ sys.deps i, d < i) (c : Nat → S) :
    IsPass sys c (passS sys c) (passR sys c) := by
  intro i _
  have hc : depVals sys.okv (fun d => (passF sys c i d).2) (sys.deps i) =
      depVals sys.okv (passR sys c) (sys.deps i) := by
    apply depVals_congr
    intro d hd
    show sys.okv (passF sys c i d).2 = sys.okv (passF sys c (d + 1) d).2
    rw [passF_fuel hwf c d i (hwf i d hd)]
  have he : passF sys c (i + 1) i =
      match depVals sys.okv (fun d => (passF sys c i d).2) (sys.deps i) with
      | some vs => sys.pass i vs (c i)
      | none => (c i, sys.gated) := rfl
  rw [hc] at he
  cases hd : depVals sys.okv (passR sys c) (sys.deps i) with
  | some vs =>
    rw [hd] at he
    exact ⟨congrArg Prod.fst he, congrArg Prod.snd he⟩
  | none =>
    rw [hd] at he
    exact ⟨congrArg Prod.fst he, congrArg Prod.snd he⟩

/-- a fault-free pass is a special faulty pass -/
theorem isPass_isFPass (h : Hyps sys F) {c c' : Nat → S} {r : Nat → R} (hp : IsPass sys c c' r) :
    IsFPass sys F c c' r := by
  intro i hi
  have := hp i hi
  cases hd : depVals sys.okv r (sys.deps i) with
  | some vs => rw [hd] at this; exact Or.inl this
  | none => rw [hd] at this; exact ⟨this.1, by rw [this.2]; exact h.gated_not_ok⟩

/-- the invariant of every state reachable through faulty passes: a step whose dependencies end Ok is in a
    state from which the next fault-free evaluation lands in the limit state; any other step is untouched -/
def Inv (sys : DagSys S V R) (c0 c : Nat → S) : Prop :=
  ∀ i, i < sys.n →
    match depVals sys.okv (finR sys c0) (sys.deps i) with
    | some vs => (sys.pass i vs (c i)).1 = finS sys c0 i
    | none => c i = c0 i

theorem inv_init (h : Hyps sys F) (c0 : Nat → S) : Inv sys c0 c0 := by
  intro i _
  cases hd : depVals sys.okv (finR sys c0) (sys.deps i) with
  | some vs => exact (fin_some h.wf c0 i hd).1.symm
  | none => rfl

/-- **results never lie, the invariant is kept**: in any (faulty) pass from a state satisfying the invariant,
    an Ok result is the limit's Ok result, and the invariant holds afterwards -/
theorem fpass_sound (h : Hyps sys F) {c0 c c' : Nat → S} {r : Nat → R}
    (hinv : Inv sys c0 c) (hp : IsFPass sys F c c' r) :
    (∀ i, i < sys.n → ∀ v, sys.okv (r i) = some v → sys.okv (finR sys c0 i) = some v) ∧ Inv sys c0 c' := by
  have key : ∀ i, i < sys.n →
      (∀ v, sys.okv (r i) = some v → sys.okv (finR sys c0 i) = some v) ∧
      (match depVals sys.okv (finR sys c0) (sys.deps i) with
        | some vs => (sys.pass i vs (c' i)).1 = finS sys c0 i
        | none => c' i = c0 i) := by
    intro i
    induction i using Nat.strongRecOn with
    | ind i ih =>
      intro hi
      have hpi := hp i hi
      have hii := hinv i hi
      cases hd : depVals sys.okv r (sys.deps i) with
      | some vs =>
        rw [hd] at hpi
        have hfd : depVals sys.okv (finR sys c0) (sys.deps i) = some vs := by
          apply depVals_mono _ hd
          intro d hdm v hv
          have hdi := h.wf i d hdm
          exact (ih d hdi (by omega)).1 v hv
        rw [hfd] at hii ⊢
        obtain ⟨heS, heR⟩ := fin_some h.wf c0 i hfd
        rcases hpi with ⟨hc', hr⟩ | ⟨hF, hnone⟩
        · constructor
          · intro v hv
            rw [hr] at hv
            have hun := h.ok_unchanged i vs (c i) v hv
            -- the state was already the limit state
            have hci : c i = finS sys c0 i := by rw [← hii, hun]
            rw [heR, ← heS, ← hci]
            exact hv
          · show (sys.pass i vs (c' i)).1 = finS sys c0 i
            rw [hc', h.stable, hii]
        · constructor
          · intro v hv; rw [hnone] at hv; cases hv
          · show (sys.pass i vs (c' i)).1 = finS sys c0 i
            rw [h.faulty_same_target i vs _ _ hF, hii]
      | none =>
        rw [hd] at hpi
        constructor
        · intro v hv; rw [hpi.2] at hv; cases hv
        · rw [hpi.1]; exact hii
  exact ⟨fun i hi => (key i hi).1, fun i hi => (key i hi).2⟩

theorem reach_inv (h : Hyps sys F) {c0 c : Nat → S} (hr : Reach sys F c0 c) : Inv sys c0 c := by
  induction hr with
  | refl => exact inv_init h c0
  | step _ hp ih => exact (fpass_sound h ih hp).2

/-- after `t` fault-free passes: steps `i` with `2 i + 1 ≤ t` are in their limit state -/
def Settled (sys : DagSys S V R) (c0 : Nat → S) (t : Nat) (c : Nat → S) : Prop :=
  ∀ i, i < sys.n → 2 * i + 1 ≤ t → c i = finS sys c0 i

/-- **progress**: one more fault-free pass settles the next layer — step `i` reaches its limit state in pass
    `2 i + 1` and shows its limit result from pass `2 i + 2` on -/
theorem pass_progress (h : Hyps sys F) {c0 c c' : Nat → S} {r : Nat → R} {t : Nat}
    (hinv : Inv sys c0 c) (hs : Settled sys c0 t c) (hp : IsPass sys c c' r) :
    ∀ i, i < sys.n → (2 * i ≤ t → c' i = finS sys c0 i) ∧ (2 * i + 1 ≤ t → r i = finR sys c0 i) := by
  intro i
  induction i using Nat.strongRecOn with
  | ind i ih =>
    intro hi
    by_cases ht : 2 * i ≤ t
    · have hpi := hp i hi
      have hii := hinv i hi
      have hdv : depVals sys.okv r (sys.deps i) = depVals sys.okv (finR sys c0) (sys.deps i) := by
        apply depVals_congr
        intro d hdm
        have hdi := h.wf i d hdm
        rw [(ih d hdi (by omega)).2 (by omega)]
      rw [hdv] at hpi
      cases hd : depVals sys.okv (finR sys c0) (sys.deps i) with
      | some vs =>
        rw [hd] at hpi hii
        obtain ⟨heS, heR⟩ := fin_some h.wf c0 i hd
        refine ⟨fun _ => by rw [hpi.1]; exact hii, fun ht1 => ?_⟩
        rw [hpi.2, hs i hi ht1, heR, ← heS]
      | none =>
        rw [hd] at hpi hii
        obtain ⟨heS, heR⟩ := fin_none h.wf c0 i hd
        exact ⟨fun _ => by rw [hpi.1, hii, heS], fun _ => by rw [hpi.2, heR]⟩
    · exact ⟨fun h' => absurd h' ht, fun h' => absurd (by omega) ht⟩

theorem cleanRun_settles (h : Hyps sys F) {c0 : Nat → S} {N : Nat} {c cN : Nat → S} {t : Nat}
    (hinv : Inv sys c0 c) (hs : Settled sys c0 t c) (hrun : CleanRun sys N c cN) :
    Settled sys c0 (t + N) cN ∧ Inv sys c0 cN := by
  induction hrun generalizing t with
  | zero => exact ⟨hs, hinv⟩
  | @succ N c c' c'' r hp _ ih =>
    have hinv' := (fpass_sound h hinv (isPass_isFPass h hp)).2
    have hs' : Settled sys c0 (t + 1) c' := fun i hi ht => ((pass_progress h hinv hs hp) i hi).1 (by omega)
    have := ih hinv' hs'
    rw [show t + (N + 1) = t + 1 + N by omega]
    exact this

end dag

end Koreo.WorkflowFaults
