/-
  Helper lemmas for C10 (`Koreo/EvalScan.lean`): the scan finds exactly the error objects;
  the tree functions values flow through do not create error objects; a small Hoare-style
  calculus (`Run.Sat`) for programs built from `site`.
-/
import Koreo.EvalScan
namespace Koreo.EvalScan
open ETree Run

/-! ## scan ↔ HasErr -/

mutual
theorem scan_iff (t : ETree) : scan t = true ↔ HasErr t := by
  cases t with
  | err => simp [scan, HasErr.here]
  | arr xs =>
    simp only [scan]
    rw [scanL_iff xs]
    constructor
    · rintro ⟨x, hx, h⟩; exact .item hx h
    · intro h; cases h with | item hx h => exact ⟨_, hx, h⟩
  | obj kvs =>
    simp only [scan]
    rw [scanO_iff kvs]
    constructor
    · rintro ⟨k, v, hm, h⟩
      rcases h with rfl | h
      · exact .key hm
      · exact .value hm h
    · intro h
      cases h with
      | key hm => exact ⟨_, _, hm, .inl rfl⟩
      | value hm h => exact ⟨_, _, hm, .inr h⟩
  | null => simp [scan]; intro h; cases h
  | bool b => simp [scan]; intro h; cases h
  | int n => simp [scan]; intro h; cases h
  | flt e => simp [scan]; intro h; cases h
  | str s => simp [scan]; intro h; cases h
theorem scanL_iff (xs : List ETree) : scanL xs = true ↔ ∃ x, x ∈ xs ∧ HasErr x := by
  cases xs with
  | nil => simp [scanL]
  | cons x xs =>
    simp only [scanL, Bool.or_eq_true, List.mem_cons]
    rw [scan_iff x, scanL_iff xs]
    constructor
    · rintro (h | ⟨y, hy, h⟩)
      · exact ⟨x, .inl rfl, h⟩
      · exact ⟨y, .inr hy, h⟩
    · rintro ⟨y, rfl | hy, h⟩
      · exact .inl h
      · exact .inr ⟨y, hy, h⟩
theorem scanO_iff (kvs : List (EKey × ETree)) :
    scanO kvs = true ↔ ∃ k v, (k, v) ∈ kvs ∧ (k = .err ∨ HasErr v) := by
  cases kvs with
  | nil => simp [scanO]
  | cons kv rest =>
    obtain ⟨k, v⟩ := kv
    simp only [scanO, Bool.or_eq_true, List.mem_cons]
    rw [scan_iff v, scanO_iff rest]
    constructor
    · rintro ((h | h) | ⟨k', v', hm, h⟩)
      · refine ⟨k, v, .inl rfl, .inl ?_⟩
        cases k <;> simp_all
      · exact ⟨k, v, .inl rfl, .inr h⟩
      · exact ⟨k', v', .inr hm, h⟩
    · rintro ⟨k', v', hm | hm, h⟩
      · cases hm
        rcases h with rfl | h
        · exact .inl (.inl rfl)
        · exact .inl (.inr h)
      · exact .inr ⟨k', v', hm, h⟩
end

theorem scan_false_iff (t : ETree) : scan t = false ↔ ErrFree t := by
  unfold ErrFree
  rw [← scan_iff]
  cases scan t <;> simp

/-! ## error-freeness of containers -/

/-- every binding has a string key and an error-free value -/
def CleanKvs (kvs : List (EKey × ETree)) : Prop := ∀ kv ∈ kvs, kv.1 ≠ .err ∧ ErrFree kv.2

def CleanList (xs : List ETree) : Prop := ∀ x ∈ xs, ErrFree x

theorem errFree_arr (xs : List ETree) : ErrFree (.arr xs) ↔ CleanList xs := by
  unfold ErrFree CleanList
  constructor
  · intro h x hx hx'; exact h (.item hx hx')
  · intro h h'; cases h' with | item hx hx' => exact h _ hx hx'

theorem errFree_obj (kvs : List (EKey × ETree)) : ErrFree (.obj kvs) ↔ CleanKvs kvs := by
  unfold ErrFree CleanKvs
  constructor
  · intro h kv hkv
    obtain ⟨k, v⟩ := kv
    refine ⟨?_, fun hv => h (.value hkv hv)⟩
    rintro rfl
    exact h (.key hkv)
  · intro h h'
    cases h' with
    | key hm => exact (h _ hm).1 rfl
    | value hm hv => exact (h _ hm).2 hv

theorem errFree_scalar {t : ETree} (h : scan t = false) : ErrFree t := (scan_false_iff t).mp h

theorem errFree_null : ErrFree .null := errFree_scalar rfl
theorem errFree_str (s : String) : ErrFree (.str s) := errFree_scalar rfl
theorem errFree_bool (b : Bool) : ErrFree (.bool b) := errFree_scalar rfl
theorem cleanKvs_nil : CleanKvs [] := by intro kv h; cases h
theorem errFree_emptyObj : ErrFree (.obj []) := (errFree_obj []).mpr cleanKvs_nil

theorem cleanKvs_cons {k : EKey} {v : ETree} {rest : List (EKey × ETree)} :
    CleanKvs ((k, v) :: rest) ↔ (k ≠ .err ∧ ErrFree v) ∧ CleanKvs rest := by
  simp [CleanKvs]

theorem cleanKvs_kvsOf {t : ETree} (h : ErrFree t) : CleanKvs (kvsOf t) := by
  cases t <;> simp only [kvsOf] <;> first | exact (errFree_obj _).mp h | exact cleanKvs_nil

theorem cleanKvs_lookup {kvs : List (EKey × ETree)} (h : CleanKvs kvs) {k : EKey} {v : ETree}
    (hl : lookup k kvs = some v) : ErrFree v := by
  induction kvs with
  | nil => simp [lookup] at hl
  | cons kv rest ih =>
    obtain ⟨k', v'⟩ := kv
    rw [cleanKvs_cons] at h
    simp only [lookup] at hl
    split at hl
    · cases hl; exact h.1.2
    · exact ih h.2 hl

theorem errFree_lookup_getD {kvs : List (EKey × ETree)} (h : CleanKvs kvs) (k : EKey) {d : ETree}
    (hd : ErrFree d) : ErrFree ((lookup k kvs).getD d) := by
  cases hl : lookup k kvs with
  | none => simpa using hd
  | some v => simpa using cleanKvs_lookup h hl

theorem cleanKvs_insert {kvs : List (EKey × ETree)} (h : CleanKvs kvs) {k : EKey} {v : ETree}
    (hk : k ≠ .err) (hv : ErrFree v) : CleanKvs (insert k v kvs) := by
  induction kvs with
  | nil => simp [ETree.insert, CleanKvs, hk, hv]
  | cons kv rest ih =>
    obtain ⟨k', v'⟩ := kv
    rw [cleanKvs_cons] at h
    simp only [ETree.insert]
    split
    · exact cleanKvs_cons.mpr ⟨⟨hk, hv⟩, h.2⟩
    · exact cleanKvs_cons.mpr ⟨h.1, ih h.2⟩

theorem cleanKvs_erase {kvs : List (EKey × ETree)} (h : CleanKvs kvs) (k : EKey) : CleanKvs (erase k kvs) := by
  induction kvs with
  | nil => simpa [erase] using h
  | cons kv rest ih =>
    obtain ⟨k', v'⟩ := kv
    rw [cleanKvs_cons] at h
    simp only [erase]
    split
    · exact h.2
    · exact cleanKvs_cons.mpr ⟨h.1, ih h.2⟩

theorem cleanList_getD {xs : List ETree} (h : CleanList xs) (i : Nat) : ErrFree (xs.getD i .null) := by
  rw [List.getD_eq_getElem?_getD]
  cases hi : xs[i]? with
  | none => simpa using errFree_null
  | some v => simpa using h v (List.mem_of_getElem? hi)

theorem cleanList_append {xs ys : List ETree} (hx : CleanList xs) (hy : CleanList ys) : CleanList (xs ++ ys) := by
  intro x hmem
  rcases List.mem_append.mp hmem with h | h
  · exact hx x h
  · exact hy x h

/-! ## the tree functions preserve error-freeness -/

mutual
theorem applyIdx_errFree (values : List ETree) (hv : CleanList values) (b : ETree) (hb : ErrFree b)
    (ix : Index) : ErrFree (applyIdx values b ix) := by
  cases ix with
  | leaf i => simpa [applyIdx] using cleanList_getD hv i
  | node kids =>
    simp only [applyIdx]
    exact (errFree_obj _).mpr (applyKids_clean values hv (kvsOf b) (cleanKvs_kvsOf hb) kids _ (cleanKvs_kvsOf hb))
theorem applyKids_clean (values : List ETree) (hv : CleanList values) (base : List (EKey × ETree))
    (hb : CleanKvs base) (kids : List (String × Index)) (acc : List (EKey × ETree)) (ha : CleanKvs acc) :
    CleanKvs (applyKids values base kids acc) := by
  cases kids with
  | nil => simpa [applyKids] using ha
  | cons kix rest =>
    obtain ⟨k, ix⟩ := kix
    simp only [applyKids]
    apply applyKids_clean values hv base hb rest
    apply cleanKvs_insert ha (by simp)
    exact applyIdx_errFree values hv _ (errFree_lookup_getD hb _ errFree_null) ix
end

mutual
theorem deepOverlay_errFree (r : ETree) (hr : ErrFree r) (o : ETree) (ho : ErrFree o) :
    ErrFree (deepOverlay r o) := by
  cases o with
  | obj okvs =>
    simp only [deepOverlay]
    exact (errFree_obj _).mpr
      (deepOverlayO_clean (kvsOf r) (cleanKvs_kvsOf hr) okvs ((errFree_obj _).mp ho))
  | null => simpa [deepOverlay] using ho
  | bool b => simpa [deepOverlay] using ho
  | int n => simpa [deepOverlay] using ho
  | flt e => simpa [deepOverlay] using ho
  | str s => simpa [deepOverlay] using ho
  | arr xs => simpa [deepOverlay] using ho
  | err => simpa [deepOverlay] using ho
theorem deepOverlayO_clean (res : List (EKey × ETree)) (hr : CleanKvs res)
    (okvs : List (EKey × ETree)) (ho : CleanKvs okvs) : CleanKvs (deepOverlayO res okvs) := by
  cases okvs with
  | nil => simpa [deepOverlayO] using hr
  | cons kv rest =>
    obtain ⟨k, ov⟩ := kv
    rw [cleanKvs_cons] at ho
    simp only [deepOverlayO]
    apply deepOverlayO_clean _ _ rest ho.2
    apply cleanKvs_insert hr ho.1.1
    cases ov with
    | obj okv =>
      cases hl : lookup k res with
      | none => exact ho.1.2
      | some rv =>
        cases rv with
        | obj rkvs => exact deepOverlay_errFree (.obj rkvs) (cleanKvs_lookup hr hl) (.obj okv) ho.1.2
        | null => exact ho.1.2
        | bool b => exact ho.1.2
        | int n => exact ho.1.2
        | flt e => exact ho.1.2
        | str s => exact ho.1.2
        | arr xs => exact ho.1.2
        | err => exact ho.1.2
    | null => exact ho.1.2
    | bool b => exact ho.1.2
    | int n => exact ho.1.2
    | flt e => exact ho.1.2
    | str s => exact ho.1.2
    | arr xs => exact ho.1.2
    | err => exact ho.1.2
end

mutual
theorem convert_errFree (t : ETree) (h : ErrFree t) : ErrFree (convert t) := by
  cases t with
  | arr xs => simp only [convert]; exact (errFree_arr _).mpr (convertL_clean xs ((errFree_arr _).mp h))
  | obj kvs => simp only [convert]; exact (errFree_obj _).mpr (convertO_clean kvs ((errFree_obj _).mp h))
  | null => simpa [convert] using h
  | bool b => simpa [convert] using h
  | int n => simpa [convert] using h
  | flt e => simpa [convert] using h
  | str s => simpa [convert] using h
  | err => simpa [convert] using h
theorem convertL_clean (xs : List ETree) (h : CleanList xs) : CleanList (convertL xs) := by
  cases xs with
  | nil => simpa [convertL] using h
  | cons x xs =>
    simp only [convertL]
    intro y hy
    rcases List.mem_cons.mp hy with rfl | hy
    · exact convert_errFree x (h x (by simp))
    · exact convertL_clean xs (fun z hz => h z (by simp [hz])) y hy
theorem convertO_clean (kvs : List (EKey × ETree)) (h : CleanKvs kvs) : CleanKvs (convertO kvs) := by
  cases kvs with
  | nil => simpa [convertO] using h
  | cons kv rest =>
    obtain ⟨k, v⟩ := kv
    rw [cleanKvs_cons] at h
    simp only [convertO]
    exact cleanKvs_cons.mpr ⟨⟨h.1.1, convert_errFree v h.1.2⟩, convertO_clean rest h.2⟩
end

mutual
theorem stripE_errFree (t : ETree) (h : ErrFree t) : ErrFree (stripE t) := by
  cases t with
  | arr xs => simp only [stripE]; exact (errFree_arr _).mpr (stripEL_clean xs ((errFree_arr _).mp h))
  | obj kvs => simp only [stripE]; exact (errFree_obj _).mpr (stripEO_clean kvs ((errFree_obj _).mp h))
  | null => simpa [stripE] using h
  | bool b => simpa [stripE] using h
  | int n => simpa [stripE] using h
  | flt e => simpa [stripE] using h
  | str s => simpa [stripE] using h
  | err => simpa [stripE] using h
theorem stripEL_clean (xs : List ETree) (h : CleanList xs) : CleanList (stripEL xs) := by
  cases xs with
  | nil => simpa [stripEL] using h
  | cons x xs =>
    simp only [stripEL]
    intro y hy
    rcases List.mem_cons.mp hy with rfl | hy
    · exact stripE_errFree x (h x (by simp))
    · exact stripEL_clean xs (fun z hz => h z (by simp [hz])) y hy
theorem stripEO_clean (kvs : List (EKey × ETree)) (h : CleanKvs kvs) : CleanKvs (stripEO kvs) := by
  cases kvs with
  | nil => simpa [stripEO] using h
  | cons kv rest =>
    obtain ⟨k, v⟩ := kv
    rw [cleanKvs_cons] at h
    simp only [stripEO]
    split
    · exact stripEO_clean rest h.2
    · exact cleanKvs_cons.mpr ⟨⟨h.1.1, stripE_errFree v h.1.2⟩, stripEO_clean rest h.2⟩
end

theorem prepareForApi_errFree' (render : ETree → String) (t : ETree) (h : ErrFree t) (p : ETree)
    (hp : prepareForApi render t = some p) : ErrFree p := by
  have hs := stripE_errFree t h
  have hk := cleanKvs_kvsOf hs
  unfold prepareForApi at hp
  simp only [(scan_false_iff _).mpr hs, Bool.false_eq_true, if_false] at hp
  have hmd : ErrFree ((lookup (.str "metadata") (kvsOf (stripE t))).getD (.obj [])) :=
    errFree_lookup_getD hk _ errFree_emptyObj
  split at hp
  · rename_i md hmdeq
    rw [hmdeq] at hmd
    have hmdk := (errFree_obj _).mp hmd
    have hann : ErrFree ((lookup (.str "annotations") md).getD (.obj [])) :=
      errFree_lookup_getD hmdk _ errFree_emptyObj
    split at hp
    · rename_i ann hanneq
      rw [hanneq] at hann
      cases hp
      refine (errFree_obj _).mpr (cleanKvs_insert hk (by simp) ((errFree_obj _).mpr ?_))
      refine cleanKvs_insert hmdk (by simp) ((errFree_obj _).mpr ?_)
      exact cleanKvs_insert ((errFree_obj _).mp hann) (by simp) (errFree_str _)
    · cases hp
  · cases hp

mutual
theorem embed_errFree (j : JVal) : ErrFree (embed j) := by
  cases j with
  | arr xs => simp only [embed]; exact (errFree_arr _).mpr (embedL_clean xs)
  | obj kvs => simp only [embed]; exact (errFree_obj _).mpr (embedO_clean kvs)
  | null => exact errFree_scalar rfl
  | bool b => exact errFree_scalar rfl
  | int n => exact errFree_scalar rfl
  | flt e => exact errFree_scalar rfl
  | str s => exact errFree_scalar rfl
theorem embedL_clean (xs : List JVal) : CleanList (embedL xs) := by
  cases xs with
  | nil => intro x h; cases h
  | cons x xs =>
    simp only [embedL]
    intro y hy
    rcases List.mem_cons.mp hy with rfl | hy
    · exact embed_errFree x
    · exact embedL_clean xs y hy
theorem embedO_clean (kvs : List (String × JVal)) : CleanKvs (embedO kvs) := by
  cases kvs with
  | nil => exact cleanKvs_nil
  | cons kv rest =>
    obtain ⟨k, v⟩ := kv
    simp only [embedO]
    exact cleanKvs_cons.mpr ⟨⟨by simp, embed_errFree v⟩, embedO_clean rest⟩
end

mutual
/-- on JSON values `stripE` is `Koreo.strip` (the model shared with C08) -/
theorem stripE_embed (j : JVal) : stripE (embed j) = embed (strip j) := by
  cases j with
  | arr xs => simp only [embed, stripE, strip]; rw [stripEL_embed xs]
  | obj kvs => simp only [embed, stripE, strip]; rw [stripEO_embed kvs]
  | null => rfl
  | bool b => rfl
  | int n => rfl
  | flt e => rfl
  | str s => rfl
theorem stripEL_embed (xs : List JVal) : stripEL (embedL xs) = embedL (stripL xs) := by
  cases xs with
  | nil => rfl
  | cons x xs => simp only [embedL, stripEL, stripL]; rw [stripE_embed x, stripEL_embed xs]
theorem stripEO_embed (kvs : List (String × JVal)) : stripEO (embedO kvs) = embedO (stripO kvs) := by
  cases kvs with
  | nil => rfl
  | cons kv rest =>
    obtain ⟨k, v⟩ := kv
    by_cases hd : isDirective k = true
    · simp only [embedO, stripEO, stripO, isDirectiveKey, hd, if_true]
      exact stripEO_embed rest
    · simp only [embedO, stripEO, stripO, isDirectiveKey, hd]
      rw [stripE_embed v, stripEO_embed rest]; rfl
end

/-! ## a calculus for programs built from `site` -/

namespace Run

@[simp] theorem pure_evals (a : α) : (pure a : Run α).evals = [] := rfl
@[simp] theorem pure_outs (a : α) : (pure a : Run α).outs = [] := rfl
@[simp] theorem pure_res (a : α) : (pure a : Run α).res = .ok a := rfl

theorem bind_def (m : Run α) (f : α → Run β) : (m >>= f) = bind' m f := rfl

/-- `Sat eval m P`: (0) the log consists of the oracle's answers, (1) an evaluation that failed is
    answered by a PermFail located at that very site, (2) everything that left the Function is
    error-free, (3) an Ok result satisfies `P` -/
structure Sat (eval : Oracle) (m : Run α) (P : α → Prop) : Prop where
  faithful : ∀ e ∈ m.evals, e.2 = eval e.1
  located : ∀ e ∈ m.evals, e.2.bad = true → m.res = .error (.permFail e.1 .evalError)
  outs : ∀ o ∈ m.outs, ErrFree o.2
  post : ∀ a, m.res = .ok a → P a

theorem Sat.pure {eval : Oracle} {a : α} {P : α → Prop} (h : P a) : Sat eval (pure a : Run α) P :=
  ⟨by simp, by simp, by simp, by intro b hb; cases hb; exact h⟩

theorem Sat.fail {eval : Oracle} (st : Stop) {P : α → Prop} : Sat eval (fail st : Run α) P :=
  ⟨by simp [Run.fail], by simp [Run.fail], by simp [Run.fail], by intro b hb; cases hb⟩

theorem Sat.emit {eval : Oracle} (o : Out) {t : ETree} (h : ErrFree t) : Sat eval (emit o t) (fun _ => True) :=
  ⟨by simp [Run.emit], by simp [Run.emit], by simp [Run.emit, h], by intros; trivial⟩

theorem Sat.mono {eval : Oracle} {m : Run α} {P Q : α → Prop} (h : Sat eval m P) (hpq : ∀ a, P a → Q a) :
    Sat eval m Q :=
  ⟨h.faithful, h.located, h.outs, fun a ha => hpq a (h.post a ha)⟩

theorem Sat.bind {eval : Oracle} {m : Run α} {f : α → Run β} {P : α → Prop} {Q : β → Prop}
    (hm : Sat eval m P) (hf : ∀ a, P a → Sat eval (f a) Q) : Sat eval (m >>= f) Q := by
  rw [bind_def]
  unfold bind'
  cases hres : m.res with
  | error e =>
    refine ⟨hm.faithful, ?_, hm.outs, ?_⟩
    · intro ev hev hbad
      have := hm.located ev hev hbad
      rw [hres] at this
      simpa using this
    · intro b hb; cases hb
  | ok a =>
    have hfa := hf a (hm.post a hres)
    refine ⟨?_, ?_, ?_, ?_⟩
    · intro ev hev
      simp only [List.mem_append] at hev
      rcases hev with hev | hev
      · exact hm.faithful ev hev
      · exact hfa.faithful ev hev
    · intro ev hev hbad
      simp only [List.mem_append] at hev
      rcases hev with hev | hev
      · have := hm.located ev hev hbad
        rw [hres] at this; cases this
      · exact hfa.located ev hev hbad
    · intro o ho
      simp only [List.mem_append] at ho
      rcases ho with ho | ho
      · exact hm.outs o ho
      · exact hfa.outs o ho
    · intro b hb; exact hfa.post b hb

theorem Sat.site (eval : Oracle) (s : Site) : Sat eval (site eval s) ErrFree := by
  unfold EvalScan.site
  cases he : eval s with
  | raised => exact ⟨by simp [he], by simp [EvalResult.bad], by simp, by intro a ha; cases ha⟩
  | val t =>
    simp only []
    by_cases hs : scan t = true
    · rw [if_pos hs]
      exact ⟨by simp [he], by simp [EvalResult.bad, hs], by simp, by intro a ha; cases ha⟩
    · rw [if_neg hs]
      refine ⟨by simp [he], by simp [EvalResult.bad, hs], by simp, ?_⟩
      intro a ha
      cases ha
      exact (scan_false_iff _).mp (by simpa using hs)

/-- `attempt` keeps the log and the outputs; what it hands over is the run's own result -/
theorem attempt_evals (m : Run α) : (attempt m).evals = m.evals := rfl
theorem attempt_outs (m : Run α) : (attempt m).outs = m.outs := rfl
theorem attempt_res (m : Run α) : (attempt m).res = .ok m.res := rfl

end Run

/-! ## the Function models satisfy the calculus -/


theorem siteOpt_sat (eval : Oracle) (s : Site) (present : Bool) : Sat eval (siteOpt eval s present) ErrFree := by
  unfold siteOpt
  split
  · exact Sat.site eval s
  · exact Sat.pure errFree_null

theorem evalPredicates_sat (eval : Oracle) (interp : Interp) (s : Site) (present : Bool) :
    Sat eval (evalPredicates eval interp s present) (fun _ => True) := by
  unfold evalPredicates
  split
  · apply Sat.bind (Sat.site eval s)
    intro t _
    split
    · split
      · exact Sat.fail _
      · exact Sat.pure trivial
    · exact Sat.fail _
  · exact Sat.pure trivial

theorem evalOverlay_sat (eval : Oracle) (s : Site) (index : List (String × Index)) (base : ETree)
    (hb : ErrFree base) : Sat eval (evalOverlay eval s index base) ErrFree := by
  unfold evalOverlay
  apply Sat.bind (Sat.site eval s)
  intro vs hvs
  split
  · rename_i values
    apply Sat.pure
    exact (errFree_obj _).mpr
      (applyKids_clean values ((errFree_arr _).mp hvs) _ (cleanKvs_kvsOf hb) index _ (cleanKvs_kvsOf hb))
  · exact Sat.fail _

theorem expectMap_sat {eval : Oracle} (s : Site) (t : ETree) (h : ErrFree t) : Sat eval (expectMap s t) ErrFree := by
  unfold expectMap
  split
  · exact Sat.pure h
  · exact Sat.fail _

theorem vfRun_sat (eval : Oracle) (interp : Interp) (loc : VfSite → Site) (f : VF) (base : Option ETree)
    (hb : ∀ b, base = some b → ErrFree b) : Sat eval (vfRun eval interp loc f base) ErrFree := by
  unfold vfRun
  apply Sat.bind (evalPredicates_sat eval interp _ _)
  intro _ _
  split
  · exact Sat.pure errFree_null
  · apply Sat.bind (siteOpt_sat eval _ _)
    intro l hl
    apply Sat.bind (P := ErrFree)
    · split
      · exact expectMap_sat _ _ hl
      · exact Sat.pure hl
    · intro _ _
      apply evalOverlay_sat
      cases base with
      | none => exact errFree_emptyObj
      | some b => exact hb b rfl

theorem forcedOverlay_errFree (env : Env) (name : String) (ns : Option String) :
    ErrFree (forcedOverlay env name ns) := by
  apply errFree_scalar
  cases ns <;> simp [forcedOverlay, scan, scanO]

theorem overlayForced_sat {eval : Oracle} (s : Site) (t forced : ETree) (ht : ErrFree t) (hf : ErrFree forced) :
    Sat eval (overlayForced s t forced) ErrFree := by
  unfold overlayForced
  simp only []
  split
  · exact Sat.fail _
  · exact Sat.pure (deepOverlay_errFree t ht forced hf)

theorem constructTemplate_sat (eval : Oracle) (loc : Site → Site) (f : RF) (env : Env) (forced : ETree)
    (henv : env.Clean) (hf : ErrFree forced) : Sat eval (constructTemplate eval loc f env forced) ErrFree := by
  unfold constructTemplate
  split
  · exact Sat.pure hf
  · apply Sat.bind (Sat.site eval _)
    intro n hn
    split
    · split
      · rename_i t ht
        exact overlayForced_sat _ _ _ (henv.templates _ _ ht) hf
      · exact Sat.fail _
    · exact Sat.fail _
  · apply Sat.bind (siteOpt_sat eval _ _)
    intro t ht
    split
    · exact overlayForced_sat _ _ _ ht hf
    · split
      · exact Sat.fail _
      · exact overlayForced_sat _ _ _ errFree_emptyObj hf
    · exact Sat.fail _

theorem skipIf_sat (eval : Oracle) (s : Site) (hasSkipIf : Bool) :
    Sat eval (if hasSkipIf = true then do
      let v ← site eval s
      match v with
      | .bool b => pure b
      | _ => fail (.permFail s .badType)
      else pure false : Run Bool) (fun _ => True) := by
  split
  · apply Sat.bind (Sat.site eval s)
    intro v _
    split
    · exact Sat.pure trivial
    · exact Sat.fail _
  · exact Sat.pure trivial

theorem overlayStep_sat (eval : Oracle) (interp : Interp) (loc : Site → Site) (i : Nat) (res : ETree)
    (hr : ErrFree res) (st : OverlayStep) : Sat eval (overlayStep eval interp loc i res st) ErrFree := by
  cases st with
  | inline hasSkipIf index =>
    unfold overlayStep
    apply Sat.bind (skipIf_sat eval _ hasSkipIf)
    intro skip _
    split
    · exact Sat.pure hr
    · apply Sat.bind (evalOverlay_sat eval _ index res hr)
      intro r hr'
      split
      · exact Sat.fail _
      · exact Sat.pure hr'
  | ref hasSkipIf hasInputs vf =>
    unfold overlayStep
    apply Sat.bind (skipIf_sat eval _ hasSkipIf)
    intro skip _
    split
    · exact Sat.pure hr
    · apply Sat.bind (siteOpt_sat eval _ _)
      intro _ _
      apply Sat.bind (vfRun_sat eval interp _ vf (some res) (by intro b hb; cases hb; exact hr))
      intro r hr'
      split
      · split
        · exact Sat.fail _
        · exact Sat.pure hr'
      · exact Sat.fail _

theorem overlaysLoop_sat (eval : Oracle) (interp : Interp) (loc : Site → Site) (steps : List OverlayStep) :
    ∀ (i : Nat) (res : ETree), ErrFree res → Sat eval (overlaysLoop eval interp loc i res steps) ErrFree := by
  induction steps with
  | nil => intro i res hr; unfold overlaysLoop; exact Sat.pure hr
  | cons st rest ih =>
    intro i res hr
    unfold overlaysLoop
    apply Sat.bind (overlayStep_sat eval interp loc i res hr st)
    intro r hr'
    exact ih (i + 1) r hr'

theorem withOwner_errFree (ownerRef src view : ETree) (ho : ErrFree ownerRef) (hs : ErrFree src)
    (hv : ErrFree view) (v : ETree) (h : withOwner ownerRef src view = some v) : ErrFree v := by
  unfold withOwner at h
  split at h
  · rename_i smd md hsmd hmd
    cases h
    have hsmdc := (errFree_obj _).mp (cleanKvs_lookup (cleanKvs_kvsOf hs) hsmd)
    have hmdc := (errFree_obj _).mp (cleanKvs_lookup (cleanKvs_kvsOf hv) hmd)
    refine (errFree_obj _).mpr (cleanKvs_insert (cleanKvs_kvsOf hv) (by simp) ((errFree_obj _).mpr ?_))
    refine cleanKvs_insert hmdc (by simp) ((errFree_arr _).mpr ?_)
    split
    · rename_i xs hxs
      exact cleanList_append ((errFree_arr _).mp (cleanKvs_lookup hsmdc hxs))
        (by intro x hx; simp at hx; subst hx; exact ho)
    · intro x hx; simp at hx; subst hx; exact ho
  · cases h

theorem dropOwnerRefs_errFree (view : ETree) (hv : ErrFree view) : ErrFree (dropOwnerRefs view) := by
  unfold dropOwnerRefs
  split
  · rename_i md hmd
    have hmdc := (errFree_obj _).mp (cleanKvs_lookup (cleanKvs_kvsOf hv) hmd)
    exact (errFree_obj _).mpr (cleanKvs_insert (cleanKvs_kvsOf hv) (by simp)
      ((errFree_obj _).mpr (cleanKvs_erase hmdc _)))
  · exact hv

theorem sendPrepared_sat {eval : Oracle} (env : Env) (o : Out) (view : ETree) (hv : ErrFree view) :
    Sat eval (sendPrepared env o view) (fun _ => True) := by
  unfold sendPrepared
  split
  · rename_i body hb
    exact Sat.emit o (prepareForApi_errFree' env.render _ (convert_errFree view hv) body hb)
  · exact Sat.fail _

theorem createPath_sat (eval : Oracle) (loc : Site → Site) (f : RF) (env : Env) (expected forced : ETree)
    (henv : env.Clean) (he : ErrFree expected) (hf : ErrFree forced) :
    Sat eval (createPath eval loc f env expected forced) ErrFree := by
  unfold createPath
  apply Sat.bind (P := ErrFree)
  · split
    · apply Sat.bind (evalOverlay_sat eval _ _ expected he)
      intro v hv
      split
      · exact Sat.fail _
      · exact Sat.pure hv
    · exact Sat.pure he
  · intro view hview
    apply Sat.bind (overlayForced_sat _ _ _ hview hf)
    intro view hview
    apply Sat.bind (P := ErrFree)
    · split
      · split
        · rename_i v hv
          exact Sat.pure (withOwner_errFree _ _ _ henv.ownerRef hview hview v hv)
        · exact Sat.fail _
      · exact Sat.pure hview
    · intro view hview
      apply Sat.bind (sendPrepared_sat env .post view hview)
      intro _ _
      exact Sat.fail _

theorem updatePath_sat {eval : Oracle} (f : RF) (env : Env) (loc : Site → Site) (live expected : ETree)
    (henv : env.Clean) (hl : ErrFree live) (he : ErrFree expected) :
    Sat eval (updatePath f env loc live expected) ErrFree := by
  unfold updatePath
  simp only []
  split
  · exact Sat.pure hl
  · split
    · exact Sat.pure hl
    · apply Sat.bind (Sat.emit .delete errFree_null)
      intro _ _
      exact Sat.fail _
    · apply Sat.bind (P := ErrFree)
      · split
        · split
          · rename_i v hv
            exact Sat.pure (withOwner_errFree _ _ _ henv.ownerRef hl (convert_errFree _ he) v hv)
          · exact Sat.fail _
        · exact Sat.pure (dropOwnerRefs_errFree _ (convert_errFree _ he))
      · intro body hbody
        apply Sat.bind (sendPrepared_sat env .patch body hbody)
        intro _ _
        exact Sat.fail _

theorem krmBody_sat (eval : Oracle) (interp : Interp) (loc : Site → Site) (f : RF) (env : Env)
    (henv : env.Clean) (name : String) (ns : Option String) :
    Sat eval (krmBody eval interp loc f env name ns) ErrFree := by
  unfold krmBody
  split
  · exact Sat.fail _
  · split
    · split
      · exact Sat.pure errFree_emptyObj
      · apply Sat.bind (Sat.emit .delete errFree_null)
        intro _ _
        exact Sat.fail _
    · split
      · exact Sat.fail _
      · split
        · rename_i live hlive _
          exact Sat.pure (henv.live live hlive)
        · have hforced := forcedOverlay_errFree env name ns
          simp only []
          apply Sat.bind (constructTemplate_sat eval loc f env _ henv hforced)
          intro expected hexp
          apply Sat.bind (P := ErrFree)
          · split
            · exact Sat.pure hexp
            · apply Sat.bind (overlaysLoop_sat eval interp loc _ 0 expected hexp)
              intro r hr
              exact overlayForced_sat _ _ _ hr hforced
          · intro expected hexp
            split
            · exact createPath_sat eval loc f env expected _ henv hexp hforced
            · rename_i live hlive
              exact updatePath_sat f env loc live expected henv (henv.live live hlive) hexp

theorem krm_sat (eval : Oracle) (interp : Interp) (loc : Site → Site) (f : RF) (env : Env)
    (henv : env.Clean) : Sat eval (krm eval interp loc f env) ErrFree := by
  unfold krm
  apply Sat.bind (Sat.site eval _)
  intro id hid
  apply Sat.bind (P := ErrFree)
  · split
    · rename_i v hv
      exact Sat.pure (cleanKvs_lookup (cleanKvs_kvsOf hid) hv)
    · exact Sat.fail _
  · intro nameV _
    exact krmBody_sat eval interp loc f env henv _ _

theorem rfRun_sat (eval : Oracle) (interp : Interp) (loc : Site → Site) (f : RF) (env : Env)
    (henv : env.Clean) : Sat eval (rfRun eval interp loc f env) ErrFree := by
  unfold rfRun
  apply Sat.bind (evalPredicates_sat eval interp _ _)
  intro _ _
  apply Sat.bind (siteOpt_sat eval _ _)
  intro l hl
  apply Sat.bind (P := ErrFree)
  · split
    · exact expectMap_sat _ _ hl
    · exact Sat.pure hl
  · intro _ _
    apply Sat.bind (krm_sat eval interp loc f env henv)
    intro _ _
    apply Sat.bind (evalPredicates_sat eval interp _ _)
    intro _ _
    exact siteOpt_sat eval _ _

/-! ## steps and workflows -/

def Fn.Clean : Fn → Prop
  | .vf _ => True
  | .rf _ env => env.Clean

def Logic.Clean : Logic → Prop
  | .fn f => f.Clean
  | .switch pick => ∀ v f, pick v = some f → f.Clean

theorem runFn_sat (eval : Oracle) (interp : Interp) (loc : Site → Site) (f : Fn) (hf : f.Clean) :
    Sat eval (runFn eval interp loc f) ErrFree := by
  cases f with
  | vf f => simp only [runFn]; exact vfRun_sat eval interp _ f none (by intro b hb; cases hb)
  | rf f env => simp only [runFn]; exact rfRun_sat eval interp loc f env hf

theorem runLogic_sat (eval : Oracle) (interp : Interp) (loc : Site → Site) (inputs : ETree)
    (hin : ErrFree inputs) (l : Logic) (hl : l.Clean) : Sat eval (runLogic eval interp loc inputs l) ErrFree := by
  cases l with
  | fn f =>
    unfold runLogic
    apply Sat.bind (Sat.emit .fnInputs hin)
    intro _ _
    exact runFn_sat eval interp loc f hl
  | switch pick =>
    unfold runLogic
    apply Sat.bind (Sat.site eval _)
    intro v _
    split
    · split
      · rename_i f hf
        apply Sat.bind (Sat.emit .fnInputs hin)
        intro _ _
        exact runFn_sat eval interp loc f (hl _ f hf)
      · exact Sat.fail _
    · split
      · rename_i f hf
        apply Sat.bind (Sat.emit .fnInputs hin)
        intro _ _
        exact runFn_sat eval interp loc f (hl _ f hf)
      · exact Sat.fail _
    · exact Sat.fail _

namespace Run
/-- the weaker form used above the Function level: a failed evaluation makes the result a
    PermFail (the location may be that of another iteration's failure) -/
structure WSat (eval : Oracle) (m : Run α) (P : α → Prop) : Prop where
  faithful : ∀ e ∈ m.evals, e.2 = eval e.1
  contained : ∀ e ∈ m.evals, e.2.bad = true → ∃ l w, m.res = .error (.permFail l w)
  outs : ∀ o ∈ m.outs, ErrFree o.2
  post : ∀ a, m.res = .ok a → P a

theorem Sat.weak {eval : Oracle} {m : Run α} {P : α → Prop} (h : Sat eval m P) : WSat eval m P :=
  ⟨h.faithful, fun e he hb => ⟨_, _, h.located e he hb⟩, h.outs, h.post⟩

theorem WSat.bind {eval : Oracle} {m : Run α} {f : α → Run β} {P : α → Prop} {Q : β → Prop}
    (hm : WSat eval m P) (hf : ∀ a, P a → WSat eval (f a) Q) : WSat eval (m >>= f) Q := by
  rw [bind_def]
  unfold bind'
  cases hres : m.res with
  | error e =>
    refine ⟨hm.faithful, ?_, hm.outs, ?_⟩
    · intro ev hev hbad
      obtain ⟨l, w, h⟩ := hm.contained ev hev hbad
      rw [hres] at h
      exact ⟨l, w, by simpa using h⟩
    · intro b hb; cases hb
  | ok a =>
    have hfa := hf a (hm.post a hres)
    refine ⟨?_, ?_, ?_, ?_⟩
    · intro ev hev
      simp only [List.mem_append] at hev
      rcases hev with hev | hev
      · exact hm.faithful ev hev
      · exact hfa.faithful ev hev
    · intro ev hev hbad
      simp only [List.mem_append] at hev
      rcases hev with hev | hev
      · obtain ⟨l, w, h⟩ := hm.contained ev hev hbad
        rw [hres] at h; cases h
      · exact hfa.contained ev hev hbad
    · intro o ho
      simp only [List.mem_append] at ho
      rcases ho with ho | ho
      · exact hm.outs o ho
      · exact hfa.outs o ho
    · intro b hb; exact hfa.post b hb

end Run

/-- what the forEach loop guarantees: it always completes; values are error-free; a failed
    evaluation in any iteration shows up as a PermFail entry -/
structure IterSpec (eval : Oracle) (m : Run (List (Except Stop ETree))) : Prop where
  faithful : ∀ e ∈ m.evals, e.2 = eval e.1
  completes : ∃ rs, m.res = .ok rs
  values : ∀ rs, m.res = .ok rs → ∀ v, Except.ok v ∈ rs → ErrFree v
  contained : ∀ rs, m.res = .ok rs → ∀ e ∈ m.evals, e.2.bad = true → ∃ l w, Except.error (Stop.permFail l w) ∈ rs
  outs : ∀ o ∈ m.outs, ErrFree o.2

theorem iterations_spec (eval : Oracle) (interp : Interp) (loc : Site → Site) (key : String) (inputs : ETree)
    (hin : ErrFree inputs) (logic : Logic) (hl : logic.Clean) (items : List ETree) :
    ∀ (j : Nat), CleanList items → IterSpec eval (iterations eval interp loc key inputs logic j items) := by
  induction items with
  | nil =>
    intro j _
    unfold iterations
    refine ⟨by simp, ⟨[], rfl⟩, ?_, ?_, ?_⟩
    · intro rs h v hv
      cases h
      simp at hv
    · intro rs h e he
      simp at he
    · simp
  | cons item rest ih =>
    intro j hitems
    have hitem : ErrFree item := hitems item (by simp)
    have hrest := ih (j + 1) (fun x hx => hitems x (by simp [hx]))
    have hone := runLogic_sat eval interp (fun s => loc (.iter j s))
      (.obj (insert (.str key) item (kvsOf inputs)))
      ((errFree_obj _).mpr (cleanKvs_insert (cleanKvs_kvsOf hin) (by simp) hitem)) logic hl
    obtain ⟨rs, hrs⟩ := hrest.completes
    unfold iterations
    simp only [bind_def, bind', attempt, hrs, pure, pure']
    refine ⟨?_, ⟨_, rfl⟩, ?_, ?_, ?_⟩
    · intro e he
      simp only [List.append_nil, List.mem_append] at he
      rcases he with he | he
      · exact hone.faithful e he
      · exact hrest.faithful e he
    · intro rs' h v hv
      cases h
      rcases List.mem_cons.mp hv with hv | hv
      · exact hone.post v hv.symm
      · exact hrest.values rs hrs v hv
    · intro rs' h e he hbad
      cases h
      simp only [List.append_nil, List.mem_append] at he
      rcases he with he | he
      · exact ⟨_, _, by rw [← hone.located e he hbad]; simp⟩
      · obtain ⟨l, w, hm⟩ := hrest.contained rs hrs e he hbad
        exact ⟨l, w, by simp [hm]⟩
    · intro o ho
      simp only [List.append_nil, List.mem_append] at ho
      rcases ho with ho | ho
      · exact hone.outs o ho
      · exact hrest.outs o ho

theorem firstError_permFail (rs : List (Except Stop ETree))
    (h : ∃ l w, Except.error (Stop.permFail l w) ∈ rs) : ∃ l w, firstError rs = some (.permFail l w) := by
  induction rs with
  | nil => obtain ⟨l, w, h⟩ := h; cases h
  | cons r rest ih =>
    obtain ⟨l, w, hm⟩ := h
    rcases List.mem_cons.mp hm with hm | hm
    · subst hm; exact ⟨l, w, by simp [firstError]⟩
    · obtain ⟨l', w', h'⟩ := ih ⟨l, w, hm⟩
      cases r with
      | ok v => exact ⟨l', w', by simp [firstError, h']⟩
      | error e =>
        cases e with
        | permFail l2 w2 => exact ⟨l2, w2, by simp [firstError]⟩
        | retry t => exact ⟨l', w', by simp [firstError, h']⟩
        | crash t => exact ⟨l', w', by simp [firstError, h']⟩
        | skip => exact ⟨l', w', by simp [firstError, h']⟩
        | depSkip => exact ⟨l', w', by simp [firstError, h']⟩

theorem encodeOutcome_clean (rs : List (Except Stop ETree)) (h : ∀ v, Except.ok v ∈ rs → ErrFree v) :
    CleanList (rs.map encodeOutcome) := by
  intro x hx
  obtain ⟨r, hr, rfl⟩ := List.mem_map.mp hx
  cases r with
  | ok v => exact h v hr
  | error e => exact errFree_str _

theorem stepBody_wsat (eval : Oracle) (interp : Interp) (loc : Site → Site) (st : Step) (hl : st.logic.Clean) :
    WSat eval (stepBody eval interp loc st) ErrFree := by
  unfold stepBody
  apply WSat.bind (P := ErrFree)
  · split
    · exact (Sat.site eval _).weak
    · exact (Sat.pure errFree_emptyObj).weak
  · intro inputs hin
    apply WSat.bind (P := fun _ => True)
    · split
      · apply WSat.bind (Sat.site eval _).weak
        intro v _
        split
        · exact (Sat.pure trivial).weak
        · exact (Sat.fail _).weak
      · exact (Sat.pure trivial).weak
    · intro skip _
      split
      · exact (Sat.fail _).weak
      · split
        · exact (runLogic_sat eval interp loc inputs hin st.logic hl).weak
        · rename_i key _
          apply WSat.bind (Sat.site eval _).weak
          intro src hsrc
          split
          · exact (Sat.pure ((errFree_arr _).mpr (by intro x hx; cases hx))).weak
          · rename_i items _
            have hspec := iterations_spec eval interp loc key inputs hin st.logic hl items 0 ((errFree_arr _).mp hsrc)
            obtain ⟨rs, hrs⟩ := hspec.completes
            rw [bind_def]
            unfold bind'
            simp only [hrs]
            cases hfe : firstError rs with
            | some e =>
              simp only [Run.fail, List.append_nil]
              refine ⟨hspec.faithful, ?_, hspec.outs, by intro a ha; cases ha⟩
              intro ev hev hbad
              obtain ⟨l, w, hfp⟩ := firstError_permFail rs (hspec.contained rs hrs ev hev hbad)
              rw [hfe] at hfp; cases hfp
              exact ⟨l, w, rfl⟩
            | none =>
              simp only [Run.pure_evals, Run.pure_outs, Run.pure_res, List.append_nil]
              refine ⟨hspec.faithful, ?_, hspec.outs, ?_⟩
              · intro ev hev hbad
                obtain ⟨l, w, hfp⟩ := firstError_permFail rs (hspec.contained rs hrs ev hev hbad)
                rw [hfe] at hfp; cases hfp
              · intro a ha
                cases ha
                exact (errFree_arr _).mpr (encodeOutcome_clean rs (hspec.values rs hrs))
          · exact (Sat.fail _).weak

/-- the state expression never fails the run, and what it publishes is error-free -/
theorem stateOf_spec (eval : Oracle) (loc : Site → Site) (st : Step) :
    (stateOf eval loc st).res = .ok () ∧ (∀ o ∈ (stateOf eval loc st).outs, ErrFree o.2) := by
  unfold stateOf
  split
  · rw [bind_def]
    unfold bind'
    simp only [attempt_res, attempt_outs]
    have hs := Sat.site eval (loc .state)
    split
    · rename_i kvs hk
      refine ⟨rfl, ?_⟩
      intro o ho
      simp only [List.mem_append] at ho
      rcases ho with ho | ho
      · exact hs.outs o ho
      · simp [Run.emit] at ho
        subst ho
        exact hs.post _ hk
    · refine ⟨rfl, ?_⟩
      intro o ho
      simp only [List.mem_append] at ho
      rcases ho with ho | ho
      · exact hs.outs o ho
      · simp [pure, pure'] at ho
  · exact ⟨rfl, by simp⟩

/-- the step's outcome is the body's: `state` never changes it -/
theorem stepRun_res (eval : Oracle) (interp : Interp) (loc : Site → Site) (st : Step) :
    (stepRun eval interp loc st).res = (stepBody eval interp loc st).res := by
  unfold stepRun
  rw [bind_def]
  unfold bind'
  cases hres : (stepBody eval interp loc st).res with
  | error e => rfl
  | ok v =>
    simp only []
    rw [bind_def]
    unfold bind'
    simp [(stateOf_spec eval loc st).1]

theorem stepRun_wsat (eval : Oracle) (interp : Interp) (loc : Site → Site) (st : Step) (hl : st.logic.Clean) :
    (∀ e ∈ (stepBody eval interp loc st).evals, e.2.bad = true →
        ∃ l w, (stepRun eval interp loc st).res = .error (.permFail l w)) ∧
    (∀ o ∈ (stepRun eval interp loc st).outs, ErrFree o.2) ∧
    (∀ v, (stepRun eval interp loc st).res = .ok v → ErrFree v) := by
  have hb := stepBody_wsat eval interp loc st hl
  refine ⟨?_, ?_, ?_⟩
  · intro e he hbad
    rw [stepRun_res]
    exact hb.contained e he hbad
  · unfold stepRun
    rw [bind_def]
    unfold bind'
    cases hres : (stepBody eval interp loc st).res with
    | error e => exact hb.outs
    | ok v =>
      simp only []
      rw [bind_def]
      unfold bind'
      simp only [(stateOf_spec eval loc st).1, Run.pure_outs, List.append_nil]
      intro o ho
      simp only [List.mem_append] at ho
      rcases ho with ho | ho
      · exact hb.outs o ho
      · exact (stateOf_spec eval loc st).2 o ho
  · intro v hv
    rw [stepRun_res] at hv
    exact hb.post v hv

/-- a failing `state` expression publishes nothing: nothing leaves, the outcome is the body's -/
theorem stateOf_failure (eval : Oracle) (loc : Site → Site) (st : Step)
    (hbad : (eval (loc .state)).bad = true) : (stateOf eval loc st).outs = [] := by
  unfold stateOf
  split
  · have hs : (site eval (loc .state)).res = .error (.permFail (loc .state) .evalError) ∧
        (site eval (loc .state)).outs = [] := by
      unfold EvalScan.site
      cases he : eval (loc .state) with
      | raised => simp
      | val t =>
        rw [he] at hbad
        simp only [EvalResult.bad] at hbad
        simp [hbad]
    rw [bind_def]
    unfold bind'
    simp only [attempt_res, attempt_outs, hs.1, hs.2]
    simp [pure, pure']
  · rfl

theorem state_failure_contained (eval : Oracle) (interp : Interp) (loc : Site → Site) (st : Step)
    (hbad : (eval (loc .state)).bad = true) :
    (stepRun eval interp loc st).outs = (stepBody eval interp loc st).outs ∧
    (stepRun eval interp loc st).res = (stepBody eval interp loc st).res := by
  refine ⟨?_, stepRun_res eval interp loc st⟩
  unfold stepRun
  rw [bind_def]
  unfold bind'
  cases hres : (stepBody eval interp loc st).res with
  | error e => rfl
  | ok v =>
    simp only []
    rw [bind_def]
    unfold bind'
    simp [(stateOf_spec eval loc st).1, stateOf_failure eval loc st hbad]

theorem cleanKvs_foldl_insert (kvs : List (EKey × ETree)) (hk : CleanKvs kvs) :
    ∀ acc, CleanKvs acc → CleanKvs (kvs.foldl (fun a kv => insert kv.1 kv.2 a) acc) := by
  induction kvs with
  | nil => intro acc ha; simpa using ha
  | cons kv rest ih =>
    intro acc ha
    obtain ⟨k, v⟩ := kv
    rw [List.foldl_cons]
    have := cleanKvs_cons.mp hk
    exact ih this.2 _ (cleanKvs_insert ha this.1.1 this.1.2)

theorem publishedState_errFree (outs : List (Out × ETree)) (h : ∀ o ∈ outs, ErrFree o.2) :
    ErrFree (publishedState outs) := by
  unfold publishedState
  apply (errFree_obj _).mpr
  suffices ∀ acc, CleanKvs acc → CleanKvs (outs.foldl (fun acc o => match o with
      | (.state, .obj kvs) => kvs.foldl (fun a kv => insert kv.1 kv.2 a) acc
      | _ => acc) acc) from this [] cleanKvs_nil
  induction outs with
  | nil => intro acc ha; simpa using ha
  | cons o rest ih =>
    intro acc ha
    rw [List.foldl_cons]
    apply ih (fun o' ho' => h o' (by simp [ho']))
    split
    · rename_i kvs
      exact cleanKvs_foldl_insert kvs ((errFree_obj _).mp (h (Out.state, .obj kvs) (by simp))) acc ha
    · exact ha

theorem wfBodies_spec (eval : Oracle) (interp : Interp) (steps : List Step)
    (hl : ∀ st ∈ steps, st.logic.Clean) :
    ∀ (k : Nat) (acc : List (Except Stop ETree)), (∀ v, Except.ok v ∈ acc → ErrFree v) →
      (∀ o ∈ (wfBodies eval interp k steps acc).outs, ErrFree o.2) ∧
      (∃ rs, (wfBodies eval interp k steps acc).res = .ok rs ∧ ∀ v, Except.ok v ∈ rs → ErrFree v) := by
  induction steps with
  | nil =>
    intro k acc hacc
    unfold wfBodies
    exact ⟨by simp, acc, rfl, hacc⟩
  | cons st rest ih =>
    intro k acc hacc
    have hst := stepBody_wsat eval interp (fun s => .step k s) st (hl st (by simp))
    unfold wfBodies
    simp only []
    split
    · have hacc' : ∀ v, Except.ok v ∈ acc ++ [(stepBody eval interp (fun s => .step k s) st).res] → ErrFree v := by
        intro v hv
        rcases List.mem_append.mp hv with hv | hv
        · exact hacc v hv
        · simp at hv; exact hst.post v hv.symm
      obtain ⟨houts, rs, hrs, hvals⟩ := ih (fun s hs => hl s (by simp [hs])) (k + 1) _ hacc'
      rw [bind_def]
      unfold bind'
      simp only [attempt_res, attempt_outs, attempt_evals]
      refine ⟨?_, rs, hrs, hvals⟩
      intro o ho
      rcases List.mem_append.mp ho with ho | ho
      · exact hst.outs o ho
      · exact houts o ho
    · have hacc' : ∀ v, Except.ok v ∈ acc ++ [Except.error Stop.depSkip] → ErrFree v := by
        intro v hv
        rcases List.mem_append.mp hv with hv | hv
        · exact hacc v hv
        · simp at hv
      obtain ⟨houts, rs, hrs, hvals⟩ := ih (fun s hs => hl s (by simp [hs])) (k + 1) _ hacc'
      rw [bind_def]
      unfold bind'
      simp only [Run.pure_res, Run.pure_outs, Run.pure_evals, List.nil_append]
      exact ⟨houts, rs, hrs, hvals⟩

theorem wfStates_spec (eval : Oracle) (steps : List Step) :
    ∀ (k : Nat) (rs : List (Except Stop ETree)),
      (wfStates eval k steps rs).res = .ok () ∧ (∀ o ∈ (wfStates eval k steps rs).outs, ErrFree o.2) := by
  induction steps with
  | nil => intro k rs; unfold wfStates; exact ⟨rfl, by simp⟩
  | cons st rest ih =>
    intro k rs
    cases rs with
    | nil => unfold wfStates; exact ⟨rfl, by simp⟩
    | cons r rs =>
      unfold wfStates
      obtain ⟨hres, houts⟩ := ih (k + 1) rs
      cases r with
      | ok v =>
        simp only []
        rw [bind_def]
        unfold bind'
        simp only [(stateOf_spec eval _ st).1]
        refine ⟨hres, ?_⟩
        intro o ho
        rcases List.mem_append.mp ho with ho | ho
        · exact (stateOf_spec eval _ st).2 o ho
        · exact houts o ho
      | error e =>
        simp only []
        rw [bind_def]
        unfold bind'
        simp only [Run.pure_res, Run.pure_outs, List.nil_append]
        exact ⟨hres, houts⟩

theorem wfRun_spec (eval : Oracle) (interp : Interp) (steps : List Step)
    (hl : ∀ st ∈ steps, st.logic.Clean) :
    (∀ o ∈ (wfRun eval interp steps).outs, ErrFree o.2) ∧
    (∃ rs, (wfRun eval interp steps).res = .ok rs ∧ ∀ v, Except.ok v ∈ rs → ErrFree v) := by
  obtain ⟨houts, rs, hrs, hvals⟩ := wfBodies_spec eval interp steps hl 0 [] (by intro v hv; cases hv)
  obtain ⟨hsres, hsouts⟩ := wfStates_spec eval steps 0 rs
  unfold wfRun
  rw [bind_def]
  unfold bind'
  simp only [hrs]
  rw [bind_def]
  unfold bind'
  simp only [hsres, Run.pure_outs, Run.pure_res, List.append_nil]
  refine ⟨?_, rs, rfl, hvals⟩
  intro o ho
  rcases List.mem_append.mp ho with ho | ho
  · exact houts o ho
  · exact hsouts o ho

/-! ## a value the forced name/kind overlay replaces (round 6: the scan at the `resource` site is needed) -/

/-- the same map with the value at the (first) binding of `k` replaced by `x`; nothing is added -/
def blankAt (k : EKey) (x : ETree) : List (EKey × ETree) → List (EKey × ETree)
  | [] => []
  | (k', v) :: rest => if k' = k then (k', x) :: rest else (k', v) :: blankAt k x rest

theorem lookup_blankAt_ne {k k2 : EKey} (h : k2 ≠ k) (x : ETree) (res : List (EKey × ETree)) :
    lookup k2 (blankAt k x res) = lookup k2 res := by
  induction res with
  | nil => rfl
  | cons kv rest ih =>
    obtain ⟨k', v⟩ := kv
    by_cases hk : k' = k
    · subst hk; simp [blankAt, lookup, Ne.symm h]
    · simp [blankAt, lookup, hk, ih]

theorem insert_blankAt_ne {k k2 : EKey} (h : k2 ≠ k) (x nv : ETree) (res : List (EKey × ETree)) :
    insert k2 nv (blankAt k x res) = blankAt k x (insert k2 nv res) := by
  induction res with
  | nil => simp [blankAt, ETree.insert, h]
  | cons kv rest ih =>
    obtain ⟨k', v⟩ := kv
    by_cases hk : k' = k
    · subst hk; simp [blankAt, ETree.insert, Ne.symm h]
    · by_cases hk2 : k' = k2
      · subst hk2; simp [blankAt, ETree.insert, hk]
      · simp [blankAt, ETree.insert, hk, hk2, ih]

theorem insert_blankAt_same (k : EKey) (x ov : ETree) (res : List (EKey × ETree)) :
    insert k ov (blankAt k x res) = insert k ov res := by
  induction res with
  | nil => rfl
  | cons kv rest ih =>
    obtain ⟨k', v⟩ := kv
    by_cases hk : k' = k
    · subst hk; simp [blankAt, ETree.insert]
    · simp [blankAt, ETree.insert, hk, ih]

def notObj : ETree → Prop
  | .obj _ => False
  | _ => True

/-- `_deep_overlay` does not look at the resource's value under a key for which the overlay holds a non-map -/
theorem deepOverlayO_blankAt (k : EKey) (x ov : ETree) (hov : notObj ov) :
    ∀ (okvs res : List (EKey × ETree)), lookup k okvs = some ov →
      deepOverlayO (blankAt k x res) okvs = deepOverlayO res okvs := by
  intro okvs
  induction okvs with
  | nil => intro res h; simp [lookup] at h
  | cons kv rest ih =>
    intro res h
    obtain ⟨k2, ov2⟩ := kv
    by_cases hk : k2 = k
    · subst hk
      have h' : ov2 = ov := by simpa [lookup] using h
      subst h'
      cases ov2 with
      | obj kvs => exact absurd hov (by simp [notObj])
      | _ => simp [deepOverlayO, insert_blankAt_same]
    · simp only [lookup, hk, if_false] at h
      simp only [deepOverlayO, lookup_blankAt_ne hk, insert_blankAt_ne hk]
      exact ih _ h



theorem blankAt_hasErr {k : EKey} {e v : ETree} {kvs : List (EKey × ETree)}
    (hl : lookup k kvs = some v) (he : HasErr e) : HasErr (.obj (blankAt k e kvs)) := by
  have hmem : (k, e) ∈ blankAt k e kvs := by
    induction kvs with
    | nil => simp [lookup] at hl
    | cons kv rest ih =>
      obtain ⟨k', v'⟩ := kv
      by_cases hk : k' = k
      · subst hk; simp [blankAt]
      · simp only [lookup, hk, if_false] at hl
        simp [blankAt, hk, ih hl]
  exact HasErr.value hmem he

end Koreo.EvalScan
