/-
  C04, comparator side: whatever meets the target (`meetsB .full`) is reported as matching.
-/
import Koreo.Lemmas.Compare
namespace Koreo.Compare
open Koreo Koreo.JVal

theorem laAt_of_ok (la : JVal) (k : String) (h : laMapOk la = true) :
    laAt la k = .val (laVal (laObjKvs la) k) := by
  cases la <;> simp_all [laMapOk, laAt, laObjKvs, laVal, truthy, lookup]

theorem laItems_of_ok (la : JVal) (h : laArrOk la = true) : laItems la = some (laArrItems la) := by
  cases la <;> simp_all [laArrOk, laItems, laArrItems, truthy]

theorem vm_asSet_irrelevant (t a la : JVal) (s : Bool) (h : isArr t = false) :
    validateMatch t a la s = validateMatch t a la false := by
  cases t <;> first | (simp [isArr] at h; done) | (rw [validateMatch.eq_def, validateMatch.eq_def])

theorem setMatch_of_spec (txs lxs : List JVal) (h : setEqSpec txs lxs = true) : setMatch txs lxs = .ok := by
  simp only [setEqSpec, Bool.and_eq_true] at h
  obtain ⟨⟨⟨h1, h2⟩, h3⟩, h4⟩ := h
  have e1 : subsetBy scalarMatch txs lxs = subsetBy scalarEq txs lxs :=
    subsetBy_congr _ _ _ _ fun x hx y hy =>
      scalarMatch_eq_scalarEq x y (List.all_eq_true.mp h1 x hx) (List.all_eq_true.mp h2 y hy)
  have e2 : subsetBy (fun a t => scalarMatch t a) lxs txs = subsetBy (fun l t => scalarEq t l) lxs txs :=
    subsetBy_congr _ _ _ _ fun x hx y hy =>
      scalarMatch_eq_scalarEq y x (List.all_eq_true.mp h1 y hy) (List.all_eq_true.mp h2 x hx)
  simp [setMatch, h1, h2, e1, e2, h3, h4]

theorem full_ne_excl : (Mode.full == Mode.excl) = false := rfl

theorem compared_full (d : Dirs) (k : String) (h : isDirective k = false) : compared .full d k = true := by
  simp [compared, h, full_ne_excl]

mutual
theorem vm_of_meets (t live la : JVal) (hw : wfB t = true) (hm : meetsB .full t live la = true) :
    validateMatch t live la false = .ok := by
  match t with
  | .obj tkvs =>
    match live with
    | .obj lkvs =>
      rw [wfB.eq_1, Bool.and_eq_true] at hw
      rw [meetsB.eq_1, Bool.and_eq_true, full_ne_excl, Bool.false_or] at hm
      rw [validateMatch.eq_1, parseDirs_of_ok _ hw.1]
      exact vmO_of_meets (specDirs tkvs) lkvs la tkvs (fun k f hf => specMap_strs _ k f hf) hw.2 hm.1 hm.2
    | .null | .bool _ | .int _ | .flt _ | .str _ | .arr _ =>
      rw [meetsB.eq_2 _ _ _ _ (by intro _ h; cases h)] at hm; cases hm
  | .arr txs =>
    match live with
    | .arr lxs =>
      rw [wfB.eq_2] at hw
      rw [meetsB.eq_3, Bool.and_eq_true, full_ne_excl, Bool.false_or] at hm
      have hlen := meetsL_length .full txs lxs _ hm.2
      rw [validateMatch.eq_4]
      simp only [Bool.false_eq_true, ↓reduceIte, laItems_of_ok la hm.1, hlen, bne_self_eq_false]
      split
      · rfl
      · exact vmL_of_meets txs lxs _ hw hm.2
    | .null | .bool _ | .int _ | .flt _ | .str _ | .obj _ =>
      rw [meetsB.eq_4 _ _ _ _ (by intro _ h; cases h)] at hm; cases hm
  | .null | .bool _ | .int _ | .flt _ | .str _ =>
    rw [meetsB.eq_def] at hm
    rw [validateMatch.eq_def]
    cases live <;> simp_all [scalarEq, scalarMatch, pyEq, num8?]
termination_by structural t
theorem vmO_of_meets (d : Dirs) (akvs : List (String × JVal)) (la : JVal) (tkvs : List (String × JVal))
    (hd : ∀ k f, fieldsFor k d.asMap = some f → f.all isStr = true)
    (hw : wfO d tkvs = true) (hla : laMapOk la = true)
    (hm : meetsO .full d akvs (laObjKvs la) tkvs = true) : vmO d akvs la tkvs = .ok := by
  match tkvs with
  | [] => rw [vmO.eq_1]
  | (k, tv) :: rest =>
    rw [wfO.eq_2, Bool.and_eq_true, Bool.and_eq_true] at hw
    by_cases hdir : isDirective k = true
    · rw [meetsO_cons_dir _ _ _ _ _ _ _ hdir] at hm
      rw [vmO_cons_skip _ _ _ _ _ _ (by simp [skippedKey, hdir])]
      exact vmO_of_meets d akvs la rest hd hw.2 hla hm
    · have hdir : isDirective k = false := by simpa using hdir
      have hc := compared_full d k hdir
      have hkd : keyDirOk d k tv = true := by simpa [hdir] using hw.1.1
      have hlaAt := laAt_of_ok la k hla
      match hcv : cmpValue d k akvs (laVal (laObjKvs la) k) with
      | none => rw [meetsO_cons_missing _ _ _ _ _ _ _ hc hcv] at hm; cases hm
      | some cv =>
        have key : (∀ r : Res, r = .ok → (r.join (vmO d akvs la rest) = .ok)) → True := fun _ => trivial
        clear key
        match hf : fieldsFor k d.asMap with
        | some fields =>
          cases tv with
          | arr tms =>
            simp only [keyDirOk, hf, Bool.and_eq_true] at hkd
            cases cv with
            | arr lms =>
              rw [meetsO_cons_keyed _ _ _ _ _ _ hc hcv hf, full_ne_excl, Bool.false_or, Bool.and_eq_true,
                Bool.and_eq_true] at hm
              have ih := vmO_of_meets d akvs la rest hd hw.2 hla hm.2
              have hfs := hd k fields hf
              obtain ⟨td, htd⟩ := keyedDict_isSome fields hfs tms
              obtain ⟨adict, had⟩ := keyedDict_isSome fields hfs lms
              obtain ⟨l, hl⟩ := listToObject_isSome fields hfs (laVal (laObjKvs la) k)
              have hA : listToObject fields (.arr lms) = some (some adict) := by
                simp [listToObject, hm.1.1, had]
              rw [wfB.eq_2] at hw
              have hK := vmK_of_meets fields hfs lms _ adict (l.getD []) had hm.1.1 (la_lookup fields _ l hl) tms
                hw.1.2 hkd.1.2 hkd.1.1 hm.1.2
              by_cases hs : skippedKey k = true
              · rw [vmO_cons_skip _ _ _ _ _ _ hs]; exact ih
              · rw [vmO_cons_keyed _ _ _ _ _ (by simpa using hs) hlaAt hcv hf hkd.1.1, htd, hA, hl, ih]
                simp only [keyedDispatch, hK]; rfl
            | _ => rw [meetsO_cons_keyedBad _ _ _ _ _ _ _ hc hcv hf (Or.inr rfl)] at hm; cases hm
          | _ => simp [keyDirOk, hf] at hkd
        | none =>
          rw [meetsO_cons_plain _ _ _ _ _ _ _ hc hcv hf, Bool.and_eq_true] at hm
          have ih := vmO_of_meets d akvs la rest hd hw.2 hla hm.2
          by_cases hs : skippedKey k = true
          · rw [vmO_cons_skip _ _ _ _ _ _ hs]; exact ih
          · rw [vmO_cons_plain _ _ _ _ _ _ (by simpa using hs) hlaAt hcv hf, ih, Res.join_ok_right]
            have hm1 := hm.1
            by_cases hset : (d.asSet.contains k && isArr tv) = true
            · rw [if_pos hset] at hm1
              rw [Bool.and_eq_true] at hset
              match tv, cv, hm1 with
              | .arr txs, .arr lxs, hm1 =>
                rw [hset.1, validateMatch.eq_4, if_pos rfl]
                exact setMatch_of_spec txs lxs hm1
            · rw [if_neg hset] at hm1
              have := vm_of_meets tv cv _ hw.1.2 hm1
              by_cases hcn : d.asSet.contains k = true
              · have harr : isArr tv = false := by
                  cases h : isArr tv
                  · rfl
                  · exact absurd (by rw [hcn, h]; rfl) hset
                rw [vm_asSet_irrelevant _ _ _ _ harr]; exact this
              · rw [Bool.not_eq_true] at hcn; rw [hcn]; exact this
termination_by structural tkvs
theorem vmL_of_meets (txs lxs items : List JVal) (hw : wfL txs = true)
    (hm : meetsL .full txs lxs items = true) : vmL txs lxs items = .ok := by
  match txs, lxs with
  | [], [] => rw [vmL.eq_2]; intro _ _ _ _ h; cases h
  | [], _ :: _ => rw [vmL.eq_2]; intro _ _ _ _ h; cases h
  | _ :: _, [] => rw [vmL.eq_2]; intro _ _ _ _ _ h; cases h
  | t :: ts, l :: ls =>
    rw [wfL.eq_2, Bool.and_eq_true] at hw
    rw [meetsL.eq_2, Bool.and_eq_true] at hm
    rw [vmL.eq_1, vm_of_meets t l _ hw.1 hm.1]
    exact vmL_of_meets ts ls _ hw.2 hm.2
termination_by structural txs
theorem vmK_of_meets (fields : List JVal) (hf : fields.all isStr = true) (lms lams : List JVal)
    (adict ldict : List (String × JVal)) (hA : keyedDict fields lms = some adict) (hAo : allObj lms = true)
    (hL : ∀ key, (lookup key ldict).getD .null = laMember fields key lams)
    (tms : List JVal) (hw : wfL tms = true) (hdist : keysDistinct fields tms = true) (hto : allObj tms = true)
    (hm : meetsK .full fields lms lams tms = true) : vmK fields adict ldict tms = .ok := by
  match tms with
  | [] => rw [vmK.eq_1]
  | tm :: rest =>
    match tm, hto with
    | .obj mkvs, hto =>
      simp only [allObj] at hto
      rw [wfL.eq_2, Bool.and_eq_true] at hw
      simp only [keysDistinct, memberKey, Bool.and_eq_true] at hdist
      rw [meetsK.eq_2, Bool.and_eq_true] at hm
      have ih := vmK_of_meets fields hf lms lams adict ldict hA hAo hL rest hw.2 hdist.2 hto hm.2
      rw [vmK.eq_2, ih, Res.join_ok_right]
      obtain ⟨key, hkey⟩ := objKey_isSome fields hf mkvs
      have hm1 := hm.1
      simp only [hkey, show (Mode.full == Mode.full) = true from rfl, ↓reduceIte, Bool.and_eq_true] at hm1
      have hd1 := hdist.1
      simp only [hkey, Bool.and_eq_true, Bool.not_eq_true'] at hd1
      simp only [hkey, hd1.1, hd1.2, Bool.or_self, Bool.false_eq_true, ↓reduceIte]
      rw [keyedDict_lookup fields key lms adict hAo hA, hm1.1]
      simp only [↓reduceIte, hL]
      obtain ⟨hmem, hk⟩ := laMember_spec fields key lms hm1.1
      have := List.all_eq_true.mp hm1.2 _ hmem
      simp only [hk, bne_self_eq_false, Bool.false_or] at this
      exact vm_of_meets (.obj mkvs) _ _ hw.1 this
termination_by structural tms
end

end Koreo.Compare
