/-
  Helper lemmas for C08: stripping, the last-applied annotation, owner references through
  `_prepare_for_api` and through the server's merge-patch.  Core Lean only.
-/
import Koreo.Lemmas.Pipeline
namespace Koreo.Rf
open Koreo JVal Koreo.Identity Koreo.Payload Koreo.ResourceFn

/-! ## strip removes every directive key, and only those -/

mutual
theorem strip_noDir : ∀ v : JVal, noDirectiveKey (strip v) = true
  | .obj kvs => by simp only [strip, noDirectiveKey]; exact stripO_noDir kvs
  | .arr xs => by simp only [strip, noDirectiveKey]; exact stripL_noDir xs
  | .null => rfl
  | .bool _ => rfl
  | .int _ => rfl
  | .flt _ => rfl
  | .str _ => rfl
theorem stripL_noDir : ∀ xs : List JVal, noDirectiveKeyL (stripL xs) = true
  | [] => rfl
  | x :: xs => by simp only [stripL, noDirectiveKeyL, strip_noDir x, stripL_noDir xs, Bool.and_self]
theorem stripO_noDir : ∀ kvs : List (String × JVal), noDirectiveKeyO (stripO kvs) = true
  | [] => rfl
  | (k, v) :: rest => by
    by_cases h : isDirective k = true
    · simp only [stripO, h, if_true]; exact stripO_noDir rest
    · have h' : isDirective k = false := by simpa using h
      simp only [stripO, h', Bool.false_eq_true, if_false, noDirectiveKeyO, strip_noDir v, stripO_noDir rest,
        Bool.not_false, Bool.and_self]
end

mutual
theorem strip_id_of_noDir : ∀ v : JVal, noDirectiveKey v = true → strip v = v
  | .obj kvs, h => by simp only [noDirectiveKey] at h; simp only [strip, stripO_id_of_noDir kvs h]
  | .arr xs, h => by simp only [noDirectiveKey] at h; simp only [strip, stripL_id_of_noDir xs h]
  | .null, _ => rfl
  | .bool _, _ => rfl
  | .int _, _ => rfl
  | .flt _, _ => rfl
  | .str _, _ => rfl
theorem stripL_id_of_noDir : ∀ xs : List JVal, noDirectiveKeyL xs = true → stripL xs = xs
  | [], _ => rfl
  | x :: xs, h => by
    simp only [noDirectiveKeyL, Bool.and_eq_true] at h
    simp only [stripL, strip_id_of_noDir x h.1, stripL_id_of_noDir xs h.2]
theorem stripO_id_of_noDir : ∀ kvs : List (String × JVal), noDirectiveKeyO kvs = true → stripO kvs = kvs
  | [], _ => rfl
  | (k, v) :: rest, h => by
    simp only [noDirectiveKeyO, Bool.and_eq_true, Bool.not_eq_true'] at h
    simp only [stripO, h.1.1, Bool.false_eq_true, if_false, strip_id_of_noDir v h.1.2, stripO_id_of_noDir rest h.2]
end

/-! ## directive-freeness of association lists -/

theorem noDirO_lookup {k : String} {v : JVal} : ∀ {kvs : Fields}, noDirectiveKeyO kvs = true →
    JVal.lookup k kvs = some v → noDirectiveKey v = true
  | [], _, h => by simp [JVal.lookup] at h
  | (k', v') :: rest, hn, h => by
    simp only [noDirectiveKeyO, Bool.and_eq_true] at hn
    by_cases hk : k' = k
    · simp [JVal.lookup, hk] at h; subst h; exact hn.1.2
    · simp [JVal.lookup, hk] at h; exact noDirO_lookup hn.2 h

theorem noDirO_insert {k : String} {v : JVal} (hk : isDirective k = false) (hv : noDirectiveKey v = true) :
    ∀ {kvs : Fields}, noDirectiveKeyO kvs = true → noDirectiveKeyO (JVal.insert k v kvs) = true
  | [], _ => by simp [JVal.insert, noDirectiveKeyO, hk, hv]
  | (k', v') :: rest, hn => by
    simp only [noDirectiveKeyO, Bool.and_eq_true] at hn
    by_cases h : k' = k
    · simp [JVal.insert, h, noDirectiveKeyO, hk, hv, hn.2]
    · simp [JVal.insert, h, noDirectiveKeyO, hn.1.1, hn.1.2, noDirO_insert hk hv hn.2]

theorem noDirO_erase (k : String) : ∀ {kvs : Fields}, noDirectiveKeyO kvs = true →
    noDirectiveKeyO (JVal.erase k kvs) = true
  | [], _ => by simp [JVal.erase, noDirectiveKeyO]
  | (k', v') :: rest, hn => by
    simp only [noDirectiveKeyO, Bool.and_eq_true] at hn
    by_cases h : k' = k
    · simp [JVal.erase, h, hn.2]
    · simp [JVal.erase, h, noDirectiveKeyO, hn.1.1, hn.1.2, noDirO_erase k hn.2]

theorem subMap_noDir {k : String} {kvs m : Fields} (hn : noDirectiveKeyO kvs = true) (h : subMap k kvs = some m) :
    noDirectiveKeyO m = true := by
  unfold subMap at h
  cases hl : JVal.lookup k kvs with
  | none => simp [hl] at h; subst h; rfl
  | some v =>
    cases v <;> simp [hl] at h
    subst h
    have := noDirO_lookup hn hl
    simpa [noDirectiveKey] using this

theorem lastApplied_not_directive : isDirective lastApplied = false := by decide

/-- `_prepare_for_api` gives a payload without any directive key -/
theorem prepareForApi_noDir {enc : JVal → String} {o p : JVal} (h : prepareForApi enc o = some p) :
    noDirectiveKey p = true := by
  obtain ⟨kvs, m, a, hs, hm, ha, rfl⟩ := prepareForApi_spec h
  have hk : noDirectiveKeyO kvs = true := by
    have := strip_noDir o
    rw [hs] at this
    simpa [noDirectiveKey] using this
  have hmn := subMap_noDir hk hm
  have han := subMap_noDir hmn ha
  simp only [noDirectiveKey]
  refine noDirO_insert (by decide) ?_ hk
  simp only [noDirectiveKey]
  refine noDirO_insert (by decide) ?_ hmn
  simp only [noDirectiveKey]
  exact noDirO_insert lastApplied_not_directive rfl han

theorem setMetaKey_noDir {k : String} {x v v' : JVal} (h : setMetaKey k x v = some v') (hk : isDirective k = false)
    (hx : noDirectiveKey x = true) (hv : noDirectiveKey v = true) : noDirectiveKey v' = true := by
  obtain ⟨kvs, m, rfl, hm, rfl⟩ := setMetaKey_spec h
  simp only [noDirectiveKey] at hv ⊢
  have hmn : noDirectiveKeyO m = true := by
    have := noDirO_lookup hv hm
    simpa [noDirectiveKey] using this
  refine noDirO_insert (by decide) ?_ hv
  simp only [noDirectiveKey]
  exact noDirO_insert hk hx hmn

theorem krRaw_noDir (c : ApiClass) {v : JVal} (hv : noDirectiveKey v = true) : noDirectiveKey (krRaw c v) = true := by
  cases v with
  | obj kvs =>
    simp only [krRaw, noDirectiveKey] at hv ⊢
    exact noDirO_insert (by decide) rfl (noDirO_insert (by decide) rfl hv)
  | _ => simpa [krRaw] using hv

theorem krNew_noDir {v v' : JVal} {ns : Option String} (h : krNew v ns = some v') (hv : noDirectiveKey v = true) :
    noDirectiveKey v' = true := by
  cases ns with
  | none => simp [krNew] at h; subst h; exact hv
  | some n => exact setMetaKey_noDir h (by decide) rfl hv

/-! ## the annotation -/

theorem erase_insert_of_lookup_none {k : String} (v : JVal) : ∀ {l : Fields}, JVal.lookup k l = none →
    JVal.erase k (JVal.insert k v l) = l
  | [], _ => by simp [JVal.insert, JVal.erase]
  | (k', v') :: rest, h => by
    by_cases hk : k' = k
    · simp [JVal.lookup, hk] at h
    · simp [JVal.lookup, hk] at h
      simp [JVal.insert, JVal.erase, hk, erase_insert_of_lookup_none v h]

theorem annotationOf_prepareForApi {enc : JVal → String} {o p : JVal} (h : prepareForApi enc o = some p) :
    annotationOf p = some (enc (strip o)) := by
  obtain ⟨kvs, m, a, hs, hm, ha, rfl⟩ := prepareForApi_spec h
  simp [annotationOf, metaKey, getKey, lookup_insert_self, hs]

/-- `metadata.annotations[last-applied]` of the stripped object, read through `subMap` -/
theorem lacks_of_subMap {o : JVal} {kvs m a : Fields} (hs : strip o = .obj kvs) (hm : subMap "metadata" kvs = some m)
    (ha : subMap "annotations" m = some a) (hl : LacksLastApplied o) : JVal.lookup lastApplied a = none := by
  have h1 : (metaKey "annotations" (strip o)).bind (getKey lastApplied) = none := by
    unfold LacksLastApplied at hl
    rw [metaKey_strip (by decide)]
    cases hx : metaKey "annotations" o with
    | none => rfl
    | some x =>
      rw [hx] at hl
      simp only [Option.bind_some] at hl
      simp [getKey_strip lastApplied_not_directive, hl]
  rw [hs] at h1
  unfold metaKey at h1
  rw [lookup_of_subMap hm] at h1
  -- `lookup "annotations" m` is `none` or the map `a`
  unfold subMap at ha
  cases hla : JVal.lookup "annotations" m with
  | none => simp [hla] at ha; subst ha; rfl
  | some v =>
    cases v <;> simp [hla] at ha
    subst ha
    simpa [hla, getKey] using h1

theorem removeAnnotation_prepareForApi {enc : JVal → String} {o p : JVal} (h : prepareForApi enc o = some p)
    (hl : LacksLastApplied o) : HolderEq (removeAnnotation p) (strip o) := by
  obtain ⟨kvs, m, a, hs, hm, ha, rfl⟩ := prepareForApi_spec h
  have hla := lacks_of_subMap hs hm ha hl
  have hrem : removeAnnotation (.obj (JVal.insert "metadata"
      (.obj (JVal.insert "annotations" (.obj (JVal.insert lastApplied (.str (enc (.obj kvs))) a)) m)) kvs)) =
      .obj (JVal.insert "metadata" (.obj (JVal.insert "annotations" (.obj a) m)) kvs) := by
    simp [removeAnnotation, lookup_insert_self, erase_insert_of_lookup_none _ hla, insert_insert_same]
  rw [hrem, hs]
  unfold subMap at hm ha
  cases hlm : JVal.lookup "metadata" kvs with
  | none =>
    simp [hlm] at hm; subst hm
    simp [JVal.lookup] at ha; subst ha
    right; right
    exact ⟨kvs, rfl, hlm, by simp [JVal.insert]⟩
  | some mv =>
    cases mv with
    | obj m' =>
      simp [hlm] at hm
      subst hm
      cases hlan : JVal.lookup "annotations" m' with
      | none =>
        simp [hlan] at ha; subst ha
        right; left
        exact ⟨kvs, m', rfl, hlm, hlan, rfl⟩
      | some av =>
        cases av with
        | obj a' =>
          simp [hlan] at ha
          subst ha
          left
          rw [insert_of_lookup hlan, insert_of_lookup hlm]
        | _ => simp [hlan] at ha
    | _ => simp [hlm] at hm

/-! ## owner references through strip / `_prepare_for_api` -/

theorem ownerRefsOf_strip (o : JVal) : ownerRefsOf (strip o) = stripL (ownerRefsOf o) := by
  unfold ownerRefsOf
  rw [metaKey_strip (by decide)]
  cases h : metaKey "ownerReferences" o with
  | none => simp [stripL]
  | some v => cases v <;> simp [strip, stripL]

theorem metaKey_prepareForApi {enc : JVal → String} {o p : JVal} (h : prepareForApi enc o = some p) {k : String}
    (hk : k ≠ "annotations") : metaKey k p = metaKey k (strip o) := by
  obtain ⟨kvs, m, a, hs, hm, ha, rfl⟩ := prepareForApi_spec h
  rw [hs]
  have := lookup_of_subMap (k' := k) hm
  unfold metaKey
  rw [this]
  simp [getKey, lookup_insert_self, lookup_insert_ne _ hk]

theorem ownerRefsOf_prepareForApi {enc : JVal → String} {o p : JVal} (h : prepareForApi enc o = some p) :
    ownerRefsOf p = stripL (ownerRefsOf o) := by
  rw [← ownerRefsOf_strip]
  unfold ownerRefsOf
  rw [metaKey_prepareForApi h (by decide)]

theorem ownerRefsOf_setMetaKey {refs : List JVal} {v v' : JVal}
    (h : setMetaKey "ownerReferences" (.arr refs) v = some v') : ownerRefsOf v' = refs := by
  unfold ownerRefsOf
  rw [metaKey_setMetaKey_self h]

theorem pyEq_strip_str (x : JVal) (s : String) : JVal.pyEq (strip x) (.str s) = JVal.pyEq x (.str s) := by
  cases x <;> simp [strip, JVal.pyEq, JVal.num8?]

theorem uidOf_strip (r : JVal) : uidOf (strip r) = strip (uidOf r) := by
  unfold uidOf
  rw [getKey_strip (by decide)]
  cases getKey "uid" r <;> simp [strip]

theorem hasUid_stripL (s : String) : ∀ refs : List JVal, hasUid (.str s) (stripL refs) = hasUid (.str s) refs
  | [] => rfl
  | r :: rest => by
    have ih := hasUid_stripL s rest
    simp only [hasUid] at ih ⊢
    simp only [stripL, List.any_cons, uidOf_strip, pyEq_strip_str, ih]

theorem hasUid_append (u : JVal) (xs ys : List JVal) : hasUid u (xs ++ ys) = (hasUid u xs || hasUid u ys) := by
  simp [hasUid, List.any_append]

theorem hasUid_self {ref : JVal} {s : String} (h : uidOf ref = .str s) : hasUid (.str s) [ref] = true := by
  simp [hasUid, h, JVal.pyEq]

/-- whatever `_updated_owner_refs` answers contains a reference with the owner's uid, and every
    reference that was there -/
theorem updatedOwnerRefs_spec {view ref : JVal} {s : String} {refs : List JVal} (hu : uidOf ref = .str s)
    (h : updatedOwnerRefs view ref = some refs) :
    hasUid (.str s) refs = true ∧ (∀ r ∈ ownerRefsOf view, r ∈ refs) ∧
    (hasUid (.str s) (ownerRefsOf view) = false → refs = ownerRefsOf view ++ [ref]) := by
  unfold updatedOwnerRefs at h
  unfold ownerRefsOf metaKey
  cases hm : getKey "metadata" view with
  | none => simp [hm] at h
  | some mv =>
    cases mv with
    | obj m =>
      simp only [hm] at h
      simp only [Option.bind_some]
      simp only [getKey]
      cases hl : JVal.lookup "ownerReferences" m with
      | none => simp [hl] at h; subst h; exact ⟨hasUid_self hu, by simp, by simp⟩
      | some rv =>
        simp only [hl] at h ⊢
        by_cases ht : rv.truthy = true
        · simp only [ht, Bool.not_true, Bool.false_eq_true, if_false] at h
          cases rv with
          | arr xs =>
            simp only [hu] at h
            by_cases hx : hasUid (.str s) xs = true
            · simp [hx] at h; subst h; exact ⟨hx, by simp, by simp [hx]⟩
            · have hx' : hasUid (.str s) xs = false := by simpa using hx
              simp [hx'] at h; subst h
              exact ⟨by rw [hasUid_append, hasUid_self hu]; simp, fun r hr => by simp [hr], by simp⟩
          | _ => simp at h
        · have ht' : rv.truthy = false := by simpa using ht
          simp only [ht', Bool.not_false, if_true] at h
          cases h
          refine ⟨hasUid_self hu, ?_, ?_⟩
          · cases rv with
            | arr xs => cases xs <;> simp_all [JVal.truthy]
            | _ => simp
          · cases rv with
            | arr xs => cases xs <;> simp_all [JVal.truthy]
            | _ => simp
    | _ => simp [hm] at h

/-- `ownerReffed` is `hasUid` on the live references whenever `metadata` is a map and the
    references are a list or absent -/
theorem ownerReffed_false {live ref : JVal} {s : String} (hu : uidOf ref = .str s)
    (h : ownerReffed live ref = false) : hasUid (.str s) (ownerRefsOf live) = false := by
  unfold ownerReffed at h
  unfold ownerRefsOf metaKey
  cases hm : getKey "metadata" live with
  | none => simp [hm] at h
  | some mv =>
    cases mv with
    | obj m =>
      simp only [hm] at h
      simp only [Option.bind_some]
      simp only [getKey]
      cases hl : JVal.lookup "ownerReferences" m with
      | none => simp [hasUid]
      | some rv =>
        simp only [hl] at h ⊢
        cases rv with
        | arr xs =>
          by_cases ht : (JVal.arr xs).truthy = true
          · simpa [ht, hu] using h
          · cases xs <;> simp_all [JVal.truthy, hasUid]
        | _ => simp [hasUid]
    | _ => simp [hm] at h

/-! ## unique keys (what a Python dict guarantees) at the two levels a patch is read at -/

/-- top-level keys and the keys of `metadata` are distinct -/
def Uniq2 (v : JVal) : Prop :=
  ∀ kvs, v = .obj kvs → (JVal.keys kvs).Nodup ∧ ∀ m, JVal.lookup "metadata" kvs = some (.obj m) → (JVal.keys m).Nodup

theorem mem_keys_insert {k k' : String} (v : JVal) : ∀ l : Fields,
    k' ∈ JVal.keys (JVal.insert k v l) ↔ (k' = k ∨ k' ∈ JVal.keys l)
  | [] => by simp [JVal.insert, JVal.keys]
  | (k'', v'') :: rest => by
    by_cases h : k'' = k
    · subst h; simp [JVal.insert, JVal.keys]
    · have ih := mem_keys_insert (k := k) (k' := k') v rest
      simp only [JVal.keys] at ih
      simp only [JVal.insert, h, if_false, JVal.keys, List.map_cons, List.mem_cons, ih]
      constructor
      · rintro (h1 | h1 | h1)
        · exact Or.inr (Or.inl h1)
        · exact Or.inl h1
        · exact Or.inr (Or.inr h1)
      · rintro (h1 | h1 | h1)
        · exact Or.inr (Or.inl h1)
        · exact Or.inl h1
        · exact Or.inr (Or.inr h1)

theorem nodup_keys_insert (k : String) (v : JVal) : ∀ l : Fields, (JVal.keys l).Nodup → (JVal.keys (JVal.insert k v l)).Nodup
  | [], _ => by simp [JVal.insert, JVal.keys]
  | (k', v') :: rest, hn => by
    have hn' : k' ∉ JVal.keys rest ∧ (JVal.keys rest).Nodup := by simpa [JVal.keys] using hn
    by_cases h : k' = k
    · subst h; simpa [JVal.insert, JVal.keys] using hn
    · have ih := nodup_keys_insert k v rest hn'.2
      have hm := mem_keys_insert (k := k) (k' := k') v rest
      simp only [JVal.keys] at ih hm hn'
      simp only [JVal.insert, h, if_false, JVal.keys, List.map_cons, List.nodup_cons]
      refine ⟨?_, ih⟩
      rw [hm]
      rintro (h1 | h1)
      · exact h h1
      · exact hn'.1 h1

theorem mem_keys_stripO {k : String} : ∀ kvs : Fields, k ∈ JVal.keys (stripO kvs) → k ∈ JVal.keys kvs
  | [], h => by simp [stripO, JVal.keys] at h
  | (k', v') :: rest, h => by
    by_cases hd : isDirective k' = true
    · simp only [stripO, hd, if_true] at h
      have := mem_keys_stripO rest h
      simp only [JVal.keys, List.map_cons, List.mem_cons] at this ⊢
      exact Or.inr this
    · have hd' : isDirective k' = false := by simpa using hd
      simp only [stripO, hd', Bool.false_eq_true, if_false, JVal.keys, List.map_cons, List.mem_cons] at h ⊢
      rcases h with h | h
      · exact Or.inl h
      · exact Or.inr (mem_keys_stripO rest h)

theorem nodup_keys_stripO : ∀ kvs : Fields, (JVal.keys kvs).Nodup → (JVal.keys (stripO kvs)).Nodup
  | [], _ => by simp [stripO, JVal.keys]
  | (k', v') :: rest, hn => by
    have hn' : k' ∉ JVal.keys rest ∧ (JVal.keys rest).Nodup := by simpa [JVal.keys] using hn
    by_cases hd : isDirective k' = true
    · simp only [stripO, hd, if_true]; exact nodup_keys_stripO rest hn'.2
    · have hd' : isDirective k' = false := by simpa using hd
      have ih := nodup_keys_stripO rest hn'.2
      simp only [JVal.keys] at ih
      simp only [stripO, hd', Bool.false_eq_true, if_false, JVal.keys, List.map_cons, List.nodup_cons]
      exact ⟨fun hmem => hn'.1 (mem_keys_stripO rest hmem), ih⟩

theorem not_mem_keys_of_lookup_none {k : String} : ∀ {l : Fields}, JVal.lookup k l = none → k ∉ JVal.keys l
  | [], _ => by simp [JVal.keys]
  | (k', v') :: rest, h => by
    by_cases hk : k' = k
    · simp [JVal.lookup, hk] at h
    · simp [JVal.lookup, hk] at h
      have := not_mem_keys_of_lookup_none h
      simp only [JVal.keys, List.map_cons, List.mem_cons, not_or] at this ⊢
      exact ⟨fun e => hk e.symm, this⟩

theorem uniq2_strip {o : JVal} (h : Uniq2 o) : Uniq2 (strip o) := by
  intro kvs hs
  cases o with
  | obj okvs =>
    simp only [strip, JVal.obj.injEq] at hs
    subst hs
    obtain ⟨h1, h2⟩ := h okvs rfl
    refine ⟨nodup_keys_stripO okvs h1, ?_⟩
    intro m hm
    rw [lookup_stripO (by decide)] at hm
    cases hl : JVal.lookup "metadata" okvs with
    | none => simp [hl] at hm
    | some mv =>
      cases mv with
      | obj om =>
        simp [hl, strip] at hm
        subst hm
        exact nodup_keys_stripO om (h2 om hl)
      | _ => simp [hl, strip] at hm
  | arr xs => simp [strip] at hs
  | null => simp [strip] at hs
  | bool b => simp [strip] at hs
  | int n => simp [strip] at hs
  | flt e => simp [strip] at hs
  | str s => simp [strip] at hs

theorem nodup_of_subMap {k : String} {kvs m : Fields} (h : subMap k kvs = some m)
    (hn : ∀ m', JVal.lookup k kvs = some (.obj m') → (JVal.keys m').Nodup) : (JVal.keys m).Nodup := by
  unfold subMap at h
  cases hl : JVal.lookup k kvs with
  | none => simp [hl] at h; subst h; simp [JVal.keys]
  | some v =>
    cases v <;> simp [hl] at h
    subst h
    exact hn _ hl

theorem uniq2_setMetaKey {k : String} {x v v' : JVal} (h : setMetaKey k x v = some v') (hu : Uniq2 v) : Uniq2 v' := by
  obtain ⟨kvs, m, rfl, hm, rfl⟩ := setMetaKey_spec h
  obtain ⟨h1, h2⟩ := hu kvs rfl
  intro kvs' hk
  simp only [JVal.obj.injEq] at hk
  subst hk
  refine ⟨nodup_keys_insert _ _ _ h1, ?_⟩
  intro m' hm'
  rw [lookup_insert_self] at hm'
  simp only [Option.some.injEq, JVal.obj.injEq] at hm'
  subst hm'
  exact nodup_keys_insert _ _ _ (h2 m hm)

/-! ## what the server's merge-patch does to `metadata.ownerReferences` -/

/-- the payload of `_prepare_for_api` as a patch: top-level and metadata keys are distinct, and
    its `metadata` is a map -/
theorem prepareForApi_patch_shape {enc : JVal → String} {o p : JVal} (h : prepareForApi enc o = some p) (hu : Uniq2 o) :
    ∃ pkvs pm, p = .obj pkvs ∧ (JVal.keys pkvs).Nodup ∧ JVal.lookup "metadata" pkvs = some (.obj pm) ∧
      (JVal.keys pm).Nodup ∧ JVal.lookup "ownerReferences" pm = (metaKey "ownerReferences" (strip o)) := by
  obtain ⟨kvs, m, a, hs, hm, ha, rfl⟩ := prepareForApi_spec h
  have hus := uniq2_strip hu
  obtain ⟨h1, h2⟩ := hus kvs hs
  have hmn : (JVal.keys m).Nodup := nodup_of_subMap hm h2
  refine ⟨_, _, rfl, nodup_keys_insert _ _ _ h1, lookup_insert_self _ _ _, nodup_keys_insert _ _ _ hmn, ?_⟩
  rw [lookup_insert_ne _ (by decide), hs]
  have := lookup_of_subMap (k' := "ownerReferences") hm
  unfold metaKey
  rw [this]

/-- merge-patching a live object with such a payload: the references become the payload's when
    it lists some, and stay the live ones when it does not mention the key -/
theorem ownerRefsOf_mergePatch (live : JVal) {pkvs pm : Fields} (hn : (JVal.keys pkvs).Nodup)
    (hm : JVal.lookup "metadata" pkvs = some (.obj pm)) (hmn : (JVal.keys pm).Nodup) :
    (∀ refs, JVal.lookup "ownerReferences" pm = some (.arr refs) →
        ownerRefsOf (mergePatch live (.obj pkvs)) = refs) ∧
    (JVal.lookup "ownerReferences" pm = none →
        ownerRefsOf (mergePatch live (.obj pkvs)) = ownerRefsOf live) := by
  have hmeta : ∀ tkvs : Fields, JVal.lookup "metadata" (mergePatchO tkvs pkvs) =
      some (mergePatch ((JVal.lookup "metadata" tkvs).getD .null) (.obj pm)) :=
    fun tkvs => lookup_mergePatchO_mem pkvs hn tkvs (.obj pm) hm (by simp)
  constructor
  · intro refs hr
    unfold ownerRefsOf metaKey
    simp only [mergePatch, getKey, hmeta, Option.bind_some]
    rw [lookup_mergePatchO_mem pm hmn _ (.arr refs) hr (by simp)]
    simp [mergePatch]
  · intro hr
    have hnm := not_mem_keys_of_lookup_none hr
    unfold ownerRefsOf metaKey
    simp only [mergePatch, getKey, hmeta, Option.bind_some]
    rw [lookup_mergePatchO_not_mem pm hnm]
    cases live with
    | obj lkvs =>
      cases hl : JVal.lookup "metadata" lkvs with
      | none => simp [JVal.lookup, hl]
      | some lm => cases lm <;> simp [JVal.lookup, getKey, hl]
    | _ => simp [JVal.lookup]

/-! ## owner references of the payloads -/

theorem stripL_append : ∀ xs ys : List JVal, stripL (xs ++ ys) = stripL xs ++ stripL ys
  | [], ys => rfl
  | x :: xs, ys => by simp [stripL, stripL_append xs ys]

theorem ownerRefsOf_krRaw (c : ApiClass) (v : JVal) : ownerRefsOf (krRaw c v) = ownerRefsOf v := by
  unfold ownerRefsOf; rw [metaKey_krRaw]

theorem ownerRefsOf_krNew {v v' : JVal} {ns : Option String} (h : krNew v ns = some v') :
    ownerRefsOf v' = ownerRefsOf v := by
  cases ns with
  | none => simp [krNew] at h; rw [h]
  | some n => unfold ownerRefsOf; rw [metaKey_setMetaKey_ne h (by decide)]

theorem ownerRefsOf_krLoaded {c : ApiClass} {stored live : JVal} {ns : Option String}
    (h : krLoaded c stored ns = some live) : ownerRefsOf live = ownerRefsOf stored := by
  unfold krLoaded at h
  simp only [Option.map_eq_some_iff] at h
  obtain ⟨o, ho, rfl⟩ := h
  rw [ownerRefsOf_krRaw, ownerRefsOf_krNew ho]

theorem ownerRefsOf_createRequest {c : ApiClass} {defNs : String} {p : JVal} {ns : Option String} {req : Request}
    (h : createRequest c defNs p ns = some req) : ∃ b, req.body = some b ∧ ownerRefsOf b = ownerRefsOf p := by
  unfold createRequest at h
  simp only [Option.map_eq_some_iff] at h
  obtain ⟨o, ho, rfl⟩ := h
  exact ⟨_, rfl, by rw [ownerRefsOf_krRaw, ownerRefsOf_krNew ho]⟩

/-- owner reference of a create payload: there when the function should own the object; and when
    the view does not itself list the parent, only then -/
theorem createPayload_owner {enc : JVal → String} {f view ref p : JVal} {cov : Option Step} {so : Bool} {s : String}
    (hu : uidOf ref = .str s) (h : createPayload enc f view cov so ref = some p) :
    (so = true → hasUid (.str s) (ownerRefsOf p) = true) ∧
    ((∀ v, applyCreateOv cov view = some v → hasUid (.str s) (ownerRefsOf (deepOverlay v f)) = false) →
      (hasUid (.str s) (ownerRefsOf p) = true ↔ so = true)) := by
  unfold createPayload at h
  cases hv : applyCreateOv cov view with
  | none => rw [hv] at h; simp at h
  | some v =>
    rw [hv] at h
    simp only [Option.bind_some] at h
    cases hw : withOwner so (deepOverlay v f) ref (deepOverlay v f) with
    | none => rw [hw] at h; simp at h
    | some w =>
      rw [hw] at h
      simp only [Option.bind_some] at h
      have hp := ownerRefsOf_prepareForApi h
      cases so with
      | true =>
        simp only [withOwner, if_true] at hw
        cases hr : updatedOwnerRefs (deepOverlay v f) ref with
        | none => simp [hr] at hw
        | some refs =>
          simp [hr] at hw
          have h1 := (updatedOwnerRefs_spec hu hr).1
          have : hasUid (.str s) (ownerRefsOf p) = true := by
            rw [hp, hasUid_stripL, ownerRefsOf_setMetaKey hw]; exact h1
          exact ⟨fun _ => this, fun _ => ⟨fun _ => rfl, fun _ => this⟩⟩
      | false =>
        simp [withOwner] at hw
        subst hw
        refine ⟨fun hf => (by cases hf), fun hT => ?_⟩
        rw [hp, hasUid_stripL, hT v rfl]

theorem mem_keys_erase {k k' : String} : ∀ l : Fields, k' ∈ JVal.keys (JVal.erase k l) → k' ∈ JVal.keys l
  | [], h => by simp [JVal.erase, JVal.keys] at h
  | (k'', v'') :: rest, h => by
    by_cases hk : k'' = k
    · simp only [JVal.erase, hk, if_true] at h
      simp only [JVal.keys, List.map_cons, List.mem_cons] at h ⊢
      exact Or.inr h
    · simp only [JVal.erase, hk, if_false, JVal.keys, List.map_cons, List.mem_cons] at h ⊢
      rcases h with h | h
      · exact Or.inl h
      · exact Or.inr (mem_keys_erase rest h)

theorem nodup_keys_erase (k : String) : ∀ l : Fields, (JVal.keys l).Nodup → (JVal.keys (JVal.erase k l)).Nodup
  | [], _ => by simp [JVal.erase, JVal.keys]
  | (k', v') :: rest, hn => by
    have hn' : k' ∉ JVal.keys rest ∧ (JVal.keys rest).Nodup := by simpa [JVal.keys] using hn
    by_cases hk : k' = k
    · simp only [JVal.erase, hk, if_true]; exact hn'.2
    · have ih := nodup_keys_erase k rest hn'.2
      simp only [JVal.keys] at ih
      simp only [JVal.erase, hk, if_false, JVal.keys, List.map_cons, List.nodup_cons]
      exact ⟨fun hm => hn'.1 (mem_keys_erase rest hm), ih⟩

theorem uniq2_dropMetaKey {k : String} {v v' : JVal} (h : dropMetaKey k v = some v') (hu : Uniq2 v) : Uniq2 v' := by
  obtain ⟨kvs, m, rfl, hm, rfl⟩ := dropMetaKey_spec h
  obtain ⟨h1, h2⟩ := hu kvs rfl
  intro kvs' hk
  simp only [JVal.obj.injEq] at hk
  subst hk
  refine ⟨nodup_keys_insert _ _ _ h1, ?_⟩
  intro m' hm'
  rw [lookup_insert_self] at hm'
  simp only [Option.some.injEq, JVal.obj.injEq] at hm'
  subst hm'
  exact nodup_keys_erase _ _ (h2 m hm)

theorem metaKey_dropMetaKey_self {k : String} {v v' : JVal} (h : dropMetaKey k v = some v') (hu : Uniq2 v) :
    metaKey k v' = none := by
  obtain ⟨kvs, m, rfl, hm, rfl⟩ := dropMetaKey_spec h
  simp [metaKey, getKey, lookup_insert_self, lookup_erase_self k m ((hu kvs rfl).2 m hm)]

/-- owner references after the server has merge-patched `target` with a patch payload: the live
    list with ours appended when ours was missing, and otherwise — whatever the target says about
    owner references — exactly the list the patched object already has -/
theorem patch_merged_refs {enc : JVal → String} {expected live ref p : JVal} {so r : Bool} {s : String} (target : JVal)
    (hu : uidOf ref = .str s) (hU : Uniq2 expected) (h : patchPayload enc expected live ref so r = some p) :
    (so = true → r = false → ownerReffed live ref = false →
        ownerRefsOf (mergePatch target p) = stripL (ownerRefsOf live) ++ [strip ref]) ∧
    ((so && !r) = false → ownerRefsOf (mergePatch target p) = ownerRefsOf target) := by
  unfold patchPayload at h
  cases hw : patchView expected live ref so r with
  | none => rw [hw] at h; simp at h
  | some w =>
    rw [hw] at h
    simp only [Option.bind_some] at h
    unfold patchView at hw
    constructor
    · intro hso hr hreff
      subst hso; subst hr
      simp only [withOwner, Bool.not_false, Bool.and_self, if_true] at hw
      cases hrefs : updatedOwnerRefs live ref with
      | none => simp [hrefs] at hw
      | some refs =>
        simp [hrefs] at hw
        have hrefs' := (updatedOwnerRefs_spec hu hrefs).2.2 (ownerReffed_false hu hreff)
        obtain ⟨pkvs, pm, rfl, hn, hm, hmn, hl⟩ := prepareForApi_patch_shape h (uniq2_setMetaKey hw hU)
        rw [metaKey_strip (by decide), metaKey_setMetaKey_self hw] at hl
        simp only [Option.map_some, strip] at hl
        rw [(ownerRefsOf_mergePatch target hn hm hmn).1 _ hl, hrefs', stripL_append]
        simp [stripL]
    · intro hso
      simp only [hso, Bool.false_eq_true, if_false] at hw
      obtain ⟨pkvs, pm, rfl, hn, hm, hmn, hl⟩ := prepareForApi_patch_shape h (uniq2_dropMetaKey hw hU)
      rw [metaKey_strip (by decide), metaKey_dropMetaKey_self hw hU] at hl
      exact (ownerRefsOf_mergePatch target hn hm hmn).2 hl

/-! ## the server's side of one request, and a lost creation race -/

/-- What the cluster holds under the request's address once the server has handled the request,
    given what it holds when the request ARRIVES (`now` — which need not be what the load saw:
    somebody else may have created or removed the object in between).  cluster.py `_apply`: a POST
    onto an existing object is answered 409 and changes nothing, a PATCH is an RFC 7386 merge-patch
    (404 when there is nothing to patch), a DELETE removes. -/
def serverAfter (now : Option JVal) : Option Request → Option JVal
  | none => now
  | some r =>
    match r.method, now with
    | .post, none => r.body
    | .post, some o => some o
    | .patch, some o => some (match r.body with | some b => mergePatch o b | none => o)
    | .patch, none => none
    | .delete, _ => none

/-- a reconcile whose load found nothing sends a POST or nothing: never a PATCH, never a DELETE -/
theorem absent_request_is_post {enc : JVal → String} {defNs : String} {cmp : JVal → JVal → Bool} {pp : Bool}
    {rf : Rf} {owner : Owner} {req : Request}
    (h : (reconcile enc defNs cmp pp rf owner none).request = some req) : req.method = .post := by
  rcases request_cases enc defNs cmp rf owner none req (request_of_reconcile h) with
    ⟨_, _, _, _, view, p, _, _, hq⟩ | ⟨live, _, _, hl, _⟩ | ⟨live, hl, _⟩
  · simp only [createRequest, Option.map_eq_some_iff] at hq
    obtain ⟨o, _, rfl⟩ := hq
    rfl
  · simp [loadedOf] at hl
  · simp [loadedOf] at hl

end Koreo.Rf
