/-
  Helper lemmas for C20 `extract_total`: inversion of grammar conformance, conformance of
  subtrees, and "naming an access never lets an exception out" by induction on the tree size.
-/
import Koreo.CelAst

namespace Koreo.CelAst
open Cel

/-! ## sizes -/

theorem Cel.size_pos (t : Cel) : 0 < t.size := by
  cases t <;> simp [Cel.size] <;> omega

theorem Cel.size_lt_of_mem {c : Cel} {cs : List Cel} (h : c ∈ cs) : c.size ≤ Cel.sizeL cs := by
  induction cs with
  | nil => cases h
  | cons x xs ih =>
    simp only [Cel.sizeL]
    rcases List.mem_cons.1 h with rfl | h
    · omega
    · have := ih h; omega

/-! ## conformance: inversion -/

/-- what a child of a conformant node is -/
def ChildOk (g : Grammar) (c : Cel) : Prop :=
  (∃ k kids, c = .node k kids ∧ Conf g c) ∨ (∃ t s, c = .tok t s ∧ s ≠ "")

theorem yield_children {g : Grammar} {rhs : List Sym} {cs : List Cel} (h : Yield g rhs cs) :
    ∀ c ∈ cs, ChildOk g c := by
  refine Yield.rec (motive_1 := fun _ _ => True) (motive_2 := fun _ cs _ => ∀ c ∈ cs, ChildOk g c)
    ?_ ?_ ?_ ?_ ?_ ?_ h
  · intros; trivial
  · intro c hc; cases hc
  · intro k kids rest cs hconf _ _ ih c hc
    rcases List.mem_cons.1 hc with rfl | hc
    · exact Or.inl ⟨k, kids, rfl, hconf⟩
    · exact ih c hc
  · intro t s rest cs hs _ ih c hc
    rcases List.mem_cons.1 hc with rfl | hc
    · exact Or.inr ⟨t, s, rfl, hs⟩
    · exact ih c hc
  · intro rest cs _ ih c hc; exact ih c hc
  · intro h rhs rest cs₁ cs₂ _ _ _ ih1 ih2 c hc
    rcases List.mem_append.1 hc with hc | hc
    · exact ih1 c hc
    · exact ih2 c hc

/-- a visible symbol and the child it produced -/
def MatchSym (g : Grammar) : Sym → Cel → Prop
  | .nt k, c => ∃ kids, c = .node k kids ∧ Conf g c
  | .tk t, c => ∃ s, c = .tok t s ∧ s ≠ ""
  | _, _ => False

/-- the visible symbols and the children, position by position -/
def Matches (g : Grammar) : List Sym → List Cel → Prop
  | [], [] => True
  | s :: ss, c :: cs => MatchSym g s c ∧ Matches g ss cs
  | _, _ => False

theorem yield_visible {g : Grammar} {rhs : List Sym} {cs : List Cel} (h : Yield g rhs cs) :
    (∀ n, Sym.inl n ∉ visible rhs) → Matches g (visible rhs) cs := by
  refine Yield.rec (motive_1 := fun _ _ => True)
    (motive_2 := fun rhs cs _ => (∀ n, Sym.inl n ∉ visible rhs) → Matches g (visible rhs) cs)
    ?_ ?_ ?_ ?_ ?_ ?_ h
  · intros; trivial
  · intro _; trivial
  · intro k kids rest cs hconf _ _ ih hn
    simp only [visible] at hn ⊢
    exact ⟨⟨kids, rfl, hconf⟩, ih fun n hm => hn n (List.mem_cons_of_mem _ hm)⟩
  · intro t s rest cs hs _ ih hn
    simp only [visible] at hn ⊢
    exact ⟨⟨s, rfl, hs⟩, ih fun n hm => hn n (List.mem_cons_of_mem _ hm)⟩
  · intro rest cs _ ih hn
    simp only [visible] at hn ⊢
    exact ih hn
  · intro h rhs rest cs₁ cs₂ _ _ _ _ _ hn
    simp only [visible] at hn
    exact absurd (List.mem_cons_self) (hn h)

theorem conf_alts {g : Grammar} {k : Kind} {cs : List Cel} (h : Conf g (.node k cs)) :
    ∃ rhs ∈ alts g k, Yield g rhs cs := by
  cases h with
  | node hm hy =>
    rename_i rhs
    refine ⟨rhs, ?_, hy⟩
    unfold alts
    refine List.mem_map.2 ⟨⟨.rule k, rhs⟩, List.mem_filter.2 ⟨hm, ?_⟩, rfl⟩
    simp

theorem conf_children {g : Grammar} {k : Kind} {cs : List Cel} (h : Conf g (.node k cs)) :
    ∀ c ∈ cs, ChildOk g c := by
  obtain ⟨_, _, hy⟩ := conf_alts h
  exact yield_children hy

/-- the children of a conformant node whose alternatives have no spliced helper -/
theorem conf_shape {g : Grammar} {k : Kind} {cs : List Cel} (h : Conf g (.node k cs))
    {P : List Sym → Prop} (hall : ∀ r ∈ alts g k, P (visible r))
    (hP : ∀ v, P v → ∀ n, Sym.inl n ∉ v) :
    ∃ v, P v ∧ Matches g v cs := by
  obtain ⟨rhs, hr, hy⟩ := conf_alts h
  exact ⟨visible rhs, hall rhs hr, yield_visible hy (hP _ (hall rhs hr))⟩

/-! ## every subtree of a conformant tree is conformant -/

mutual
theorem subtrees_conf {g : Grammar} : ∀ (t : Cel), Conf g t → ∀ s ∈ t.subtrees, Conf g s
  | .node k cs, h, s, hs => by
    simp only [Cel.subtrees, List.mem_cons] at hs
    rcases hs with rfl | hs
    · exact h
    · exact subtreesL_conf cs (conf_children h) s hs
  | .tok .., _, s, hs => by simp [Cel.subtrees] at hs
theorem subtreesL_conf {g : Grammar} : ∀ (cs : List Cel), (∀ c ∈ cs, ChildOk g c) → ∀ s ∈ Cel.subtreesL cs, Conf g s
  | [], _, s, hs => by simp [Cel.subtreesL] at hs
  | c :: cs, h, s, hs => by
    simp only [Cel.subtreesL, List.mem_append] at hs
    rcases hs with hs | hs
    · rcases h c (List.mem_cons_self) with ⟨k, kids, rfl, hc⟩ | ⟨t, s', rfl, _⟩
      · exact subtrees_conf _ hc s hs
      · simp [Cel.subtrees] at hs
    · exact subtreesL_conf cs (fun c' hc' => h c' (List.mem_cons_of_mem _ hc')) s hs
end

/-! ## `DispatchComplete` unpacked -/

structure DCFacts (g : Grammar) (d : Dispatch) : Prop where
  dot : ∀ r ∈ alts g .member_dot, visible r = [.nt .member, .tk .IDENT]
  arg : ∀ r ∈ alts g .member_dot_arg,
    visible r = [.nt .member, .tk .IDENT, .nt .exprlist] ∨ (visible r = [.nt .member, .tk .IDENT] ∧ d.argLen = .skip)
  idx : ∀ r ∈ alts g .member_index, visible r = [.nt .member, .nt .expr]
  term : d.idxTerms.contains .expr = true ∨ d.idxTerm = .skip
  empty : d.idxEmpty = .skip
  chain : ∀ k ∈ chainKinds, ∀ r ∈ alts g k, chainAltOk r = true
  member : ∀ r ∈ alts g .member, ∃ k, visible r = [.nt k] ∧ k ∈ wrappedKinds g .member
  dotRoots : rootsOk d.dotRoots d.dotRoot (wrappedKinds g .member) = true
  argRoots : rootsOk d.argRoots d.argRoot (wrappedKinds g .member) = true
  idxRoots : rootsOk d.idxRoots d.idxRoot (wrappedKinds g .member) = true
  primary : ∀ r ∈ alts g .primary, ∃ k, visible r = [.nt k] ∧ k ∈ wrappedKinds g .primary
  primKids : ∀ k ∈ wrappedKinds g .primary, primaryChildOk g d k = true

theorem singleNt_eq {v : List Sym} {k : Kind} (h : singleNt v = some k) : v = [.nt k] := by
  unfold singleNt at h
  split at h
  · cases h; rfl
  · cases h

theorem allWrapped_spec {g : Grammar} {k : Kind} (h : allWrapped g k = true) :
    ∀ r ∈ alts g k, ∃ k', visible r = [.nt k'] ∧ k' ∈ wrappedKinds g k := by
  intro r hr
  unfold allWrapped at h
  have h1 := List.all_eq_true.1 h r hr
  cases hs : singleNt (visible r) with
  | none => simp [hs] at h1
  | some k' =>
    refine ⟨k', singleNt_eq hs, ?_⟩
    unfold wrappedKinds
    exact List.mem_filterMap.2 ⟨r, hr, hs⟩

theorem dc_facts {g : Grammar} {d : Dispatch} (h : DispatchComplete g d = true) : DCFacts g d := by
  simp only [DispatchComplete, Bool.and_eq_true] at h
  obtain ⟨⟨⟨⟨⟨⟨⟨⟨⟨⟨⟨h1, h2⟩, h3⟩, h4⟩, h5⟩, h6⟩, h7⟩, h8⟩, h9⟩, h10⟩, h11⟩, h12⟩ := h
  refine ⟨?_, ?_, ?_, ?_, ?_, ?_, allWrapped_spec h7, h8, h9, h10, allWrapped_spec h11, ?_⟩
  · intro r hr; simpa using List.all_eq_true.1 h1 r hr
  · intro r hr; simpa using List.all_eq_true.1 h2 r hr
  · intro r hr; simpa using List.all_eq_true.1 h3 r hr
  · simpa using h4
  · simpa using h5
  · intro k hk r hr
    unfold chainClosed at h6
    exact List.all_eq_true.1 (List.all_eq_true.1 h6 k hk) r hr
  · intro k hk; exact List.all_eq_true.1 h12 k hk

theorem rootsOk_spec {roots : List Kind} {fall : Fall} {ks : List Kind} (h : rootsOk roots fall ks = true)
    {k : Kind} (hk : k ∈ ks) :
    (roots.contains k = true ∧ handlers.contains k = true) ∨ (roots.contains k = false ∧ fall = .skip) := by
  have := List.all_eq_true.1 h k hk
  cases hc : roots.contains k with
  | true => left; rw [hc] at this; exact ⟨rfl, by simpa using this⟩
  | false => right; rw [hc] at this; exact ⟨rfl, by simpa using this⟩

/-! ## first child of a conformant node -/

theorem yield_head {g : Grammar} {rhs : List Sym} {cs : List Cel} (h : Yield g rhs cs) :
    ∀ s rest, visible rhs = s :: rest → (∀ n, s ≠ .inl n) → ∃ c cs', cs = c :: cs' ∧ MatchSym g s c := by
  refine Yield.rec (motive_1 := fun _ _ => True)
    (motive_2 := fun rhs cs _ => ∀ s rest, visible rhs = s :: rest → (∀ n, s ≠ .inl n) →
      ∃ c cs', cs = c :: cs' ∧ MatchSym g s c)
    ?_ ?_ ?_ ?_ ?_ ?_ h
  · intros; trivial
  · intro s rest hv; simp [visible] at hv
  · intro k kids rest cs hconf _ _ _ s rest' hv _
    simp only [visible, List.cons.injEq] at hv
    obtain ⟨rfl, _⟩ := hv
    exact ⟨_, _, rfl, kids, rfl, hconf⟩
  · intro t s rest cs hs _ _ s' rest' hv _
    simp only [visible, List.cons.injEq] at hv
    obtain ⟨rfl, _⟩ := hv
    exact ⟨_, _, rfl, s, rfl, hs⟩
  · intro rest cs _ ih s rest' hv hn
    simp only [visible] at hv
    exact ih s rest' hv hn
  · intro h rhs rest cs₁ cs₂ _ _ _ _ _ s rest' hv hn
    simp only [visible, List.cons.injEq] at hv
    exact absurd hv.1.symm (hn h)

theorem yield_nil {g : Grammar} {rhs : List Sym} {cs : List Cel} (h : Yield g rhs cs)
    (hv : visible rhs = []) : cs = [] := by
  have := yield_visible h (by rw [hv]; intro n hn; cases hn)
  rw [hv] at this
  cases cs with
  | nil => rfl
  | cons => exact absurd this (by simp [Matches])

/-! ## the index descent -/

def DescOk (g : Grammar) : Desc → Prop
  | .attrErr => False
  | .none => True
  | .found p => ∃ pcs, p = .node .primary pcs ∧ Conf g p

theorem descend_ok {g : Grammar} (hc : ∀ k ∈ chainKinds, ∀ r ∈ alts g k, chainAltOk r = true) :
    ∀ (t : Cel), Conf g t → (∀ k cs, t = .node k cs → k ∈ chainKinds ∨ k = .primary) → DescOk g (descend t)
  | .tok .., h, _ => by cases h
  | .node k [], _, _ => by simp [descend, DescOk]
  | .node k (c :: cs), h, hk => by
    by_cases hp : k = .primary
    · subst hp
      simp only [descend, if_true]
      exact ⟨_, rfl, h⟩
    · simp only [descend, hp, if_false]
      have hkc : k ∈ chainKinds := by
        rcases hk k _ rfl with h1 | h1
        · exact h1
        · exact absurd h1 hp
      obtain ⟨rhs, hr, hy⟩ := conf_alts h
      have hok := hc k hkc rhs hr
      unfold chainAltOk at hok
      split at hok
      · rename_i hv
        have := yield_nil hy hv
        cases this
      · rename_i k' rest hv
        obtain ⟨c', cs', hcs, kids, rfl, hconf⟩ := yield_head hy _ _ hv (by intro n hn; cases hn)
        simp only [List.cons.injEq] at hcs
        obtain ⟨rfl, _⟩ := hcs
        refine descend_ok hc _ hconf ?_
        intro k2 cs2 he
        cases he
        simp only [Bool.or_eq_true, beq_iff_eq] at hok
        rcases hok with h1 | h1
        · left; simpa using h1
        · right; exact h1
      · cases hok

/-! ## `_process_primary` on a grammatical `primary` -/

theorem isRaise_dot (r : R) (s : String) : (r.dot s).isRaise = r.isRaise := by
  cases r <;> rfl

theorem isRaise_site_skip (msg : String) : (site .skip msg).isRaise = false := rfl

theorem primary_ok {g : Grammar} {d : Dispatch} (F : DCFacts g d) {pcs : List Cel}
    (h : Conf g (.node .primary pcs)) : (processPrimary d (.node .primary pcs)).isRaise = false := by
  obtain ⟨v, ⟨k, hv, hk⟩, hm⟩ := conf_shape (P := fun v => ∃ k, v = [.nt k] ∧ k ∈ wrappedKinds g .primary) h
    F.primary (by rintro v ⟨k, rfl, _⟩ n hn; simp at hn)
  subst hv
  match pcs, hm with
  | [c], hm =>
    simp only [Matches, MatchSym, and_true] at hm
    obtain ⟨kids, rfl, hck⟩ := hm
    have hpk := F.primKids k hk
    unfold primaryChildOk at hpk
    cases hcon : d.primKinds.contains k with
    | false =>
      rw [hcon] at hpk
      have : d.primKind = .skip := by simpa using hpk
      have hcon' : k ∉ d.primKinds := by simpa using hcon
      simp [processPrimary, hcon', this, site, R.isRaise]
    | true =>
      rw [hcon] at hpk
      simp only [if_true, Bool.or_eq_true, Bool.and_eq_true, beq_iff_eq] at hpk
      rcases hpk with ⟨rfl, hall⟩ | ⟨rfl, hall⟩
      · obtain ⟨v, hv, hm⟩ := conf_shape (P := fun v => v = [.tk .IDENT]) hck
          (fun r hr => by simpa using List.all_eq_true.1 hall r hr)
          (by rintro v rfl n hn; simp at hn)
        subst hv
        match kids, hm with
        | [c'], hm =>
          simp only [Matches, MatchSym, and_true] at hm
          obtain ⟨s, rfl, _⟩ := hm
          have hcon' : Kind.ident ∈ d.primKinds := by simpa using hcon
          simp [processPrimary, hcon', R.isRaise]
      · obtain ⟨v, hv, hm⟩ := conf_shape (P := fun v => ∃ t, v = [.tk t]) hck
          (fun r hr => by
            have := List.all_eq_true.1 hall r hr
            split at this
            · exact ⟨_, by assumption⟩
            · cases this)
          (by rintro v ⟨t, rfl⟩ n hn; simp at hn)
        obtain ⟨t, rfl⟩ := hv
        match kids, hm with
        | [c'], hm =>
          simp only [Matches, MatchSym, and_true] at hm
          obtain ⟨s, rfl, hs⟩ := hm
          have hcon' : Kind.literal ∈ d.primKinds := by simpa using hcon
          simp only [processPrimary, List.contains_eq_mem, hcon', decide_true, if_true]
          split
          · rfl
          · simp [R.isRaise]

/-! ## naming an access of a grammatical tree never lets an exception out -/

/-- the receiver `tree.children[0]` of a grammatical access: `member[root]` -/
theorem recv_shape {g : Grammar} {d : Dispatch} (F : DCFacts g d) {mkids : List Cel}
    (h : Conf g (.node .member mkids)) :
    ∃ rk rkids, mkids = [.node rk rkids] ∧ Conf g (.node rk rkids) ∧ rk ∈ wrappedKinds g .member := by
  obtain ⟨v, ⟨k, hv, hk⟩, hm⟩ := conf_shape (P := fun v => ∃ k, v = [.nt k] ∧ k ∈ wrappedKinds g .member) h
    F.member (by rintro v ⟨k, rfl, _⟩ n hn; simp at hn)
  subst hv
  match mkids, hm with
  | [c], hm =>
    simp only [Matches, MatchSym, and_true] at hm
    obtain ⟨kids, rfl, hck⟩ := hm
    exact ⟨k, kids, rfl, hck, hk⟩

theorem mem_handlers {k : Kind} (h : handlers.contains k = true) :
    k = .member_dot ∨ k = .member_index ∨ k = .member_dot_arg ∨ k = .primary := by
  simpa [handlers] using h

/-- the three naming functions, on a node of their own kind -/
def NameOk (d : Dispatch) (t : Cel) : Prop :=
  match t with
  | .node .member_dot _ => (processMemberDot d t).isRaise = false
  | .node .member_index _ => (processMemberIndex d t).isRaise = false
  | .node .member_dot_arg _ => (processMemberDotArg d t).isRaise = false
  | _ => True

theorem name_ok {g : Grammar} {d : Dispatch} (F : DCFacts g d) :
    ∀ (n : Nat) (t : Cel), t.size ≤ n → Conf g t → NameOk d t := by
  intro n
  induction n with
  | zero => intro t hs; have := Cel.size_pos t; omega
  | succ n ih =>
    intro t hs hc
    -- what the induction hypothesis gives for a receiver root
    have recv : ∀ (mkids : List Cel), Conf g (.node .member mkids) → Cel.sizeL mkids + 2 ≤ t.size →
        ∃ rk rkids, mkids = [.node rk rkids] ∧ rk ∈ wrappedKinds g .member ∧
          (rk = .primary → (processPrimary d (.node rk rkids)).isRaise = false) ∧
          NameOk d (.node rk rkids) := by
      intro mkids hm hsz
      obtain ⟨rk, rkids, rfl, hrc, hrk⟩ := recv_shape F hm
      refine ⟨rk, rkids, rfl, hrk, ?_, ?_⟩
      · rintro rfl; exact primary_ok F hrc
      · apply ih _ _ hrc
        simp only [Cel.sizeL] at hsz
        omega
    match t, hc with
    | .tok .., hc => cases hc
    | .node k cs, hc =>
      cases k <;> try trivial
      -- member_dot
      · obtain ⟨v, hv, hm⟩ := conf_shape (P := fun v => v = [.nt .member, .tk .IDENT]) hc F.dot
          (by rintro v rfl n hn; simp at hn)
        subst hv
        match cs, hm with
        | [m, tm], hm =>
          simp only [Matches, MatchSym, and_true] at hm
          obtain ⟨⟨mkids, rfl, hmc⟩, s, rfl, _⟩ := hm
          obtain ⟨rk, rkids, rfl, hrk, hprim, hname⟩ := recv mkids hmc (by simp [Cel.size, Cel.sizeL]; omega)
          show (processMemberDot d _).isRaise = false
          rcases rootsOk_spec F.dotRoots hrk with ⟨hin, hh⟩ | ⟨hout, hf⟩
          · have hin' : rk ∈ d.dotRoots := by simpa using hin
            rcases mem_handlers hh with rfl | rfl | rfl | rfl
            · simpa [processMemberDot, hin', isRaise_dot, NameOk] using hname
            · simpa [processMemberDot, hin', isRaise_dot, NameOk] using hname
            · simpa [processMemberDot, hin', isRaise_dot, NameOk] using hname
            · simpa [processMemberDot, hin', isRaise_dot] using hprim rfl
          · have hout' : rk ∉ d.dotRoots := by simpa using hout
            simp [processMemberDot, hout', hf, site, R.isRaise]
      -- member_dot_arg
      · obtain ⟨v, hv, hm⟩ := conf_shape
          (P := fun v => v = [.nt .member, .tk .IDENT, .nt .exprlist] ∨ (v = [.nt .member, .tk .IDENT] ∧ d.argLen = .skip))
          hc F.arg (by rintro v (rfl | ⟨rfl, _⟩) n hn <;> simp at hn)
        rcases hv with rfl | ⟨rfl, hlen⟩
        · match cs, hm with
          | [m, tm, el], hm =>
            simp only [Matches, MatchSym, and_true] at hm
            obtain ⟨⟨mkids, rfl, hmc⟩, ⟨s, rfl, _⟩, _⟩ := hm
            obtain ⟨rk, rkids, rfl, hrk, hprim, hname⟩ := recv mkids hmc (by simp [Cel.size, Cel.sizeL]; omega)
            show (processMemberDotArg d _).isRaise = false
            rcases rootsOk_spec F.argRoots hrk with ⟨hin, hh⟩ | ⟨hout, hf⟩
            · have hin' : rk ∈ d.argRoots := by simpa using hin
              rcases mem_handlers hh with rfl | rfl | rfl | rfl
              · simpa [processMemberDotArg, hin', isRaise_dot, NameOk] using hname
              · simpa [processMemberDotArg, hin', isRaise_dot, NameOk] using hname
              · simpa [processMemberDotArg, hin', isRaise_dot, NameOk] using hname
              · simpa [processMemberDotArg, hin', isRaise_dot] using hprim rfl
            · have hout' : rk ∉ d.argRoots := by simpa using hout
              simp [processMemberDotArg, hout', hf, site, R.isRaise]
        · match cs, hm with
          | [m, tm], hm =>
            show (processMemberDotArg d _).isRaise = false
            simp [processMemberDotArg, hlen, site, R.isRaise]
      -- member_index
      · obtain ⟨v, hv, hm⟩ := conf_shape (P := fun v => v = [.nt .member, .nt .expr]) hc F.idx
          (by rintro v rfl n hn; simp at hn)
        subst hv
        match cs, hm with
        | [m, tm], hm =>
          simp only [Matches, MatchSym, and_true] at hm
          obtain ⟨⟨mkids, rfl, hmc⟩, ekids, rfl, hec⟩ := hm
          obtain ⟨rk, rkids, rfl, hrk, hprim, hname⟩ := recv mkids hmc (by simp [Cel.size, Cel.sizeL]; omega)
          show (processMemberIndex d _).isRaise = false
          have hdesc := descend_ok F.chain (.node .expr ekids) hec
            (by intro k cs he; cases he; left; simp [chainKinds])
          -- the index part
          have htv : (indexTerminal d (.node .expr ekids)).isRaise = false := by
            simp only [indexTerminal, reduceCtorEq, false_and, if_false, true_and]
            split
            · cases hd : descend (.node .expr ekids) with
              | attrErr => rw [hd] at hdesc; exact hdesc.elim
              | none => simp [F.empty, site, R.isRaise]
              | found p =>
                rw [hd] at hdesc
                obtain ⟨pcs, rfl, hpc⟩ := hdesc
                have hp := primary_ok F hpc
                simp only
                cases hpp : processPrimary d (.node .primary pcs) with
                | key s => simp only; split <;> simp [F.empty, site, R.isRaise]
                | skip => rfl
                | raise m => rw [hpp] at hp; exact hp
            · rename_i hne
              rcases F.term with h1 | h1
              · exact absurd h1 hne
              · simp [h1, site, R.isRaise]
          simp only [processMemberIndex]
          cases htveq : indexTerminal d (.node .expr ekids) with
          | raise m => rw [htveq] at htv; exact htv
          | skip => rfl
          | key tvs =>
            simp only
            rcases rootsOk_spec F.idxRoots hrk with ⟨hin, hh⟩ | ⟨hout, hf⟩
            · have hin' : rk ∈ d.idxRoots := by simpa using hin
              rcases mem_handlers hh with rfl | rfl | rfl | rfl
              · simpa [hin', isRaise_dot, NameOk] using hname
              · simpa [hin', isRaise_dot, NameOk] using hname
              · simpa [hin', isRaise_dot, NameOk] using hname
              · simpa [hin', isRaise_dot] using hprim rfl
            · have hout' : rk ∉ d.idxRoots := by simpa using hout
              simp [hout', hf, site, R.isRaise]

/-! ## the visiting loop -/

theorem visit_ok {g : Grammar} {d : Dispatch} (F : DCFacts g d) {t : Cel} (h : Conf g t) :
    (visit d t).isRaise = false := by
  match t, h with
  | .tok .., h => cases h
  | .node k cs, h =>
    have hn := name_ok F _ _ (Nat.le_refl _) h
    simp only [visit]
    by_cases h1 : k = .member_dot ∧ d.top.contains .member_dot = true
    · rw [if_pos h1]; obtain ⟨rfl, _⟩ := h1; exact hn
    · rw [if_neg h1]
      by_cases h2 : k = .member_index ∧ d.top.contains .member_index = true
      · rw [if_pos h2]; obtain ⟨rfl, _⟩ := h2; exact hn
      · rw [if_neg h2]; rfl

theorem collect_ok : ∀ (rs : List R), (∀ r ∈ rs, r.isRaise = false) → ∃ ks, collect rs = .ok ks
  | [], _ => ⟨[], rfl⟩
  | r :: rest, h => by
    obtain ⟨ks, hks⟩ := collect_ok rest (fun r' hr' => h r' (List.mem_cons_of_mem _ hr'))
    have hr := h r List.mem_cons_self
    cases r with
    | key s => exact ⟨s :: ks, by simp [collect, hks, Except.map]⟩
    | skip => exact ⟨ks, by simp [collect, hks]⟩
    | raise m => simp [R.isRaise] at hr

/-- C20 core: on every tree the grammar admits, an extractor whose dispatch is complete returns -/
theorem extractWith_total {g : Grammar} {d : Dispatch} {t : Cel} (ht : Conf g t)
    (hd : DispatchComplete g d = true) : ∃ ks, extractWith d t = .ok ks := by
  have F := dc_facts hd
  unfold extractWith
  apply collect_ok
  intro r hr
  obtain ⟨s, hs, rfl⟩ := List.mem_map.1 hr
  exact visit_ok F (subtrees_conf t ht s hs)

/-! ## a checker for (helper-free) conformance, to exhibit concrete grammatical trees -/

mutual
def confB (g : Grammar) : Cel → Bool
  | .node k cs => (alts g k).any (fun rhs => matchB g (visible rhs) cs)
  | .tok .. => false
def matchB (g : Grammar) : List Sym → List Cel → Bool
  | [], [] => true
  | .nt k :: ss, .node k' kids :: cs => k == k' && confB g (.node k' kids) && matchB g ss cs
  | .tk t :: ss, .tok t' s :: cs => t == t' && s != "" && matchB g ss cs
  | _, _ => false
end

theorem yield_of_matches {g : Grammar} : ∀ (rhs : List Sym) (cs : List Cel),
    Matches g (visible rhs) cs → Yield g rhs cs
  | [], cs, h => by
    cases cs with
    | nil => exact .nil
    | cons => simp [visible, Matches] at h
  | .anon :: rest, cs, h => .anon (yield_of_matches rest cs (by simpa [visible] using h))
  | .nt k :: rest, cs, h => by
    cases cs with
    | nil => simp [visible, Matches] at h
    | cons c cs =>
      simp only [visible, Matches, MatchSym] at h
      obtain ⟨⟨kids, rfl, hc⟩, hm⟩ := h
      exact .nt hc (yield_of_matches rest cs hm)
  | .tk t :: rest, cs, h => by
    cases cs with
    | nil => simp [visible, Matches] at h
    | cons c cs =>
      simp only [visible, Matches, MatchSym] at h
      obtain ⟨⟨s, rfl, hs⟩, hm⟩ := h
      exact .tk hs (yield_of_matches rest cs hm)
  | .inl n :: rest, cs, h => by
    cases cs <;> simp [visible, Matches, MatchSym] at h

mutual
theorem confB_sound {g : Grammar} : ∀ (t : Cel), confB g t = true → Conf g t
  | .tok .., h => by simp [confB] at h
  | .node k cs, h => by
    simp only [confB, List.any_eq_true] at h
    obtain ⟨rhs, hr, hm⟩ := h
    have hy := yield_of_matches rhs cs (matchB_sound cs (visible rhs) hm)
    unfold alts at hr
    obtain ⟨r, hrf, rfl⟩ := List.mem_map.1 hr
    obtain ⟨hrg, ho⟩ := List.mem_filter.1 hrf
    have : r = ⟨.rule k, r.rhs⟩ := by
      cases r; simp only [beq_iff_eq] at ho; simp [ho]
    rw [this] at hrg
    exact .node hrg hy
theorem matchB_sound {g : Grammar} : ∀ (cs : List Cel) (vis : List Sym), matchB g vis cs = true → Matches g vis cs
  | [], vis, h => by
    cases vis with
    | nil => trivial
    | cons s ss => cases s <;> simp [matchB] at h
  | c :: cs, vis, h => by
    cases vis with
    | nil => simp [matchB] at h
    | cons s ss =>
      cases s with
      | nt k =>
        cases c with
        | tok t s' => simp [matchB] at h
        | node k' kids =>
          simp only [matchB, Bool.and_eq_true, beq_iff_eq] at h
          obtain ⟨⟨rfl, hc⟩, hm⟩ := h
          exact ⟨⟨kids, rfl, confB_sound _ hc⟩, matchB_sound cs ss hm⟩
      | tk t =>
        cases c with
        | node k' kids => simp [matchB] at h
        | tok t' s' =>
          simp only [matchB, Bool.and_eq_true, beq_iff_eq, bne_iff_ne, ne_eq] at h
          obtain ⟨⟨rfl, hs⟩, hm⟩ := h
          exact ⟨⟨s', rfl, hs⟩, matchB_sound cs ss hm⟩
      | anon => simp [matchB] at h
      | inl n => simp [matchB] at h
end

end Koreo.CelAst
