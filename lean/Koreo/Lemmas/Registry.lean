/-
  Helper lemmas for C17 (`Koreo/Props/C17.lean`): association lists, small graph theory
  (reachability, acyclicity under re-wiring one node, pigeonhole bound on path lengths),
  the level-wise cycle check, the delivery loop.  Core Lean only.
-/
import Koreo.Registry

namespace Koreo.Registry

/-! ## association lists -/

namespace Assoc
variable {β : Type}

@[simp] theorem find_set (m : Assoc β) (k k' : Res) (v : β) :
    (m.set k v).find? k' = if k = k' then some v else m.find? k' := by
  induction m with
  | nil => simp [set, find?]
  | cons kv m ih =>
    obtain ⟨k0, v0⟩ := kv
    by_cases h : k0 = k
    · subst h; by_cases h' : k0 = k' <;> simp [set, find?, h']
    · by_cases h' : k = k'
      · subst h'; simp [set, find?, h, ih]
      · simp only [set, h, if_false, find?, ih, h']

@[simp] theorem find_del (m : Assoc β) (k k' : Res) :
    (m.del k).find? k' = if k = k' then none else m.find? k' := by
  induction m with
  | nil => simp [del, find?]
  | cons kv m ih =>
    obtain ⟨k0, v0⟩ := kv
    by_cases h : k0 = k
    · subst h
      by_cases h' : k0 = k'
      · subst h'; simpa [del, find?] using ih
      · simp [del, find?, h', ih]
    · by_cases h' : k = k'
      · subst h'; simp [del, find?, h, ih]
      · simp only [del, h, if_false, find?, ih, h']

end Assoc

@[simp] theorem Map.get_set (m : Map) (k k' : Res) (v : List Res) :
    Map.get (Assoc.set m k v) k' = if k = k' then v else Map.get m k' := by
  unfold Map.get; rw [Assoc.find_set]; split <;> rfl

theorem Map.get_nil (k : Res) : Map.get [] k = [] := rfl

/-! ## small set operations on lists -/

@[simp] theorem mem_ins {x y : Res} {l : List Res} : y ∈ ins x l ↔ y = x ∨ y ∈ l := by
  unfold ins; split
  · constructor
    · exact Or.inr
    · rintro (rfl | h) <;> assumption
  · simp [or_comm]

theorem nodup_ins {x : Res} {l : List Res} (h : l.Nodup) : (ins x l).Nodup := by
  unfold ins; split
  · exact h
  · rename_i hx
    rw [List.nodup_append]
    refine ⟨h, by simp, ?_⟩
    intro a ha b hb
    simp at hb; subst hb
    intro e; subst e; exact hx ha

@[simp] theorem mem_rem {x y : Res} {l : List Res} : y ∈ rem x l ↔ y ∈ l ∧ y ≠ x := by
  simp [rem]

theorem nodup_rem {x : Res} {l : List Res} (h : l.Nodup) : (rem x l).Nodup := by
  unfold rem; exact h.filter _

@[simp] theorem mem_dedup {x : Res} {l : List Res} : x ∈ dedup l ↔ x ∈ l := by
  induction l with
  | nil => simp [dedup]
  | cons y ys ih =>
    unfold dedup; split
    · rename_i h
      constructor
      · intro hx; exact List.mem_cons_of_mem _ (ih.mp hx)
      · intro hx
        rcases List.mem_cons.mp hx with rfl | hx
        · exact h
        · exact ih.mpr hx
    · simp [ih]

theorem nodup_dedup (l : List Res) : (dedup l).Nodup := by
  induction l with
  | nil => simp [dedup]
  | cons y ys ih =>
    unfold dedup; split
    · exact ih
    · rename_i h; exact List.nodup_cons.mpr ⟨h, ih⟩

/-- pigeonhole: a duplicate-free list drawn from `V` is no longer than `V` -/
theorem nodup_length_le {l V : List Res} (hn : l.Nodup) (hs : ∀ x ∈ l, x ∈ V) :
    l.length ≤ V.length := by
  induction l generalizing V with
  | nil => simp
  | cons a l ih =>
    have ha : a ∈ V := hs a (by simp)
    have hn' := List.nodup_cons.mp hn
    have : l.length ≤ (V.erase a).length := by
      apply ih hn'.2
      intro x hx
      have hxa : x ≠ a := by intro e; subst e; exact hn'.1 hx
      exact (List.mem_erase_of_ne hxa).mpr (hs x (List.mem_cons_of_mem _ hx))
    rw [List.length_erase_of_mem ha] at this
    have hpos : 0 < V.length := List.length_pos_of_mem ha
    simp only [List.length_cons]; omega

/-! ## graphs -/

section Graph
variable {α : Type}

/-- reflexive-transitive closure -/
inductive Reach (E : α → α → Prop) : α → α → Prop
  | refl (a : α) : Reach E a a
  | tail {a b c : α} : Reach E a b → E b c → Reach E a c

/-- a path with at least one edge -/
inductive Path (E : α → α → Prop) : α → α → Prop
  | single {a b : α} : E a b → Path E a b
  | tail {a b c : α} : Path E a b → E b c → Path E a c

/-- a path with exactly `n` edges -/
inductive PathN (E : α → α → Prop) : Nat → α → α → Prop
  | zero (a : α) : PathN E 0 a a
  | succ {n : Nat} {a b c : α} : PathN E n a b → E b c → PathN E (n + 1) a c

def Acyclic (E : α → α → Prop) : Prop := ∀ a, ¬ Path E a a

variable {E E' : α → α → Prop}

theorem Reach.trans {a b c : α} (h1 : Reach E a b) (h2 : Reach E b c) : Reach E a c := by
  induction h2 with
  | refl => exact h1
  | tail _ e ih => exact .tail ih e

theorem Path.toReach {a b : α} (h : Path E a b) : Reach E a b := by
  induction h with
  | single e => exact .tail (.refl _) e
  | tail _ e ih => exact .tail ih e

theorem Reach.toPath {a b c : α} (h : Reach E a b) (e : E b c) : Path E a c := by
  induction h generalizing c with
  | refl => exact .single e
  | tail _ e' ih => exact .tail (ih e') e

theorem Path.of_reach_path {a b c : α} (h1 : Reach E a b) (h2 : Path E b c) : Path E a c := by
  induction h2 with
  | single e => exact h1.toPath e
  | tail _ e ih => exact .tail ih e

theorem Path.of_edge_reach {a b c : α} (e : E a b) (h : Reach E b c) : Path E a c := by
  induction h with
  | refl => exact .single e
  | tail _ e' ih => exact .tail ih e'

theorem Path.mono (h : ∀ x y, E' x y → E x y) {a b : α} (p : Path E' a b) : Path E a b := by
  induction p with
  | single e => exact .single (h _ _ e)
  | tail _ e ih => exact .tail ih (h _ _ e)

theorem Acyclic.mono (h : ∀ x y, E' x y → E x y) (hac : Acyclic E) : Acyclic E' :=
  fun a p => hac a (p.mono h)

theorem PathN.toReach {n : Nat} {a b : α} (h : PathN E n a b) : Reach E a b := by
  induction h with
  | zero => exact .refl _
  | succ _ e ih => exact .tail ih e

theorem Reach.toPathN {a b : α} (h : Reach E a b) : ∃ n, PathN E n a b := by
  induction h with
  | refl => exact ⟨0, .zero _⟩
  | tail _ e ih => obtain ⟨n, hn⟩ := ih; exact ⟨n + 1, .succ hn e⟩

/-- a path of `k + j` edges passes through a node at distance `k` -/
theorem PathN.split {k j : Nat} {a c : α} (h : PathN E (k + j) a c) :
    ∃ b, PathN E k a b ∧ PathN E j b c := by
  induction j generalizing c with
  | zero => exact ⟨c, h, .zero _⟩
  | succ j ih =>
    cases h with
    | succ h' e =>
      obtain ⟨b, h1, h2⟩ := ih h'
      exact ⟨b, h1, .succ h2 e⟩

/-- Re-wiring the out-edges of one node `sub` (every other node keeps its edges) keeps the graph
    acyclic provided `sub` is not reachable, in the old graph, from any of its new targets. -/
theorem acyclic_rewire (sub : α) (new : α → Prop)
    (hE' : ∀ x y, E' x y → (x ≠ sub ∧ E x y) ∨ (x = sub ∧ new y))
    (hac : Acyclic E) (hnew : ∀ r, new r → ¬ Reach E r sub) : Acyclic E' := by
  have L1 : ∀ {x y}, Path E' x y → Path E x y ∨ ∃ r, new r ∧ Reach E r y := by
    intro x y p
    induction p with
    | single e =>
      rcases hE' _ _ e with ⟨_, e⟩ | ⟨_, hn⟩
      · exact .inl (.single e)
      · exact .inr ⟨_, hn, .refl _⟩
    | tail _ e ih =>
      rcases hE' _ _ e with ⟨_, e⟩ | ⟨_, hn⟩
      · rcases ih with p | ⟨r, hr, hre⟩
        · exact .inl (.tail p e)
        · exact .inr ⟨r, hr, .tail hre e⟩
      · exact .inr ⟨_, hn, .refl _⟩
  have L2 : ∀ {x y}, Path E' x y → Path E x y ∨ Reach E x sub := by
    intro x y p
    induction p with
    | single e =>
      rcases hE' _ _ e with ⟨_, e⟩ | ⟨hx, _⟩
      · exact .inl (.single e)
      · subst hx; exact .inr (.refl _)
    | tail _ e ih =>
      rcases ih with p | hr
      · rcases hE' _ _ e with ⟨_, e⟩ | ⟨hx, _⟩
        · exact .inl (.tail p e)
        · subst hx; exact .inr p.toReach
      · exact .inr hr
  intro a p
  rcases L1 p with p' | ⟨r, hr, hra⟩
  · exact hac a p'
  · rcases L2 p with p' | has
    · exact hac a p'
    · exact hnew r hr (hra.trans has)

/-- in an acyclic graph whose edge targets all lie in `V`, no path has more than `|V|` edges -/
theorem pathN_bound [DecidableEq α] {V : List α} (hac : Acyclic E) (hV : ∀ x y, E x y → y ∈ V)
    {n : Nat} {a b : α} (h : PathN E n a b) :
    ∃ l : List α, l.length = n ∧ l.Nodup ∧ (∀ x ∈ l, x ∈ V) ∧ (∀ x ∈ l, Reach E x b) := by
  induction h with
  | zero => exact ⟨[], rfl, List.nodup_nil, by simp, by simp⟩
  | @succ n a b c _ e ih =>
    obtain ⟨l, hl, hn, hv, hr⟩ := ih
    refine ⟨c :: l, by simp [hl], ?_, ?_, ?_⟩
    · refine List.nodup_cons.mpr ⟨?_, hn⟩
      intro hc
      exact hac c ((hr c hc).toPath e)
    · intro x hx
      rcases List.mem_cons.mp hx with rfl | hx
      · exact hV _ _ e
      · exact hv x hx
    · intro x hx
      rcases List.mem_cons.mp hx with rfl | hx
      · exact .refl _
      · exact .tail (hr x hx) e

end Graph

theorem pathN_le_nodes {E : Res → Res → Prop} {V : List Res} (hac : Acyclic E)
    (hV : ∀ x y, E x y → y ∈ V) {n : Nat} {a b : Res} (h : PathN E n a b) : n ≤ V.length := by
  obtain ⟨l, hl, hn, hv, _⟩ := pathN_bound hac hV h
  rw [← hl]; exact nodup_length_le hn hv

/-! ## the level-wise cycle check -/

section Check
variable {E : Res → Res → Prop} {succ : Res → List Res}

/-- `lvl` holds exactly the nodes at distance `k` from the set `R` -/
def IsLevel (E : Res → Res → Prop) (R : List Res) (k : Nat) (lvl : List Res) : Prop :=
  ∀ x, x ∈ lvl ↔ ∃ r ∈ R, PathN E k r x

theorem isLevel_zero (R : List Res) : IsLevel E R 0 (dedup R) := by
  intro x; rw [mem_dedup]
  constructor
  · intro h; exact ⟨x, h, .zero _⟩
  · rintro ⟨r, hr, p⟩; cases p; exact hr

theorem isLevel_next (hs : ∀ x y, y ∈ succ x ↔ E x y) {R : List Res} {k : Nat} {lvl : List Res}
    (h : IsLevel E R k lvl) : IsLevel E R (k + 1) (dedup (lvl.flatMap succ)) := by
  intro y; rw [mem_dedup, List.mem_flatMap]
  constructor
  · rintro ⟨x, hx, hy⟩
    obtain ⟨r, hr, p⟩ := (h x).mp hx
    exact ⟨r, hr, .succ p ((hs _ _).mp hy)⟩
  · rintro ⟨r, hr, p⟩
    cases p with
    | succ p' e => exact ⟨_, (h _).mpr ⟨r, hr, p'⟩, (hs _ _).mpr e⟩

/-- soundness: the check raises only if the subscriber is reachable from the requested resources -/
theorem checkLoop_cycle_sound (hs : ∀ x y, y ∈ succ x ↔ E x y) {R : List Res} (sub : Res) :
    ∀ (fuel k : Nat) (lvl : List Res), IsLevel E R k lvl →
      checkLoop succ sub fuel lvl = .cycle → ∃ r ∈ R, Reach E r sub := by
  intro fuel
  induction fuel with
  | zero => intro k lvl _ h; simp [checkLoop] at h
  | succ f ih =>
    intro k lvl hl h
    unfold checkLoop at h
    split at h
    · cases h
    · split at h
      · rename_i hm
        obtain ⟨r, hr, p⟩ := (hl sub).mp hm
        exact ⟨r, hr, p.toReach⟩
      · exact ih (k + 1) _ (isLevel_next hs hl) h

/-- completeness: a path of `k + j` edges to the subscriber is found with more than `j` iterations left -/
theorem checkLoop_cycle_complete (hs : ∀ x y, y ∈ succ x ↔ E x y) {R : List Res} (sub : Res) :
    ∀ (fuel k j : Nat) (lvl : List Res), IsLevel E R k lvl → j < fuel →
      (∃ r ∈ R, PathN E (k + j) r sub) → checkLoop succ sub fuel lvl = .cycle := by
  intro fuel
  induction fuel with
  | zero => intro k j lvl _ h; omega
  | succ f ih =>
    intro k j lvl hl hj ⟨r, hr, p⟩
    unfold checkLoop
    obtain ⟨b, p1, p2⟩ := p.split
    have hb : b ∈ lvl := (hl b).mpr ⟨r, hr, p1⟩
    have hne : lvl.isEmpty = false := by cases lvl <;> simp_all
    simp only [hne]
    by_cases hm : sub ∈ lvl
    · simp [hm]
    · simp only [hm, if_false]
      cases j with
      | zero => cases p2; exact absurd hb hm
      | succ j' =>
        apply ih (k + 1) j' _ (isLevel_next hs hl) (by omega)
        exact ⟨r, hr, by rw [show k + 1 + j' = k + (j' + 1) by omega]; exact p⟩

/-- termination: if level `k + j` is empty the loop ends with more than `j` iterations left -/
theorem checkLoop_terminates (hs : ∀ x y, y ∈ succ x ↔ E x y) {R : List Res} (sub : Res) :
    ∀ (fuel k j : Nat) (lvl : List Res), IsLevel E R k lvl → j < fuel →
      (∀ r ∈ R, ∀ x, ¬ PathN E (k + j) r x) → checkLoop succ sub fuel lvl ≠ .outOfFuel := by
  intro fuel
  induction fuel with
  | zero => intro k j lvl _ h; omega
  | succ f ih =>
    intro k j lvl hl hj hempty
    unfold checkLoop
    by_cases hne : lvl.isEmpty
    · simp [hne]
    · simp only [hne]
      by_cases hm : sub ∈ lvl
      · simp [hm]
      · simp only [hm, if_false]
        cases j with
        | zero =>
          exfalso
          cases lvl with
          | nil => simp at hne
          | cons x xs =>
            obtain ⟨r, hr, p⟩ := (hl x).mp (by simp)
            exact hempty r hr x p
        | succ j' =>
          apply ih (k + 1) j' _ (isLevel_next hs hl) (by omega)
          intro r hr x p
          exact hempty r hr x (by rw [show k + (j' + 1) = k + 1 + j' by omega]; exact p)

end Check


/-! ## the registry's maps -/

/-- `a` watches `b` -/
def EdgeOf (so : Map) (a b : Res) : Prop := b ∈ so.get a

def Edge (s : State) : Res → Res → Prop := EdgeOf s.subsOf

theorem mem_nodes_of_get {m : Map} {x y : Res} (h : y ∈ Map.get m x) : y ∈ nodes m := by
  induction m with
  | nil => simp [Map.get, Assoc.find?] at h
  | cons kv m ih =>
    obtain ⟨k, v⟩ := kv
    simp only [nodes, List.flatMap_cons, List.mem_append, List.mem_cons]
    unfold Map.get at h
    simp only [Assoc.find?] at h
    by_cases hk : k = x
    · simp only [hk, if_true, Option.getD_some] at h
      exact .inl (.inr h)
    · simp only [hk, if_false] at h
      exact .inr (ih h)

theorem mem_get_addTo (sub : Res) (xs : List Res) : ∀ (m : Map) (y z : Res),
    z ∈ Map.get (addTo m sub xs) y ↔ z ∈ Map.get m y ∨ (y ∈ xs ∧ z = sub) := by
  induction xs with
  | nil => intro m y z; simp [addTo]
  | cons x xs ih =>
    intro m y z
    simp only [addTo, ih, Map.get_set, List.mem_cons]
    by_cases hxy : x = y
    · subst hxy; simp only [if_true, mem_ins]
      constructor
      · rintro ((h | h) | ⟨h1, h2⟩)
        · exact .inr ⟨by simp, h⟩
        · exact .inl h
        · exact .inr ⟨.inr h1, h2⟩
      · rintro (h | ⟨_, h2⟩)
        · exact .inl (.inr h)
        · exact .inl (.inl h2)
    · simp only [hxy, if_false]
      constructor
      · rintro (h | ⟨h1, h2⟩)
        · exact .inl h
        · exact .inr ⟨.inr h1, h2⟩
      · rintro (h | ⟨h1 | h1, h2⟩)
        · exact .inl h
        · exact absurd h1.symm hxy
        · exact .inr ⟨h1, h2⟩

theorem nodup_get_addTo (sub : Res) (xs : List Res) : ∀ (m : Map),
    (∀ y, (Map.get m y).Nodup) → ∀ y, (Map.get (addTo m sub xs) y).Nodup := by
  induction xs with
  | nil => intro m h y; simpa [addTo] using h y
  | cons x xs ih =>
    intro m h y
    simp only [addTo]
    apply ih
    intro y'
    rw [Map.get_set]
    split
    · exact nodup_ins (h x)
    · exact h y'

theorem mem_get_removeFrom (sub : Res) (xs : List Res) : ∀ (m : Map) (y z : Res),
    z ∈ Map.get (removeFrom m sub xs) y ↔ z ∈ Map.get m y ∧ ¬ (y ∈ xs ∧ z = sub) := by
  induction xs with
  | nil => intro m y z; simp [removeFrom]
  | cons x xs ih =>
    intro m y z
    simp only [removeFrom, ih, Map.get_set, List.mem_cons]
    by_cases hxy : x = y
    · subst hxy; simp only [if_true, mem_rem]
      constructor
      · rintro ⟨⟨h1, h2⟩, _⟩
        exact ⟨h1, fun ⟨_, h⟩ => h2 h⟩
      · rintro ⟨h1, h2⟩
        exact ⟨⟨h1, fun h => h2 ⟨by simp, h⟩⟩, fun ⟨h3, h4⟩ => h2 ⟨.inr h3, h4⟩⟩
    · simp only [hxy, if_false]
      constructor
      · rintro ⟨h1, h2⟩
        refine ⟨h1, ?_⟩
        rintro ⟨h3 | h3, h4⟩
        · exact hxy h3.symm
        · exact h2 ⟨h3, h4⟩
      · rintro ⟨h1, h2⟩
        exact ⟨h1, fun ⟨h3, h4⟩ => h2 ⟨.inr h3, h4⟩⟩

theorem nodup_get_removeFrom (sub : Res) (xs : List Res) : ∀ (m : Map),
    (∀ y, (Map.get m y).Nodup) → ∀ y, (Map.get (removeFrom m sub xs) y).Nodup := by
  induction xs with
  | nil => intro m h y; simpa [removeFrom] using h y
  | cons x xs ih =>
    intro m h y
    simp only [removeFrom]
    apply ih
    intro y'
    rw [Map.get_set]
    split
    · exact nodup_rem (h x)
    · exact h y'

/-- the part of the invariant that concerns the two subscription maps -/
structure MapsGood (so sr : Map) : Prop where
  inv : ∀ a b, b ∈ so.get a ↔ a ∈ sr.get b
  acyclic : Acyclic (EdgeOf so)
  nodupSubs : ∀ a, (so.get a).Nodup
  nodupSubscribers : ∀ a, (sr.get a).Nodup

/-- no consumer in the model: every item put is still unfinished -/
def QInv (qs : Assoc Queue) : Prop := ∀ r q, qs.find? r = some q → q.unfinished = q.items.length

def Good (s : State) : Prop := MapsGood s.subsOf s.subscribersOf ∧ QInv s.queues

theorem good_init : Good init := by
  refine ⟨⟨?_, ?_, ?_, ?_⟩, ?_⟩
  · intro a b; simp [init, Map.get, Assoc.find?]
  · intro a p
    have : ∀ {x y}, Path (EdgeOf init.subsOf) x y → False := by
      intro x y p
      induction p with
      | single e => simp [EdgeOf, init, Map.get, Assoc.find?] at e
      | tail _ _ ih => exact ih
    exact this p
  · intro a; simp [init, Map.get, Assoc.find?]
  · intro a; simp [init, Map.get, Assoc.find?]
  · intro r q h; simp [init, Assoc.find?] at h

/-! ### the cycle check on a state -/

theorem succ_edge (s : State) : ∀ x y, y ∈ s.subs x ↔ Edge s x y := fun _ _ => Iff.rfl

theorem check_sound (s : State) (sub : Res) (rs : List Res)
    (h : checkForCycles s sub rs = .cycle) : ∃ r ∈ rs, Reach (Edge s) r sub :=
  checkLoop_cycle_sound (succ_edge s) sub _ 0 _ (isLevel_zero rs) h

theorem check_complete (s : State) (sub : Res) (rs : List Res) (hac : Acyclic (Edge s))
    (fuel : Nat) (hf : (nodes s.subsOf).length + 2 ≤ fuel) :
    checkLoop s.subs sub fuel (dedup rs) ≠ .outOfFuel ∧
    ((∃ r ∈ rs, Reach (Edge s) r sub) → checkLoop s.subs sub fuel (dedup rs) = .cycle) := by
  have hV : ∀ x y, Edge s x y → y ∈ nodes s.subsOf := fun x y e => mem_nodes_of_get e
  constructor
  · apply checkLoop_terminates (succ_edge s) sub fuel 0 ((nodes s.subsOf).length + 1) _ (isLevel_zero rs)
      (by omega)
    intro r _ x p
    have := pathN_le_nodes hac hV p
    omega
  · rintro ⟨r, hr, hre⟩
    obtain ⟨n, p⟩ := hre.toPathN
    have hn := pathN_le_nodes hac hV p
    exact checkLoop_cycle_complete (succ_edge s) sub fuel 0 n _ (isLevel_zero rs) (by omega)
      ⟨r, hr, by simpa using p⟩

theorem check_nil (s : State) (sub : Res) : checkForCycles s sub [] = .ok := by
  simp [checkForCycles, fuelFor, checkLoop, dedup]

/-! ### the two mutations keep the maps good -/

theorem mapsGood_applyOnly {s : State} (h : MapsGood s.subsOf s.subscribersOf) (sub : Res) (rs : List Res)
    (hnew : ∀ r ∈ rs, ¬ Reach (Edge s) r sub) :
    MapsGood (applyOnly s sub rs).subsOf (applyOnly s sub rs).subscribersOf := by
  have hmem : ∀ a b, a ∈ Map.get (applyOnly s sub rs).subscribersOf b ↔
      (a ∈ Map.get s.subscribersOf b ∨ ((b ∈ rs ∧ b ∉ Map.get s.subsOf sub) ∧ a = sub)) ∧
        ¬ ((b ∈ Map.get s.subsOf sub ∧ b ∉ rs) ∧ a = sub) := by
    intro a b
    simp [applyOnly, mem_get_removeFrom, mem_get_addTo]
  refine ⟨?_, ?_, ?_, ?_⟩
  · intro a b
    rw [hmem]
    simp only [applyOnly, Map.get_set]
    by_cases ha : sub = a
    · subst ha
      simp only [if_true, mem_dedup]
      have := h.inv sub b
      by_cases h1 : b ∈ rs <;> by_cases h2 : b ∈ Map.get s.subsOf sub <;> simp_all
    · have ha' : a ≠ sub := fun e => ha e.symm
      simp only [ha, if_false, ha', and_false, or_false, not_false_eq_true, and_true]
      exact h.inv a b
  · apply acyclic_rewire (E := EdgeOf s.subsOf) sub (fun y => y ∈ rs) ?_ h.acyclic hnew
    intro x y e
    simp only [EdgeOf, applyOnly, Map.get_set] at e
    by_cases hx : sub = x
    · subst hx; simp only [if_true, mem_dedup] at e; exact .inr ⟨rfl, e⟩
    · simp only [hx, if_false] at e; exact .inl ⟨fun e' => hx e'.symm, e⟩
  · intro a
    simp only [applyOnly, Map.get_set]
    split
    · exact nodup_dedup rs
    · exact h.nodupSubs a
  · intro a
    simp only [applyOnly]
    exact nodup_get_removeFrom _ _ _ (nodup_get_addTo _ _ _ h.nodupSubscribers) a

theorem mapsGood_applySubscribe {s : State} (h : MapsGood s.subsOf s.subscribersOf) (sub r : Res)
    (hnew : ¬ Reach (Edge s) r sub) :
    MapsGood (applySubscribe s sub r).subsOf (applySubscribe s sub r).subscribersOf := by
  refine ⟨?_, ?_, ?_, ?_⟩
  · intro a b
    simp only [applySubscribe, Map.get_set]
    have := h.inv a b
    by_cases ha : sub = a <;> by_cases hb : r = b <;> simp_all [eq_comm]
  · apply acyclic_rewire (E := EdgeOf s.subsOf) sub (fun y => y = r ∨ y ∈ Map.get s.subsOf sub) ?_ h.acyclic
    · rintro y (rfl | hy)
      · exact hnew
      · intro hre
        exact h.acyclic sub (Path.of_edge_reach (show EdgeOf s.subsOf sub y from hy) hre)
    · intro x y e
      simp only [EdgeOf, applySubscribe, Map.get_set] at e
      by_cases hx : sub = x
      · subst hx; simp only [if_true, mem_ins] at e; exact .inr ⟨rfl, e⟩
      · simp only [hx, if_false] at e; exact .inl ⟨fun e' => hx e'.symm, e⟩
  · intro a
    simp only [applySubscribe, Map.get_set]
    split
    · exact nodup_ins (h.nodupSubs sub)
    · exact h.nodupSubs a
  · intro a
    simp only [applySubscribe, Map.get_set]
    split
    · exact nodup_ins (h.nodupSubscribers r)
    · exact h.nodupSubscribers a


/-! ## queues and the delivery loop -/

/-- what a successful `put_nowait(ev)` does to a queue -/
def push (ev : Item) (q : Queue) : Queue :=
  { q with items := ev :: q.items, unfinished := q.unfinished + 1 }

/-- `x` has a registered queue that accepts a put (not shut down, not full) -/
def liveIn (qs : Assoc Queue) (x : Res) : Bool :=
  match qs.find? x with
  | some q => q.live
  | none => false

theorem putNowait_live {q : Queue} (ev : Item) (h : q.live = true) : q.putNowait ev = .ok (push ev q) := by
  simp only [Queue.live, Bool.and_eq_true, Bool.not_eq_true'] at h
  simp [Queue.putNowait, h.1, h.2, push]

theorem putNowait_not_live {q : Queue} (ev : Item) (h : q.live = false) : ∃ e, q.putNowait ev = .error e := by
  unfold Queue.putNowait
  by_cases h1 : q.shut = true
  · exact ⟨.shutDown, by simp [h1]⟩
  · by_cases h2 : q.full = true
    · exact ⟨.full, by simp [h1, h2]⟩
    · simp [Queue.live, h1, h2] at h

theorem putNowait_shut {q : Queue} (ev : Item) (h : q.shut = true) : q.putNowait ev = .error .shutDown := by
  simp [Queue.putNowait, h]

/-- with both exception classes caught the loop never raises, delivers to exactly the live
    subscribers (in list order) and touches nobody else's queue -/
theorem deliver_spec (caught : QErr → Bool) (hc : ∀ e, caught e = true) (ev : Item) :
    ∀ (xs : List Res) (qs : Assoc Queue), xs.Nodup →
      ∃ qs' ds, deliver caught ev xs qs = .ok (qs', ds) ∧ ds = xs.filter (liveIn qs) ∧
        ∀ y, qs'.find? y = if y ∈ ds then (qs.find? y).map (push ev) else qs.find? y := by
  intro xs
  induction xs with
  | nil => intro qs _; exact ⟨qs, [], rfl, rfl, by simp⟩
  | cons x xs ih =>
    intro qs hn
    obtain ⟨hx, hn'⟩ := List.nodup_cons.mp hn
    cases hf : qs.find? x with
    | none =>
      obtain ⟨qs', ds, h1, h2, h3⟩ := ih qs hn'
      refine ⟨qs', ds, ?_, ?_, h3⟩
      · simp [deliver, hf, h1]
      · simp [liveIn, hf, h2]
    | some q =>
      cases hl : q.live with
      | true =>
        obtain ⟨qs', ds, h1, h2, h3⟩ := ih (qs.set x (push ev q)) hn'
        have hds : ds = xs.filter (liveIn qs) := by
          rw [h2]
          apply List.filter_congr
          intro y hy
          have : x ≠ y := fun e => hx (e ▸ hy)
          simp [liveIn, Assoc.find_set, this]
        have hxds : x ∉ ds := by
          rw [hds]; intro hm; exact hx (List.mem_filter.mp hm).1
        refine ⟨qs', x :: ds, ?_, ?_, ?_⟩
        · simp [deliver, hf, putNowait_live ev hl, h1]
        · simp [liveIn, hf, hl, hds]
        · intro y
          rw [h3 y, Assoc.find_set]
          by_cases hxy : x = y
          · subst hxy; simp [hxds, hf]
          · have : y ≠ x := fun e => hxy e.symm
            simp [hxy, this]
      | false =>
        obtain ⟨e, he⟩ := putNowait_not_live ev hl
        obtain ⟨qs', ds, h1, h2, h3⟩ := ih qs hn'
        refine ⟨qs', ds, ?_, ?_, h3⟩
        · simp [deliver, hf, he, hc e, h1]
        · simp [liveIn, hf, hl, h2]

theorem qinv_push {ev : Item} {q : Queue} (h : q.unfinished = q.items.length) :
    (push ev q).unfinished = (push ev q).items.length := by
  simp [push, h]

theorem qinv_killQ {q : Queue} (h : q.unfinished = q.items.length) :
    (killQ q).unfinished = (killQ q).items.length := by
  unfold killQ Queue.putNowait
  by_cases h1 : q.shut = true
  · simp [h1, h]
  · by_cases h2 : q.full = true
    · simp [h1, h2, Queue.shutdown, h]
    · simp [h1, h2, Queue.shutdown, h]

theorem killQ_shut (q : Queue) : (killQ q).shut = true := by
  unfold killQ Queue.putNowait
  by_cases h1 : q.shut = true
  · simp [h1]
  · by_cases h2 : q.full = true
    · simp [h1, h2, Queue.shutdown]
    · simp [h1, h2, Queue.shutdown]

theorem qinv_deliver {caught : QErr → Bool} (hc : ∀ e, caught e = true) {ev : Item} {xs : List Res}
    {qs qs' : Assoc Queue} {ds : List Res} (hn : xs.Nodup) (hq : QInv qs)
    (h : deliver caught ev xs qs = .ok (qs', ds)) : QInv qs' := by
  obtain ⟨qs'', ds', h1, _, h3⟩ := deliver_spec caught hc ev xs qs hn
  rw [h1] at h
  injection h with h; injection h with ha hb; subst ha; subst hb
  intro r q hr
  rw [h3 r] at hr
  split at hr
  · cases hf : qs.find? r with
    | none => simp [hf] at hr
    | some q0 =>
      simp [hf] at hr; subst hr
      exact qinv_push (hq r q0 hf)
  · exact hq r q hr

/-- `notify_subscribers` of the repaired code, as a state transformer with its specification -/
theorem notifyWith_spec (caught : QErr → Bool) (hc : ∀ e, caught e = true) (s : State) (r : Res)
    (t : Option Nat) (wrap : List Res → Out) (hn : (s.subscribers r).Nodup) :
    ∃ qs' ds, notifyWith caught s r t wrap = ({ s with queues := qs' }, wrap ds) ∧
      ds = (s.subscribers r).filter (liveIn s.queues) ∧
      (∀ y, qs'.find? y = if y ∈ ds then (s.queues.find? y).map (push (.event r t)) else s.queues.find? y) := by
  obtain ⟨qs', ds, h1, h2, h3⟩ := deliver_spec caught hc (.event r t) (s.subscribers r) s.queues hn
  exact ⟨qs', ds, by simp [notifyWith, h1], h2, h3⟩

theorem caughtRepaired_all : ∀ e, caughtRepaired e = true := by intro e; cases e <;> rfl


theorem deliver_ok_of_caught_all (caught : QErr → Bool) (hc : ∀ e, caught e = true) (ev : Item) :
    ∀ (xs : List Res) (qs : Assoc Queue), ∃ res, deliver caught ev xs qs = .ok res := by
  intro xs
  induction xs with
  | nil => intro qs; exact ⟨_, rfl⟩
  | cons x xs ih =>
    intro qs
    unfold deliver
    cases qs.find? x with
    | none => exact ih qs
    | some q =>
      cases hp : q.putNowait ev with
      | ok q' =>
        obtain ⟨⟨qs', ds⟩, h⟩ := ih (qs.set x q')
        exact ⟨(qs', x :: ds), by simp [hp, h]⟩
      | error e => simp only [hp, hc e, if_true]; exact ih qs

theorem qinv_of_pushed {qs qs' : Assoc Queue} {ds : List Res} {ev : Item} (hq : QInv qs)
    (h3 : ∀ y, qs'.find? y = if y ∈ ds then (qs.find? y).map (push ev) else qs.find? y) : QInv qs' := by
  intro r q hr
  rw [h3 r] at hr
  split at hr
  · cases hf : qs.find? r with
    | none => simp [hf] at hr
    | some q0 =>
      simp [hf] at hr; subst hr
      exact qinv_push (hq r q0 hf)
  · exact hq r q hr

theorem mapsGood_unsub {so sr : Map} (h : MapsGood so sr) (sub r : Res) :
    MapsGood (so.set sub (rem r (so.get sub))) (sr.set r (rem sub (sr.get r))) := by
  refine ⟨?_, ?_, ?_, ?_⟩
  · intro a b
    simp only [Map.get_set]
    have := h.inv a b
    have := h.inv sub r
    by_cases ha : sub = a <;> by_cases hb : r = b <;> simp_all [eq_comm]
  · apply h.acyclic.mono
    intro x y e
    simp only [EdgeOf, Map.get_set] at e
    split at e
    · rename_i hx; subst hx; exact (mem_rem.mp e).1
    · exact e
  · intro a
    simp only [Map.get_set]
    split
    · exact nodup_rem (h.nodupSubs sub)
    · exact h.nodupSubs a
  · intro a
    simp only [Map.get_set]
    split
    · exact nodup_rem (h.nodupSubscribers r)
    · exact h.nodupSubscribers a

/-- what a notification does to a good state: maps untouched, queues still consistent -/
theorem good_notifyWith {s : State} (h : Good s) (r : Res) (t : Option Nat) (wrap : List Res → Out) :
    Good (notifyWith caughtRepaired s r t wrap).1 := by
  obtain ⟨qs', ds, h1, _, h3⟩ :=
    notifyWith_spec caughtRepaired caughtRepaired_all s r t wrap (h.1.nodupSubscribers r)
  rw [h1]
  exact ⟨h.1, qinv_of_pushed h.2 h3⟩

/-- the invariant is inductive -/
theorem good_step {s : State} (h : Good s) (op : Op) : Good (step s op).1 := by
  obtain ⟨hm, hq⟩ := h
  cases op with
  | register r cap =>
    simp only [step, stepWith]
    cases hf : s.queues.find? r with
    | some q => exact ⟨hm, hq⟩
    | none =>
      apply good_notifyWith
      refine ⟨hm, ?_⟩
      intro r' q hr
      simp only [Assoc.find_set] at hr
      split at hr
      · cases hr; rfl
      · exact hq r' q hr
  | subscribe sub r =>
    simp only [step, stepWith]
    cases hc : checkForCycles s sub [r] with
    | cycle => exact ⟨hm, hq⟩
    | outOfFuel => exact ⟨hm, hq⟩
    | ok =>
      refine ⟨mapsGood_applySubscribe hm sub r ?_, hq⟩
      intro hre
      have := (check_complete s sub [r] hm.acyclic (fuelFor s) (Nat.le_refl _)).2 ⟨r, by simp, hre⟩
      rw [checkForCycles] at hc
      rw [hc] at this; cases this
  | subscribeOnlyTo sub rs =>
    simp only [step, stepWith]
    cases hc : checkForCycles s sub rs with
    | cycle => exact ⟨hm, hq⟩
    | outOfFuel => exact ⟨hm, hq⟩
    | ok =>
      refine ⟨mapsGood_applyOnly hm sub rs ?_, hq⟩
      intro r hr hre
      have := (check_complete s sub rs hm.acyclic (fuelFor s) (Nat.le_refl _)).2 ⟨r, hr, hre⟩
      rw [checkForCycles] at hc
      rw [hc] at this; cases this
  | unsubscribe sub r =>
    simp only [step, stepWith]
    by_cases h1 : sub ∈ s.subscribersOf.get r
    · have h2 : r ∈ s.subsOf.get sub := (hm.inv sub r).mpr h1
      simp only [h1, h2, if_true]
      exact ⟨mapsGood_unsub hm sub r, hq⟩
    · simp only [h1, if_false]
      exact ⟨hm, hq⟩
  | notify r t => exact good_notifyWith ⟨hm, hq⟩ r (some t) .delivered
  | kill r =>
    simp only [step, stepWith]
    cases hf : s.queues.find? r with
    | none => exact ⟨hm, hq⟩
    | some q =>
      refine ⟨hm, ?_⟩
      intro r' q' hr
      simp only [Assoc.find_set] at hr
      split at hr
      · cases hr; exact qinv_killQ (hq r q hf)
      · exact hq r' q' hr
  | deregister r t =>
    simp only [step, stepWith]
    have hm1 := mapsGood_applyOnly hm r [] (by simp)
    have hq1 : QInv (applyOnly s r []).queues := hq
    cases hf : (applyOnly s r []).queues.find? r with
    | none => exact good_notifyWith ⟨hm1, hq1⟩ r (some t) _
    | some q =>
      apply good_notifyWith
      refine ⟨hm1, ?_⟩
      intro r' q' hr
      simp only [Assoc.find_del] at hr
      split at hr
      · cases hr
      · exact hq1 r' q' hr

theorem good_run {s : State} (h : Good s) (ops : List Op) : Good (run s ops) := by
  induction ops generalizing s with
  | nil => exact h
  | cons op ops ih => exact ih (good_step h op)

end Koreo.Registry
