/-
  Helper lemmas for C17 (`Koreo/Props/C17.lean`): association lists, small graph theory
  (reachability, acyclicity under re-wiring one node, pigeonhole bound on path lengths),
  the level-wise cycle check, the delivery loop.  Core Lean only.
-/
import Koreo.Registry

namespace Koreo.Registry

/-! ## association lists -/

namespace Assoc
variable {β : Type}

@[simp] theorem find_set (m : Assoc β) (k k' : Res) (v : β) :
    (m.set k v).find? k' = if k = k' then some v else m.find? k' := by
  induction m with
  | nil => simp [set, find?]
  | cons kv m ih =>
    obtain ⟨k0, v0⟩ := kv
    by_cases h : k0 = k
    · subst h; by_cases h' : k0 = k' <;> simp [set, find?, h']
    · by_cases h' : k = k'
      · subst h'; simp [set, find?, h, ih]
      · simp only [set, h, if_false, find?, ih, h']

@[simp] theorem find_del (m : Assoc β) (k k' : Res) :
    (m.del k).find? k' = if k = k' then none else m.find? k' := by
  induction m with
  | nil => simp [del, find?]
  | cons kv m ih =>
    obtain ⟨k0, v0⟩ := kv
    by_cases h : k0 = k
    · subst h
      by_cases h' : k0 = k'
      · subst h'; simpa [del, find?] using ih
      · simp [del, find?, h', ih]
    · by_cases h' : k = k'
      · subst h'; simp [del, find?, h, ih]
      · simp only [del, h, if_false, find?, ih, h']

end Assoc

@[simp] theorem Map.get_set (m : Map) (k k' : Res) (v : List Res) :
    Map.get (Assoc.set m k v) k' = if k = k' then v else Map.get m k' := by
  unfold Map.get; rw [Assoc.find_set]; split <;> rfl

theorem Map.get_nil (k : Res) : Map.get [] k = [] := rfl

/-! ## small set operations on lists -/

@[simp] theorem mem_ins {x y : Res} {l : List Res} : y ∈ ins x l ↔ y = x ∨ y ∈ l := by
  unfold ins; split
  · constructor
    · exact Or.inr
    · rintro (rfl | h) <;> assumption
  · simp [or_comm]

theorem nodup_ins {x : Res} {l : List Res} (h : l.Nodup) : (ins x l).Nodup := by
  unfold ins; split
  · exact h
  · rename_i hx
    rw [List.nodup_append]
    refine ⟨h, by simp, ?_⟩
    intro a ha b hb
    simp at hb; subst hb
    intro e; subst e; exact hx ha

@[simp] theorem mem_rem {x y : Res} {l : List Res} : y ∈ rem x l ↔ y ∈ l ∧ y ≠ x := by
  simp [rem]

theorem nodup_rem {x : Res} {l : List Res} (h : l.Nodup) : (rem x l).Nodup := by
  unfold rem; exact h.filter _

@[simp] theorem mem_dedup {x : Res} {l : List Res} : x ∈ dedup l ↔ x ∈ l := by
  induction l with
  | nil => simp [dedup]
  | cons y ys ih =>
    unfold dedup; split
    · rename_i h
      constructor
      · intro hx; exact List.mem_cons_of_mem _ (ih.mp hx)
      · intro hx
        rcases List.mem_cons.mp hx with rfl | hx
        · exact h
        · exact ih.mpr hx
    · simp [ih]

theorem nodup_dedup (l : List Res) : (dedup l).Nodup := by
  induction l with
  | nil => simp [dedup]
  | cons y ys ih =>
    unfold dedup; split
    · exact ih
    · rename_i h; exact List.nodup_cons.mpr ⟨h, ih⟩

/-- pigeonhole: a duplicate-free list drawn from `V` is no longer than `V` -/
theorem nodup_length_le {l V : List Res} (hn : l.Nodup) (hs : ∀ x ∈ l, x ∈ V) :
    l.length ≤ V.length := by
  induction l generalizing V with
  | nil => simp
  | cons a l ih =>
    have ha : a ∈ V := hs a (by simp)
    have hn' := List.nodup_cons.mp hn
    have : l.length ≤ (V.erase a).length := by
      apply ih hn'.2
      intro x hx
      have hxa : x ≠ a := by intro e; subst e; exact hn'.1 hx
      exact (List.mem_erase_of_ne hxa).mpr (hs x (List.mem_cons_of_mem _ hx))
    rw [List.length_erase_of_mem ha] at this
    have hpos : 0 < V.length := List.length_pos_of_mem ha
    simp only [List.length_cons]; omega

/-! ## graphs -/

section Graph
variable {α : Type}

/-- reflexive-transitive closure -/
inductive Reach (E : α → α → Prop) : α → α → Prop
  | refl (a : α) : Reach E a a
  | tail {a b c : α} : Reach E a b → E b c → Reach E a c

/-- a path with at least one edge -/
inductive Path (E : α → α → Prop) : α → α → Prop
  | single {a b : α} : E a b → Path E a b
  | tail {a b c : α} : Path E a b → E b c → Path E a c

/-- a path with exactly `n` edges -/
inductive PathN (E : α → α → Prop) : Nat → α → α → Prop
  | zero (a : α) : PathN E 0 a a
  | succ {n : Nat} {a b c : α} : PathN E n a b → E b c → PathN E (n + 1) a c

def Acyclic (E : α → α → Prop) : Prop := ∀ a, ¬ Path E a a

variable {E E' : α → α → Prop}

theorem Reach.trans {a b c : α} (h1 : Reach E a b) (h2 : Reach E b c) : Reach E a c := by
  induction h2 with
  | refl => exact h1
  | tail _ e ih => exact .tail ih e

theorem Path.toReach {a b : α} (h : Path E a b) : Reach E a b := by
  induction h with
  | single e => exact .tail (.refl _) e
  | tail _ e ih => exact .tail ih e

theorem Reach.toPath {a b c : α} (h : Reach E a b) (e : E b c) : Path E a c := by
  induction h generalizing c with
  | refl => exact .single e
  | tail _ e' ih => exact .tail (ih e') e

theorem Path.of_reach_path {a b c : α} (h1 : Reach E a b) (h2 : Path E b c) : Path E a c := by
  induction h2 with
  | single e => exact h1.toPath e
  | tail _ e ih => exact .tail ih e

theorem Path.mono (h : ∀ x y, E' x y → E x y) {a b : α} (p : Path E' a b) : Path E a b := by
  induction p with
  | single e => exact .single (h _ _ e)
  | tail _ e ih => exact .tail ih (h _ _ e)

theorem Acyclic.mono (h : ∀ x y, E' x y → E x y) (hac : Acyclic E) : Acyclic E' :=
  fun a p => hac a (p.mono h)

theorem PathN.toReach {n : Nat} {a b : α} (h : PathN E n a b) : Reach E a b := by
  induction h with
  | zero => exact .refl _
  | succ _ e ih => exact .tail ih e

theorem Reach.toPathN {a b : α} (h : Reach E a b) : ∃ n, PathN E n a b := by
  induction h with
  | refl => exact ⟨0, .zero _⟩
  | tail _ e ih => obtain ⟨n, hn⟩ := ih; exact ⟨n + 1, .succ hn e⟩

/-- a path of `k + j` edges passes through a node at distance `k` -/
theorem PathN.split {k j : Nat} {a c : α} (h : PathN E (k + j) a c) :
    ∃ b, PathN E k a b ∧ PathN E j b c := by
  induction j generalizing c with
  | zero => exact ⟨c, h, .zero _⟩
  | succ j ih =>
    cases h with
    | succ h' e =>
      obtain ⟨b, h1, h2⟩ := ih h'
      exact ⟨b, h1, .succ h2 e⟩

/-- Re-wiring the out-edges of one node `sub` (every other node keeps its edges) keeps the graph
    acyclic provided `sub` is not reachable, in the old graph, from any of its new targets. -/
theorem acyclic_rewire (sub : α) (new : α → Prop)
    (hE' : ∀ x y, E' x y → (x ≠ sub ∧ E x y) ∨ (x = sub ∧ new y))
    (hac : Acyclic E) (hnew : ∀ r, new r → ¬ Reach E r sub) : Acyclic E' := by
  have L1 : ∀ {x y}, Path E' x y → Path E x y ∨ ∃ r, new r ∧ Reach E r y := by
    intro x y p
    induction p with
    | single e =>
      rcases hE' _ _ e with ⟨_, e⟩ | ⟨_, hn⟩
      · exact .inl (.single e)
      · exact .inr ⟨_, hn, .refl _⟩
    | tail _ e ih =>
      rcases hE' _ _ e with ⟨_, e⟩ | ⟨_, hn⟩
      · rcases ih with p | ⟨r, hr, hre⟩
        · exact .inl (.tail p e)
        · exact .inr ⟨r, hr, .tail hre e⟩
      · exact .inr ⟨_, hn, .refl _⟩
  have L2 : ∀ {x y}, Path E' x y → Path E x y ∨ Reach E x sub := by
    intro x y p
    induction p with
    | single e =>
      rcases hE' _ _ e with ⟨_, e⟩ | ⟨hx, _⟩
      · exact .inl (.single e)
      · subst hx; exact .inr (.refl _)
    | tail _ e ih =>
      rcases ih with p | hr
      · rcases hE' _ _ e with ⟨_, e⟩ | ⟨hx, _⟩
        · exact .inl (.tail p e)
        · subst hx; exact .inr p.toReach
      · exact .inr hr
  intro a p
  rcases L1 p with p' | ⟨r, hr, hra⟩
  · exact hac a p'
  · rcases L2 p with p' | has
    · exact hac a p'
    · exact hnew r hr (hra.trans has)

/-- in an acyclic graph whose edge targets all lie in `V`, no path has more than `|V|` edges -/
theorem pathN_bound [DecidableEq α] {V : List α} (hac : Acyclic E) (hV : ∀ x y, E x y → y ∈ V)
    {n : Nat} {a b : α} (h : PathN E n a b) :
    ∃ l : List α, l.length = n ∧ l.Nodup ∧ (∀ x ∈ l, x ∈ V) ∧ (∀ x ∈ l, Reach E x b) := by
  induction h with
  | zero => exact ⟨[], rfl, List.nodup_nil, by simp, by simp⟩
  | @succ n a b c _ e ih =>
    obtain ⟨l, hl, hn, hv, hr⟩ := ih
    refine ⟨c :: l, by simp [hl], ?_, ?_, ?_⟩
    · refine List.nodup_cons.mpr ⟨?_, hn⟩
      intro hc
      exact hac c ((hr c hc).toPath e)
    · intro x hx
      rcases List.mem_cons.mp hx with rfl | hx
      · exact hV _ _ e
      · exact hv x hx
    · intro x hx
      rcases List.mem_cons.mp hx with rfl | hx
      · exact .refl _
      · exact .tail (hr x hx) e

end Graph

theorem pathN_le_nodes {E : Res → Res → Prop} {V : List Res} (hac : Acyclic E)
    (hV : ∀ x y, E x y → y ∈ V) {n : Nat} {a b : Res} (h : PathN E n a b) : n ≤ V.length := by
  obtain ⟨l, hl, hn, hv, _⟩ := pathN_bound hac hV h
  rw [← hl]; exact nodup_length_le hn hv

/-! ## the level-wise cycle check -/

section Check
variable {E : Res → Res → Prop} {succ : Res → List Res}

/-- `lvl` holds exactly the nodes at distance `k` from the set `R` -/
def IsLevel (E : Res → Res → Prop) (R : List Res) (k : Nat) (lvl : List Res) : Prop :=
  ∀ x, x ∈ lvl ↔ ∃ r ∈ R, PathN E k r x

theorem isLevel_zero (R : List Res) : IsLevel E R 0 (dedup R) := by
  intro x; rw [mem_dedup]
  constructor
  · intro h; exact ⟨x, h, .zero _⟩
  · rintro ⟨r, hr, p⟩; cases p; exact hr

theorem isLevel_next (hs : ∀ x y, y ∈ succ x ↔ E x y) {R : List Res} {k : Nat} {lvl : List Res}
    (h : IsLevel E R k lvl) : IsLevel E R (k + 1) (dedup (lvl.flatMap succ)) := by
  intro y; rw [mem_dedup, List.mem_flatMap]
  constructor
  · rintro ⟨x, hx, hy⟩
    obtain ⟨r, hr, p⟩ := (h x).mp hx
    exact ⟨r, hr, .succ p ((hs _ _).mp hy)⟩
  · rintro ⟨r, hr, p⟩
    cases p with
    | succ p' e => exact ⟨_, (h _).mpr ⟨r, hr, p'⟩, (hs _ _).mpr e⟩

/-- soundness: the check raises only if the subscriber is reachable from the requested resources -/
theorem checkLoop_cycle_sound (hs : ∀ x y, y ∈ succ x ↔ E x y) {R : List Res} (sub : Res) :
    ∀ (fuel k : Nat) (lvl : List Res), IsLevel E R k lvl →
      checkLoop succ sub fuel lvl = .cycle → ∃ r ∈ R, Reach E r sub := by
  intro fuel
  induction fuel with
  | zero => intro k lvl _ h; simp [checkLoop] at h
  | succ f ih =>
    intro k lvl hl h
    unfold checkLoop at h
    split at h
    · cases h
    · split at h
      · rename_i hm
        obtain ⟨r, hr, p⟩ := (hl sub).mp hm
        exact ⟨r, hr, p.toReach⟩
      · exact ih (k + 1) _ (isLevel_next hs hl) h

/-- completeness: a path of `k + j` edges to the subscriber is found with more than `j` iterations left -/
theorem checkLoop_cycle_complete (hs : ∀ x y, y ∈ succ x ↔ E x y) {R : List Res} (sub : Res) :
    ∀ (fuel k j : Nat) (lvl : List Res), IsLevel E R k lvl → j < fuel →
      (∃ r ∈ R, PathN E (k + j) r sub) → checkLoop succ sub fuel lvl = .cycle := by
  intro fuel
  induction fuel with
  | zero => intro k j lvl _ h; omega
  | succ f ih =>
    intro k j lvl hl hj ⟨r, hr, p⟩
    unfold checkLoop
    obtain ⟨b, p1, p2⟩ := p.split
    have hb : b ∈ lvl := (hl b).mpr ⟨r, hr, p1⟩
    have hne : lvl.isEmpty = false := by cases lvl <;> simp_all
    simp only [hne]
    by_cases hm : sub ∈ lvl
    · simp [hm]
    · simp only [hm, if_false]
      cases j with
      | zero => cases p2; exact absurd hb hm
      | succ j' =>
        apply ih (k + 1) j' _ (isLevel_next hs hl) (by omega)
        exact ⟨r, hr, by rw [show k + 1 + j' = k + (j' + 1) by omega]; exact p⟩

/-- termination: if level `k + j` is empty the loop ends with more than `j` iterations left -/
theorem checkLoop_terminates (hs : ∀ x y, y ∈ succ x ↔ E x y) {R : List Res} (sub : Res) :
    ∀ (fuel k j : Nat) (lvl : List Res), IsLevel E R k lvl → j < fuel →
      (∀ r ∈ R, ∀ x, ¬ PathN E (k + j) r x) → checkLoop succ sub fuel lvl ≠ .outOfFuel := by
  intro fuel
  induction fuel with
  | zero => intro k j lvl _ h; omega
  | succ f ih =>
    intro k j lvl hl hj hempty
    unfold checkLoop
    by_cases hne : lvl.isEmpty
    · simp [hne]
    · simp only [hne]
      by_cases hm : sub ∈ lvl
      · simp [hm]
      · simp only [hm, if_false]
        cases j with
        | zero =>
          exfalso
          cases lvl with
          | nil => simp at hne
          | cons x xs =>
            obtain ⟨r, hr, p⟩ := (hl x).mp (by simp)
            exact hempty r hr x p
        | succ j' =>
          apply ih (k + 1) j' _ (isLevel_next hs hl) (by omega)
          intro r hr x p
          exact hempty r hr x (by rw [show k + (j' + 1) = k + 1 + j' by omega]; exact p)

end Check

end Koreo.Registry
