/-
  Helper lemmas for C02: the asynchronous semantics of `Koreo/Workflow.lean`.

  Invariant `Inv`: every entry of `done` equals the reference (sequential) entry, every finished
  forEach iteration equals the reference iteration.  It holds initially, every enabled completion
  event preserves it, and with everything done `collect` (which reads in LISTED order) returns the
  sequential answer.
-/
import Koreo.Lemmas.Workflow

namespace Koreo.Workflow
open Koreo Koreo.Result

/-! ## lookups after an append -/

theorem lookupL_append_singleton {α : Type} {l l' : Label} {xs : List (Label × α)} {v v' : α}
    (h : lookupL l' (xs ++ [(l, v)]) = some v') : lookupL l' xs = some v' ∨ (l' = l ∧ v' = v) := by
  induction xs with
  | nil =>
    simp only [List.nil_append, lookupL] at h
    split at h
    · next e => cases h; exact Or.inr ⟨e.symm, rfl⟩
    · cases h
  | cons x xs ih =>
    obtain ⟨k, w⟩ := x
    simp only [List.cons_append, lookupL] at h ⊢
    split
    · next e => simp [e] at h; exact Or.inl (by rw [h])
    · next e => simp [e] at h; exact ih h

theorem lookupI_append_singleton {l l' : Label} {i i' : Nat} {xs : List ((Label × Nat) × StepOut)} {v v' : StepOut}
    (h : lookupI l' i' (xs ++ [((l, i), v)]) = some v') :
    lookupI l' i' xs = some v' ∨ (l' = l ∧ i' = i ∧ v' = v) := by
  induction xs with
  | nil =>
    simp only [List.nil_append, lookupI] at h
    split at h
    · next e => cases h; exact Or.inr ⟨e.1.symm, e.2.symm, rfl⟩
    · cases h
  | cons x xs ih =>
    obtain ⟨⟨k, j⟩, w⟩ := x
    simp only [List.cons_append, lookupI] at h ⊢
    split
    · next e => simp [e] at h; exact Or.inl (by rw [h])
    · next e => simp [e] at h; exact ih h

theorem findStep_some {l : Label} {steps : List Step} {s : Step} (h : findStep l steps = some s) :
    s ∈ steps ∧ s.label = l := by
  induction steps with
  | nil => simp [findStep] at h
  | cons s0 rest ih =>
    simp only [findStep] at h
    split at h
    · next e => cases h; exact ⟨by simp, e⟩
    · exact ⟨List.mem_cons_of_mem _ (ih h).1, (ih h).2⟩

theorem findStep_of_mem {steps : List Step} (hnd : (labels steps).Nodup) {s : Step} (hs : s ∈ steps) :
    findStep s.label steps = some s := by
  induction steps with
  | nil => simp at hs
  | cons s0 rest ih =>
    simp only [labels, List.map_cons, List.nodup_cons] at hnd
    simp only [findStep]
    rcases List.mem_cons.1 hs with e | hr
    · simp [e]
    · have : s0.label ≠ s.label := fun e => hnd.1 (List.mem_map.2 ⟨s, hr, e.symm⟩)
      simp [this, ih hnd.2 hr]

/-! ## the invariant -/

/-- what a finished iteration `(l, i)` must be: the reference evaluation of the Logic on item `i` -/
def ItemRef (eval : EvalFn) (run : RunFn) (trig : JVal) (wf : Workflow) (R : List (Label × StepOut))
    (l : Label) (i : Nat) (o : StepOut) : Prop :=
  ∃ s ∈ wf.steps, s.label = l ∧ ∃ act inputs key items it,
    gate eval trig (depRes R s.deps) s = .each act inputs key items ∧ items[i]? = some it ∧
    o = (runLogic eval run l (some i) act (setKey key it inputs) s.logic).1

structure Inv (eval : EvalFn) (run : RunFn) (trig : JVal) (wf : Workflow) (R : List (Label × StepOut))
    (st : AState) : Prop where
  /-- every done entry equals the reference entry -/
  done_ref : ∀ l o, lookupL l st.done = some o → lookupL l R = some o
  /-- every finished iteration equals the reference iteration -/
  items_ref : ∀ l i o, lookupI l i st.items = some o → ItemRef eval run trig wf R l i o

theorem inv_init (eval : EvalFn) (run : RunFn) (trig : JVal) (wf : Workflow) (R) :
    Inv eval run trig wf R {} :=
  ⟨by intro l o h; simp [lookupL] at h, by intro l i o h; simp [lookupI] at h⟩

/-- dependencies that are done have their reference values, so the step sees the reference `depRes` -/
theorem depRes_of_done {eval run trig wf R st} (inv : Inv eval run trig wf R st) {deps : List Label}
    (h : deps.all (isDone st) = true) : depRes st.done deps = depRes R deps := by
  apply depRes_congr
  intro d hd
  have := List.all_eq_true.1 h d hd
  unfold isDone at this
  cases hl : lookupL d st.done with
  | none => simp [hl] at this
  | some o => rw [inv.done_ref d o hl]

/-- reading the iteration vector back in source order yields the reference evaluations, in source order -/
theorem gatherItems_ref (eval : EvalFn) (run : RunFn) (st : AState) (l : Label) (act inputs key logic)
    (suffix : List JVal) (i : Nat) (outs : List StepOut)
    (H : ∀ j o it, lookupI l (i + j) st.items = some o → suffix[j]? = some it →
      o = (runLogic eval run l (some (i + j)) act (setKey key it inputs) logic).1)
    (h : gatherItems st l i suffix.length = some outs) :
    outs = (runItems eval run l act inputs key logic i suffix).map (·.1) := by
  induction suffix generalizing i outs with
  | nil => simp [gatherItems] at h; subst h; rfl
  | cons it rest ih =>
    simp only [List.length_cons, gatherItems] at h
    cases ho : lookupI l i st.items with
    | none => simp [ho] at h
    | some o =>
      cases hr : gatherItems st l (i + 1) rest.length with
      | none => simp [ho, hr] at h
      | some outs' =>
        simp only [ho, hr, Option.some.injEq] at h
        subst h
        have h0 := H 0 o it (by simpa using ho) (by simp)
        have hrest := ih (i + 1) outs' (by
          intro j o' it' hl hi
          have e : i + 1 + j = i + (j + 1) := by omega
          rw [e] at hl ⊢
          exact H (j + 1) o' it' hl (by simpa using hi)) hr
        simp only [runItems, List.map_cons]
        rw [← hrest]
        simp at h0
        rw [h0]

/-- **preservation**: an enabled completion event keeps the invariant -/
theorem inv_step (eval : EvalFn) (run : RunFn) (trig : JVal) (wf : Workflow) (hwf : wf.WF = true)
    {st st' : AState} {e : Event}
    (inv : Inv eval run trig wf (trace eval run trig wf).results st)
    (h : stepEvent eval run trig wf st e = some st') :
    Inv eval run trig wf (trace eval run trig wf).results st' := by
  have hw : wfSteps [] wf.steps = true := by simpa [Workflow.WF] using hwf
  have hnd := (wfSteps_labels_nodup hw).1
  cases e with
  | step l =>
    simp only [stepEvent] at h
    cases hf : findStep l wf.steps with
    | none => simp [hf] at h
    | some s =>
      obtain ⟨hs, hsl⟩ := findStep_some hf
      simp only [hf] at h
      split at h
      · cases h
      · next hen =>
        simp only [Bool.or_eq_true, Bool.not_eq_true', not_or, Bool.not_eq_true, Bool.not_eq_false] at hen
        have hdr := depRes_of_done inv hen.2
        rw [hdr] at h
        have hF1 := trace_result eval run trig wf hwf hs
        -- whatever branch: the stored value is the reference value
        have store : ∀ o, o = (stepResult eval run trig (depRes (trace eval run trig wf).results s.deps) s).1 →
            Inv eval run trig wf (trace eval run trig wf).results { st with done := st.done ++ [(l, o)] } := by
          intro o ho
          refine ⟨?_, inv.items_ref⟩
          intro l' o' hl'
          rcases lookupL_append_singleton hl' with h1 | ⟨rfl, rfl⟩
          · exact inv.done_ref l' o' h1
          · rw [← hsl, hF1, ho]
        cases hg : gate eval trig (depRes (trace eval run trig wf).results s.deps) s with
        | done o =>
          simp only [hg] at h; cases h
          exact store o (by rw [stepResult_done hg])
        | single act inputs =>
          simp only [hg] at h; cases h
          apply store
          unfold stepResult; rw [hg, hsl]
        | each act inputs key items =>
          simp only [hg] at h
          cases hga : gatherItems st l 0 items.length with
          | none => simp [hga] at h
          | some outs =>
            simp only [hga] at h; cases h
            apply store
            have := gatherItems_ref eval run st l act inputs key s.logic items 0 outs (by
              intro j o it hl hi
              obtain ⟨s', hs', hsl', act', inputs', key', items', it', hg', hi', ho'⟩ := inv.items_ref l (0 + j) o hl
              have : s' = s := step_unique hnd hs' hs (by rw [hsl', hsl])
              subst this
              rw [hg] at hg'
              cases hg'
              simp at hi hi'
              rw [hi] at hi'
              cases hi'
              exact ho') hga
            unfold stepResult; rw [hg]; simp only
            rw [this, hsl]
  | item l i =>
    simp only [stepEvent] at h
    cases hf : findStep l wf.steps with
    | none => simp [hf] at h
    | some s =>
      obtain ⟨hs, hsl⟩ := findStep_some hf
      simp only [hf] at h
      split at h
      · cases h
      · next hen =>
        simp only [Bool.or_eq_true, Bool.not_eq_true', not_or, Bool.not_eq_true, Bool.not_eq_false] at hen
        have hdr := depRes_of_done inv hen.1.2
        rw [hdr] at h
        cases hg : gate eval trig (depRes (trace eval run trig wf).results s.deps) s with
        | done o => simp [hg] at h
        | single act inputs => simp [hg] at h
        | each act inputs key items =>
          simp only [hg] at h
          cases hit : items[i]? with
          | none => simp [hit] at h
          | some it =>
            simp only [hit] at h; cases h
            refine ⟨inv.done_ref, ?_⟩
            intro l' i' o' hl'
            rcases lookupI_append_singleton hl' with h1 | ⟨rfl, rfl, rfl⟩
            · exact inv.items_ref l' i' o' h1
            · exact ⟨s, hs, hsl, act, inputs, key, items, it, hg, hit, rfl⟩

theorem inv_run (eval : EvalFn) (run : RunFn) (trig : JVal) (wf : Workflow) (hwf : wf.WF = true)
    (σ : List Event) {st st' : AState}
    (inv : Inv eval run trig wf (trace eval run trig wf).results st)
    (h : runEvents eval run trig wf σ st = some st') :
    Inv eval run trig wf (trace eval run trig wf).results st' := by
  induction σ generalizing st with
  | nil => simp [runEvents] at h; subst h; exact inv
  | cons e rest ih =>
    simp only [runEvents] at h
    cases he : stepEvent eval run trig wf st e with
    | none => simp [he] at h
    | some st1 =>
      simp only [he] at h
      exact ih (inv_step eval run trig wf hwf inv he) h

/-! ## `collect` only looks at the listed steps' entries -/

theorem filterMap_congr' {α β : Type} {f g : α → Option β} {l : List α} (h : ∀ a ∈ l, f a = g a) :
    l.filterMap f = l.filterMap g := by
  induction l with
  | nil => rfl
  | cons a rest ih =>
    simp only [List.filterMap_cons]
    rw [h a (by simp), ih (fun b hb => h b (List.mem_cons_of_mem _ hb))]

theorem listed_congr (wf : Workflow) {r1 r2 : List (Label × StepOut)}
    (h : ∀ s ∈ wf.steps, lookupL s.label r1 = lookupL s.label r2) : listed wf r1 = listed wf r2 := by
  unfold listed
  apply filterMap_congr'
  intro s hs
  rw [h s hs]

theorem collect_congr (eval : EvalFn) (wf : Workflow) {r1 r2 : List (Label × StepOut)}
    (h : listed wf r1 = listed wf r2) : collect eval wf r1 = collect eval wf r2 := by
  unfold collect
  simp only [h]

/-- the listed steps zipped with their reference results -/
theorem listedL_eq_zip (steps : List Step) (R : List (Label × StepOut))
    (hR : R.map (·.1) = labels steps) (hnd : (labels steps).Nodup) :
    (steps.filterMap fun s => (lookupL s.label R).map fun o => (s, o)) = steps.zip (R.map (·.2)) := by
  induction steps generalizing R with
  | nil => simp
  | cons s0 rest ih =>
    cases R with
    | nil => simp [labels] at hR
    | cons x R' =>
      obtain ⟨l0, o0⟩ := x
      simp only [labels, List.map_cons, List.cons.injEq] at hR
      obtain ⟨rfl, hR'⟩ := hR
      simp only [labels, List.map_cons, List.nodup_cons] at hnd
      have hrest : (rest.filterMap fun s =>
            (if s0.label = s.label then some o0 else lookupL s.label R').map fun o => (s, o)) =
          rest.filterMap fun s => (lookupL s.label R').map fun o => (s, o) := by
        apply filterMap_congr'
        intro s hs
        have : s0.label ≠ s.label := fun e => hnd.1 (List.mem_map.2 ⟨s, hs, e.symm⟩)
        simp [this]
      simp only [List.filterMap_cons, lookupL, if_true, Option.map_some, List.map_cons, List.zip_cons_cons]
      rw [hrest, ih R' hR' hnd.2]

theorem zip_labels (steps : List Step) (R : List (Label × StepOut)) (hR : R.map (·.1) = labels steps) :
    (steps.zip (R.map (·.2))).map (fun x => (x.1.label, x.2)) = R ∧
    (steps.zip (R.map (·.2))).map (·.2) = R.map (·.2) := by
  induction steps generalizing R with
  | nil => cases R <;> simp_all [labels]
  | cons s0 rest ih =>
    cases R with
    | nil => simp [labels] at hR
    | cons x R' =>
      obtain ⟨l0, o0⟩ := x
      simp only [labels, List.map_cons, List.cons.injEq] at hR
      obtain ⟨rfl, hR'⟩ := hR
      have := ih R' hR'
      simp [this.1, this.2]

/-- for a well-formed workflow, `listed` over the reference results is every step with its result -/
theorem listed_trace (eval : EvalFn) (run : RunFn) (trig : JVal) (wf : Workflow) (hwf : wf.WF = true) :
    listed wf (trace eval run trig wf).results = wf.steps.zip ((trace eval run trig wf).results.map (·.2)) := by
  have hw : wfSteps [] wf.steps = true := by simpa [Workflow.WF] using hwf
  exact listedL_eq_zip wf.steps _ (trace_labels eval run trig wf) (wfSteps_labels_nodup hw).1

/-! ## state merge -/

theorem lookup_insert (k k' : String) (v : JVal) (st : List (String × JVal)) :
    JVal.lookup k (JVal.insert k' v st) = if k' = k then some v else JVal.lookup k st := by
  induction st with
  | nil => simp [JVal.insert, JVal.lookup]
  | cons x rest ih =>
    obtain ⟨k0, v0⟩ := x
    simp only [JVal.insert]
    by_cases h0 : k0 = k'
    · subst h0
      simp only [if_true, JVal.lookup]
      by_cases h1 : k0 = k <;> simp [h1]
    · simp only [h0, if_false, JVal.lookup, ih]
      by_cases h1 : k0 = k
      · subst h1
        have : ¬ k' = k0 := fun e => h0 e.symm
        simp [this]
      · simp [h1]

/-- the value a key has after `state.update(upd)`: the last binding in `upd`, else what was there -/
def lastWrite (k : String) (upd : List (String × JVal)) (prev : Option JVal) : Option JVal :=
  upd.foldl (fun acc kv => if kv.1 = k then some kv.2 else acc) prev

theorem lookup_updateState (k : String) (st upd : List (String × JVal)) :
    JVal.lookup k (updateState st upd) = lastWrite k upd (JVal.lookup k st) := by
  unfold updateState lastWrite
  induction upd generalizing st with
  | nil => rfl
  | cons kv rest ih =>
    simp only [List.foldl_cons]
    rw [ih, lookup_insert]

/-- the value of a key after merging the listed steps' states in listed order -/
def stateSpec (eval : EvalFn) (k : String) : List (Step × StepOut) → Option JVal → Option JVal
  | [], prev => prev
  | (s, o) :: rest, prev =>
    match stateStep eval s o with
    | .upd kvs => stateSpec eval k rest (lastWrite k kvs prev)
    | _ => stateSpec eval k rest prev

theorem lookup_mergeState (eval : EvalFn) (k : String) (xs : List (Step × StepOut)) (st : List (String × JVal)) :
    JVal.lookup k (mergeState eval xs st) = stateSpec eval k xs (JVal.lookup k st) := by
  induction xs generalizing st with
  | nil => rfl
  | cons x rest ih =>
    obtain ⟨s, o⟩ := x
    simp only [mergeState, stateSpec]
    cases stateStep eval s o with
    | upd kvs => simp only; rw [ih, lookup_updateState]
    | none => simp only; rw [ih]
    | err => simp only; rw [ih]

/-- steps that do not publish `k` leave it alone -/
theorem stateSpec_untouched (eval : EvalFn) (k : String) (xs : List (Step × StepOut)) (prev : Option JVal)
    (h : ∀ x ∈ xs, ∀ kvs, stateStep eval x.1 x.2 = .upd kvs → ∀ kv ∈ kvs, kv.1 ≠ k) :
    stateSpec eval k xs prev = prev := by
  induction xs generalizing prev with
  | nil => rfl
  | cons x rest ih =>
    obtain ⟨s, o⟩ := x
    simp only [stateSpec]
    have hrest := fun prev => ih prev (fun x hx => h x (List.mem_cons_of_mem _ hx))
    cases hs : stateStep eval s o with
    | upd kvs =>
      simp only
      rw [hrest]
      have hk := h (s, o) (by simp) kvs hs
      unfold lastWrite
      clear hs h ih hrest
      induction kvs generalizing prev with
      | nil => rfl
      | cons kv kvs ih2 =>
        simp only [List.foldl_cons]
        rw [if_neg (hk kv (by simp))]
        exact ih2 prev (fun kv' h' => hk kv' (List.mem_cons_of_mem _ h'))
    | none => simp only; rw [hrest]
    | err => simp only; rw [hrest]

theorem stateSpec_append (eval : EvalFn) (k : String) (xs ys : List (Step × StepOut)) (prev : Option JVal) :
    stateSpec eval k (xs ++ ys) prev = stateSpec eval k ys (stateSpec eval k xs prev) := by
  induction xs generalizing prev with
  | nil => rfl
  | cons x rest ih =>
    obtain ⟨s, o⟩ := x
    simp only [List.cons_append, stateSpec]
    cases stateStep eval s o <;> simp only [ih]

theorem lastWrite_some (k : String) (kvs : List (String × JVal)) (prev : Option JVal) :
    lastWrite k kvs prev = match lastWrite k kvs none with | some v => some v | none => prev := by
  unfold lastWrite
  induction kvs generalizing prev with
  | nil => rfl
  | cons kv rest ih =>
    simp only [List.foldl_cons]
    rw [ih, ih (if kv.1 = k then some kv.2 else none)]
    cases List.foldl (fun acc kv => if kv.1 = k then some kv.2 else acc) none rest with
    | some v => rfl
    | none => by_cases e : kv.1 = k <;> simp [e]

/-- no failing iteration: the forEach result is the list of (encoded) iteration results, in the given order -/
theorem combineItems_no_err (outs : List StepOut) (h : ∀ o ∈ outs, o.res.isErr = false) :
    combineItems outs = ⟨.ok (.arr (outs.map fun o => encodeItem o.res)), .arr (outs.map (·.rid))⟩ := by
  have hf : outs.filter (fun o => o.res.isErr) = [] :=
    List.filter_eq_nil_iff.2 (fun o ho => by simp [h o ho])
  unfold combineItems
  rw [hf]
  rfl

end Koreo.Workflow
