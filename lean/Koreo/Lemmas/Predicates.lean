/-
  Helper lemmas for C13 (`Koreo/Predicates.lean`).
-/
import Koreo.Predicates
namespace Koreo.Predicates

/-- the predicates the filter keeps when every assertion is a boolean -/
def Pred.isFalse (p : Pred) : Bool := match p.assert with | .ok false => true | _ => false

def falseOnes (ps : List Pred) : List Pred := ps.filter Pred.isFalse

def AllBool (ps : List Pred) : Prop := ∀ p ∈ ps, ∃ b, p.assert = .ok b

theorem negate_none_iff (a : AssertV) : negate a = none ↔ (a = .nonBool ∨ a = .failed) := by
  cases a <;> simp [negate]

theorem filterNeg_none_iff (ps : List Pred) :
    filterNeg ps = none ↔ ∃ p ∈ ps, negate p.assert = none := by
  induction ps with
  | nil => simp [filterNeg]
  | cons p ps ih =>
    simp only [filterNeg, List.mem_cons, exists_eq_or_imp]
    cases hn : negate p.assert with
    | none => simp
    | some b =>
      cases hf : filterNeg ps with
      | none =>
        have := ih.mp hf
        cases b <;> simp [this]
      | some r =>
        have : ¬ ∃ q ∈ ps, negate q.assert = none := fun h => by
          have := ih.mpr h; rw [hf] at this; cases this
        cases b <;> simp [this]

theorem filterNeg_allBool (ps : List Pred) (h : AllBool ps) :
    filterNeg ps = some (falseOnes ps) := by
  induction ps with
  | nil => rfl
  | cons p ps ih =>
    have hp : ∃ b, p.assert = .ok b := h p (by simp)
    have hps : AllBool ps := fun q hq => h q (by simp [hq])
    obtain ⟨b, hb⟩ := hp
    simp only [filterNeg, ih hps, hb, negate, falseOnes]
    cases b <;> simp [List.filter, Pred.isFalse, hb]

theorem falseOnes_append (xs ys : List Pred) : falseOnes (xs ++ ys) = falseOnes xs ++ falseOnes ys := by
  simp [falseOnes]

theorem falseOnes_allTrue (xs : List Pred) (h : ∀ q ∈ xs, q.assert = .ok true) : falseOnes xs = [] := by
  simp only [falseOnes, List.filter_eq_nil_iff]
  intro q hq
  simp [Pred.isFalse, h q hq]

theorem falseOnes_split (pre post : List Pred) (p : Pred)
    (hpre : ∀ q ∈ pre, q.assert = .ok true) (hp : p.assert = .ok false) :
    falseOnes (pre ++ p :: post) = p :: falseOnes post := by
  rw [falseOnes_append, falseOnes_allTrue pre hpre]
  simp [falseOnes, List.filter, Pred.isFalse, hp]

theorem mem_falseOnes {ps : List Pred} {p : Pred} : p ∈ falseOnes ps ↔ p ∈ ps ∧ p.assert = .ok false := by
  simp only [falseOnes, List.mem_filter, Pred.isFalse]
  constructor
  · rintro ⟨h1, h2⟩
    refine ⟨h1, ?_⟩
    split at h2 <;> simp_all
  · rintro ⟨h1, h2⟩
    exact ⟨h1, by simp [h2]⟩

theorem outcomeOf_none_iff (p : Pred) : outcomeOf p = none ↔ p.kind = .ok := by
  rcases p with ⟨a, k, m, d⟩
  cases k <;> cases m <;> cases d <;> simp [outcomeOf]

/-- an assertion that is not a boolean makes the whole list undecidable -/
theorem decide_of_negate_none (ps : List Pred) (h : ∃ p ∈ ps, negate p.assert = none) :
    decide ps = some (.evalFail .assertion) := by
  unfold decide
  rw [(filterNeg_none_iff ps).mpr h]

theorem decide_allBool (ps : List Pred) (h : AllBool ps) :
    decide ps =
      if (falseOnes ps).any Pred.hasErr then some (.evalFail .member) else toResult (falseOnes ps) := by
  unfold decide
  rw [filterNeg_allBool ps h]

end Koreo.Predicates
