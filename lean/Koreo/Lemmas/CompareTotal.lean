/-
  C05: on a well-formed target and a last-applied tree of the target's shape the (repaired)
  comparator never raises — whatever the live object is, it answers "match" or "differences".
-/
import Koreo.Lemmas.CompareSound
namespace Koreo.Compare
open Koreo Koreo.JVal

theorem Res.join_noRaise {a b : Res} (ha : a.mayRaise = false) (hb : b.mayRaise = false) :
    (a.join b).mayRaise = false := by
  rw [Res.join_mayRaise, ha, hb]; rfl

theorem setMatch_noRaise (txs axs : List JVal) : (setMatch txs axs).mayRaise = false := by
  unfold setMatch
  repeat' split
  all_goals rfl

theorem ite_noRaise (c : Bool) : (if c then Res.ok else Res.differ).mayRaise = false := by
  cases c <;> rfl

mutual
theorem vm_noRaise (t a la : JVal) (s : Bool) (hw : wfB t = true) (hl : laOkB t la = true) :
    (validateMatch t a la s).mayRaise = false := by
  match t with
  | .obj tkvs =>
    match a with
    | .obj akvs =>
      rw [wfB.eq_1, Bool.and_eq_true] at hw
      rw [laOkB.eq_1, Bool.and_eq_true] at hl
      rw [validateMatch.eq_1, parseDirs_of_ok _ hw.1]
      exact vmO_noRaise (specDirs tkvs) akvs la tkvs (fun k f hf => specMap_strs _ k f hf) hw.2 hl.1 hl.2
    | .null | .bool _ | .int _ | .flt _ | .str _ | .arr _ =>
      rw [validateMatch.eq_2 _ _ _ _ (by intro _ h; cases h)]; rfl
  | .arr txs =>
    match a with
    | .arr axs =>
      rw [wfB.eq_2] at hw
      rw [laOkB.eq_2, Bool.and_eq_true] at hl
      rw [validateMatch.eq_4]
      split
      · exact setMatch_noRaise _ _
      · split
        · rfl
        · split
          · rfl
          · rw [laItems_of_ok la hl.1]
            exact vmL_noRaise txs axs _ hw hl.2
    | .obj _ => rw [validateMatch.eq_3]; rfl
    | .null | .bool _ | .int _ | .flt _ | .str _ => rw [validateMatch.eq_def]; rfl
  | .null | .bool _ | .int _ | .flt _ | .str _ =>
    rw [validateMatch.eq_def]
    cases a <;> first | rfl | exact ite_noRaise _
termination_by structural t
theorem vmO_noRaise (d : Dirs) (akvs : List (String × JVal)) (la : JVal) (tkvs : List (String × JVal))
    (hd : ∀ k f, fieldsFor k d.asMap = some f → f.all isStr = true)
    (hw : wfO d tkvs = true) (hla : laMapOk la = true) (hl : laOkO d (laObjKvs la) tkvs = true) :
    (vmO d akvs la tkvs).mayRaise = false := by
  match tkvs with
  | [] => rw [vmO.eq_1]; rfl
  | (k, tv) :: rest =>
    rw [wfO.eq_2, Bool.and_eq_true, Bool.and_eq_true] at hw
    rw [laOkO.eq_2, Bool.and_eq_true] at hl
    have ih := vmO_noRaise d akvs la rest hd hw.2 hla hl.2
    by_cases hs : skippedKey k = true
    · rw [vmO_cons_skip _ _ _ _ _ _ hs]; exact ih
    · have hs : skippedKey k = false := by simpa using hs
      have hdir : isDirective k = false := by
        cases h : isDirective k
        · rfl
        · simp [skippedKey, h] at hs
      have hkd : keyDirOk d k tv = true := by simpa [hdir] using hw.1.1
      have hlaAt := laAt_of_ok la k hla
      have hl1 := hl.1
      simp only [hs, Bool.false_eq_true, ↓reduceIte] at hl1
      cases hcv : cmpValue d k akvs (laVal (laObjKvs la) k) with
      | none => rw [vmO_cons_missing _ _ _ _ _ _ hs hlaAt hcv]; exact Res.join_noRaise rfl ih
      | some cv =>
        match hf : fieldsFor k d.asMap with
        | some fields =>
          cases tv with
          | arr tms =>
            simp only [keyDirOk, hf, Bool.and_eq_true] at hkd
            simp only [hf] at hl1
            have hfs := hd k fields hf
            obtain ⟨td, htd⟩ := keyedDict_isSome fields hfs tms
            obtain ⟨A, hA⟩ := listToObject_isSome fields hfs cv
            obtain ⟨l, hlo⟩ := listToObject_isSome fields hfs (laVal (laObjKvs la) k)
            rw [vmO_cons_keyed _ _ _ _ _ hs hlaAt hcv hf hkd.1.1, htd, hA, hlo]
            refine Res.join_noRaise ?_ ih
            cases A with
            | none => rfl
            | some adict =>
              rw [wfB.eq_2] at hw
              exact vmK_noRaise fields hfs _ adict (l.getD []) (la_lookup fields _ l hlo) tms hw.1.2 hl1
          | _ => simp [keyDirOk, hf] at hkd
        | none =>
          simp only [hf] at hl1
          rw [vmO_cons_plain _ _ _ _ _ _ hs hlaAt hcv hf]
          exact Res.join_noRaise (vm_noRaise tv cv _ _ hw.1.2 hl1) ih
termination_by structural tkvs
theorem vmL_noRaise (txs axs items : List JVal) (hw : wfL txs = true) (hl : laOkL txs items = true) :
    (vmL txs axs items).mayRaise = false := by
  match txs, axs with
  | [], _ => rw [vmL.eq_2]; rfl; intro _ _ _ _ h; cases h
  | _ :: _, [] => rw [vmL.eq_2]; rfl; intro _ _ _ _ _ h; cases h
  | t :: ts, a :: as =>
    rw [wfL.eq_2, Bool.and_eq_true] at hw
    rw [laOkL.eq_2, Bool.and_eq_true] at hl
    rw [vmL.eq_1]
    have h1 := vm_noRaise t a (items.head?.getD .null) false hw.1 hl.1
    cases hv : validateMatch t a (items.head?.getD .null) false with
    | ok => exact vmL_noRaise ts as _ hw.2 hl.2
    | bad d r => rw [hv] at h1; exact h1
termination_by structural txs
theorem vmK_noRaise (fields : List JVal) (hf : fields.all isStr = true) (lams : List JVal)
    (adict ldict : List (String × JVal))
    (hL : ∀ key, (lookup key ldict).getD .null = laMember fields key lams)
    (tms : List JVal) (hw : wfL tms = true) (hl : laOkK fields lams tms = true) :
    (vmK fields adict ldict tms).mayRaise = false := by
  match tms with
  | [] => rw [vmK.eq_1]; rfl
  | tm :: rest =>
    rw [wfL.eq_2, Bool.and_eq_true] at hw
    cases tm with
    | obj mkvs =>
      rw [laOkK.eq_2, Bool.and_eq_true] at hl
      have ih := vmK_noRaise fields hf lams adict ldict hL rest hw.2 hl.2
      rw [vmK.eq_2]
      refine Res.join_noRaise ?_ ih
      obtain ⟨key, hkey⟩ := objKey_isSome fields hf mkvs
      have hl1 := hl.1
      simp only [hkey] at hl1 ⊢
      split
      · rfl
      · split
        · rfl
        · rw [hL]; exact vm_noRaise (.obj mkvs) _ _ _ hw.1 hl1
    | _ =>
      have hl2 : laOkK fields lams rest = true := by rw [laOkK.eq_def] at hl; simpa using hl
      have ih := vmK_noRaise fields hf lams adict ldict hL rest hw.2 hl2
      rw [vmK.eq_def]; exact Res.join_noRaise rfl ih
termination_by structural tms
end

/-- the answer set is never empty -/
def Res.nonempty : Res → Bool
  | .ok => true
  | .bad d r => d || r

theorem Res.join_nonempty {a b : Res} (ha : a.nonempty = true) (hb : b.nonempty = true) :
    (a.join b).nonempty = true := by
  cases a with
  | ok => simpa [Res.join] using hb
  | bad d r =>
    cases b with
    | ok => simpa [Res.join] using ha
    | bad d' r' => cases d <;> cases r <;> cases d' <;> cases r' <;> simp_all [Res.join, Res.nonempty]

theorem setMatch_nonempty (txs axs : List JVal) : (setMatch txs axs).nonempty = true := by
  unfold setMatch
  repeat' split
  all_goals rfl

theorem keyedNone_nonempty (f : List JVal) (cv lav : JVal) : (keyedNone f cv lav).nonempty = true := by
  unfold keyedNone; split <;> rfl

mutual
theorem vm_nonempty (t a la : JVal) (s : Bool) : (validateMatch t a la s).nonempty = true := by
  match t with
  | .obj tkvs =>
    match a with
    | .obj akvs =>
      rw [validateMatch.eq_1]
      split
      · rfl
      · exact vmO_nonempty _ akvs la tkvs
    | .null | .bool _ | .int _ | .flt _ | .str _ | .arr _ =>
      rw [validateMatch.eq_2 _ _ _ _ (by intro _ h; cases h)]; rfl
  | .arr txs =>
    match a with
    | .arr axs =>
      rw [validateMatch.eq_4]
      split
      · exact setMatch_nonempty _ _
      · split
        · rfl
        · split
          · rfl
          · split
            · rfl
            · exact vmL_nonempty txs axs _
    | .obj _ => rw [validateMatch.eq_3]; rfl
    | .null | .bool _ | .int _ | .flt _ | .str _ => rw [validateMatch.eq_def]; rfl
  | .null | .bool _ | .int _ | .flt _ | .str _ =>
    rw [validateMatch.eq_def]
    cases a <;> first | rfl | (simp only []; split <;> rfl)
termination_by structural t
theorem vmO_nonempty (d : Dirs) (akvs : List (String × JVal)) (la : JVal) (tkvs : List (String × JVal)) :
    (vmO d akvs la tkvs).nonempty = true := by
  match tkvs with
  | [] => rw [vmO.eq_1]; rfl
  | (k, tv) :: rest =>
    rw [vmO.eq_2]
    refine Res.join_nonempty ?_ (vmO_nonempty d akvs la rest)
    by_cases hs : skippedKey k = true
    · rw [if_pos hs]; rfl
    · rw [if_neg hs]
      cases laAt la k with
      | junkRaise => rfl
      | junkIn => simp only []; split <;> rfl
      | val lav =>
        simp only []
        cases cmpValue d k akvs lav with
        | none => rfl
        | some cv =>
          simp only []
          cases fieldsFor k d.asMap with
          | none => exact vm_nonempty tv _ _ _
          | some fields =>
            simp only []
            cases tv with
            | arr tms =>
              simp only []
              split
              · unfold keyedDispatch
                split
                · exact vmK_nonempty _ _ _ tms
                · rfl
                · rfl
              · exact keyedNone_nonempty _ _ _
            | _ => exact keyedNone_nonempty _ _ _
termination_by structural tkvs
theorem vmL_nonempty (txs axs items : List JVal) : (vmL txs axs items).nonempty = true := by
  match txs, axs with
  | [], _ => rw [vmL.eq_2]; rfl; intro _ _ _ _ h; cases h
  | _ :: _, [] => rw [vmL.eq_2]; rfl; intro _ _ _ _ _ h; cases h
  | t :: ts, a :: as =>
    rw [vmL.eq_1]
    have h1 := vm_nonempty t a (items.head?.getD .null) false
    cases hv : validateMatch t a (items.head?.getD .null) false with
    | ok => exact vmL_nonempty ts as _
    | bad d r => rw [hv] at h1; exact h1
termination_by structural txs
theorem vmK_nonempty (fields : List JVal) (adict ldict : List (String × JVal)) (tms : List JVal) :
    (vmK fields adict ldict tms).nonempty = true := by
  match tms with
  | [] => rw [vmK.eq_1]; rfl
  | tm :: rest =>
    have ih := vmK_nonempty fields adict ldict rest
    cases tm with
    | obj mkvs =>
      rw [vmK.eq_2]
      refine Res.join_nonempty ?_ ih
      split
      · rfl
      · split
        · rfl
        · split
          · rfl
          · exact vm_nonempty (.obj mkvs) _ _ _
    | _ => rw [vmK.eq_def]; exact Res.join_nonempty rfl ih
termination_by structural tms
end

end Koreo.Compare
