/-
  From the preparation model (C14, `Koreo/WorkflowPrep.lean`) to the run-time model
  (C01/C02, `Koreo/Workflow.lean`): the Workflow that `prepare_workflow` hands to
  `reconcile_workflow`, and the proof that one it reports ready is well-formed in the sense
  `Koreo.Workflow.Workflow.WF` that C01/C02's theorems assume.

  Expressions are opaque on both sides: the translation of a parse tree into the run-time model's
  `Expr` is a parameter `tr` (the statement holds for every `tr`).  `WF` only mentions labels and
  the recorded dependencies, which are translated exactly.
-/
import Koreo.Workflow
import Koreo.Lemmas.WorkflowPrep

namespace Koreo.PrepToWorkflow
open Koreo.CelAst Koreo.WorkflowPrep

abbrev RStep := Koreo.Workflow.Step
abbrev RExpr := Koreo.Workflow.Expr

def toTarget (r : Ref) : Koreo.Workflow.Target :=
  if r.kind = "Workflow" then .wf r.name else .fn r.name

def toExpr? (tr : Cel → RExpr) : Fld → Option RExpr
  | .ast t => some (tr t)
  | _ => none

/-- `structure.Step.logic`: the loaded function / sub-workflow, or the `LogicSwitch` -/
def toLogic (tr : Cel → RExpr) (s : StepSpec) : Koreo.Workflow.Logic :=
  match s.ref, s.refSwitch with
  | some r, _ => .ref (toTarget r)
  | none, some sw =>
    .switch ((toExpr? tr sw.switchOn).getD .bad)
      (sw.cases.map fun c => (c.case, toTarget c.ref))
      ((sw.cases.find? (·.isDefault)).map fun c => toTarget c.ref)
  | none, none => .ref (.fn "")

/-- one prepared step: its label, the dependency set `_load_step` recorded, its fields -/
def toStep (tr : Cel → RExpr) (s : StepSpec) (r : StepR) : RStep where
  label := s.lbl
  deps := match r with
    | .step deps => deps
    | .error _ => []
  inputs := toExpr? tr s.inputs
  skipIf := toExpr? tr s.skipIf
  forEach := s.forEach.bind fun fe => (toExpr? tr fe.itemIn).map fun e => ⟨e, ""⟩
  logic := toLogic tr s
  state := toExpr? tr s.state

def toSteps (tr : Cel → RExpr) : List StepSpec → List StepR → List RStep
  | s :: ss, r :: rs => toStep tr s r :: toSteps tr ss rs
  | _, _ => []

/-- the `structure.Workflow` that `prepare_workflow` returns for `spec`, as the run-time model sees it -/
def toWorkflow (tr : Cel → RExpr) (name : String) (spec : List StepSpec) (w : WfOut) : Koreo.Workflow.Workflow :=
  ⟨name, toSteps tr spec w.steps⟩

theorem readyOf_ok {rs : List StepR} (h : readyOf rs = .ok) : ∀ r ∈ rs, r.isError = false := by
  intro r hr
  cases he : r.isError with
  | false => rfl
  | true => exact absurd h (readyOf_error hr he)

/-- the loop of `_load_steps` builds, step by step, exactly what `wfSteps` checks: each prepared
    step's label is new and its recorded dependencies are labels seen before -/
theorem loop_wfSteps {env : Env} (tr : Cel → RExpr) :
    ∀ (steps : List StepSpec) (known seen : List String) (rs : List StepR) (res : List Res) (pp : List String),
      (∀ x, x ∈ known ↔ x ∈ seen) →
      loadStepsLoop env steps known = .ok (rs, res, pp) →
      (∀ r ∈ rs, r.isError = false) →
      Koreo.Workflow.wfSteps seen (toSteps tr steps rs) = true
  | [], _, _, rs, _, _, _, h, _ => by
    simp only [loadStepsLoop, pure, Except.pure, Except.ok.injEq, Prod.mk.injEq] at h
    obtain ⟨rfl, _, _⟩ := h
    simp [toSteps, Koreo.Workflow.wfSteps]
  | s :: rest, known, seen, rs, res, pp, hks, h, hok => by
    simp only [loadStepsLoop] at h
    split at h
    · -- a repeated label gives an error step: impossible here
      cases hl : loadStepsLoop env rest known with
      | error e => simp [hl] at h
      | ok v =>
        obtain ⟨rs', res', pp'⟩ := v
        simp only [hl, pure, Except.pure, Except.ok.injEq, Prod.mk.injEq] at h
        obtain ⟨rfl, _, _⟩ := h
        have := hok (.error .permFail) (by simp)
        simp [StepR.isError] at this
    · rename_i hnew
      cases hs : loadStep env s known with
      | error e => simp [hs] at h
      | ok out =>
        simp only [hs] at h
        cases hl : loadStepsLoop env rest (s.lbl :: known) with
        | error e => simp [hl] at h
        | ok v =>
          obtain ⟨rs', res', pp'⟩ := v
          simp only [hl, pure, Except.pure, Except.ok.injEq, Prod.mk.injEq] at h
          obtain ⟨rfl, _, _⟩ := h
          have hrest := loop_wfSteps tr rest (s.lbl :: known) (seen ++ [s.lbl]) rs' res' pp'
            (by intro x
                rw [List.mem_cons, List.mem_append, List.mem_singleton, hks x]
                exact ⟨Or.symm, Or.symm⟩)
            hl (fun r hr => hok r (List.mem_cons_of_mem _ hr))
          have hnotseen : seen.contains s.lbl = false := by
            have : s.lbl ∉ known := by simpa using hnew
            have : s.lbl ∉ seen := fun hm => this ((hks _).2 hm)
            simpa using this
          cases hres : out.result with
          | error c =>
            have := hok out.result (by simp)
            rw [hres] at this
            simp [StepR.isError] at this
          | step deps =>
            have hdeps := Koreo.C14Aux.deps_known hs hres
            simp only [toSteps, Koreo.Workflow.wfSteps, toStep, hres, Bool.and_eq_true, hnotseen,
              Bool.not_false, and_true]
            refine ⟨?_, by simpa [toStep, hres] using hrest⟩
            rw [List.all_eq_true]
            intro d hd
            have : d ∈ seen := (hks d).1 (hdeps d hd)
            simpa using this

theorem loop_length {env : Env} : ∀ (steps : List StepSpec) (known : List String) (rs : List StepR)
    (res : List Res) (pp : List String),
    loadStepsLoop env steps known = .ok (rs, res, pp) → rs.length = steps.length
  | [], _, rs, _, _, h => by
    simp only [loadStepsLoop, pure, Except.pure, Except.ok.injEq, Prod.mk.injEq] at h
    obtain ⟨rfl, _, _⟩ := h; rfl
  | s :: rest, known, rs, res, pp, h => by
    simp only [loadStepsLoop] at h
    split at h
    · cases hl : loadStepsLoop env rest known with
      | error e => simp [hl] at h
      | ok v =>
        obtain ⟨rs', res', pp'⟩ := v
        simp only [hl, pure, Except.pure, Except.ok.injEq, Prod.mk.injEq] at h
        obtain ⟨rfl, _, _⟩ := h
        simp [loop_length rest known rs' res' pp' hl]
    · cases hs : loadStep env s known with
      | error e => simp [hs] at h
      | ok out =>
        simp only [hs] at h
        cases hl : loadStepsLoop env rest (s.lbl :: known) with
        | error e => simp [hl] at h
        | ok v =>
          obtain ⟨rs', res', pp'⟩ := v
          simp only [hl, pure, Except.pure, Except.ok.injEq, Prod.mk.injEq] at h
          obtain ⟨rfl, _, _⟩ := h
          simp [loop_length rest (s.lbl :: known) rs' res' pp' hl]

/-- the translation keeps every step, in order, under its own label -/
theorem toSteps_labels (tr : Cel → RExpr) : ∀ (steps : List StepSpec) (rs : List StepR),
    rs.length = steps.length → Koreo.Workflow.labels (toSteps tr steps rs) = steps.map StepSpec.lbl
  | [], [], _ => rfl
  | [], _ :: _, h => by simp at h
  | _ :: _, [], h => by simp at h
  | s :: ss, r :: rs, h => by
    have := toSteps_labels tr ss rs (by simpa using h)
    simp only [Koreo.Workflow.labels] at this
    simp [toSteps, Koreo.Workflow.labels, toStep, this]

end Koreo.PrepToWorkflow
