/-
  C16 ↔ C17 link.  The hot-reload transition system (`Koreo/HotReload.lean`) abstracts the
  subscription registry to two functions (`subs`, `queue`).  This file shows that the abstraction
  is faithful to the detailed registry model of C17 (`Koreo/Registry.lean`, which is tied to
  `registry.py` by its own correspondence check): every registry-side effect of an offer, a
  delete, a re-preparation or a monitor step is the effect of the corresponding `registry.py`
  calls in the C17 model (`register`, `subscribe_only_to` — whose cycle check provably answers
  "no cycle" because declarations are ranked —, `notify_subscribers`, `kill_resource` +
  `deregister`), plus the consumer side that `registry.py` leaves to its users (the monitor
  taking everything out of its queue).  Hence the registry view of every reachable hot-reload
  state is a state the C17 model reaches, and everything C17 proves (inverse views, acyclicity,
  exact delivery) holds for the registry as the cache uses it.
-/
import Koreo.Lemmas.HotReload
import Koreo.Lemmas.Registry

set_option linter.unusedSectionVars false
set_option linter.unusedVariables false

namespace Koreo.HotReload.Link
open Koreo.HotReload
open Koreo.Registry (Item Queue Assoc Op Out Good QInv MapsGood Reach Edge applyOnly notifyWith
  caughtRepaired caughtRepaired_all killQ drainQ)

abbrev G := Koreo.Registry.State
variable {Spec : Type}

/-- the consumer side, which `registry.py` leaves to its users: the monitor task takes every
    item out of its own queue (`get()` + `task_done()` each) -/
def popAll (g : G) (r : Nat) : G :=
  match g.queues.find? r with
  | none => g
  | some q => { g with queues := g.queues.set r { q with items := [], unfinished := 0 } }

/-- states of the C17 model reachable by registry operations and consumers -/
inductive RegReach : G → Prop
  | init : RegReach Koreo.Registry.init
  | step {g : G} (op : Op) : RegReach g → RegReach (Koreo.Registry.step g op).1
  | pop {g : G} (r : Nat) : RegReach g → RegReach (popAll g r)

theorem good_popAll {g : G} (h : Good g) (r : Nat) : Good (popAll g r) := by
  unfold popAll
  cases hf : g.queues.find? r with
  | none => exact h
  | some q =>
    refine ⟨h.1, ?_⟩
    intro r' q' hr
    simp only [Assoc.find_set] at hr
    split at hr
    · cases hr; rfl
    · exact h.2 r' q' hr

theorem regReach_good {g : G} (h : RegReach g) : Good g := by
  induction h with
  | init => exact Koreo.Registry.good_init
  | step op _ ih => exact Koreo.Registry.good_step ih op
  | pop r _ ih => exact good_popAll ih r

/-- an item of the detailed queue stands for the event time `t` of the abstract one
    (`none` = "`time.monotonic()` read inside the registry", which the abstract model reads from
    its logical clock) -/
def ItemRel (it : Item) (t : Nat) : Prop :=
  ∃ src ot, it = .event src ot ∧ ∀ t', ot = some t' → t' = t

inductive ItemsRel : List Item → List Nat → Prop
  | nil : ItemsRel [] []
  | cons {it : Item} {t : Nat} {is : List Item} {ts : List Nat} :
      ItemRel it t → ItemsRel is ts → ItemsRel (it :: is) (t :: ts)

/-- an open, unbounded queue holding exactly the abstract events -/
def QRel (q : Queue) (ts : List Nat) : Prop :=
  q.shut = false ∧ q.cap = 0 ∧ ItemsRel q.items ts

def QMatch : Option Queue → Option (List Nat) → Prop
  | none, none => True
  | some q, some ts => QRel q ts
  | _, _ => False

/-- the abstraction relation between the C17 registry state and the hot-reload state -/
structure Abs (g : G) (s : State Nat Spec) : Prop where
  subs : ∀ x d, d ∈ g.subs x ↔ d ∈ s.subs x
  queue : ∀ x, QMatch (g.queues.find? x) (s.queue x)

/-- `g` is reachable in the C17 model and abstracts to `s` -/
def Sim (g : G) (s : State Nat Spec) : Prop := RegReach g ∧ Abs g s

theorem qrel_live {q : Queue} {ts : List Nat} (h : QRel q ts) : q.live = true := by
  obtain ⟨h1, h2, _⟩ := h
  simp [Queue.live, Queue.full, h1, h2]

theorem sim_congr {g : G} {s s' : State Nat Spec} (h : Sim g s) (h1 : s'.subs = s.subs)
    (h2 : s'.queue = s.queue) : Sim g s' :=
  ⟨h.1, ⟨by rw [h1]; exact h.2.subs, by rw [h2]; exact h.2.queue⟩⟩

theorem sim_tick {g : G} {s : State Nat Spec} (h : Sim g s) : Sim g (tick s) := sim_congr h rfl rfl

theorem sim_init : Sim Koreo.Registry.init (init : State Nat Spec) :=
  ⟨.init, ⟨by intro x d; simp [Koreo.Registry.State.subs, Koreo.Registry.init, Koreo.Registry.Map.get,
      Assoc.find?, HotReload.init],
    by intro x; simp [Koreo.Registry.init, Assoc.find?, HotReload.init, QMatch]⟩⟩

/-! ### `notify_subscribers` -/

theorem abs_notifyWith {g : G} {s : State Nat Spec} (hg : Good g) (h : Abs g s) (d t : Nat)
    (ot : Option Nat) (hot : ∀ t', ot = some t' → t' = t) (wrap : List Nat → Out) :
    Abs (notifyWith caughtRepaired g d ot wrap).1 (notify s d t) ∧
    ∃ ds, (notifyWith caughtRepaired g d ot wrap).2 = wrap ds ∧
      ∀ y, y ∈ ds ↔ (d ∈ s.subs y ∧ (s.queue y).isSome = true) := by
  obtain ⟨qs', ds, h1, h2, h3⟩ :=
    Koreo.Registry.notifyWith_spec caughtRepaired caughtRepaired_all g d ot wrap (hg.1.nodupSubscribers d)
  have hmem : ∀ y, y ∈ ds ↔ (d ∈ s.subs y ∧ (s.queue y).isSome = true) := by
    intro y
    rw [h2, List.mem_filter]
    have hinv : y ∈ g.subscribers d ↔ d ∈ s.subs y := by
      rw [← h.subs y d]; exact (hg.1.inv y d).symm
    have hq := h.queue y
    rw [hinv]
    cases hf : g.queues.find? y with
    | none =>
      cases hs : s.queue y with
      | none => simp [Koreo.Registry.liveIn, hf]
      | some ts => rw [hf, hs] at hq; exact hq.elim
    | some q =>
      cases hs : s.queue y with
      | none => rw [hf, hs] at hq; exact hq.elim
      | some ts =>
        rw [hf, hs] at hq
        simp [Koreo.Registry.liveIn, hf, qrel_live hq]
  rw [h1]
  refine ⟨⟨h.subs, ?_⟩, ds, rfl, hmem⟩
  intro y
  show QMatch (qs'.find? y) ((notify s d t).queue y)
  rw [h3 y]
  have hq := h.queue y
  simp only [notify]
  by_cases hy : y ∈ ds
  · obtain ⟨hsub, hsome⟩ := (hmem y).1 hy
    rw [if_pos hy, if_pos hsub]
    cases hf : g.queues.find? y with
    | none =>
      cases hs : s.queue y with
      | none => rw [hs] at hsome; cases hsome
      | some ts => rw [hf, hs] at hq; exact hq.elim
    | some q =>
      cases hs : s.queue y with
      | none => rw [hs] at hsome; cases hsome
      | some ts =>
        rw [hf, hs] at hq
        obtain ⟨a, b, c⟩ := hq
        exact ⟨a, b, .cons ⟨d, ot, rfl, hot⟩ c⟩
  · rw [if_neg hy]
    by_cases hsub : d ∈ s.subs y
    · -- subscribed but no queue: nothing to deliver on either side
      have hnone : s.queue y = none := by
        cases hs : s.queue y with
        | none => rfl
        | some ts => exact absurd ((hmem y).2 ⟨hsub, by simp [hs]⟩) hy
      rw [if_pos hsub, hnone]
      rw [hnone] at hq
      exact hq
    · rw [if_neg hsub]; exact hq

theorem sim_notify {g : G} {s : State Nat Spec} (h : Sim g s) (d t : Nat) :
    ∃ g', Sim g' (notify s d t) := by
  have hg := regReach_good h.1
  refine ⟨(Koreo.Registry.step g (.notify d t)).1, .step _ h.1, ?_⟩
  exact (abs_notifyWith hg h.2 d t (some t) (by intro t' e; cases e; rfl) .delivered).1

/-! ### `register` -/

theorem sim_register {g : G} {s : State Nat Spec} (h : Sim g s) (r : Nat) :
    ∃ g', Sim g' (register s r) := by
  have hg := regReach_good h.1
  refine ⟨(Koreo.Registry.step g (.register r 0)).1, .step _ h.1, ?_⟩
  have hq := h.2.queue r
  simp only [Koreo.Registry.step, Koreo.Registry.stepWith, register]
  cases hf : g.queues.find? r with
  | some q =>
    cases hs : s.queue r with
    | none => rw [hf, hs] at hq; exact hq.elim
    | some ts => exact h.2
  | none =>
    cases hs : s.queue r with
    | some ts => rw [hf, hs] at hq; exact hq.elim
    | none =>
      simp only
      have hg1 : Good { g with queues := g.queues.set r (Queue.fresh 0) } := by
        refine ⟨hg.1, ?_⟩
        intro r' q' hr
        simp only [Assoc.find_set] at hr
        split at hr
        · cases hr; rfl
        · exact hg.2 r' q' hr
      have habs1 : Abs { g with queues := g.queues.set r (Queue.fresh 0) }
          (tick { s with queue := upd s.queue r (some []) }) := by
        refine ⟨h.2.subs, ?_⟩
        intro x
        show QMatch ((g.queues.set r (Queue.fresh 0)).find? x) (upd s.queue r (some []) x)
        rw [Assoc.find_set]
        by_cases hx : r = x
        · subst hx; simp [upd, QMatch, QRel, Queue.fresh, ItemsRel.nil]
        · have hx' : x ≠ r := fun e => hx e.symm
          simp only [hx, if_false, upd_other _ _ _ hx']; exact h.2.queue x
      exact (abs_notifyWith hg1 habs1 r s.clock none (by intro t' e; cases e) .delivered).1

/-! ### `subscribe_only_to`: never refused, because declarations are ranked -/

theorem rank_of_reach {g : G} {rank : Nat → Nat} (hr : ∀ x y, Edge g x y → rank y < rank x)
    {a b : Nat} (h : Reach (Edge g) a b) : rank b ≤ rank a := by
  induction h with
  | refl => exact Nat.le_refl _
  | tail _ e ih => exact Nat.le_of_lt (Nat.lt_of_lt_of_le (hr _ _ e) ih)

theorem sim_setSubs {g : G} {s : State Nat Spec} (h : Sim g s) {rank : Nat → Nat}
    (hranked : ∀ x, ∀ d ∈ s.subs x, rank d < rank x) (r : Nat) (deps : List Nat)
    (hdeps : ∀ d ∈ deps, rank d < rank r) :
    (Koreo.Registry.step g (.subscribeOnlyTo r deps)).2 = .ok ∧
    Sim (Koreo.Registry.step g (.subscribeOnlyTo r deps)).1 { s with subs := upd s.subs r deps } := by
  have hg := regReach_good h.1
  have hedge : ∀ x y, Edge g x y → rank y < rank x := by
    intro x y e; exact hranked x y ((h.2.subs x y).1 e)
  have hok : Koreo.Registry.checkForCycles g r deps = .ok := by
    cases hc : Koreo.Registry.checkForCycles g r deps with
    | ok => rfl
    | cycle =>
      obtain ⟨d, hd, hre⟩ := Koreo.Registry.check_sound g r deps hc
      have := rank_of_reach hedge hre
      have := hdeps d hd
      omega
    | outOfFuel =>
      have := (Koreo.Registry.check_complete g r deps hg.1.acyclic (Koreo.Registry.fuelFor g)
        (Nat.le_refl _)).1
      rw [Koreo.Registry.checkForCycles] at hc
      exact absurd hc this
  have hstep : Koreo.Registry.step g (.subscribeOnlyTo r deps) = (applyOnly g r deps, .ok) := by
    simp only [Koreo.Registry.step, Koreo.Registry.stepWith, hok]
  refine ⟨by rw [hstep], ?_, ?_⟩
  · exact .step _ h.1
  · rw [hstep]
    refine ⟨?_, ?_⟩
    · intro x d
      show d ∈ Koreo.Registry.Map.get (applyOnly g r deps).subsOf x ↔ d ∈ upd s.subs r deps x
      simp only [applyOnly, Koreo.Registry.Map.get_set]
      by_cases hx : r = x
      · subst hx; simp [Koreo.Registry.mem_dedup]
      · have hx' : x ≠ r := fun e => hx e.symm
        simp only [hx, if_false, upd_other _ _ _ hx']; exact h.2.subs x d
    · intro x; exact h.2.queue x

/-! ### the consumer -/

theorem sim_pop {g : G} {s : State Nat Spec} (h : Sim g s) (r : Nat) {q : List Nat}
    (hq : s.queue r = some q) : Sim (popAll g r) { s with queue := upd s.queue r (some []) } := by
  have hsubs : (popAll g r).subsOf = g.subsOf := by unfold popAll; split <;> rfl
  refine ⟨.pop r h.1, ?_, ?_⟩
  · intro x d
    show d ∈ Koreo.Registry.Map.get (popAll g r).subsOf x ↔ d ∈ s.subs x
    rw [hsubs]; exact h.2.subs x d
  intro x
  have hm := h.2.queue r
  show QMatch ((popAll g r).queues.find? x) (upd s.queue r (some []) x)
  unfold popAll
  cases hf : g.queues.find? r with
  | none => rw [hf, hq] at hm; exact hm.elim
  | some q0 =>
    rw [hf, hq] at hm
    simp only [Assoc.find_set]
    by_cases hx : r = x
    · subst hx; simp only [if_true, upd_same]; exact ⟨hm.1, hm.2.1, .nil⟩
    · have hx' : x ≠ r := fun e => hx e.symm
      simp only [hx, if_false, upd_other _ _ _ hx']; exact h.2.queue x

/-! ### `kill_resource` + `deregister` (the registry side of a delete) -/

theorem sim_dropAndNotify {g : G} {s : State Nat Spec} (h : Sim g s) (r t : Nat) :
    ∃ g', Sim g' (notify { s with subs := upd s.subs r [], queue := upd s.queue r none } r t) := by
  have hg := regReach_good h.1
  let g1 := (Koreo.Registry.step g (.kill r)).1
  refine ⟨(Koreo.Registry.step g1 (.deregister r t)).1, .step _ (.step _ h.1), ?_⟩
  have hg1 : Good g1 := Koreo.Registry.good_step hg _
  -- after the kill only `r`'s queue differs
  have hsubs1 : g1.subsOf = g.subsOf ∧ g1.subscribersOf = g.subscribersOf := by
    simp only [g1, Koreo.Registry.step, Koreo.Registry.stepWith]
    cases g.queues.find? r <;> exact ⟨rfl, rfl⟩
  have hq1 : ∀ x, x ≠ r → g1.queues.find? x = g.queues.find? x := by
    intro x hx
    simp only [g1, Koreo.Registry.step, Koreo.Registry.stepWith]
    cases hf : g.queues.find? r with
    | none => rfl
    | some q =>
      have hne : ¬ r = x := fun e => hx e.symm
      simp [Assoc.find_set, hne]
  -- the state the notification of `deregister` starts from
  let s2 : State Nat Spec := { s with subs := upd s.subs r [], queue := upd s.queue r none }
  have key : ∀ (g2 : G), Good g2 → g2.subsOf = (applyOnly g1 r []).subsOf →
      g2.subscribersOf = (applyOnly g1 r []).subscribersOf →
      (∀ x, g2.queues.find? x = if r = x then none else g.queues.find? x) →
      ∀ wrap, Abs (notifyWith caughtRepaired g2 r (some t) wrap).1 (notify s2 r t) := by
    intro g2 hg2 e1 e2 e3 wrap
    refine (abs_notifyWith hg2 ⟨?_, ?_⟩ r t (some t) (by intro t' e; cases e; rfl) wrap).1
    · intro x d
      show d ∈ Koreo.Registry.Map.get g2.subsOf x ↔ d ∈ upd s.subs r [] x
      rw [e1]
      simp only [applyOnly, Koreo.Registry.Map.get_set, hsubs1.1]
      by_cases hx : r = x
      · subst hx; simp [Koreo.Registry.dedup]
      · have hx' : x ≠ r := fun e => hx e.symm
        simp only [hx, if_false, upd_other _ _ _ hx']; exact h.2.subs x d
    · intro x
      show QMatch (g2.queues.find? x) (upd s.queue r none x)
      rw [e3 x]
      by_cases hx : r = x
      · subst hx; simp [QMatch]
      · have hx' : x ≠ r := fun e => hx e.symm
        simp only [hx, if_false, upd_other _ _ _ hx']; exact h.2.queue x
  have hm1 := Koreo.Registry.mapsGood_applyOnly hg1.1 r [] (by simp)
  simp only [Koreo.Registry.step, Koreo.Registry.stepWith]
  cases hf : (applyOnly g1 r []).queues.find? r with
  | none =>
    simp only
    apply key (applyOnly g1 r []) ⟨hm1, hg1.2⟩ rfl rfl
    intro x
    by_cases hx : r = x
    · subst hx; simp only [if_true]; exact hf
    · have hx' : x ≠ r := fun e => hx e.symm
      simp only [hx, if_false]; exact hq1 x hx'
  | some q =>
    simp only
    apply key { applyOnly g1 r [] with queues := (applyOnly g1 r []).queues.del r } ?_ rfl rfl
    · intro x
      show (Assoc.del g1.queues r).find? x = _
      rw [Assoc.find_del]
      by_cases hx : r = x
      · simp [hx]
      · have hx' : x ≠ r := fun e => hx e.symm
        simp only [hx, if_false]; exact hq1 x hx'
    · refine ⟨hm1, ?_⟩
      intro r' q' hr
      have hr' : (Assoc.del g1.queues r).find? r' = some q' := hr
      rw [Assoc.find_del] at hr'
      split at hr'
      · cases hr'
      · exact hg1.2 r' q' hr'

/-! ### the composite actions of the hot-reload system -/

variable {decl : Spec → (Nat → Bool) → List Nat} {rank : Nat → Nat}

/-- what the link needs from the hot-reload invariant: subscriptions and cached specs are ranked -/
def W (decl : Spec → (Nat → Bool) → List Nat) (rank : Nat → Nat) (s : State Nat Spec) : Prop :=
  (∀ x, ∀ d ∈ s.subs x, rank d < rank x) ∧ (∀ x e, s.cache x = some e → SpecRanked decl rank x e.spec)

theorem register_subs (s : State Nat Spec) (r : Nat) : (register s r).subs = s.subs := by
  unfold register; split <;> rfl

theorem register_cache' (s : State Nat Spec) (r : Nat) : (register s r).cache = s.cache := by
  unfold register; split <;> rfl

theorem w_commit {s : State Nat Spec} (h : W decl rank s) (r v : Nat) (spec : Spec)
    (hspec : SpecRanked decl rank r spec) (deps : List Nat) (hdeps : ∀ d ∈ deps, rank d < rank r)
    (t0 : Nat) (monF : Nat → Mon) : W decl rank (commitState s r v spec deps t0 monF) := by
  refine ⟨?_, ?_⟩
  · intro x d hd
    simp only [commitState] at hd
    by_cases hx : x = r
    · subst hx; rw [upd_same] at hd; exact hdeps d hd
    · rw [upd_other _ _ _ hx] at hd; exact h.1 x d hd
  · intro x e he
    simp only [commitState] at he
    by_cases hx : x = r
    · subst hx; rw [upd_same] at he; cases he; exact hspec
    · rw [upd_other _ _ _ hx] at he; exact h.2 x e he

theorem w_offerNew {s : State Nat Spec} (h : W decl rank s) (r v : Nat) (spec : Spec)
    (hspec : SpecRanked decl rank r spec) : W decl rank (offerNew decl s r v spec) := by
  rw [offerNew_eq, handle_eq]
  refine w_commit ?_ r v spec hspec _ (hspec _) _ _
  exact ⟨by rw [register_subs]; exact h.1, by rw [register_cache']; exact h.2⟩

theorem w_reprepare {s : State Nat Spec} (h : W decl rank s) (r : Nat) :
    W decl rank (reprepare decl s r) := by
  cases hc : s.cache r with
  | none => simp only [reprepare, hc]; exact h
  | some e =>
    rw [reprepare_eq hc, handle_eq]
    exact w_commit (s := tick s) h r e.version e.spec (h.2 r e hc) _ (h.2 r e hc _) _ _

theorem sim_handle {g : G} {s : State Nat Spec} (h : Sim g s)
    (hranked : ∀ x, ∀ d ∈ s.subs x, rank d < rank x) (r : Nat) (deps : List Nat)
    (hdeps : ∀ d ∈ deps, rank d < rank r) (t0 tf : Nat) (m : Bool) :
    ∃ g', Sim g' (handleNotifications s r deps t0 tf m) := by
  obtain ⟨-, h1⟩ := sim_setSubs h hranked r deps hdeps
  have h2 : Sim _ { s with prepT := upd s.prepT r t0, subs := upd s.subs r deps } := sim_congr h1 rfl rfl
  obtain ⟨g', h3⟩ := sim_notify h2 r tf
  refine ⟨g', ?_⟩
  unfold handleNotifications
  simp only
  split
  · exact sim_congr h3 rfl rfl
  · exact h3

theorem sim_offerNew {g : G} {s : State Nat Spec} (h : Sim g s) (hw : W decl rank s) (r v : Nat)
    (spec : Spec) (hspec : SpecRanked decl rank r spec) : ∃ g', Sim g' (offerNew decl s r v spec) := by
  obtain ⟨g1, h1⟩ := sim_register (sim_tick h) r
  unfold offerNew
  simp only
  refine sim_handle (g := g1) ?_ ?_ r _ (hspec _) _ _ _
  · exact sim_congr h1 rfl rfl
  intro x d hd
  have : d ∈ (register (tick s) r).subs x := hd
  rw [register_subs] at this
  exact hw.1 x d this

theorem sim_reprepare {g : G} {s : State Nat Spec} (h : Sim g s) (hw : W decl rank s) (r : Nat) :
    ∃ g', Sim g' (reprepare decl s r) := by
  cases hc : s.cache r with
  | none => simp only [reprepare, hc]; exact ⟨g, h⟩
  | some e =>
    simp only [reprepare, hc]
    refine sim_handle (g := g) ?_ ?_ r _ (hw.2 r e hc _) _ _ _
    · exact sim_congr h rfl rfl
    · exact hw.1

theorem sim_drain (q : List Nat) {g : G} {s : State Nat Spec} (h : Sim g s) (hw : W decl rank s) (r : Nat) :
    (∃ g', Sim g' (drain decl s r q)) ∧ W decl rank (drain decl s r q) := by
  induction q generalizing g s with
  | nil => exact ⟨⟨g, h⟩, hw⟩
  | cons t rest ih =>
    unfold drain
    split
    · exact ih h hw
    · obtain ⟨g1, h1⟩ := sim_reprepare h hw r
      exact ih h1 (w_reprepare hw r)

theorem sim_runDrain {g : G} {s : State Nat Spec} (h : Sim g s) (hw : W decl rank s) (r : Nat) :
    (∃ g', Sim g' (runDrain decl s r)) ∧ W decl rank (runDrain decl s r) := by
  unfold runDrain
  cases hq : s.queue r with
  | none => exact ⟨⟨g, h⟩, hw⟩
  | some q => exact sim_drain q (sim_pop h r hq) hw r

theorem sim_bg {g : G} {s : State Nat Spec} (h : Sim g s) (hw : W decl rank s) (r : Nat) :
    (∃ g', Sim g' (bg decl s r)) ∧ W decl rank (bg decl s r) := by
  unfold bg
  split
  · exact ⟨⟨g, h⟩, hw⟩
  · obtain ⟨g1, h1⟩ := sim_register h r
    refine sim_runDrain (g := g1) ?_ ?_ r
    · exact sim_congr h1 rfl rfl
    exact ⟨by show ∀ x, ∀ d ∈ (register s r).subs x, _; rw [register_subs]; exact hw.1,
           by show ∀ x e, (register s r).cache x = some e → _; rw [register_cache']; exact hw.2⟩
  · exact sim_runDrain h hw r

theorem sim_delete {g : G} {s : State Nat Spec} (h : Sim g s) (hw : W decl rank s) (r : Nat)
    (ver : Option Nat) : (∃ g', Sim g' (delete s r ver)) ∧ W decl rank (delete s r ver) := by
  unfold delete
  cases hc : s.cache r with
  | none => exact ⟨⟨g, h⟩, hw⟩
  | some e =>
    simp only
    split
    · exact ⟨⟨g, h⟩, hw⟩
    · obtain ⟨g', h'⟩ := sim_dropAndNotify (sim_tick h) r s.clock
      refine ⟨⟨g', sim_congr h' rfl rfl⟩, ?_, ?_⟩
      · intro x d hd
        simp only [notify, tick] at hd
        by_cases hx : x = r
        · subst hx; rw [upd_same] at hd; cases hd
        · rw [upd_other _ _ _ hx] at hd; exact hw.1 x d hd
      · intro x e' he
        simp only [notify, tick] at he
        by_cases hx : x = r
        · subst hx; rw [upd_same] at he; cases he
        · rw [upd_other _ _ _ hx] at he; exact hw.2 x e' he

theorem sim_step {g : G} {s : State Nat Spec} (h : Sim g s) (hw : W decl rank s) (a : Action Nat Spec)
    (ha : Ranked decl rank a) : (∃ g', Sim g' (step decl s a)) ∧ W decl rank (step decl s a) := by
  cases a with
  | offer r v spec =>
    simp only [step, offer]
    cases hc : s.cache r with
    | none => exact ⟨sim_offerNew h hw r v spec ha, w_offerNew hw r v spec ha⟩
    | some e =>
      simp only
      split
      · exact ⟨⟨g, h⟩, hw⟩
      · exact ⟨sim_offerNew h hw r v spec ha, w_offerNew hw r v spec ha⟩
  | delete r ver => exact sim_delete h hw r ver
  | bg r => exact sim_bg h hw r

theorem sim_run (acts : List (Action Nat Spec)) {g : G} {s : State Nat Spec} (h : Sim g s)
    (hw : W decl rank s) (ha : ∀ a ∈ acts, Ranked decl rank a) : ∃ g', Sim g' (run decl s acts) := by
  induction acts generalizing g s with
  | nil => exact ⟨g, h⟩
  | cons a rest ih =>
    simp only [run, List.foldl_cons]
    obtain ⟨⟨g1, h1⟩, hw1⟩ := sim_step h hw a (ha a (by simp))
    exact ih h1 hw1 (fun b hb => ha b (by simp [hb]))

theorem w_init : W decl rank (init : State Nat Spec) :=
  ⟨by intro x d hd; simp [init] at hd, by intro x e he; simp [init] at he⟩

end Koreo.HotReload.Link
