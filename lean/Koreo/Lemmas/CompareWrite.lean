/-
  C04: writing into the live object at a key the target compares plainly (koreo's own annotation
  under `metadata.annotations`, the owner references under `metadata`) keeps the target met.
-/
import Koreo.Lemmas.ComparePointwise
import Koreo.Lemmas.ComparePatch
import Koreo.Lemmas.CompareStrip
import Koreo.Reconcile45
namespace Koreo.R45
open Koreo Koreo.JVal Koreo.Compare

theorem lookup_none_not_mem : ∀ (kvs : List (String × JVal)) (k : String) (v : JVal),
    lookup k kvs = none → (k, v) ∉ kvs := by
  intro kvs
  induction kvs with
  | nil => intro k v _ h; cases h
  | cons kv rest ih =>
    intro k v hl hm
    obtain ⟨k', v'⟩ := kv
    by_cases hk : k' = k
    · simp [lookup, hk] at hl
    · rcases List.mem_cons.mp hm with e | h'
      · cases e; exact hk rfl
      · exact ih k v (by simpa [lookup, hk] using hl) h'

/-- replace `live[k0]` by `x`: fine when the target does not have `k0`, or has a non-list value there that is
    compared with the live object and that `x` meets whenever the old value did -/
theorem write_live_at (tkvs S : List (String × JVal)) (la : JVal) (k0 : String) (x : JVal)
    (h : meetsB .full (.obj tkvs) (.obj S) la = true) (hn : keysNoDup tkvs = true)
    (hx : ∀ tv, lookup k0 tkvs = some tv → isDirective k0 = false →
      isArr tv = false ∧ (specDirs tkvs).lastApplied.contains k0 = false ∧
      (∀ old, lookup k0 S = some old → meetsB .full tv old (laVal (laObjKvs la) k0) = true →
        meetsB .full tv x (laVal (laObjKvs la) k0) = true)) :
    meetsB .full (.obj tkvs) (.obj (JVal.insert k0 x S)) la = true := by
  have hla : laMapOk la = true := by
    rw [meetsB.eq_1, Bool.and_eq_true] at h
    simpa using h.1
  refine meets_obj_change tkvs S _ la la h hla ?_
  rintro ⟨k, tv⟩ hkv hold
  by_cases hk : k = k0
  · subst hk
    by_cases hd : isDirective k = true
    · exact key_dir _ _ _ _ _ _ hd
    · have hd : isDirective k = false := by simpa using hd
      obtain ⟨ha, hl, hmeet⟩ := hx tv (mem_lookup_nodup tkvs k tv hn hkv) hd
      obtain ⟨hf, cv, hcv, hm⟩ := (key_nonarr_iff _ _ _ _ _ hd ha).mp hold
      refine (key_nonarr_iff _ _ _ _ _ hd ha).mpr ⟨hf, x, ?_, ?_⟩
      · simp only [cmpValue, hl, Bool.false_eq_true, ↓reduceIte, lookup_insert_self]
      · simp only [cmpValue, hl, Bool.false_eq_true, ↓reduceIte] at hcv
        exact hmeet cv hcv hm
  · rw [key_congr _ _ S (laObjKvs la) k tv (lookup_insert_ne k k0 x (Ne.symm hk) S) rfl]
    exact hold

theorem meets_obj_right (m : Mode) (tkvs : List (String × JVal)) (cv la : JVal)
    (h : meetsB m (.obj tkvs) cv la = true) : ∃ S, cv = .obj S := by
  cases cv <;> first | exact ⟨_, rfl⟩ | (rw [meetsB.eq_2 _ _ _ _ (by intro _ e; cases e)] at h; cases h)

theorem plainKey_la {tkvs : List (String × JVal)} {k : String} (h : plainKey tkvs k = true) :
    (specDirs tkvs).lastApplied.contains k = false := by
  simp only [plainKey, Bool.and_eq_true, Bool.not_eq_true'] at h
  exact h.2

/-- `_prepare_for_api`'s write of the last-applied annotation into a map that meets the target -/
theorem ann_write (v : JVal) (tkvs S S' : List (String × JVal)) (la : JVal)
    (h : meetsB .full (.obj tkvs) (.obj S) la = true) (hn : noDupB (.obj tkvs) = true)
    (ha : annFree (.obj tkvs) = true) (hs : setAnnotation lastAppliedAnnotation v S = some S') :
    meetsB .full (.obj tkvs) (.obj S') la = true := by
  unfold setAnnotation at hs
  cases hmS : (lookup "metadata" S).getD (.obj []) with
  | obj mkvs =>
    rw [hmS] at hs
    simp only [] at hs
    cases haS : (lookup "annotations" mkvs).getD (.obj []) with
    | obj akvs =>
      rw [haS] at hs
      simp only [Option.some.injEq] at hs
      subst hs
      have hn' := hn
      rw [noDupB.eq_2, Bool.and_eq_true] at hn'
      apply write_live_at tkvs S la "metadata" _ h hn'.1
      intro tv hl _
      simp only [annFree, hl] at ha
      cases tv with
      | obj tm =>
        simp only [Bool.and_eq_true] at ha
        refine ⟨rfl, plainKey_la ha.1, ?_⟩
        intro old hold hm
        obtain ⟨S1, rfl⟩ := meets_obj_right _ _ _ _ hm
        have e1 : mkvs = S1 := by
          rw [hold] at hmS; simp only [Option.getD_some, JVal.obj.injEq] at hmS; exact hmS.symm
        subst e1
        have hnm := nodup_sub' hn hl
        have hnm' := hnm
        rw [noDupB.eq_2, Bool.and_eq_true] at hnm'
        apply write_live_at tm mkvs _ "annotations" _ hm hnm'.1
        intro tv2 hl2 _
        have ha2 := ha.2
        rw [hl2] at ha2
        cases tv2 with
        | obj ta =>
          simp only [Bool.and_eq_true, Option.isNone_iff_eq_none] at ha2
          refine ⟨rfl, plainKey_la ha2.1, ?_⟩
          intro old2 hold2 hm2
          obtain ⟨S2, rfl⟩ := meets_obj_right _ _ _ _ hm2
          have e2 : akvs = S2 := by
            rw [hold2] at haS; simp only [Option.getD_some, JVal.obj.injEq] at haS; exact haS.symm
          subst e2
          have hna := nodup_sub' hnm hl2
          rw [noDupB.eq_2, Bool.and_eq_true] at hna
          apply write_live_at ta akvs _ lastAppliedAnnotation _ hm2 hna.1
          intro tv3 hl3 _
          rw [ha2.2] at hl3; cases hl3
        | null | bool _ | int _ | flt _ | str _ | arr _ => simp at ha2
      | null | bool _ | int _ | flt _ | str _ | arr _ => simp at ha
    | null | bool _ | int _ | flt _ | str _ | arr _ => rw [haS] at hs; simp at hs
  | null | bool _ | int _ | flt _ | str _ | arr _ => rw [hmS] at hs; simp at hs
where
  nodup_sub' {tkvs : List (String × JVal)} {k : String} {v : JVal} (hn : noDupB (.obj tkvs) = true)
      (hl : lookup k tkvs = some v) : noDupB v = true := by
    rw [noDupB.eq_2, Bool.and_eq_true] at hn
    exact noDupO_lookup tkvs k v hn.2 hl

end Koreo.R45

namespace Koreo.R45
open Koreo Koreo.JVal Koreo.Compare

/-- the same edit at `k0` in the live map and in the last-applied map -/
theorem write_both_at (tkvs S : List (String × JVal)) (k0 : String) (x : JVal)
    (h : meetsB .full (.obj tkvs) (.obj S) (.obj S) = true) (hn : keysNoDup tkvs = true)
    (hx : ∀ tv, lookup k0 tkvs = some tv → isDirective k0 = false →
      isArr tv = false ∧ (meetsB .full tv (laVal S k0) (laVal S k0) = true → meetsB .full tv x x = true)) :
    meetsB .full (.obj tkvs) (.obj (JVal.insert k0 x S)) (.obj (JVal.insert k0 x S)) = true := by
  refine meets_obj_change tkvs S _ (.obj S) _ h rfl ?_
  rintro ⟨k, tv⟩ hkv hold
  simp only [laObjKvs] at hold ⊢
  by_cases hk : k = k0
  · subst hk
    by_cases hd : isDirective k = true
    · exact key_dir _ _ _ _ _ _ hd
    · have hd : isDirective k = false := by simpa using hd
      obtain ⟨ha, hmeet⟩ := hx tv (mem_lookup_nodup tkvs k tv hn hkv) hd
      obtain ⟨hf, cv, hcv, hm⟩ := (key_nonarr_iff _ _ _ _ _ hd ha).mp hold
      have hnew : laVal (JVal.insert k x S) k = x := by simp [laVal, lookup_insert_self]
      refine (key_nonarr_iff _ _ _ _ _ hd ha).mpr ⟨hf, x, ?_, ?_⟩
      · simp only [cmpValue, hnew, lookup_insert_self, ite_self]
      · rw [hnew]
        apply hmeet
        have : cv = laVal S k := by
          simp only [cmpValue] at hcv
          split at hcv
          · exact (Option.some.inj hcv).symm
          · simp [laVal, hcv]
        rw [this] at hm; exact hm
  · rw [key_congr _ _ S S k tv (lookup_insert_ne k k0 x (Ne.symm hk) S) (laVal_insert_ne k k0 x S (Ne.symm hk))]
    exact hold

theorem stripO_insert (k : String) (v : JVal) (hk : isDirective k = false) : ∀ l : List (String × JVal),
    stripO (JVal.insert k v l) = JVal.insert k (strip v) (stripO l) := by
  intro l
  induction l with
  | nil => simp [JVal.insert, stripO, hk]
  | cons kv rest ih =>
    obtain ⟨k', v'⟩ := kv
    by_cases h1 : k' = k
    · subst h1; simp [JVal.insert, stripO, hk]
    · by_cases hd : isDirective k' = true
      · simp [JVal.insert, stripO, h1, hd, ih]
      · simp [JVal.insert, stripO, h1, hd, ih]

/-- the owner-reference write (`…["metadata"]["ownerReferences"] = refs`) on a view that meets the target,
    seen on the stripped view: the target does not specify that key, so it stays met -/
theorem owner_write (r : JVal) (tkvs S mkvs : List (String × JVal))
    (h : meetsB .full (.obj tkvs) (.obj S) (.obj S) = true) (hn : noDupB (.obj tkvs) = true)
    (hf : ownerRefsFree (.obj tkvs) = true) (hm : lookup "metadata" S = some (.obj mkvs)) :
    meetsB .full (.obj tkvs)
      (.obj (JVal.insert "metadata" (.obj (JVal.insert ownerReferences r mkvs)) S))
      (.obj (JVal.insert "metadata" (.obj (JVal.insert ownerReferences r mkvs)) S)) = true := by
  have hn' := hn
  rw [noDupB.eq_2, Bool.and_eq_true] at hn'
  apply write_both_at tkvs S "metadata" _ h hn'.1
  intro tv hl _
  simp only [ownerRefsFree, hl] at hf
  cases tv with
  | obj tm =>
    simp only [Option.isNone_iff_eq_none] at hf
    refine ⟨rfl, ?_⟩
    have hlv : laVal S "metadata" = .obj mkvs := by simp [laVal, hm]
    rw [hlv]
    intro hold
    have hnm : noDupB (.obj tm) = true := noDupO_lookup tkvs _ _ hn'.2 hl
    rw [noDupB.eq_2, Bool.and_eq_true] at hnm
    apply write_both_at tm mkvs ownerReferences _ hold hnm.1
    intro tv2 hl2 _
    rw [hf] at hl2; cases hl2
  | null | bool _ | int _ | flt _ | str _ | arr _ => simp at hf

end Koreo.R45
