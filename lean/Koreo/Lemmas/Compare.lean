/-
  Helper lemmas for C04 / C05: directive parsing on well-formed targets, keyed-list dictionaries,
  scalar comparison, set comparison.
-/
import Koreo.Compare
import Koreo.CompareWF
namespace Koreo.Compare
open Koreo Koreo.JVal

/-! ## Res -/

@[simp] theorem Res.join_ok_left (r : Res) : Res.join .ok r = r := by cases r <;> rfl
@[simp] theorem Res.join_ok_right (r : Res) : Res.join r .ok = r := by cases r <;> rfl

theorem Res.join_eq_ok {a b : Res} : a.join b = .ok ↔ a = .ok ∧ b = .ok := by
  cases a <;> cases b <;> simp [Res.join]

theorem Res.join_mayRaise (a b : Res) : (a.join b).mayRaise = (a.mayRaise || b.mayRaise) := by
  cases a <;> cases b <;> simp [Res.join, Res.mayRaise]

/-! ## scalars -/

theorem scalarMatch_eq_scalarEq (t a : JVal) (ht : isScalar t = true) (ha : isScalar a = true) :
    scalarMatch t a = scalarEq t a := by
  cases t <;> cases a <;> simp [scalarMatch, scalarEq, isScalar, pyEq, num8?] at *
  rw [Bool.eq_iff_iff]; simp only [beq_iff_eq]; omega

/-! ## directive parsing agrees with the specification's reading on well-formed maps -/

theorem isStr_scalar {x : JVal} (h : isStr x = true) : isScalar x = true := by
  cases x <;> simp_all [isStr, isScalar]

theorem isStr_cases {x : JVal} (h : isStr x = true) : ∃ s, x = .str s := by
  cases x <;> simp_all [isStr]

theorem strs_filterMap (xs : List JVal) (h : xs.all isStr = true) :
    (xs.filter truthy).filterMap (fun x => match x with | .str s => some s | _ => none) =
      xs.filterMap (fun x => match x with | .str s => if s == "" then none else some s | _ => none) := by
  induction xs with
  | nil => rfl
  | cons x xs ih =>
    rw [List.all_cons, Bool.and_eq_true] at h
    obtain ⟨s, rfl⟩ := isStr_cases h.1
    by_cases hs : s = ""
    · subst hs; simp [List.filter_cons, truthy, ih h.2]
    · simp [List.filter_cons, truthy, hs, ih h.2]

theorem keySet_strs (xs : List JVal) (h : xs.all isStr = true) :
    keySet (some (.arr xs)) = some (strMembers (some (.arr xs))) := by
  have h1 : ((xs.filter truthy).any fun x => !isScalar x) = false := by
    rw [List.any_eq_false]
    intro x hx
    have := isStr_scalar (List.all_eq_true.mp h x (List.mem_filter.mp hx).1)
    simp [this]
  simp only [keySet, pyIter, h1, strMembers, Bool.false_eq_true, ↓reduceIte]
  exact congrArg some (strs_filterMap xs h)

theorem keySet_of_strsOnly (v : Option JVal) (h : strsOnly v = true) : keySet v = some (strMembers v) := by
  match v, h with
  | none, _ => rfl
  | some (.arr xs), h => exact keySet_strs xs (by simpa [strsOnly] using h)

theorem fields_of_strs (xs : List JVal) (h : xs.all isStr = true) : xs.filter truthy = specFields (.arr xs) := by
  simp only [specFields]
  induction xs with
  | nil => rfl
  | cons x xs ih =>
    rw [List.all_cons, Bool.and_eq_true] at h
    obtain ⟨s, rfl⟩ := isStr_cases h.1
    by_cases hs : s = ""
    · subst hs; simp [List.filter_cons, truthy, ih h.2]
    · simp [List.filter_cons, truthy, hs, ih h.2]

theorem mapDirs_of_ok (m : List (String × JVal)) (h : (m.all fun kv => strsOnly (some kv.2)) = true) :
    mapDirs m = some (specMap (some (.obj m))) := by
  induction m with
  | nil => rfl
  | cons kv rest ih =>
    obtain ⟨k, f⟩ := kv
    rw [List.all_cons, Bool.and_eq_true] at h
    have ih := ih h.2
    simp only [specMap] at ih ⊢
    match f, h.1 with
    | .arr xs, h1 =>
      have hx : xs.all isStr = true := by simpa [strsOnly] using h1
      by_cases hk : k = ""
      · simp [mapDirs, hk, ih, List.filter_cons]
      · simp [mapDirs, hk, ih, List.filter_cons, pyIter, fields_of_strs xs hx]

theorem parseDirs_of_ok (tkvs : List (String × JVal)) (h : dirValsOk tkvs = true) :
    parseDirs tkvs = some (specDirs tkvs) := by
  simp only [dirValsOk, Bool.and_eq_true] at h
  obtain ⟨⟨h1, h2⟩, h3⟩ := h
  simp only [parseDirs, keySet_of_strsOnly _ h1, keySet_of_strsOnly _ h2, specDirs]
  match hm : lookup compareAsMap tkvs, h3 with
  | none, _ => simp [specMap]
  | some (.obj m), h3 => simp [mapDirs_of_ok m (by simpa [mapDirOk] using h3)]

/-! ## keyed lists -/

theorem specFields_strs (v : JVal) : (specFields v).all isStr = true := by
  cases v <;> simp only [specFields, List.all_nil]
  rw [List.all_eq_true]; intro x hx
  have := (List.mem_filter.mp hx).2
  cases x <;> simp_all [isStr]

theorem specMap_strs (v : Option JVal) (k : String) (fields : List JVal)
    (h : fieldsFor k (specMap v) = some fields) : fields.all isStr = true := by
  match v with
  | some (.obj m) =>
    simp only [specMap] at h
    induction m with
    | nil => simp [fieldsFor] at h
    | cons kv rest ih =>
      rw [List.filter_cons] at h
      split at h
      · simp only [List.map_cons, fieldsFor] at h
        split at h
        · simp only [Option.some.injEq] at h; rw [← h]; exact specFields_strs _
        · exact ih h
      · exact ih h
  | none => simp [specMap, fieldsFor] at h
  | some .null | some (.bool _) | some (.int _) | some (.flt _) | some (.str _) | some (.arr _) =>
    simp [specMap, fieldsFor] at h

theorem objKey_isSome (fields : List JVal) (hf : fields.all isStr = true) (kvs : List (String × JVal)) :
    ∃ k, objKey fields kvs = some k := by
  induction fields with
  | nil => exact ⟨_, rfl⟩
  | cons f fs ih =>
    rw [List.all_cons, Bool.and_eq_true] at hf
    obtain ⟨s, rfl⟩ := isStr_cases hf.1
    obtain ⟨k, hk⟩ := ih hf.2
    cases fs with
    | nil => exact ⟨_, rfl⟩
    | cons g gs =>
      have : objKey (.str s :: g :: gs) kvs =
          (objKey (g :: gs) kvs).map (fun r => pyStrip (pyStr ((lookup s kvs).getD .null)) ++ "$" ++ r) := rfl
      rw [this, hk]; exact ⟨_, rfl⟩

theorem keyedDict_isSome (fields : List JVal) (hf : fields.all isStr = true) (xs : List JVal) :
    ∃ d, keyedDict fields xs = some d := by
  induction xs with
  | nil => exact ⟨_, rfl⟩
  | cons x xs ih =>
    obtain ⟨d, hd⟩ := ih
    cases x <;> simp only [keyedDict, hd] <;> try exact ⟨_, rfl⟩
    rename_i kvs
    obtain ⟨k, hk⟩ := objKey_isSome fields hf kvs
    simp [hk]

theorem listToObject_isSome (fields : List JVal) (hf : fields.all isStr = true) (v : JVal) :
    ∃ l, listToObject fields v = some l := by
  cases v <;> simp only [listToObject] <;> try exact ⟨_, rfl⟩
  rename_i xs
  obtain ⟨d, hd⟩ := keyedDict_isSome fields hf xs
  by_cases h : allObj xs = true <;> simp [h, hd]

theorem keyedDict_lookup (fields : List JVal) (key : String) :
    ∀ (xs : List JVal) (d : List (String × JVal)), allObj xs = true → keyedDict fields xs = some d →
      lookup key d = if hasKey fields key xs then some (laMember fields key xs) else none := by
  intro xs
  induction xs with
  | nil => intro d _ h; simp [keyedDict] at h; subst h; simp [lookup, hasKey]
  | cons x xs ih =>
    intro d ho h
    match x, ho with
    | .obj mkvs, ho =>
      simp only [allObj] at ho
      simp only [keyedDict] at h
      match hk : objKey fields mkvs, hd : keyedDict fields xs, h with
      | some k, some d', h =>
        simp only [Option.some.injEq] at h
        have ihk := ih d' ho hd
        simp only [hasKey, laMember, memberKey, hk]
        by_cases hin : (lookup k d').isSome = true
        · simp only [hin, ↓reduceIte] at h; subst h
          rw [ihk]
          by_cases hkr : hasKey fields key xs = true
          · simp [hkr]
          · have hne : k ≠ key := by
              intro e; subst e
              have := keyedDict_lookup_aux fields k xs d' ho hd
              simp_all
            simp [hkr, hne]
        · simp only [hin, Bool.false_eq_true, ↓reduceIte] at h; subst h
          simp only [lookup]
          by_cases hke : k = key
          · subst hke
            have : hasKey fields k xs = false := by
              have := keyedDict_lookup_aux fields k xs d' ho hd
              cases hh : hasKey fields k xs <;> simp_all
            simp [this]
          · simp [hke, ihk]
where
  keyedDict_lookup_aux (fields : List JVal) (key : String) :
    ∀ (xs : List JVal) (d : List (String × JVal)), allObj xs = true → keyedDict fields xs = some d →
      (lookup key d).isSome = hasKey fields key xs := by
    intro xs
    induction xs with
    | nil => intro d _ h; simp [keyedDict] at h; subst h; simp [lookup, hasKey]
    | cons x xs ih =>
      intro d ho h
      match x, ho with
      | .obj mkvs, ho =>
        simp only [allObj] at ho
        simp only [keyedDict] at h
        match hk : objKey fields mkvs, hd : keyedDict fields xs, h with
        | some k, some d', h =>
          simp only [Option.some.injEq] at h
          have ihk := ih d' ho hd
          simp only [hasKey, hk]
          by_cases hin : (lookup k d').isSome = true
          · simp only [hin, ↓reduceIte] at h; subst h
            rw [ihk]
            by_cases hke : k = key
            · subst hke; rw [ih d' ho hd] at hin; simp [hin]
            · simp [hke]
          · simp only [hin, Bool.false_eq_true, ↓reduceIte] at h; subst h
            simp only [lookup]
            by_cases hke : k = key
            · simp [hke]
            · simp [hke, ihk]

theorem laMember_spec (fields : List JVal) (key : String) :
    ∀ xs : List JVal, hasKey fields key xs = true →
      laMember fields key xs ∈ xs ∧ memberKey fields (laMember fields key xs) = some key := by
  intro xs
  induction xs with
  | nil => simp [hasKey]
  | cons x xs ih =>
    intro h
    simp only [laMember]
    by_cases hr : hasKey fields key xs = true
    · simp only [hr, ↓reduceIte]
      exact ⟨List.mem_cons_of_mem _ (ih hr).1, (ih hr).2⟩
    · simp only [hr, Bool.false_eq_true, ↓reduceIte]
      have hx : memberKey fields x = some key := by
        cases x <;> simp_all [hasKey, memberKey]
      simp [hx]

theorem laMember_null (fields : List JVal) (key : String) :
    ∀ xs : List JVal, hasKey fields key xs = false → allObj xs = true → laMember fields key xs = .null := by
  intro xs
  induction xs with
  | nil => intros; rfl
  | cons x xs ih =>
    intro h ho
    match x, ho with
    | .obj mkvs, ho =>
      simp only [allObj] at ho
      simp only [hasKey, Bool.or_eq_false_iff] at h
      simp only [laMember, h.2, Bool.false_eq_true, ↓reduceIte, memberKey, h.1]
      exact ih h.2 ho

theorem la_lookup (fields : List JVal) (lav : JVal) (l : Option (List (String × JVal)))
    (h : listToObject fields lav = some l) (key : String) :
    (lookup key (l.getD [])).getD .null = laMember fields key (laMembers lav) := by
  cases lav <;> simp only [listToObject, Option.some.injEq] at h <;>
    try (subst h; simp [laMembers, laMember, lookup])
  rename_i xs
  by_cases ho : allObj xs = true
  · simp only [ho, ↓reduceIte] at h
    match hd : keyedDict fields xs, h with
    | some d, h =>
      simp only [Option.map_some, Option.some.injEq] at h; subst h
      simp only [Option.getD_some, laMembers, ho, ↓reduceIte]
      rw [keyedDict_lookup fields key xs d ho hd]
      by_cases hk : hasKey fields key xs = true
      · simp [hk]
      · simp only [hk, Bool.false_eq_true, ↓reduceIte, Option.getD_none]
        exact (laMember_null fields key xs (by simpa using hk) ho).symm
  · simp only [ho, Bool.false_eq_true, ↓reduceIte, Option.some.injEq] at h; subst h
    simp [laMembers, ho, laMember, lookup]

/-! ## one step of the loops, by scenario -/

section steps
variable (d : Dirs) (akvs : List (String × JVal)) (la : JVal) (k : String) (tv : JVal)
  (rest : List (String × JVal))

theorem vmO_cons_skip (hs : skippedKey k = true) :
    vmO d akvs la ((k, tv) :: rest) = vmO d akvs la rest := by
  rw [vmO.eq_2]; simp only [hs, ↓reduceIte, Res.join_ok_left]

theorem vmO_cons_junkRaise (hs : skippedKey k = false) (h1 : laAt la k = .junkRaise) :
    vmO d akvs la ((k, tv) :: rest) = Res.raised.join (vmO d akvs la rest) := by
  rw [vmO.eq_2]; simp only [hs, Bool.false_eq_true, ↓reduceIte, h1]

theorem vmO_cons_junkIn (hs : skippedKey k = false) (h1 : laAt la k = .junkIn) :
    vmO d akvs la ((k, tv) :: rest) =
      (if !d.lastApplied.contains k && (lookup k akvs).isNone then Res.differ else Res.raised).join
        (vmO d akvs la rest) := by
  rw [vmO.eq_2]; simp only [hs, Bool.false_eq_true, ↓reduceIte, h1]

theorem vmO_cons_missing (hs : skippedKey k = false) {lav : JVal} (h1 : laAt la k = .val lav)
    (h2 : cmpValue d k akvs lav = none) :
    vmO d akvs la ((k, tv) :: rest) = Res.differ.join (vmO d akvs la rest) := by
  rw [vmO.eq_2]; simp only [hs, Bool.false_eq_true, ↓reduceIte, h1, h2]

theorem vmO_cons_plain (hs : skippedKey k = false) {lav cv : JVal} (h1 : laAt la k = .val lav)
    (h2 : cmpValue d k akvs lav = some cv) (h3 : fieldsFor k d.asMap = none) :
    vmO d akvs la ((k, tv) :: rest) =
      (validateMatch tv cv lav (d.asSet.contains k)).join (vmO d akvs la rest) := by
  rw [vmO.eq_2]; simp only [hs, Bool.false_eq_true, ↓reduceIte, h1, h2, h3]

theorem vmO_cons_keyed (hs : skippedKey k = false) {lav cv : JVal} {fields tms : List JVal}
    (h1 : laAt la k = .val lav) (h2 : cmpValue d k akvs lav = some cv)
    (h3 : fieldsFor k d.asMap = some fields) (h4 : allObj tms = true) :
    vmO d akvs la ((k, .arr tms) :: rest) =
      (keyedDispatch (keyedDict fields tms) (listToObject fields cv) (listToObject fields lav)
        fun adict ldict => vmK fields adict ldict tms).join (vmO d akvs la rest) := by
  rw [vmO.eq_2]; simp only [hs, Bool.false_eq_true, ↓reduceIte, h1, h2, h3, h4]

theorem vmO_cons_keyedNone (hs : skippedKey k = false) {lav cv : JVal} {fields : List JVal}
    (h1 : laAt la k = .val lav) (h2 : cmpValue d k akvs lav = some cv)
    (h3 : fieldsFor k d.asMap = some fields)
    (h4 : ∀ tms, tv = .arr tms → allObj tms = false) :
    vmO d akvs la ((k, tv) :: rest) = (keyedNone fields cv lav).join (vmO d akvs la rest) := by
  cases tv <;> rw [vmO.eq_2] <;> simp only [hs, Bool.false_eq_true, ↓reduceIte, h1, h2, h3]
  rename_i tms
  simp [h4 tms rfl]

variable (m : Mode) (lkvs lakvs : List (String × JVal))

theorem meetsO_cons_dir (hd : isDirective k = true) :
    meetsO m d lkvs lakvs ((k, tv) :: rest) = meetsO m d lkvs lakvs rest := by
  rw [meetsO.eq_2]; simp only [hd, ↓reduceIte, Bool.true_and]

theorem meetsO_cons_excl (hx : (k == ownerReferences || d.lastApplied.contains k) = true) :
    meetsO .excl d lkvs lakvs ((k, tv) :: rest) = meetsO .excl d lkvs lakvs rest := by
  by_cases hd : isDirective k = true
  · exact meetsO_cons_dir d k tv rest .excl lkvs lakvs hd
  · rw [meetsO.eq_2]; simp only [hd, Bool.false_eq_true, ↓reduceIte, hx, beq_self_eq_true, Bool.and_self, Bool.true_and]

/-- the binding is really compared in this mode -/
def compared (m : Mode) (d : Dirs) (k : String) : Bool :=
  !isDirective k && !(m == .excl && (k == ownerReferences || d.lastApplied.contains k))

theorem meetsO_cons_missing (hc : compared m d k = true) (h2 : cmpValue d k lkvs (laVal lakvs k) = none) :
    meetsO m d lkvs lakvs ((k, tv) :: rest) = false := by
  simp only [compared, Bool.and_eq_true, Bool.not_eq_true'] at hc
  rw [meetsO.eq_2]; simp only [hc.1, Bool.false_eq_true, ↓reduceIte, hc.2, h2, Bool.false_and]

theorem meetsO_cons_plain (hc : compared m d k = true) {cv : JVal}
    (h2 : cmpValue d k lkvs (laVal lakvs k) = some cv) (h3 : fieldsFor k d.asMap = none) :
    meetsO m d lkvs lakvs ((k, tv) :: rest) =
      ((if d.asSet.contains k && isArr tv then setSpecOf tv cv
        else meetsB m tv cv (laVal lakvs k)) && meetsO m d lkvs lakvs rest) := by
  simp only [compared, Bool.and_eq_true, Bool.not_eq_true'] at hc
  rw [meetsO.eq_2]; simp only [hc.1, Bool.false_eq_true, ↓reduceIte, hc.2, h2, h3]

theorem meetsO_cons_keyed (hc : compared m d k = true) {fields tms lms : List JVal}
    (h2 : cmpValue d k lkvs (laVal lakvs k) = some (.arr lms)) (h3 : fieldsFor k d.asMap = some fields) :
    meetsO m d lkvs lakvs ((k, .arr tms) :: rest) =
      (((m == .excl || allObj lms) && meetsK m fields lms (laMembers (laVal lakvs k)) tms) &&
        meetsO m d lkvs lakvs rest) := by
  simp only [compared, Bool.and_eq_true, Bool.not_eq_true'] at hc
  rw [meetsO.eq_2]; simp only [hc.1, Bool.false_eq_true, ↓reduceIte, hc.2, h2, h3]

theorem meetsO_cons_keyedBad (hc : compared m d k = true) {cv : JVal} {fields : List JVal}
    (h2 : cmpValue d k lkvs (laVal lakvs k) = some cv) (h3 : fieldsFor k d.asMap = some fields)
    (h4 : isArr tv = false ∨ isArr cv = false) :
    meetsO m d lkvs lakvs ((k, tv) :: rest) = false := by
  simp only [compared, Bool.and_eq_true, Bool.not_eq_true'] at hc
  rw [meetsO.eq_2]; simp only [hc.1, Bool.false_eq_true, ↓reduceIte, hc.2, h2, h3]
  cases tv <;> cases cv <;> simp_all [isArr]

end steps

theorem subsetBy_congr (f g : JVal → JVal → Bool) (xs ys : List JVal)
    (h : ∀ x ∈ xs, ∀ y ∈ ys, f x y = g x y) : subsetBy f xs ys = subsetBy g xs ys := by
  simp only [subsetBy]
  induction xs with
  | nil => rfl
  | cons x xs ih =>
    simp only [List.all_cons]
    rw [ih (fun a ha => h a (List.mem_cons_of_mem _ ha))]
    congr 1
    have hx := h x (List.mem_cons_self ..)
    clear ih h
    induction ys with
    | nil => rfl
    | cons y ys ih2 =>
      simp only [List.any_cons]
      rw [hx y (List.mem_cons_self ..), ih2 (fun b hb => hx b (List.mem_cons_of_mem _ hb))]

theorem meetsL_length (m : Mode) : ∀ (txs lxs items : List JVal), meetsL m txs lxs items = true →
    txs.length = lxs.length := by
  intro txs
  induction txs with
  | nil => intro lxs items h; cases lxs <;> simp_all [meetsL.eq_1, meetsL.eq_3]
  | cons t ts ih =>
    intro lxs items h
    cases lxs with
    | nil => rw [meetsL.eq_3] at h <;> simp at h ⊢
    | cons l ls =>
      simp only [meetsL.eq_2, Bool.and_eq_true] at h
      simp [ih ls _ h.2]

end Koreo.Compare
