/-
  Helper lemmas for C06: how `getKey` / `metaKey` read through `deepOverlay`, `strip`,
  `setMetaKey`, `prepareForApi` and the kr8s request builders.  Core Lean only.
-/
import Koreo.Lemmas.RfAssoc
import Koreo.Payload
namespace Koreo.Rf
open Koreo JVal Koreo.Identity Koreo.Payload

/-! ## deepOverlay -/

theorem deepOverlay_null (ov : JVal) : deepOverlay .null ov = ov := by
  cases ov <;> simp [deepOverlay]

theorem deepOverlay_str (r : JVal) (s : String) : deepOverlay r (.str s) = .str s := by
  simp [deepOverlay]

theorem deepOverlay_nonobj (r : JVal) (okvs : Fields) (h : r.isObj = false) :
    deepOverlay r (.obj okvs) = .obj okvs := by
  cases r <;> simp_all [deepOverlay, JVal.isObj]

/-- reading key `k` of an overlaid value when the overlay (with distinct keys) sets `k` -/
theorem getKey_deepOverlay (x : JVal) (okvs : Fields) (hn : (JVal.keys okvs).Nodup) (k : String) (ov : JVal)
    (h : JVal.lookup k okvs = some ov) :
    getKey k (deepOverlay x (.obj okvs)) = some (deepOverlay ((getKey k x).getD .null) ov) := by
  cases x with
  | obj rkvs =>
    simp only [deepOverlay, getKey]
    rw [lookup_deepOverlayO k okvs hn rkvs, h]
    cases hl : JVal.lookup k rkvs <;> simp [deepOverlay_null]
  | null => simp [deepOverlay, getKey, h, deepOverlay_null]
  | bool b => simp [deepOverlay, getKey, h, deepOverlay_null]
  | int n => simp [deepOverlay, getKey, h, deepOverlay_null]
  | flt e => simp [deepOverlay, getKey, h, deepOverlay_null]
  | str s => simp [deepOverlay, getKey, h, deepOverlay_null]
  | arr xs => simp [deepOverlay, getKey, h, deepOverlay_null]

/-- the `metadata` part of the forced overlay -/
def forcedMeta (t : Target) : Fields :=
  ("name", JVal.str t.name) ::
    (match t.ns with
     | some n => [("namespace", JVal.str n)]
     | none => [])

theorem forced_eq (t : Target) :
    forced t = .obj [("apiVersion", .str t.ver), ("kind", .str t.kind), ("metadata", .obj (forcedMeta t))] := rfl

theorem forcedMeta_nodup (t : Target) : (JVal.keys (forcedMeta t)).Nodup := by
  unfold forcedMeta
  cases t.ns <;> simp [JVal.keys]

/-- the forced overlay wins, whatever it is laid over -/
theorem pinned_deepOverlay_forced (x : JVal) (t : Target) : Pinned t (deepOverlay x (forced t)) := by
  have hk : (JVal.keys [("apiVersion", JVal.str t.ver), ("kind", JVal.str t.kind),
      ("metadata", JVal.obj (forcedMeta t))]).Nodup := by
    simp [JVal.keys]
  have hmeta := getKey_deepOverlay x _ hk "metadata" (.obj (forcedMeta t)) (by simp [JVal.lookup])
  rw [forced_eq]
  refine ⟨?_, ?_, ?_, ?_⟩
  · have := getKey_deepOverlay x _ hk "apiVersion" (.str t.ver) (by simp [JVal.lookup])
    simpa [deepOverlay_str] using this
  · have := getKey_deepOverlay x _ hk "kind" (.str t.kind) (by simp [JVal.lookup])
    simpa [deepOverlay_str] using this
  · unfold metaKey
    rw [hmeta]
    simp only [Option.bind_some]
    have := getKey_deepOverlay ((getKey "metadata" x).getD .null) _ (forcedMeta_nodup t) "name" (.str t.name)
      (by simp [JVal.lookup, forcedMeta])
    simpa [deepOverlay_str] using this
  · intro n hn
    unfold metaKey
    rw [hmeta]
    simp only [Option.bind_some]
    have := getKey_deepOverlay ((getKey "metadata" x).getD .null) _ (forcedMeta_nodup t) "namespace" (.str n)
      (by simp [JVal.lookup, forcedMeta, hn])
    simpa [deepOverlay_str] using this

/-! ## strip -/

theorem getKey_strip {k : String} (hk : isDirective k = false) (v : JVal) :
    getKey k (strip v) = (getKey k v).map strip := by
  cases v with
  | obj kvs => simp [strip, getKey, lookup_stripO hk]
  | arr xs => simp [strip, getKey]
  | null => simp [strip, getKey]
  | bool b => simp [strip, getKey]
  | int n => simp [strip, getKey]
  | flt e => simp [strip, getKey]
  | str s => simp [strip, getKey]

theorem metaKey_strip {k : String} (hk : isDirective k = false) (v : JVal) :
    metaKey k (strip v) = (metaKey k v).map strip := by
  unfold metaKey
  rw [getKey_strip (by decide)]
  cases getKey "metadata" v with
  | none => rfl
  | some m => simp [getKey_strip hk]

theorem pinned_strip (t : Target) (v : JVal) (h : Pinned t v) : Pinned t (strip v) := by
  obtain ⟨h1, h2, h3, h4⟩ := h
  refine ⟨?_, ?_, ?_, ?_⟩
  · rw [getKey_strip (by decide), h1]; simp [strip]
  · rw [getKey_strip (by decide), h2]; simp [strip]
  · rw [metaKey_strip (by decide), h3]; simp [strip]
  · intro n hn; rw [metaKey_strip (by decide), h4 n hn]; simp [strip]

/-! ## writing one key of `metadata` -/

theorem setMetaKey_spec {k : String} {x v v' : JVal} (h : setMetaKey k x v = some v') :
    ∃ kvs m, v = .obj kvs ∧ JVal.lookup "metadata" kvs = some (.obj m) ∧
      v' = .obj (JVal.insert "metadata" (.obj (JVal.insert k x m)) kvs) := by
  cases v with
  | obj kvs =>
    simp only [setMetaKey] at h
    cases hm : JVal.lookup "metadata" kvs with
    | none => simp [hm] at h
    | some mv =>
      cases mv with
      | obj m => simp [hm] at h; exact ⟨kvs, m, rfl, hm, h.symm⟩
      | _ => simp [hm] at h
  | _ => simp [setMetaKey] at h

theorem getKey_setMetaKey {k k' : String} {x v v' : JVal} (h : setMetaKey k x v = some v') (hk : k' ≠ "metadata") :
    getKey k' v' = getKey k' v := by
  obtain ⟨kvs, m, rfl, _, rfl⟩ := setMetaKey_spec h
  simp [getKey, lookup_insert_ne _ hk]

theorem metaKey_setMetaKey_ne {k k' : String} {x v v' : JVal} (h : setMetaKey k x v = some v') (hk : k' ≠ k) :
    metaKey k' v' = metaKey k' v := by
  obtain ⟨kvs, m, rfl, hm, rfl⟩ := setMetaKey_spec h
  simp [metaKey, getKey, lookup_insert_self, hm, lookup_insert_ne _ hk]

theorem metaKey_setMetaKey_self {k : String} {x v v' : JVal} (h : setMetaKey k x v = some v') :
    metaKey k v' = some x := by
  obtain ⟨kvs, m, rfl, hm, rfl⟩ := setMetaKey_spec h
  simp [metaKey, getKey, lookup_insert_self]

/-- writing a `metadata` key other than name/namespace keeps the identity -/
theorem pinned_setMetaKey (t : Target) {k : String} {x v v' : JVal} (h : setMetaKey k x v = some v')
    (hk1 : k ≠ "name") (hk2 : k ≠ "namespace") (hp : Pinned t v) : Pinned t v' := by
  obtain ⟨h1, h2, h3, h4⟩ := hp
  refine ⟨?_, ?_, ?_, ?_⟩
  · rw [getKey_setMetaKey h (by decide)]; exact h1
  · rw [getKey_setMetaKey h (by decide)]; exact h2
  · rw [metaKey_setMetaKey_ne h (Ne.symm hk1)]; exact h3
  · intro n hn; rw [metaKey_setMetaKey_ne h (Ne.symm hk2)]; exact h4 n hn

theorem dropMetaKey_spec {k : String} {v v' : JVal} (h : dropMetaKey k v = some v') :
    ∃ kvs m, v = .obj kvs ∧ JVal.lookup "metadata" kvs = some (.obj m) ∧
      v' = .obj (JVal.insert "metadata" (.obj (JVal.erase k m)) kvs) := by
  cases v with
  | obj kvs =>
    simp only [dropMetaKey] at h
    cases hm : JVal.lookup "metadata" kvs with
    | none => simp [hm] at h
    | some mv =>
      cases mv with
      | obj m => simp [hm] at h; exact ⟨kvs, m, rfl, hm, h.symm⟩
      | _ => simp [hm] at h
  | _ => simp [dropMetaKey] at h

/-- dropping a `metadata` key other than name/namespace keeps the identity -/
theorem pinned_dropMetaKey (t : Target) {k : String} {v v' : JVal} (h : dropMetaKey k v = some v')
    (hk1 : k ≠ "name") (hk2 : k ≠ "namespace") (hp : Pinned t v) : Pinned t v' := by
  obtain ⟨kvs, m, rfl, hm, rfl⟩ := dropMetaKey_spec h
  obtain ⟨h1, h2, h3, h4⟩ := hp
  refine ⟨?_, ?_, ?_, ?_⟩
  · simpa [getKey, lookup_insert_ne _ (show "apiVersion" ≠ "metadata" by decide)] using h1
  · simpa [getKey, lookup_insert_ne _ (show "kind" ≠ "metadata" by decide)] using h2
  · simpa [metaKey, getKey, lookup_insert_self, hm, lookup_erase_ne (Ne.symm hk1)] using h3
  · intro n hn
    simpa [metaKey, getKey, lookup_insert_self, hm, lookup_erase_ne (Ne.symm hk2)] using h4 n hn

/-! ## `_prepare_for_api` in closed form -/

theorem insert_insert_same (k : String) (x y : JVal) : ∀ l : Fields,
    JVal.insert k x (JVal.insert k y l) = JVal.insert k x l
  | [] => by simp [JVal.insert]
  | (k', v') :: rest => by
    by_cases h : k' = k
    · simp [JVal.insert, h]
    · simp [JVal.insert, h, insert_insert_same k x y rest]

/-- the map under `k`, `[]` when there is none, `none` when `k` holds something that is not a map -/
def subMap (k : String) (kvs : Fields) : Option Fields :=
  match JVal.lookup k kvs with
  | none => some []
  | some (.obj m) => some m
  | some _ => none

theorem prepareForApi_eq (enc : JVal → String) (o : JVal) :
    prepareForApi enc o =
      match strip o with
      | .obj kvs =>
        (subMap "metadata" kvs).bind fun m =>
        (subMap "annotations" m).bind fun a =>
          some (.obj (JVal.insert "metadata"
            (.obj (JVal.insert "annotations" (.obj (JVal.insert lastApplied (.str (enc (.obj kvs))) a)) m)) kvs))
      | _ => none := by
  unfold prepareForApi
  cases hs : strip o with
  | obj kvs =>
    simp only []
    cases hm : JVal.lookup "metadata" kvs with
    | none =>
      simp [subMap, hm, lookup_insert_self, JVal.lookup, insert_insert_same]
    | some mv =>
      cases mv with
      | obj m =>
        simp only [subMap, hm, Option.bind_some]
        cases ha : JVal.lookup "annotations" m with
        | none => simp [lookup_insert_self, insert_insert_same]
        | some av =>
          cases av <;> simp [ha]
      | _ => simp [subMap, hm]
  | _ => rfl

theorem prepareForApi_spec {enc : JVal → String} {o p : JVal} (h : prepareForApi enc o = some p) :
    ∃ kvs m a, strip o = .obj kvs ∧ subMap "metadata" kvs = some m ∧ subMap "annotations" m = some a ∧
      p = .obj (JVal.insert "metadata"
            (.obj (JVal.insert "annotations" (.obj (JVal.insert lastApplied (.str (enc (.obj kvs))) a)) m)) kvs) := by
  rw [prepareForApi_eq] at h
  cases hs : strip o with
  | obj kvs =>
    simp only [hs] at h
    cases hm : subMap "metadata" kvs with
    | none => simp [hm] at h
    | some m =>
      cases ha : subMap "annotations" m with
      | none => simp [hm, ha] at h
      | some a =>
        simp [hm, ha] at h
        exact ⟨kvs, m, a, rfl, hm, ha, h.symm⟩
  | _ => simp [hs] at h

theorem lookup_of_subMap {k k' : String} {kvs m : Fields} (h : subMap k kvs = some m) :
    (getKey k (.obj kvs)).bind (getKey k') = JVal.lookup k' m := by
  unfold subMap at h
  cases hl : JVal.lookup k kvs with
  | none => simp [hl] at h; subst h; simp [getKey, hl, JVal.lookup]
  | some v =>
    cases v <;> simp [hl] at h
    subst h; simp [getKey, hl]

theorem pinned_prepareForApi (t : Target) {enc : JVal → String} {o p : JVal}
    (h : prepareForApi enc o = some p) (hp : Pinned t o) : Pinned t p := by
  obtain ⟨kvs, m, a, hs, hm, ha, rfl⟩ := prepareForApi_spec h
  have hps := pinned_strip t o hp
  rw [hs] at hps
  obtain ⟨h1, h2, h3, h4⟩ := hps
  refine ⟨?_, ?_, ?_, ?_⟩
  · simpa [getKey, lookup_insert_ne _ (show "apiVersion" ≠ "metadata" by decide)] using h1
  · simpa [getKey, lookup_insert_ne _ (show "kind" ≠ "metadata" by decide)] using h2
  · have := lookup_of_subMap (k' := "name") hm
    unfold metaKey at h3 ⊢
    rw [this] at h3
    simp [getKey, lookup_insert_self, lookup_insert_ne _ (show "name" ≠ "annotations" by decide), h3]
  · intro n hn
    have := lookup_of_subMap (k' := "namespace") hm
    have h4 := h4 n hn
    unfold metaKey at h4 ⊢
    rw [this] at h4
    simp [getKey, lookup_insert_self, lookup_insert_ne _ (show "namespace" ≠ "annotations" by decide), h4]

/-! ## kr8s -/

theorem pinned_krRaw (t : Target) (c : ApiClass) (hv : c.ver = t.ver) (hk : c.kind = t.kind) (v : JVal)
    (hp : Pinned t v) : Pinned t (krRaw c v) := by
  obtain ⟨h1, h2, h3, h4⟩ := hp
  cases v with
  | obj kvs =>
    refine ⟨?_, ?_, ?_, ?_⟩
    · simp [krRaw, getKey, lookup_insert_self, hv]
    · simp [krRaw, getKey, lookup_insert_self, lookup_insert_ne _ (show "kind" ≠ "apiVersion" by decide), hk]
    · simpa [krRaw, metaKey, getKey, lookup_insert_ne _ (show "metadata" ≠ "apiVersion" by decide),
        lookup_insert_ne _ (show "metadata" ≠ "kind" by decide)] using h3
    · intro n hn
      simpa [krRaw, metaKey, getKey, lookup_insert_ne _ (show "metadata" ≠ "apiVersion" by decide),
        lookup_insert_ne _ (show "metadata" ≠ "kind" by decide)] using h4 n hn
  | _ => simp [getKey] at h1

theorem metaKey_krRaw (c : ApiClass) (k : String) (v : JVal) : metaKey k (krRaw c v) = metaKey k v := by
  cases v <;> simp [krRaw, metaKey, getKey, lookup_insert_ne _ (show "metadata" ≠ "apiVersion" by decide),
    lookup_insert_ne _ (show "metadata" ≠ "kind" by decide)]

theorem pinned_krNew (t : Target) {v v' : JVal} (h : krNew v t.ns = some v') (hp : Pinned t v) : Pinned t v' := by
  cases hns : t.ns with
  | none => rw [hns] at h; simp [krNew] at h; subst h; exact hp
  | some n =>
    rw [hns] at h
    simp only [krNew] at h
    obtain ⟨h1, h2, h3, h4⟩ := hp
    refine ⟨?_, ?_, ?_, ?_⟩
    · rw [getKey_setMetaKey h (by decide)]; exact h1
    · rw [getKey_setMetaKey h (by decide)]; exact h2
    · rw [metaKey_setMetaKey_ne h (by decide)]; exact h3
    · intro n' hn'
      rw [hns] at hn'
      cases hn'
      exact metaKey_setMetaKey_self h

end Koreo.Rf
