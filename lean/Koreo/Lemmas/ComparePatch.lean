/-
  C04 / C05: a merge-patch whose body meets the target makes the object meet the target.
-/
import Koreo.Lemmas.Compare
import Koreo.MergePatch
namespace Koreo.Compare
open Koreo Koreo.JVal

theorem lookup_insert_self (k : String) (v : JVal) : ∀ l : List (String × JVal),
    lookup k (JVal.insert k v l) = some v := by
  intro l
  induction l with
  | nil => simp [JVal.insert, lookup]
  | cons kv rest ih =>
    obtain ⟨k', v'⟩ := kv
    by_cases h : k' = k
    · simp [JVal.insert, lookup, h]
    · simp [JVal.insert, lookup, h, ih]

theorem lookup_insert_ne (k k' : String) (v : JVal) (hne : k' ≠ k) : ∀ l : List (String × JVal),
    lookup k (JVal.insert k' v l) = lookup k l := by
  intro l
  induction l with
  | nil => simp [JVal.insert, lookup, hne]
  | cons kv rest ih =>
    obtain ⟨k'', v''⟩ := kv
    by_cases h : k'' = k'
    · subst h; simp [JVal.insert, lookup, hne]
    · by_cases h2 : k'' = k
      · subst h2; simp [JVal.insert, lookup, h]
      · simp [JVal.insert, lookup, h, h2, ih]

theorem lookup_erase_ne (k k' : String) (hne : k' ≠ k) : ∀ l : List (String × JVal),
    lookup k (JVal.erase k' l) = lookup k l := by
  intro l
  induction l with
  | nil => simp [JVal.erase, lookup]
  | cons kv rest ih =>
    obtain ⟨k'', v''⟩ := kv
    by_cases h : k'' = k'
    · subst h; simp [JVal.erase, lookup, hne]
    · by_cases h2 : k'' = k
      · subst h2; simp [JVal.erase, lookup, h]
      · simp [JVal.erase, lookup, h, h2, ih]

def isNullB : JVal → Bool | .null => true | _ => false

theorem isNullB_false {v : JVal} (h : v ≠ .null) : isNullB v = false := by
  cases v <;> simp_all [isNullB]

theorem mergePatchO_cons (tkvs : List (String × JVal)) (k : String) (v : JVal) (rest : List (String × JVal)) :
    mergePatchO tkvs ((k, v) :: rest) =
      if isNullB v then mergePatchO (JVal.erase k tkvs) rest
      else mergePatchO (JVal.insert k (mergePatch ((lookup k tkvs).getD .null) v) tkvs) rest := by
  cases v <;> simp [mergePatchO, isNullB]

theorem lookup_mergePatchO_notin (k : String) : ∀ (pkvs lkvs : List (String × JVal)),
    lookup k pkvs = none → lookup k (mergePatchO lkvs pkvs) = lookup k lkvs := by
  intro pkvs
  induction pkvs with
  | nil => intro lkvs _; simp [mergePatchO]
  | cons kv rest ih =>
    intro lkvs h
    obtain ⟨k', v'⟩ := kv
    have hne : k' ≠ k := by intro e; simp [lookup, e] at h
    have hrest : lookup k rest = none := by simpa [lookup, hne] using h
    rw [mergePatchO_cons]
    split
    · rw [ih _ hrest, lookup_erase_ne k k' hne]
    · rw [ih _ hrest, lookup_insert_ne k k' _ hne]

theorem lookup_mergePatchO (k : String) (pv : JVal) (hpv : pv ≠ .null) : ∀ (pkvs lkvs : List (String × JVal)),
    keysNoDup pkvs = true → lookup k pkvs = some pv →
      lookup k (mergePatchO lkvs pkvs) = some (mergePatch ((lookup k lkvs).getD .null) pv) := by
  intro pkvs
  induction pkvs with
  | nil => intro lkvs _ h; simp [lookup] at h
  | cons kv rest ih =>
    intro lkvs hnd h
    obtain ⟨k', v'⟩ := kv
    simp only [keysNoDup, Bool.and_eq_true, Option.isNone_iff_eq_none] at hnd
    rw [mergePatchO_cons]
    by_cases hk : k' = k
    · subst hk
      have : v' = pv := by simpa [lookup] using h
      subst this
      simp only [isNullB_false hpv, Bool.false_eq_true, ↓reduceIte]
      rw [lookup_mergePatchO_notin _ _ _ hnd.1, lookup_insert_self]
    · have hrest : lookup k rest = some pv := by simpa [lookup, hk] using h
      split
      · rw [ih _ hnd.2 hrest, lookup_erase_ne k k' hk]
      · rw [ih _ hnd.2 hrest, lookup_insert_ne k k' _ hk]

theorem mergePatch_nonobj (live p : JVal) (h : isObj p = false) : mergePatch live p = p := by
  cases p <;> simp_all [mergePatch, isObj]

theorem mergePatch_obj (live : JVal) (pkvs : List (String × JVal)) :
    mergePatch live (.obj pkvs) = .obj (mergePatchO (laObjKvs live) pkvs) := by
  cases live <;> rw [mergePatch.eq_def] <;> rfl

theorem meets_null_right (m : Mode) (t la : JVal) (h : meetsB m t .null la = true) : t = .null := by
  cases t <;> first | rfl | (rw [meetsB.eq_def] at h; simp [scalarEq] at h)

theorem noDupO_lookup : ∀ (kvs : List (String × JVal)) (k : String) (v : JVal),
    noDupO kvs = true → lookup k kvs = some v → noDupB v = true := by
  intro kvs
  induction kvs with
  | nil => intro k v _ h; simp [lookup] at h
  | cons kv rest ih =>
    intro k v hn h
    obtain ⟨k', v'⟩ := kv
    rw [noDupO.eq_2, Bool.and_eq_true] at hn
    by_cases hk : k' = k
    · have : v' = v := by simpa [lookup, hk] using h
      subst this; exact hn.1
    · exact ih k v hn.2 (by simpa [lookup, hk] using h)

mutual
theorem meets_mergePatch (t p la live : JVal) (hn : noNullsB t = true) (hp : noDupB p = true)
    (h : meetsB .full t p la = true) : meetsB .full t (mergePatch live p) la = true := by
  match t with
  | .obj tkvs =>
    match p with
    | .obj pkvs =>
      rw [noDupB.eq_2, Bool.and_eq_true] at hp
      rw [noNullsB.eq_3] at hn
      rw [meetsB.eq_1, Bool.and_eq_true] at h
      rw [mergePatch_obj, meetsB.eq_1, Bool.and_eq_true]
      exact ⟨h.1, meetsO_mergePatch (specDirs tkvs) pkvs _ (laObjKvs la) tkvs hn hp.1 hp.2 h.2⟩
    | .null | .bool _ | .int _ | .flt _ | .str _ | .arr _ =>
      rw [meetsB.eq_2 _ _ _ _ (by intro _ h; cases h)] at h; cases h
  | .arr txs =>
    match p with
    | .arr pxs => rw [mergePatch_nonobj _ _ rfl]; exact h
    | .null | .bool _ | .int _ | .flt _ | .str _ | .obj _ =>
      rw [meetsB.eq_4 _ _ _ _ (by intro _ h; cases h)] at h; cases h
  | .null | .bool _ | .int _ | .flt _ | .str _ =>
    rw [meetsB.eq_def] at h
    cases p <;> first | (rw [mergePatch_nonobj _ _ rfl, meetsB.eq_def]; exact h) | (simp [scalarEq] at h)
termination_by structural t
theorem meetsO_mergePatch (d : Dirs) (pkvs lkvs lakvs : List (String × JVal)) (tkvs : List (String × JVal))
    (hn : noNullsO tkvs = true) (hnd : keysNoDup pkvs = true) (hp : noDupO pkvs = true)
    (h : meetsO .full d pkvs lakvs tkvs = true) :
    meetsO .full d (mergePatchO lkvs pkvs) lakvs tkvs = true := by
  match tkvs with
  | [] => rw [meetsO.eq_1]
  | (k, tv) :: rest =>
    rw [noNullsO.eq_2, Bool.and_eq_true] at hn
    by_cases hdir : isDirective k = true
    · rw [meetsO_cons_dir _ _ _ _ _ _ _ hdir] at h ⊢
      exact meetsO_mergePatch d pkvs lkvs lakvs rest hn.2 hnd hp h
    · have hdir : isDirective k = false := by simpa using hdir
      have hc : compared .full d k = true := by
        show (!isDirective k && !(Mode.full == Mode.excl && _)) = true
        rw [hdir]; rfl
      by_cases hla : d.lastApplied.contains k = true
      · -- compared with the last-applied value: the live object is not consulted
        have e : ∀ X, cmpValue d k X (laVal lakvs k) = some (laVal lakvs k) := by
          intro X; simp only [cmpValue, hla, ↓reduceIte]
        match hf : fieldsFor k d.asMap with
        | some fields =>
          cases tv with
          | arr tms =>
            cases hcv : laVal lakvs k with
            | arr lms =>
              rw [meetsO_cons_keyed _ _ _ _ _ _ hc (by rw [e, hcv]) hf, Bool.and_eq_true] at h ⊢
              exact ⟨h.1, meetsO_mergePatch d pkvs lkvs lakvs rest hn.2 hnd hp h.2⟩
            | _ =>
              rw [meetsO_cons_keyedBad _ _ _ _ _ _ _ hc (e _) hf (Or.inr (by rw [hcv]; rfl))] at h; cases h
          | _ => rw [meetsO_cons_keyedBad _ _ _ _ _ _ _ hc (e _) hf (Or.inl rfl)] at h; cases h
        | none =>
          rw [meetsO_cons_plain _ _ _ _ _ _ _ hc (e _) hf, Bool.and_eq_true] at h ⊢
          exact ⟨h.1, meetsO_mergePatch d pkvs lkvs lakvs rest hn.2 hnd hp h.2⟩
      · have hla : d.lastApplied.contains k = false := by simpa using hla
        have e : ∀ X, cmpValue d k X (laVal lakvs k) = lookup k X := by
          intro X; simp only [cmpValue, hla, Bool.false_eq_true, ↓reduceIte]
        cases hpv : lookup k pkvs with
        | none => rw [meetsO_cons_missing _ _ _ _ _ _ _ hc (by rw [e, hpv])] at h; cases h
        | some pv =>
          have hpvd : noDupB pv = true := noDupO_lookup pkvs k pv hp hpv
          have key : ∀ (hne : pv ≠ .null), cmpValue d k (mergePatchO lkvs pkvs) (laVal lakvs k) =
              some (mergePatch ((lookup k lkvs).getD .null) pv) := by
            intro hne; rw [e, lookup_mergePatchO k pv hne pkvs lkvs hnd hpv]
          match hf : fieldsFor k d.asMap with
          | some fields =>
            cases tv with
            | arr tms =>
              cases pv with
              | arr lms =>
                rw [meetsO_cons_keyed _ _ _ _ _ _ hc (by rw [e, hpv]) hf, Bool.and_eq_true] at h
                rw [meetsO_cons_keyed _ _ _ _ _ _ hc (by rw [key (by simp), mergePatch_nonobj _ _ rfl]) hf,
                  Bool.and_eq_true]
                exact ⟨h.1, meetsO_mergePatch d pkvs lkvs lakvs rest hn.2 hnd hp h.2⟩
              | _ =>
                rw [meetsO_cons_keyedBad _ _ _ _ _ _ _ hc (by rw [e, hpv]) hf (Or.inr rfl)] at h; cases h
            | _ => rw [meetsO_cons_keyedBad _ _ _ _ _ _ _ hc (by rw [e, hpv]) hf (Or.inl rfl)] at h; cases h
          | none =>
            rw [meetsO_cons_plain _ _ _ _ _ _ _ hc (by rw [e, hpv]) hf, Bool.and_eq_true] at h
            have ih := meetsO_mergePatch d pkvs lkvs lakvs rest hn.2 hnd hp h.2
            by_cases hset : (d.asSet.contains k && isArr tv) = true
            · rw [if_pos hset] at h
              cases tv with
              | arr txs =>
                cases pv with
                | arr lxs =>
                  rw [meetsO_cons_plain _ _ _ _ _ _ _ hc (by rw [key (by simp), mergePatch_nonobj _ _ rfl]) hf,
                    Bool.and_eq_true, if_pos hset]
                  exact ⟨h.1, ih⟩
                | _ => simp [setSpecOf] at h
              | _ => simp [isArr] at hset
            · rw [if_neg hset] at h
              have hne : pv ≠ .null := by
                intro e0; subst e0
                have := meets_null_right _ _ _ h.1
                subst this; simp [noNullsB] at hn
              rw [meetsO_cons_plain _ _ _ _ _ _ _ hc (key hne) hf, Bool.and_eq_true, if_neg hset]
              exact ⟨meets_mergePatch tv pv _ _ hn.1 hpvd h.1, ih⟩
termination_by structural tkvs
end

end Koreo.Compare
