/-
  Association-list facts used by C06/C08 (own namespace `Koreo.Rf`, so that nothing clashes
  with the lemma files of other properties).  Core Lean only.
-/
import Koreo.Json
import Koreo.Directives
import Koreo.MergePatch
import Koreo.Identity
namespace Koreo.Rf
open Koreo JVal Koreo.Identity

theorem lookup_insert_self (k : String) (v : JVal) : ∀ l : Fields, JVal.lookup k (JVal.insert k v l) = some v
  | [] => by simp [JVal.insert, JVal.lookup]
  | (k', v') :: rest => by
    by_cases h : k' = k
    · simp [JVal.insert, JVal.lookup, h]
    · simp [JVal.insert, JVal.lookup, h, lookup_insert_self k v rest]

theorem lookup_insert_ne {k k' : String} (v : JVal) (h : k' ≠ k) :
    ∀ l : Fields, JVal.lookup k' (JVal.insert k v l) = JVal.lookup k' l
  | [] => by simp [JVal.insert, JVal.lookup, Ne.symm h]
  | (k'', v'') :: rest => by
    by_cases h1 : k'' = k
    · subst h1
      simp [JVal.insert, JVal.lookup, Ne.symm h]
    · by_cases h2 : k'' = k'
      · subst h2
        simp [JVal.insert, JVal.lookup, h1]
      · simp [JVal.insert, JVal.lookup, h1, h2, lookup_insert_ne v h rest]

theorem lookup_none_of_not_mem {k : String} : ∀ {l : Fields}, k ∉ JVal.keys l → JVal.lookup k l = none
  | [], _ => by simp [JVal.lookup]
  | (k', v') :: rest, h => by
    have h' : ¬ k = k' ∧ k ∉ JVal.keys rest := by simpa [JVal.keys] using h
    have : k' ≠ k := fun e => h'.1 e.symm
    simp [JVal.lookup, this, lookup_none_of_not_mem h'.2]

theorem lookup_erase_self (k : String) : ∀ l : Fields, (JVal.keys l).Nodup → JVal.lookup k (JVal.erase k l) = none
  | [], _ => by simp [JVal.erase, JVal.lookup]
  | (k', v') :: rest, hn => by
    have hn' : k' ∉ JVal.keys rest ∧ (JVal.keys rest).Nodup := by
      simpa [JVal.keys] using hn
    by_cases h : k' = k
    · subst h
      simp only [JVal.erase, if_true]
      exact lookup_none_of_not_mem hn'.1
    · simp [JVal.erase, JVal.lookup, h, lookup_erase_self k rest hn'.2]

theorem lookup_erase_ne {k k' : String} (h : k' ≠ k) :
    ∀ l : Fields, JVal.lookup k' (JVal.erase k l) = JVal.lookup k' l
  | [] => by simp [JVal.erase, JVal.lookup]
  | (k'', v'') :: rest => by
    by_cases h1 : k'' = k
    · subst h1
      simp [JVal.erase, JVal.lookup, Ne.symm h]
    · by_cases h2 : k'' = k'
      · subst h2
        simp [JVal.erase, JVal.lookup, h1]
      · simp [JVal.erase, JVal.lookup, h1, h2, lookup_erase_ne h rest]

theorem insert_of_lookup {k : String} {v : JVal} :
    ∀ {l : Fields}, JVal.lookup k l = some v → JVal.insert k v l = l
  | [], h => by simp [JVal.lookup] at h
  | (k', v') :: rest, h => by
    by_cases h1 : k' = k
    · simp [JVal.lookup, h1] at h
      simp [JVal.insert, h1, h]
    · simp [JVal.lookup, h1] at h
      simp [JVal.insert, h1, insert_of_lookup h]

/-! ## `deepOverlayO` read back key by key -/

/-- what `_deep_overlay` leaves under key `k`: the overlay's value (merged into the resource's
    when both are maps) if the overlay has `k`, the resource's own value otherwise -/
theorem lookup_deepOverlayO (k : String) : ∀ (okvs : Fields), (JVal.keys okvs).Nodup → ∀ (rkvs : Fields),
    JVal.lookup k (deepOverlayO rkvs okvs) =
      match JVal.lookup k okvs with
      | some ov => some (match JVal.lookup k rkvs with
                         | some rv => deepOverlay rv ov
                         | none => ov)
      | none => JVal.lookup k rkvs
  | [], _, rkvs => by simp [deepOverlayO, JVal.lookup]
  | (k', ov) :: rest, hn, rkvs => by
    have hn' : k' ∉ JVal.keys rest ∧ (JVal.keys rest).Nodup := by
      simpa [JVal.keys] using hn
    rw [deepOverlayO, lookup_deepOverlayO k rest hn'.2]
    by_cases h : k' = k
    · subst h
      cases hl : JVal.lookup k' rkvs <;>
        simp [JVal.lookup, lookup_none_of_not_mem hn'.1, lookup_insert_self]
    · have h2 : k ≠ k' := fun e => h e.symm
      simp [JVal.lookup, h, lookup_insert_ne _ h2]

/-! ## `stripO` read back key by key -/

theorem lookup_stripO {k : String} (hk : isDirective k = false) : ∀ (kvs : Fields),
    JVal.lookup k (stripO kvs) = (JVal.lookup k kvs).map strip
  | [] => by simp [stripO, JVal.lookup]
  | (k', v) :: rest => by
    by_cases hd : isDirective k' = true
    · have : k' ≠ k := by intro e; rw [e, hk] at hd; cases hd
      simp [stripO, hd, JVal.lookup, this, lookup_stripO hk rest]
    · have hd : isDirective k' = false := by simpa using hd
      by_cases h : k' = k
      · subst h
        simp [stripO, hd, JVal.lookup]
      · simp [stripO, hd, JVal.lookup, h, lookup_stripO hk rest]

/-! ## merge-patch read back key by key -/

theorem mergePatchO_cons_null (k : String) (rest tkvs : Fields) :
    mergePatchO tkvs ((k, .null) :: rest) = mergePatchO (JVal.erase k tkvs) rest := by
  simp [mergePatchO]

theorem mergePatchO_cons (k : String) (v : JVal) (rest tkvs : Fields) (h : v ≠ .null) :
    mergePatchO tkvs ((k, v) :: rest) =
      mergePatchO (JVal.insert k (mergePatch ((JVal.lookup k tkvs).getD .null) v) tkvs) rest := by
  cases v <;> first | exact absurd rfl h | simp [mergePatchO]

/-- a key the patch does not mention keeps the target's value -/
theorem lookup_mergePatchO_not_mem {k : String} : ∀ (pkvs : Fields), k ∉ JVal.keys pkvs → ∀ (tkvs : Fields),
    JVal.lookup k (mergePatchO tkvs pkvs) = JVal.lookup k tkvs
  | [], _, tkvs => by simp [mergePatchO]
  | (k', v) :: rest, h, tkvs => by
    have h' : ¬ k = k' ∧ k ∉ JVal.keys rest := by simpa [JVal.keys] using h
    have hne : k ≠ k' := h'.1
    by_cases hv : v = .null
    · subst hv
      rw [mergePatchO_cons_null, lookup_mergePatchO_not_mem rest h'.2, lookup_erase_ne hne]
    · rw [mergePatchO_cons _ _ _ _ hv, lookup_mergePatchO_not_mem rest h'.2, lookup_insert_ne _ hne]

/-- a key the patch sets (once, to something other than null) ends up as the patch of the
    target's value -/
theorem lookup_mergePatchO_mem {k : String} : ∀ (pkvs : Fields), (JVal.keys pkvs).Nodup → ∀ (tkvs : Fields) (pv : JVal),
    JVal.lookup k pkvs = some pv → pv ≠ .null →
    JVal.lookup k (mergePatchO tkvs pkvs) = some (mergePatch ((JVal.lookup k tkvs).getD .null) pv)
  | [], _, _, _, h, _ => by simp [JVal.lookup] at h
  | (k', v) :: rest, hn, tkvs, pv, h, hnull => by
    have hn' : k' ∉ JVal.keys rest ∧ (JVal.keys rest).Nodup := by
      simpa [JVal.keys] using hn
    by_cases hk : k' = k
    · subst hk
      have hv : v = pv := by simpa [JVal.lookup] using h
      subst hv
      rw [mergePatchO_cons _ _ _ _ hnull, lookup_mergePatchO_not_mem rest hn'.1, lookup_insert_self]
    · have h2 : JVal.lookup k rest = some pv := by simpa [JVal.lookup, hk] using h
      have hne : k ≠ k' := fun e => hk e.symm
      by_cases hv : v = .null
      · subst hv
        rw [mergePatchO_cons_null, lookup_mergePatchO_mem rest hn'.2 _ pv h2 hnull, lookup_erase_ne hne]
      · rw [mergePatchO_cons _ _ _ _ hv, lookup_mergePatchO_mem rest hn'.2 _ pv h2 hnull, lookup_insert_ne _ hne]

end Koreo.Rf
