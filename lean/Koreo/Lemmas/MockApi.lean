/-
  Helper lemmas about the per-case mock API model (`Koreo/MockApi.lean`).
-/
import Koreo.MockApi
namespace Koreo.FT.Mock
open Koreo JVal Koreo.FT

theorem lookup_insert_self' (k : String) (v : JVal) : ∀ l : List (String × JVal),
    lookup k (insert k v l) = some v
  | [] => by simp [JVal.insert, lookup]
  | (k', v') :: rest => by
    by_cases h : k' = k
    · simp [JVal.insert, lookup, h]
    · simp [JVal.insert, lookup, h, lookup_insert_self' k v rest]

theorem lookup_insert_ne' (k k' : String) (v : JVal) (hne : k' ≠ k) : ∀ l : List (String × JVal),
    lookup k' (insert k v l) = lookup k' l
  | [] => by
    have : ¬ k = k' := fun e => hne e.symm
    simp [JVal.insert, lookup, this]
  | (k2, v2) :: rest => by
    by_cases h : k2 = k
    · subst h
      have : ¬ k2 = k' := fun e => hne e.symm
      simp [JVal.insert, lookup, this]
    · by_cases h2 : k2 = k'
      · subst h2
        simp [JVal.insert, lookup, hne]
      · simp [JVal.insert, lookup, h, h2, lookup_insert_ne' k k' v hne rest]

/-- a key the body does not mention keeps the base's value -/
theorem lookup_mergeTop_notin (k : String) : ∀ (ov base : List (String × JVal)),
    lookup k ov = none → lookup k (mergeTop base ov) = lookup k base
  | [], base, _ => by simp [mergeTop]
  | (k', v) :: rest, base, h => by
    by_cases hk : k' = k
    · simp [lookup, hk] at h
    · have hr : lookup k rest = none := by simpa [lookup, hk] using h
      rw [mergeTop, lookup_mergeTop_notin k rest _ hr]
      exact lookup_insert_ne' k' k v (fun e => hk e.symm) base

/-- with unique keys in the body (a Python dict), a key the body mentions gets the body's value -/
theorem lookup_mergeTop_in (k : String) (v : JVal) : ∀ (ov base : List (String × JVal)),
    (keys ov).Nodup → lookup k ov = some v → lookup k (mergeTop base ov) = some v
  | [], _, _, h => by simp [lookup] at h
  | (k', v') :: rest, base, hnd, h => by
    have hnd' : k' ∉ keys rest ∧ (keys rest).Nodup := by simpa [keys] using hnd
    by_cases hk : k' = k
    · subst hk
      have hv : v' = v := by simpa [lookup] using h
      subst hv
      have hnone : lookup k' rest = none := by
        clear h
        induction rest with
        | nil => simp [lookup]
        | cons p ps ih =>
          have h1 : k' ≠ p.1 ∧ k' ∉ keys ps := by simpa [keys] using hnd'.1
          have : ¬ p.1 = k' := fun e => h1.1 e.symm
          have hps : (keys ps).Nodup := by
            have := hnd'.2
            simp [keys] at this
            simpa [keys] using this.2
          have hnd2 : (keys ((k', v') :: ps)).Nodup := by
            simp [keys]
            exact ⟨by simpa [keys] using h1.2, by simpa [keys] using hps⟩
          simp [lookup, this]
          exact ih hnd2 ⟨h1.2, hps⟩
      rw [mergeTop, lookup_mergeTop_notin k' rest _ hnone]
      exact lookup_insert_self' k' v' base
    · have hr : lookup k rest = some v := by simpa [lookup, hk] using h
      rw [mergeTop]
      exact lookup_mergeTop_in k v rest _ hnd'.2 hr

theorem run_cons (m : Mock) (c : Call) (cs : List Call) : run m (c :: cs) = run (step m c) cs := rfl

theorem step_current (m : Mock) (c : Call) : (step m c).current = m.current := by
  cases c <;> rfl

theorem run_current : ∀ (cs : List Call) (m : Mock), (run m cs).current = m.current
  | [], _ => rfl
  | c :: cs, m => by rw [run_cons, run_current cs, step_current]

theorem run_apiCalled : ∀ (cs : List Call) (m : Mock),
    (run m cs).apiCalled = (m.apiCalled || cs.any Call.isMutation)
  | [], m => by simp [run]
  | c :: cs, m => by
    rw [run_cons, run_apiCalled cs]
    cases c <;> simp [step, Call.isMutation]

theorem run_deleteCalled : ∀ (cs : List Call) (m : Mock),
    (run m cs).deleteCalled = (m.deleteCalled || cs.any Call.isDelete)
  | [], m => by simp [run]
  | c :: cs, m => by
    rw [run_cons, run_deleteCalled cs]
    cases c <;> simp [step, Call.isDelete]

theorem lastMutation_isMutation : ∀ (cs : List Call) (d : Call), lastMutation cs = some d → d.isMutation = true
  | [], d, h => by simp [lastMutation] at h
  | c :: cs, d, h => by
    cases hl : lastMutation cs with
    | some e =>
      simp only [lastMutation, hl] at h
      cases h
      exact lastMutation_isMutation cs _ hl
    | none =>
      simp only [lastMutation, hl] at h
      by_cases hc : c.isMutation = true
      · simp [hc] at h; subst h; exact hc
      · simp [hc] at h

/-- what the last mutating call (if any) leaves in `materialized` -/
def matOf (cur : Option JVal) : Option Call → Option JVal → Option JVal
  | some .delete, _ => some (.obj [])
  | some (.write d), _ => some (merged cur d)
  | _, old => old

theorem run_materialized : ∀ (cs : List Call) (m : Mock),
    (run m cs).materialized = matOf m.current (lastMutation cs) m.materialized
  | [], m => by simp [run, lastMutation, matOf]
  | c :: cs, m => by
    rw [run_cons, run_materialized cs, step_current]
    cases hl : lastMutation cs with
    | some d =>
      have hd := lastMutation_isMutation cs d hl
      simp only [lastMutation, hl]
      cases d with
      | get => simp [Call.isMutation] at hd
      | delete => simp [matOf]
      | write b => simp [matOf]
    | none =>
      simp only [lastMutation, hl]
      cases c <;> simp [matOf, step, Call.isMutation]

theorem lastMutation_none_iff : ∀ cs : List Call,
    lastMutation cs = none ↔ cs.any Call.isMutation = false
  | [] => by simp [lastMutation]
  | c :: cs => by
    cases hl : lastMutation cs with
    | some d =>
      have := (lastMutation_none_iff cs)
      rw [hl] at this
      simp only [lastMutation, hl]
      constructor
      · intro h; cases h
      · intro h
        have h2 : cs.any Call.isMutation = false := by
          simp only [List.any_cons, Bool.or_eq_false_iff] at h
          exact h.2
        exact absurd (this.mpr h2) (by simp)
    | none =>
      have := (lastMutation_none_iff cs).mp hl
      simp only [lastMutation, hl, List.any_cons, this, Bool.or_false]
      cases c <;> simp [Call.isMutation]


theorem any_isDelete_false_of_no_mutation : ∀ cs : List Call,
    cs.any Call.isMutation = false → cs.any Call.isDelete = false
  | [], _ => by simp
  | c :: cs, h => by
    simp only [List.any_cons, Bool.or_eq_false_iff] at h ⊢
    refine ⟨?_, any_isDelete_false_of_no_mutation cs h.2⟩
    cases c <;> simp_all [Call.isMutation, Call.isDelete]

theorem filter_pos_of_lastMutation : ∀ (cs : List Call) (d : Call), lastMutation cs = some d →
    1 ≤ (cs.filter Call.isMutation).length
  | [], d, h => by simp [lastMutation] at h
  | c :: cs, d, h => by
    cases hl : lastMutation cs with
    | some e =>
      have := filter_pos_of_lastMutation cs e hl
      by_cases hc : c.isMutation = true <;> simp [List.filter, hc] <;> omega
    | none =>
      simp only [lastMutation, hl] at h
      by_cases hc : c.isMutation = true
      · simp [List.filter, hc]
      · simp [hc] at h

/-- with at most one mutating request the last one decides `_delete_called` -/
theorem any_isDelete_of_single : ∀ cs : List Call, (cs.filter Call.isMutation).length ≤ 1 →
    cs.any Call.isDelete = (match lastMutation cs with | some .delete => true | _ => false)
  | [], _ => by simp [lastMutation]
  | c :: cs, h => by
    cases hl : lastMutation cs with
    | some d =>
      have hpos := filter_pos_of_lastMutation cs d hl
      have hc : c.isMutation = false := by
        cases hcm : c.isMutation with
        | false => rfl
        | true =>
          have : ((c :: cs).filter Call.isMutation).length = (cs.filter Call.isMutation).length + 1 := by
            simp [List.filter, hcm]
          omega
      have hlen : (cs.filter Call.isMutation).length ≤ 1 := by
        simpa [List.filter, hc] using h
      have ih := any_isDelete_of_single cs hlen
      rw [hl] at ih
      have hcd : c.isDelete = false := by cases c <;> simp_all [Call.isMutation, Call.isDelete]
      simp only [List.any_cons, hcd, Bool.false_or, lastMutation, hl]
      exact ih
    | none =>
      have hno := (lastMutation_none_iff cs).mp hl
      have hnd := any_isDelete_false_of_no_mutation cs hno
      simp only [List.any_cons, hnd, Bool.or_false, lastMutation, hl]
      cases c <;> simp [Call.isMutation, Call.isDelete]

end Koreo.FT.Mock
