/-
  Helper lemmas for the nested recovery theorem of C09 (`Koreo/WorkflowRecovery.lean`).

  1. iteration
  2. what `StepOK` gives
  3. the limit `gfinS / gfinR`, existence of passes
  4. invariant (results never lie) and progress (`GSys.bound`)
  5. the combinators preserve `StepOK`
-/
import Koreo.WorkflowRecovery
import Koreo.Lemmas.WorkflowFaults

namespace Koreo.WorkflowFaults

/-! ## 1. iteration -/

section iter
variable {α : Type}

theorem iterF_succ' (f : α → α) (n : Nat) (a : α) : iterF f (n + 1) a = f (iterF f n a) := by
  induction n generalizing a with
  | zero => rfl
  | succ n ih => exact ih (f a)

theorem iterF_comm (f : α → α) (n : Nat) (a : α) : iterF f n (f a) = f (iterF f n a) :=
  iterF_succ' f n a

theorem iterF_fixed {f : α → α} {a : α} (h : f a = a) : ∀ n, iterF f n a = a
  | 0 => rfl
  | n + 1 => by show iterF f n (f a) = a; rw [h]; exact iterF_fixed h n

theorem iterF_add (f : α → α) (m n : Nat) (a : α) : iterF f (m + n) a = iterF f n (iterF f m a) := by
  induction m generalizing a with
  | zero => simp [iterF]
  | succ m ih =>
    have : m + 1 + n = (m + n) + 1 := by omega
    rw [this]
    exact ih (f a)

/-- once a fixed point is reached after `k` steps, every later iterate is that fixed point -/
theorem iterF_ge {f : α → α} {k : Nat} {a : α} (h : f (iterF f k a) = iterF f k a) {n : Nat} (hn : k ≤ n) :
    iterF f n a = iterF f k a := by
  have : n = k + (n - k) := by omega
  rw [this, iterF_add]
  exact iterF_fixed h _

end iter

variable {X V R : Type}

/-! ## 2. one step -/

section step
variable {S : Type} {rv : ResView V R} {st : Stepper X V R S}

theorem StepOK.lim_next (h : StepOK rv st) (x : X) (vs : List V) (s : S) :
    st.lim x vs (st.next x vs s) = st.lim x vs s := by
  unfold Stepper.lim
  rw [iterF_comm]
  exact h.stable x vs s

theorem StepOK.lim_of_fixed (x : X) (vs : List V) {s : S} (hf : st.next x vs s = s) : st.lim x vs s = s :=
  iterF_fixed hf _

theorem StepOK.iter_ge (h : StepOK rv st) (x : X) (vs : List V) (s : S) {n : Nat} (hn : st.k ≤ n) :
    iterF (st.next x vs) n s = st.lim x vs s :=
  iterF_ge (h.stable x vs s) hn

end step

/-! ## 3. the limit; passes exist -/

/-- the hypotheses of the recovery theorem -/
structure GHyps (sys : GSys X V R) : Prop where
  wf : ∀ i, ∀ d ∈ sys.deps i, d < i
  gated_not_ok : sys.rv.okv sys.rv.gated = none
  ok_not_err : ∀ r v, sys.rv.okv r = some v → sys.rv.isErr r = false
  steps : ∀ i, StepOK sys.rv (sys.step i)

variable {sys : GSys X V R}

theorem gfinF_fuel (hwf : ∀ i, ∀ d ∈ sys.deps i, d < i) (x : X) (c0 : sys.State) :
    ∀ i fuel, i < fuel → gfinF sys x c0 fuel i = gfinF sys x c0 (i + 1) i := by
  intro i
  induction i using Nat.strongRecOn with
  | ind i ih =>
    intro fuel hf
    cases fuel with
    | zero => omega
    | succ f =>
      have hc : depVals sys.rv.okv (fun d => (gfinF sys x c0 f d).2) (sys.deps i) =
          depVals sys.rv.okv (fun d => (gfinF sys x c0 i d).2) (sys.deps i) := by
        apply depVals_congr
        intro d hd
        have hdi := hwf i d hd
        show sys.rv.okv (gfinF sys x c0 f d).2 = sys.rv.okv (gfinF sys x c0 i d).2
        rw [ih d hdi f (by omega), ih d hdi i hdi]
      simp only [gfinF]
      rw [hc]

theorem gfin_depVals (hwf : ∀ i, ∀ d ∈ sys.deps i, d < i) (x : X) (c0 : sys.State) (i : Nat) :
    depVals sys.rv.okv (fun d => (gfinF sys x c0 i d).2) (sys.deps i) =
      depVals sys.rv.okv (gfinR sys x c0) (sys.deps i) := by
  apply depVals_congr
  intro d hd
  show sys.rv.okv (gfinF sys x c0 i d).2 = sys.rv.okv (gfinF sys x c0 (d + 1) d).2
  rw [gfinF_fuel hwf x c0 d i (hwf i d hd)]

theorem gfin_some (hwf : ∀ i, ∀ d ∈ sys.deps i, d < i) (x : X) (c0 : sys.State) (i : Nat) {vs : List V}
    (hd : depVals sys.rv.okv (gfinR sys x c0) (sys.deps i) = some vs) :
    gfinS sys x c0 i = (sys.step i).lim x vs (c0 i) ∧
    gfinR sys x c0 i = ((sys.step i).pass x vs ((sys.step i).lim x vs (c0 i))).2 := by
  have he : gfinF sys x c0 (i + 1) i =
      match depVals sys.rv.okv (fun d => (gfinF sys x c0 i d).2) (sys.deps i) with
      | some vs => ((sys.step i).lim x vs (c0 i), ((sys.step i).pass x vs ((sys.step i).lim x vs (c0 i))).2)
      | none => (c0 i, sys.rv.gated) := rfl
  rw [gfin_depVals hwf, hd] at he
  have he' : gfinF sys x c0 (i + 1) i =
      ((sys.step i).lim x vs (c0 i), ((sys.step i).pass x vs ((sys.step i).lim x vs (c0 i))).2) := he
  exact ⟨by show (gfinF sys x c0 (i + 1) i).1 = _; rw [he'], by show (gfinF sys x c0 (i + 1) i).2 = _; rw [he']⟩

theorem gfin_none (hwf : ∀ i, ∀ d ∈ sys.deps i, d < i) (x : X) (c0 : sys.State) (i : Nat)
    (hd : depVals sys.rv.okv (gfinR sys x c0) (sys.deps i) = none) :
    gfinS sys x c0 i = c0 i ∧ gfinR sys x c0 i = sys.rv.gated := by
  have he : gfinF sys x c0 (i + 1) i =
      match depVals sys.rv.okv (fun d => (gfinF sys x c0 i d).2) (sys.deps i) with
      | some vs => ((sys.step i).lim x vs (c0 i), ((sys.step i).pass x vs ((sys.step i).lim x vs (c0 i))).2)
      | none => (c0 i, sys.rv.gated) := rfl
  rw [gfin_depVals hwf, hd] at he
  have he' : gfinF sys x c0 (i + 1) i = (c0 i, sys.rv.gated) := he
  exact ⟨by show (gfinF sys x c0 (i + 1) i).1 = _; rw [he'], by show (gfinF sys x c0 (i + 1) i).2 = _; rw [he']⟩

theorem gpassF_fuel (hwf : ∀ i, ∀ d ∈ sys.deps i, d < i) (x : X) (c : sys.State) :
    ∀ i fuel, i < fuel → gpassF sys x c fuel i = gpassF sys x c (i + 1) i := by
  intro i
  induction i using Nat.strongRecOn with
  | ind i ih =>
    intro fuel hf
    cases fuel with
    | zero => omega
    | succ f =>
      have hc : depVals sys.rv.okv (fun d => (gpassF sys x c f d).2) (sys.deps i) =
          depVals sys.rv.okv (fun d => (gpassF sys x c i d).2) (sys.deps i) := by
        apply depVals_congr
        intro d hd
        have hdi := hwf i d hd
        show sys.rv.okv (gpassF sys x c f d).2 = sys.rv.okv (gpassF sys x c i d).2
        rw [ih d hdi f (by omega), ih d hdi i hdi]
      simp only [gpassF]
      rw [hc]

/-- fault-free passes exist: `gpassS` / `gpassR` is one -/
theorem gpassF_isPass (hwf : ∀ i, ∀ d ∈ sys.deps i, d < i) (x : X) (c : sys.State) :
    GIsPass sys x c (gpassS sys x c) (gpassR sys x c) := by
  refine ⟨?_, fun i hi => by simp [gpassS, Nat.not_lt.2 hi]⟩
  intro i hi
  have hc : depVals sys.rv.okv (fun d => (gpassF sys x c i d).2) (sys.deps i) =
      depVals sys.rv.okv (gpassR sys x c) (sys.deps i) := by
    apply depVals_congr
    intro d hd
    show sys.rv.okv (gpassF sys x c i d).2 = sys.rv.okv (gpassF sys x c (d + 1) d).2
    rw [gpassF_fuel hwf x c d i (hwf i d hd)]
  have he : gpassF sys x c (i + 1) i =
      match depVals sys.rv.okv (fun d => (gpassF sys x c i d).2) (sys.deps i) with
      | some vs => (sys.step i).pass x vs (c i)
      | none => (c i, sys.rv.gated) := rfl
  rw [hc] at he
  have hS : gpassS sys x c i = (gpassF sys x c (i + 1) i).1 := by simp [gpassS, hi]
  cases hd : depVals sys.rv.okv (gpassR sys x c) (sys.deps i) with
  | some vs =>
    rw [hd] at he
    exact ⟨by rw [hS]; exact congrArg Prod.fst he, congrArg Prod.snd he⟩
  | none =>
    rw [hd] at he
    exact ⟨by rw [hS]; exact congrArg Prod.fst he, congrArg Prod.snd he⟩

theorem gisPass_isFPass (h : GHyps sys) {x : X} {c c' : sys.State} {r : Nat → R} (hp : GIsPass sys x c c' r) :
    GIsFPass sys x c c' r := by
  refine ⟨?_, hp.2⟩
  intro i hi
  have := hp.1 i hi
  cases hd : depVals sys.rv.okv r (sys.deps i) with
  | some vs => rw [hd] at this; exact Or.inl this
  | none => rw [hd] at this; exact ⟨this.1, by rw [this.2]; exact h.gated_not_ok⟩

/-! ## 4. invariant and progress -/

/-- every state reachable through faulty passes: a step whose dependencies end Ok is in a state whose limit is the
    limit state; any other step is untouched -/
def GInv (sys : GSys X V R) (x : X) (c0 c : sys.State) : Prop :=
  ∀ i, i < sys.n →
    match depVals sys.rv.okv (gfinR sys x c0) (sys.deps i) with
    | some vs => (sys.step i).lim x vs (c i) = gfinS sys x c0 i
    | none => c i = c0 i

theorem ginv_init (h : GHyps sys) (x : X) (c0 : sys.State) : GInv sys x c0 c0 := by
  intro i _
  cases hd : depVals sys.rv.okv (gfinR sys x c0) (sys.deps i) with
  | some vs => exact (gfin_some h.wf x c0 i hd).1.symm
  | none => rfl

/-- **results never lie, the invariant is kept** -/
theorem gfpass_sound (h : GHyps sys) {x : X} {c0 c c' : sys.State} {r : Nat → R}
    (hinv : GInv sys x c0 c) (hp : GIsFPass sys x c c' r) :
    (∀ i, i < sys.n → ∀ v, sys.rv.okv (r i) = some v → sys.rv.okv (gfinR sys x c0 i) = some v) ∧
    GInv sys x c0 c' := by
  have key : ∀ i, i < sys.n →
      (∀ v, sys.rv.okv (r i) = some v → sys.rv.okv (gfinR sys x c0 i) = some v) ∧
      (match depVals sys.rv.okv (gfinR sys x c0) (sys.deps i) with
        | some vs => (sys.step i).lim x vs (c' i) = gfinS sys x c0 i
        | none => c' i = c0 i) := by
    intro i
    induction i using Nat.strongRecOn with
    | ind i ih =>
      intro hi
      have hpi := hp.1 i hi
      have hii := hinv i hi
      have hst := h.steps i
      cases hd : depVals sys.rv.okv r (sys.deps i) with
      | some vs =>
        rw [hd] at hpi
        have hfd : depVals sys.rv.okv (gfinR sys x c0) (sys.deps i) = some vs := by
          apply depVals_mono _ hd
          intro d hdm v hv
          have hdi := h.wf i d hdm
          exact (ih d hdi (by omega)).1 v hv
        rw [hfd] at hii ⊢
        obtain ⟨heS, heR⟩ := gfin_some h.wf x c0 i hfd
        rcases hpi with ⟨hc', hr⟩ | ⟨hF, hnone⟩
        · constructor
          · intro v hv
            rw [hr] at hv
            have hun := hst.quiet_unchanged x vs (c i) (h.ok_not_err _ v hv)
            -- an Ok answer changed nothing: the state is a fixed point, hence already the limit state
            have hci : c i = gfinS sys x c0 i := by
              rw [← hii]; exact (StepOK.lim_of_fixed x vs hun).symm
            rw [heR, ← heS, ← hci]
            exact hv
          · show (sys.step i).lim x vs (c' i) = gfinS sys x c0 i
            rw [hc']
            exact (hst.lim_next x vs (c i)).trans hii
        · constructor
          · intro v hv; rw [hnone] at hv; cases hv
          · show (sys.step i).lim x vs (c' i) = gfinS sys x c0 i
            rcases hF with hF | hF
            · rw [hF]; exact hii
            · rw [hst.faulty_same_limit x vs _ _ hF]; exact hii
      | none =>
        rw [hd] at hpi
        constructor
        · intro v hv; rw [hpi.2] at hv; cases hv
        · rw [hpi.1]; exact hii
  exact ⟨fun i hi => (key i hi).1, fun i hi => (key i hi).2⟩

theorem greach_inv (h : GHyps sys) {x : X} {c0 c : sys.State} (hr : GReach sys x c0 c) : GInv sys x c0 c := by
  induction hr with
  | refl => exact ginv_init h x c0
  | step _ hp ih => exact (gfpass_sound h ih hp).2

theorem bound_mono (sys : GSys X V R) {d i : Nat} (h : d < i) :
    sys.bound d + (sys.step d).k + 1 ≤ sys.bound i := by
  induction i with
  | zero => omega
  | succ i ih =>
    show _ ≤ sys.bound i + (sys.step i).k + 1
    by_cases e : d = i
    · subst e; omega
    · have := ih (by omega); omega

theorem bound_le (sys : GSys X V R) {i n : Nat} (h : i ≤ n) : sys.bound i ≤ sys.bound n := by
  induction n with
  | zero => have : i = 0 := by omega
            subst this; exact Nat.le_refl _
  | succ n ih =>
    by_cases e : i = n + 1
    · subst e; exact Nat.le_refl _
    · have := ih (by omega)
      show _ ≤ sys.bound n + (sys.step n).k + 1
      omega

/-- after `t` fault-free passes: a step whose dependencies end Ok and which has had `j` evaluations left at most
    — `bound i + (k i - j) ≤ t` — is `j` evaluations away from its limit state -/
def GProg (sys : GSys X V R) (x : X) (c0 : sys.State) (t : Nat) (c : sys.State) : Prop :=
  ∀ i, i < sys.n →
    match depVals sys.rv.okv (gfinR sys x c0) (sys.deps i) with
    | some vs => ∀ j, j ≤ (sys.step i).k → sys.bound i + ((sys.step i).k - j) ≤ t →
        iterF ((sys.step i).next x vs) j (c i) = gfinS sys x c0 i
    | none => True

/-- **progress**: one more fault-free pass -/
theorem gpass_progress (h : GHyps sys) {x : X} {c0 c c' : sys.State} {r : Nat → R} {t : Nat}
    (hinv : GInv sys x c0 c) (hpg : GProg sys x c0 t c) (hp : GIsPass sys x c c' r) :
    GProg sys x c0 (t + 1) c' ∧
    (∀ i, i < sys.n → sys.bound i + (sys.step i).k ≤ t → r i = gfinR sys x c0 i) := by
  have hinv' := (gfpass_sound h hinv (gisPass_isFPass h hp)).2
  -- results first (strong induction), then the states
  have hres : ∀ i, i < sys.n → sys.bound i + (sys.step i).k ≤ t → r i = gfinR sys x c0 i := by
    intro i
    induction i using Nat.strongRecOn with
    | ind i ih =>
      intro hi ht
      have hpi := hp.1 i hi
      have hgi := hpg i hi
      have hdv : depVals sys.rv.okv r (sys.deps i) = depVals sys.rv.okv (gfinR sys x c0) (sys.deps i) := by
        apply depVals_congr
        intro d hdm
        have hdi := h.wf i d hdm
        have := bound_mono sys hdi
        rw [ih d hdi (by omega) (by omega)]
      rw [hdv] at hpi
      cases hd : depVals sys.rv.okv (gfinR sys x c0) (sys.deps i) with
      | some vs =>
        rw [hd] at hpi hgi
        obtain ⟨-, heR⟩ := gfin_some h.wf x c0 i hd
        have hci : c i = gfinS sys x c0 i := hgi 0 (Nat.zero_le _) (by omega)
        have heS := (gfin_some h.wf x c0 i hd).1
        rw [hpi.2, hci, heR, ← heS]
      | none =>
        rw [hd] at hpi
        rw [hpi.2, (gfin_none h.wf x c0 i hd).2]
  refine ⟨?_, hres⟩
  intro i hi
  have hpi := hp.1 i hi
  have hgi := hpg i hi
  have hii' := hinv' i hi
  cases hd : depVals sys.rv.okv (gfinR sys x c0) (sys.deps i) with
  | none => trivial
  | some vs =>
    rw [hd] at hgi hii'
    intro j hj ht
    by_cases hjk : j = (sys.step i).k
    · subst hjk; exact hii'
    · -- at least one evaluation has happened since `bound i`: the dependencies' results were final in this pass
      have hdv : depVals sys.rv.okv r (sys.deps i) = some vs := by
        rw [← hd]
        apply depVals_congr
        intro d hdm
        have hdi := h.wf i d hdm
        have := bound_mono sys hdi
        rw [hres d (by omega) (by omega)]
      rw [hdv] at hpi
      have := hgi (j + 1) (by omega) (by omega)
      rw [hpi.1]
      exact this

theorem gcleanRun_settles (h : GHyps sys) {x : X} {c0 : sys.State} {N : Nat} {c cN : sys.State} {t : Nat}
    (hinv : GInv sys x c0 c) (hpg : GProg sys x c0 t c) (hrun : GCleanRun sys x N c cN) :
    GProg sys x c0 (t + N) cN ∧ GInv sys x c0 cN := by
  induction hrun generalizing t with
  | zero => exact ⟨hpg, hinv⟩
  | @succ N c c' c'' r hp _ ih =>
    have hinv' := (gfpass_sound h hinv (gisPass_isFPass h hp)).2
    have hpg' := (gpass_progress h hinv hpg hp).1
    have := ih hinv' hpg'
    rw [show t + (N + 1) = t + 1 + N by omega]
    exact this

theorem gcleanRun_outside {x : X} {N : Nat} {c cN : sys.State} (hrun : GCleanRun sys x N c cN) :
    ∀ i, sys.n ≤ i → cN i = c i := by
  induction hrun with
  | zero => intro i _; rfl
  | succ hp _ ih => intro i hi; rw [ih i hi, hp.2 i hi]

theorem gprog_zero {x : X} {c0 c : sys.State} (hinv : GInv sys x c0 c) : GProg sys x c0 0 c := by
  intro i hi
  have hii := hinv i hi
  cases hd : depVals sys.rv.okv (gfinR sys x c0) (sys.deps i) with
  | none => trivial
  | some vs =>
    rw [hd] at hii
    intro j hj ht
    have : j = (sys.step i).k := by omega
    subst this; exact hii

/-- a state that satisfies the invariant and has had `bound n` fault-free passes is the limit state, and every
    further pass leaves it unchanged and returns the limit results -/
theorem gsettled_fix (h : GHyps sys) {x : X} {c0 c : sys.State} {t : Nat} (ht : sys.bound sys.n ≤ t)
    (hinv : GInv sys x c0 c) (hpg : GProg sys x c0 t c) :
    (∀ i, i < sys.n → c i = gfinS sys x c0 i) ∧
    (∀ c' r, GIsPass sys x c c' r → ∀ i, i < sys.n → c' i = c i ∧ r i = gfinR sys x c0 i) := by
  have hb : ∀ i, i < sys.n → sys.bound i + (sys.step i).k ≤ t := by
    intro i hi
    have := bound_le sys (show i + 1 ≤ sys.n by omega)
    have e : sys.bound (i + 1) = sys.bound i + (sys.step i).k + 1 := rfl
    omega
  have hstate : ∀ c, GInv sys x c0 c → GProg sys x c0 t c → ∀ i, i < sys.n → c i = gfinS sys x c0 i := by
    intro c hinv hpg i hi
    have hii := hinv i hi
    have hgi := hpg i hi
    cases hd : depVals sys.rv.okv (gfinR sys x c0) (sys.deps i) with
    | some vs => rw [hd] at hgi; exact hgi 0 (Nat.zero_le _) (by have := hb i hi; omega)
    | none => rw [hd] at hii; rw [hii, (gfin_none h.wf x c0 i hd).1]
  refine ⟨hstate c hinv hpg, ?_⟩
  intro c' r hp i hi
  obtain ⟨hpg', hres⟩ := gpass_progress h hinv hpg hp
  have hinv' := (gfpass_sound h hinv (gisPass_isFPass h hp)).2
  have hpg'' : GProg sys x c0 t c' := by
    intro i hi
    have := hpg' i hi
    cases hd : depVals sys.rv.okv (gfinR sys x c0) (sys.deps i) with
    | none => trivial
    | some vs =>
      rw [hd] at this
      intro j hj htj
      -- `t ≥ bound n` already: re-derive from the invariant and the later clause
      have hii := hinv' i hi
      rw [hd] at hii
      have h0 : c' i = gfinS sys x c0 i := this 0 (Nat.zero_le _) (by have := hb i hi; omega)
      -- `c' i` is the limit state, a fixed point
      have hfix : (sys.step i).next x vs (c' i) = c' i := by
        rw [h0, (gfin_some h.wf x c0 i hd).1]
        exact (h.steps i).stable x vs (c0 i)
      rw [iterF_fixed hfix j]; exact h0
  exact ⟨by rw [hstate c' hinv' hpg'' i hi, hstate c hinv hpg i hi], hres i hi (hb i hi)⟩

/-- **the recovery theorem** (lemma form; `Props/C09.lean` states it) -/
theorem grecovers (h : GHyps sys) {x : X} {c0 c cN : sys.State} {N : Nat}
    (hreach : GReach sys x c0 c) (hN : sys.bound sys.n ≤ N) (hc : GCleanRun sys x N c cN) :
    (∀ i, i < sys.n → cN i = gfinS sys x c0 i) ∧
    (∀ c' r, GIsPass sys x cN c' r → ∀ i, i < sys.n → c' i = cN i ∧ r i = gfinR sys x c0 i) := by
  have hinv := greach_inv h hreach
  obtain ⟨hpg, hinvN⟩ := gcleanRun_settles h hinv (gprog_zero hinv) hc
  rw [Nat.zero_add] at hpg
  exact gsettled_fix h hN hinvN hpg

/-! ## 5. the combinators preserve `StepOK` -/

theorem pure_stepOK (rv : ResView V R) (res : X → List V → R) : StepOK rv (pureStepper res) :=
  ⟨fun _ _ _ => rfl, fun _ _ _ _ => rfl, fun _ _ _ _ h => h.elim⟩

section rf
variable {S : Type} (m : RMach S) (cfg : RfCfg)
set_option linter.unusedSimpArgs false

/-- delete-to-recreate: after two fault-free evaluations (delete, create) the resource is stable -/
theorem rfPass_recreate_fixed (hconv : Converges m) (hdel : ∀ s, m.present (m.delete s) = false) (s : S) :
    (rfPass m cfg none (rfPass m cfg none (rfPass m cfg none s).st).st).st =
      (rfPass m cfg none (rfPass m cfg none s).st).st := by
  have hc1 : ∀ s, m.present s = false → m.present (m.create s) = true := fun s h => (hconv.create_ok s h).1
  have hc2 : ∀ s, m.present s = false → m.meets (m.create s) = true := fun s h => (hconv.create_ok s h).2
  have hp1 : ∀ s, m.present s = true → m.present (m.patch s) = true := fun s h => (hconv.patch_ok s h).1
  have hp2 : ∀ s, m.present s = true → m.meets (m.patch s) = true := fun s h => (hconv.patch_ok s h).2
  have hd1 := hc1 (m.delete s) (hdel s)
  have hd2 := hc2 (m.delete s) (hdel s)
  have hds := hdel s
  cases hp : m.present s <;> cases hde : cfg.deleteIfExists <;> cases hr : cfg.readonly <;>
    cases hc : cfg.createEnabled <;> cases hm : m.meets s <;> cases hpol : cfg.policy <;>
    simp_all [rfPass, faultAt, mutateUnguarded]

/-- `deleteIfExists`: one fault-free evaluation (the DELETE) and the resource is stable -/
theorem rfPass_delete_fixed (hde : cfg.deleteIfExists = true) (hdel : ∀ s, m.present (m.delete s) = false) (s : S) :
    (rfPass m cfg none (rfPass m cfg none s).st).st = (rfPass m cfg none s).st := by
  have hds := hdel s
  cases hp : m.present s <;> simp_all [rfPass, faultAt, mutateUnguarded]

theorem rfPass_fixed_after (hconv : Converges m) (hdel : ∀ s, m.present (m.delete s) = false) (s : S) :
    (rfPass m cfg none (iterF (fun s => (rfPass m cfg none s).st) (rfK cfg) s)).st =
      iterF (fun s => (rfPass m cfg none s).st) (rfK cfg) s := by
  by_cases hpol : cfg.policy = .recreate
  · simp only [rfK, hpol, if_true, iterF]
    exact rfPass_recreate_fixed m cfg hconv hdel s
  · simp only [rfK, hpol, if_false, iterF]
    cases hde : cfg.deleteIfExists with
    | true => exact rfPass_delete_fixed m cfg hde hdel s
    | false => exact rfPass_stable m cfg hconv hpol hde s

end rf

/-- one ResourceFunction, ANY update policy (patch / never: one evaluation, recreate: two), every fault of `rfPass` -/
theorem rf_stepOK {S : Type} (rv : ResView V R) (mach : X → List V → RMach S) (cfg : X → List V → RfCfg)
    (k : Nat) (ofAns : X → List V → RAns S → R)
    (hconv : ∀ x vs, Converges (mach x vs))
    (hdel : ∀ x vs s, (mach x vs).present ((mach x vs).delete s) = false)
    (hk : ∀ x vs, rfK (cfg x vs) ≤ k)
    (hans : ∀ x vs a, rv.isErr (ofAns x vs a) = false → ∃ seen, a = .ok seen) :
    StepOK rv (rfStepper mach cfg k ofAns) := by
  have hstable : ∀ x vs s, (rfStepper mach cfg k ofAns).next x vs ((rfStepper mach cfg k ofAns).lim x vs s) =
      (rfStepper mach cfg k ofAns).lim x vs s := by
    intro x vs s
    have hfix := rfPass_fixed_after (mach x vs) (cfg x vs) (hconv x vs) (hdel x vs) s
    have hge : iterF (fun s => (rfPass (mach x vs) (cfg x vs) none s).st) k s =
        iterF (fun s => (rfPass (mach x vs) (cfg x vs) none s).st) (rfK (cfg x vs)) s :=
      iterF_ge hfix (hk x vs)
    show (rfPass (mach x vs) (cfg x vs) none
      (iterF (fun s => (rfPass (mach x vs) (cfg x vs) none s).st) k s)).st =
      iterF (fun s => (rfPass (mach x vs) (cfg x vs) none s).st) k s
    rw [hge]; exact hfix
  refine ⟨hstable, ?_, ?_⟩
  · intro x vs s hq
    obtain ⟨seen, hs⟩ := hans x vs _ hq
    exact (rfPass_ok_unchanged (mach x vs) (cfg x vs) none s seen hs).1
  · intro x vs s s' hF
    obtain ⟨f, rfl⟩ := hF
    rcases rfPass_state_between (mach x vs) (cfg x vs) f s with e | e
    · rw [e]
    · rw [e]
      show iterF ((rfStepper mach cfg k ofAns).next x vs) k ((rfStepper mach cfg k ofAns).next x vs s) = _
      rw [iterF_comm]
      exact hstable x vs s

section vec
variable {K S : Type} [DecidableEq K]

theorem vec_iter (keys : X → List V → List K) (item : K → Stepper X V R S) (k : Nat)
    (comb : X → List V → List R → R) (x : X) (vs : List V) :
    ∀ (n : Nat) (s : K → S), iterF ((vecStepper keys item k comb).next x vs) n s =
      fun key => if key ∈ keys x vs then iterF ((item key).next x vs) n (s key) else s key
  | 0, s => by funext key; simp [iterF]
  | n + 1, s => by
    show iterF ((vecStepper keys item k comb).next x vs) n ((vecStepper keys item k comb).next x vs s) = _
    rw [vec_iter keys item k comb x vs n]
    funext key
    by_cases hk : key ∈ keys x vs
    · simp [hk, iterF, Stepper.next, vecStepper]
    · simp [hk, Stepper.next, vecStepper]

/-- **forEach / refSwitch**: a vector of independent reconcilers, whatever the number of items, is a reconciler with
    the items' number of evaluations -/
theorem vec_stepOK (rv : ResView V R) (keys : X → List V → List K) (item : K → Stepper X V R S) (k : Nat)
    (comb : X → List V → List R → R)
    (hitem : ∀ key, StepOK rv (item key)) (hk : ∀ key, (item key).k ≤ k)
    (hcomb : ∀ x vs rs, rv.isErr (comb x vs rs) = false → ∀ r ∈ rs, rv.isErr r = false) :
    StepOK rv (vecStepper keys item k comb) := by
  have hlim : ∀ x vs s, (vecStepper keys item k comb).lim x vs s =
      fun key => if key ∈ keys x vs then (item key).lim x vs (s key) else s key := by
    intro x vs s
    show iterF ((vecStepper keys item k comb).next x vs) k s = _
    rw [vec_iter]
    funext key
    by_cases hkey : key ∈ keys x vs
    · simp only [hkey, if_true]; exact (hitem key).iter_ge x vs (s key) (hk key)
    · simp [hkey]
  refine ⟨?_, ?_, ?_⟩
  · intro x vs s
    rw [hlim]
    funext key
    by_cases hkey : key ∈ keys x vs
    · simp only [Stepper.next, vecStepper, hkey, if_true]
      exact (hitem key).stable x vs (s key)
    · simp [Stepper.next, vecStepper, hkey]
  · intro x vs s hq
    have hall := hcomb x vs _ hq
    funext key
    by_cases hkey : key ∈ keys x vs
    · simp only [vecStepper, hkey, if_true]
      exact (hitem key).quiet_unchanged x vs (s key)
        (hall _ (List.mem_map.2 ⟨key, hkey, rfl⟩))
    · simp [vecStepper, hkey]
  · intro x vs s s' hF
    rw [hlim, hlim]
    funext key
    by_cases hkey : key ∈ keys x vs
    · simp only [hkey, if_true]
      rcases hF key with e | ⟨-, e⟩
      · rw [e]
      · exact (hitem key).faulty_same_limit x vs _ _ e
    · simp only [hkey, if_false]
      rcases hF key with e | ⟨hin, -⟩
      · exact e
      · exact absurd hin hkey

end vec

section dag
variable {X' : Type} {inner : GSys X' V R}

theorem gcleanRun_iter (h : GHyps inner) (x' : X') :
    ∀ (N : Nat) (s : inner.State), GCleanRun inner x' N s (iterF (gpassS inner x') N s)
  | 0, s => .zero s
  | N + 1, s => .succ (gpassF_isPass h.wf x' s) (gcleanRun_iter h x' N (gpassS inner x' s))

/-- **a sub-workflow is a reconciler**: a whole workflow run as one step of an outer workflow satisfies the step
    hypotheses with `k = bound n` (its own pass bound), its faulty transitions being its faulty passes -/
theorem dag_stepOK (rv : ResView V R) (inner : GSys X' V R) (trig : X → List V → X')
    (agg : X → List V → (Nat → R) → R) (h : GHyps inner)
    (hagg : ∀ x vs r, rv.isErr (agg x vs r) = false → ∀ j, j < inner.n → inner.rv.isErr (r j) = false) :
    StepOK rv (dagStepper inner trig agg) := by
  have hlimeq : ∀ x vs (s : inner.State), (dagStepper inner trig agg).lim x vs s =
      iterF (gpassS inner (trig x vs)) (inner.bound inner.n) s := fun _ _ _ => rfl
  refine ⟨?_, ?_, ?_⟩
  · intro x vs s
    rw [hlimeq]
    have hrun := gcleanRun_iter h (trig x vs) (inner.bound inner.n) s
    obtain ⟨-, hfix⟩ := grecovers h (GReach.refl s) (Nat.le_refl _) hrun
    funext i
    by_cases hi : i < inner.n
    · exact (hfix _ _ (gpassF_isPass h.wf (trig x vs) _) i hi).1
    · simp [Stepper.next, dagStepper, gpassS, hi]
  · intro x vs s hq
    have hall := hagg x vs _ hq
    have hp := gpassF_isPass h.wf (trig x vs) s
    funext i
    show gpassS inner (trig x vs) s i = s i
    by_cases hi : i < inner.n
    · have hpi := hp.1 i hi
      cases hd : depVals inner.rv.okv (gpassR inner (trig x vs) s) (inner.deps i) with
      | some ws =>
        rw [hd] at hpi
        rw [hpi.1]
        apply (h.steps i).quiet_unchanged
        rw [← hpi.2]
        exact hall i hi
      | none => rw [hd] at hpi; exact hpi.1
    · exact hp.2 i (Nat.not_lt.1 hi)
  · intro x vs s s' hF
    obtain ⟨r, hF⟩ := hF
    rw [hlimeq, hlimeq]
    have hrun' := gcleanRun_iter h (trig x vs) (inner.bound inner.n) s'
    have hrun := gcleanRun_iter h (trig x vs) (inner.bound inner.n) s
    obtain ⟨h1, -⟩ := grecovers h (GReach.step (GReach.refl s) hF) (Nat.le_refl _) hrun'
    obtain ⟨h2, -⟩ := grecovers h (GReach.refl s) (Nat.le_refl _) hrun
    funext i
    by_cases hi : i < inner.n
    · rw [h1 i hi, h2 i hi]
    · have hi' := Nat.not_lt.1 hi
      rw [gcleanRun_outside hrun' i hi', gcleanRun_outside hrun i hi', hF.2 i hi']

end dag

theorem comap_stepOK {X' S : Type} (rv : ResView V R) (st : Stepper X' V R S) (fx : X → List V → X')
    (fvs : X → List V → List V) (h : StepOK rv st) : StepOK rv (st.comap fx fvs) :=
  ⟨fun x vs s => h.stable (fx x vs) (fvs x vs) s,
   fun x vs s hq => h.quiet_unchanged (fx x vs) (fvs x vs) s hq,
   fun x vs s s' hF => h.faulty_same_limit (fx x vs) (fvs x vs) s s' hF⟩

/-- every reconciler of the class satisfies the step hypotheses -/
theorem built_stepOK {rv : ResView V R} {X S : Type} {st : Stepper X V R S} (h : Built rv st) : StepOK rv st := by
  induction h with
  | rf mach cfg k ofAns hconv hdel hk hans => exact rf_stepOK rv mach cfg k ofAns hconv hdel hk hans
  | pure res => exact pure_stepOK rv res
  | vec keys item k comb _ hk hcomb ih => exact vec_stepOK rv keys item k comb ih hk hcomb
  | dag inner trig agg hrv hwf hgated hok _ hagg ih =>
    subst hrv
    exact dag_stepOK inner.rv inner trig agg ⟨hwf, hgated, hok, ih⟩ hagg
  | comap st fx fvs _ ih => exact comap_stepOK rv st fx fvs ih

theorem bound_eq_sum (sys : GSys X V R) (n : Nat) :
    sys.bound n = ((List.range n).map fun i => (sys.step i).k + 1).sum := by
  induction n with
  | zero => rfl
  | succ n ih =>
    rw [List.range_succ, List.map_append, List.sum_append]
    show sys.bound n + (sys.step n).k + 1 = _
    rw [ih]; simp; omega

/-! ## 6. a `Workflow` (Function targets, forEach, refSwitch) is such a system -/

open Koreo.Workflow

theorem const_stepOK {X S : Type} (rv : ResView V R) (res : X → List V → R) :
    StepOK rv (constStepper (S := S) res) :=
  ⟨fun _ _ _ => rfl, fun _ _ _ _ => rfl, fun _ _ _ _ h => h.elim⟩

/-- no failing iteration in a forEach result that is not an error -/
theorem combineItems_quiet {outs : List StepOut} (h : (combineItems outs).res.isErr = false) :
    ∀ o ∈ outs, o.res.isErr = false := by
  intro o ho
  cases he : o.res.isErr with
  | false => rfl
  | true => rw [combineItems_err ⟨o, ho, he⟩] at h; cases h

theorem combStep_quiet (eval : EvalFn) (s : Step) (x : JVal) (vs : List JVal) (rs : List StepOut)
    (h : stepRv.isErr (combStep eval s x vs rs) = false) : ∀ r ∈ rs, stepRv.isErr r = false := by
  unfold combStep at h
  cases hg : gate eval x (drOf s.deps vs) s with
  | done o =>
    rw [hg] at h
    cases rs with
    | nil => intro r hr; simp at hr
    | cons r0 rest => exact absurd h (by simp [stepRv, StepRes.isErr])
  | single act inputs =>
    rw [hg] at h
    match rs, h with
    | [], h => exact absurd h (by simp [stepRv, StepRes.isErr])
    | [r0], h => intro r hr; simp at hr; subst hr; exact h
    | _ :: _ :: _, h => exact absurd h (by simp [stepRv, StepRes.isErr])
  | each act inputs key items =>
    rw [hg] at h
    exact combineItems_quiet h

/-- dependencies of the step at position `i` of a well-formed workflow sit at positions `< i` -/
theorem indexOf_lt_of_wf {seen : List Label} {steps : List Step} (h : wfSteps seen steps = true) :
    ∀ i s, steps[i]? = some s → ∀ d ∈ s.deps, d ∈ seen ∨ indexOf d steps < i := by
  induction steps generalizing seen with
  | nil => intro i s hs; simp at hs
  | cons s0 rest ih =>
    obtain ⟨hdeps, -, hrest⟩ := wfSteps_cons h
    intro i s hs d hd
    cases i with
    | zero =>
      simp at hs; subst hs
      exact Or.inl (hdeps d hd)
    | succ i =>
      simp at hs
      rcases ih hrest i s hs d hd with h' | h'
      · rcases List.mem_append.1 h' with h'' | h''
        · exact Or.inl h''
        · simp at h''
          right; simp [indexOf, h'']
      · right
        simp only [indexOf]
        split
        · omega
        · omega

section ofwf
variable {S₀ : Type} (eval : EvalFn) (tgt : Target → Stepper JVal JVal StepOut S₀) (k : Nat)

theorem itemOf_stepOK (htgt : ∀ t, StepOK stepRv (tgt t)) (s : Step) (key : EKey) :
    StepOK stepRv (itemOf tgt eval s key) := by
  obtain ⟨idx, t⟩ := key
  cases t with
  | none => exact const_stepOK _ _
  | some t => exact comap_stepOK _ _ _ _ (htgt t)

theorem itemOf_k (hk : ∀ t, (tgt t).k ≤ k) (s : Step) (key : EKey) : (itemOf tgt eval s key).k ≤ k := by
  obtain ⟨idx, t⟩ := key
  cases t with
  | none => exact Nat.zero_le _
  | some t => exact hk t

/-- a well-formed workflow over reconcilers that meet the step hypotheses meets the hypotheses of the recovery
    theorem -/
theorem ofWorkflow_hyps (wf : Workflow) (hwf : wf.WF = true)
    (htgt : ∀ t, StepOK stepRv (tgt t)) (hk : ∀ t, (tgt t).k ≤ k) : GHyps (ofWorkflow eval tgt k wf) := by
  refine ⟨?_, rfl, ?_, ?_⟩
  · intro i d hd
    show d < i
    simp only [ofWorkflow] at hd
    cases hs : wf.steps[i]? with
    | none => simp [hs] at hd
    | some s =>
      simp only [hs, List.mem_map] at hd
      obtain ⟨l, hl, rfl⟩ := hd
      rcases indexOf_lt_of_wf (seen := []) (by simpa [Workflow.WF] using hwf) i s hs l hl with h | h
      · simp at h
      · exact h
  · intro r v h
    show r.res.isErr = false
    have : r.res.okVal? = some v := h
    cases hr : r.res <;> simp_all [StepRes.okVal?, StepRes.isErr]
  · intro i
    show StepOK stepRv (match wf.steps[i]? with
      | some s => vecStepper (evalKeys eval s) (itemOf tgt eval s) k (combStep eval s)
      | none => constStepper fun _ _ => ⟨.depSkip, .null⟩)
    cases wf.steps[i]? with
    | none => exact const_stepOK _ _
    | some s =>
      exact vec_stepOK stepRv _ _ k _ (itemOf_stepOK eval tgt htgt s) (itemOf_k eval tgt k hk s)
        (combStep_quiet eval s)

theorem ofWorkflow_bound (wf : Workflow) :
    ∀ i, i ≤ wf.steps.length → (ofWorkflow eval tgt k wf).bound i = i * (k + 1) := by
  intro i
  induction i with
  | zero => intro _; simp [GSys.bound]
  | succ i ih =>
    intro hi
    have hs : ∃ s, wf.steps[i]? = some s := ⟨wf.steps[i]'(by omega), List.getElem?_eq_getElem (by omega)⟩
    obtain ⟨s, hs⟩ := hs
    have hk : ((ofWorkflow eval tgt k wf).step i).k = k := by
      show (match wf.steps[i]? with
        | some s => vecStepper (evalKeys eval s) (itemOf tgt eval s) k (combStep eval s)
        | none => constStepper fun _ _ => ⟨.depSkip, .null⟩).k = k
      rw [hs]; rfl
    show (ofWorkflow eval tgt k wf).bound i + ((ofWorkflow eval tgt k wf).step i).k + 1 = _
    rw [ih (by omega), hk, Nat.succ_mul]
    omega

end ofwf

/-! ## 7. sub-workflow targets by nesting depth -/

section lift
variable {S T N : Type} {rv : ResView V R}

theorem onFst_iter (st : Stepper X V R S) (x : X) (vs : List V) :
    ∀ (n : Nat) (p : S × T), iterF ((st.onFst (T := T)).next x vs) n p = (iterF (st.next x vs) n p.1, p.2)
  | 0, p => rfl
  | n + 1, p => by
    show iterF ((st.onFst (T := T)).next x vs) n ((st.onFst (T := T)).next x vs p) = _
    rw [onFst_iter st x vs n]; rfl

theorem onFst_stepOK (st : Stepper X V R S) (h : StepOK rv st) : StepOK rv (st.onFst (T := T)) := by
  have hlim : ∀ x vs (p : S × T), (st.onFst (T := T)).lim x vs p = (st.lim x vs p.1, p.2) :=
    fun x vs p => onFst_iter st x vs st.k p
  refine ⟨?_, ?_, ?_⟩
  · intro x vs p
    rw [hlim]
    show ((st.pass x vs (st.lim x vs p.1)).1, p.2) = _
    exact congrArg (fun a => (a, p.2)) (h.stable x vs p.1)
  · intro x vs p hq
    show ((st.pass x vs p.1).1, p.2) = p
    rw [h.quiet_unchanged x vs p.1 hq]
  · intro x vs p p' hF
    rw [hlim, hlim, hF.1, h.faulty_same_limit x vs _ _ hF.2]

variable [DecidableEq N]

theorem onSndAt_iter (name : N) (st : Stepper X V R T) (x : X) (vs : List V) :
    ∀ (n : Nat) (p : S × (N → T)), iterF ((Stepper.onSndAt (S := S) name st).next x vs) n p =
      (p.1, fun m => if m = name then iterF (st.next x vs) n (p.2 m) else p.2 m)
  | 0, p => by
    show p = _
    have : (fun m => if m = name then p.2 m else p.2 m) = p.2 := by funext m; split <;> rfl
    simp only [iterF, this]
  | n + 1, p => by
    show iterF ((Stepper.onSndAt (S := S) name st).next x vs) n ((Stepper.onSndAt (S := S) name st).next x vs p) = _
    rw [onSndAt_iter name st x vs n]
    show ((p.1, _) : S × (N → T)) = _
    congr 1
    funext m
    by_cases hm : m = name
    · simp [hm, iterF, Stepper.next, Stepper.onSndAt]
    · simp [hm, Stepper.next, Stepper.onSndAt]

theorem onSndAt_stepOK (name : N) (st : Stepper X V R T) (h : StepOK rv st) :
    StepOK rv (Stepper.onSndAt (S := S) name st) := by
  have hlim : ∀ x vs (p : S × (N → T)), (Stepper.onSndAt (S := S) name st).lim x vs p =
      (p.1, fun m => if m = name then st.lim x vs (p.2 m) else p.2 m) :=
    fun x vs p => onSndAt_iter name st x vs st.k p
  refine ⟨?_, ?_, ?_⟩
  · intro x vs p
    rw [hlim]
    show ((p.1, _) : S × (N → T)) = _
    congr 1
    funext m
    by_cases hm : m = name
    · simp only [hm, if_true]; exact h.stable x vs (p.2 name)
    · simp [hm]
  · intro x vs p hq
    show ((p.1, _) : S × (N → T)) = p
    have hun := h.quiet_unchanged x vs (p.2 name) hq
    have : (fun m => if m = name then (st.pass x vs (p.2 m)).1 else p.2 m) = p.2 := by
      funext m
      by_cases hm : m = name
      · subst hm; simp [hun]
      · simp [hm]
    rw [this]
  · intro x vs p p' hF
    obtain ⟨h1, h2, h3⟩ := hF
    rw [hlim, hlim, h1]
    congr 1
    funext m
    by_cases hm : m = name
    · subst hm; simp only [if_true]; exact h.faulty_same_limit x vs _ _ h3
    · simp only [hm, if_false]; exact h2 m hm

end lift

theorem lookupL_zipIdx (r : Nat → StepOut) :
    ∀ (steps : List Step) (o : Nat), (labels steps).Nodup → ∀ j s, steps[j]? = some s →
      lookupL s.label ((steps.zipIdx o).map fun p => (p.1.label, r p.2)) = some (r (j + o)) := by
  intro steps
  induction steps with
  | nil => intro o _ j s hs; simp at hs
  | cons s0 rest ih =>
    intro o hnd j s hs
    simp only [labels, List.map_cons, List.nodup_cons] at hnd
    simp only [List.zipIdx_cons, List.map_cons, lookupL]
    cases j with
    | zero => simp at hs; subst hs; simp
    | succ j =>
      simp at hs
      have hne : s0.label ≠ s.label := by
        intro e
        exact hnd.1 (List.mem_map.2 ⟨s, List.mem_of_getElem? hs, e.symm⟩)
      rw [if_neg hne, ih (o + 1) hnd.2 j s hs]
      congr 2; omega

/-- **a sub-workflow that does not answer with an error had no failing step** (`subOut ∘ collect`) -/
theorem aggOf_quiet (eval : EvalFn) (w : Workflow) (hwf : w.WF = true) (r : Nat → StepOut)
    (h : (aggOf eval w r).res.isErr = false) : ∀ j, j < w.steps.length → (r j).res.isErr = false := by
  intro j hj
  have hnd := (wfSteps_labels_nodup (seen := []) (by simpa [Workflow.WF] using hwf)).1
  have hs : w.steps[j]? = some (w.steps[j]'hj) := List.getElem?_eq_getElem hj
  have hl := lookupL_zipIdx r w.steps 0 hnd j _ hs
  rw [Nat.add_zero] at hl
  have hmem := mem_listed_of_lookup (wf := w) (List.getElem_mem hj) hl
  cases he : (r j).res.isErr with
  | false => rfl
  | true =>
    exfalso
    have herr : (collect eval w (w.steps.zipIdx.map fun p => (p.1.label, r p.2))).overall.isErr = true :=
      overallOf_err ⟨_, hmem, he⟩
    unfold aggOf at h
    simp only at h
    unfold subOut at h
    cases ho : (collect eval w (w.steps.zipIdx.map fun p => (p.1.label, r p.2))).overall with
    | ok v => rw [ho] at herr; cases herr
    | skip => rw [ho] at herr; cases herr
    | depSkip => rw [ho] at herr; cases herr
    | retry d => rw [ho] at h; cases h
    | permFail => rw [ho] at h; cases h

section depth
variable {S : Type} (eval : EvalFn) (leaf : String → Stepper JVal JVal StepOut S) (kleaf len : Nat) (defs : Env)

theorem kAt_ge_leaf : ∀ n, kleaf ≤ kAt kleaf len n
  | 0 => Nat.le_refl _
  | _ + 1 => Nat.le_max_left _ _

/-- **induction on the nesting depth**: at every depth every target — Function or sub-workflow — meets the step
    hypotheses and needs at most `kAt n` evaluations -/
theorem tgtAt_ok (hleaf : ∀ id, StepOK stepRv (leaf id)) (hkleaf : ∀ id, (leaf id).k ≤ kleaf)
    (hdefs : ∀ name w, lookupL name defs = some w → w.WF = true ∧ w.steps.length ≤ len) :
    ∀ n t, StepOK stepRv (tgtAt eval leaf kleaf len defs n t) ∧
      (tgtAt eval leaf kleaf len defs n t).k ≤ kAt kleaf len n := by
  intro n
  induction n with
  | zero =>
    intro t
    cases t with
    | fn id => exact ⟨hleaf id, hkleaf id⟩
    | wf name => exact ⟨const_stepOK _ _, Nat.zero_le _⟩
  | succ n ih =>
    intro t
    cases t with
    | fn id =>
      exact ⟨onFst_stepOK _ (hleaf id), Nat.le_trans (hkleaf id) (kAt_ge_leaf kleaf len (n + 1))⟩
    | wf name =>
      simp only [tgtAt]
      cases hl : lookupL name defs with
      | none => exact ⟨const_stepOK _ _, Nat.zero_le _⟩
      | some w =>
        obtain ⟨hwf, hlen⟩ := hdefs name w hl
        have hh := ofWorkflow_hyps eval (tgtAt eval leaf kleaf len defs n) (kAt kleaf len n) w hwf
          (fun t => (ih t).1) (fun t => (ih t).2)
        refine ⟨onSndAt_stepOK name _ (dag_stepOK stepRv _ _ _ hh ?_), ?_⟩
        · intro x vs r hq j hj
          exact aggOf_quiet eval w hwf r hq j hj
        · show (ofWorkflow eval (tgtAt eval leaf kleaf len defs n) (kAt kleaf len n) w).bound w.steps.length ≤ _
          rw [ofWorkflow_bound eval _ _ w _ (Nat.le_refl _)]
          exact Nat.le_trans (Nat.mul_le_mul_right _ hlen) (Nat.le_max_right _ _)

end depth

/-! ## 8. the recovery system's step is the fault model's step (hence C01's) when nothing fails -/

section faithful
variable {S₀ : Type} (eval : EvalFn) (tgt : Target → Stepper JVal JVal StepOut S₀)

theorem itemOf_result (s : Step) (x : JVal) (vs : List JVal) (cs : EKey → S₀) (l : Label) (idx : Option Nat)
    (act : List (String × JVal)) (inputs : JVal)
    (hin : evalInputsAt eval s x vs idx = inputs) :
    ((itemOf tgt eval s (idx, selTarget eval s.logic act inputs)).pass x vs
        (cs (idx, selTarget eval s.logic act inputs))).2 =
      (evalLogicF eval (frunOf tgt cs) l idx act inputs s.logic).1.out := by
  cases hlg : s.logic with
  | ref t =>
    simp only [selTarget, itemOf, Stepper.comap, evalLogicF, frunOf, FAns.out, hin]
  | switch on cases dflt =>
    simp only [selTarget, evalLogicF]
    cases select eval on cases dflt act inputs with
    | hit t => simp only [itemOf, Stepper.comap, frunOf, FAns.out, hin]
    | evalFail => rfl
    | badType => rfl
    | noMatch => rfl

theorem items_result (s : Step) (x : JVal) (vs : List JVal) (cs : EKey → S₀)
    (act : List (String × JVal)) (inputs : JVal) (key : String) (all : List JVal)
    (hg : gate eval x (drOf s.deps vs) s = .each act inputs key all) :
    ∀ (items : List JVal) (o : Nat), (∀ j it, items[j]? = some it → all[j + o]? = some it) →
      (items.zipIdx o).map (fun p =>
        ((itemOf tgt eval s (some p.2, selTarget eval s.logic act (setKey key p.1 inputs))).pass x vs
          (cs (some p.2, selTarget eval s.logic act (setKey key p.1 inputs)))).2) =
      zipOut (itemAnswers eval (frunOf tgt cs) s.label act inputs key s.logic o items)
        (items.map fun _ => Tag.done) := by
  intro items
  induction items with
  | nil => intro o _; rfl
  | cons it rest ih =>
    intro o hall
    simp only [List.zipIdx_cons, List.map_cons, itemAnswers, zipOut, taskOut, classify]
    have hin : evalInputsAt eval s x vs (some o) = setKey key it inputs := by
      have h0 := hall 0 it (by simp)
      rw [Nat.zero_add] at h0
      simp [evalInputsAt, hg, Gate.inputsAt, h0]
    rw [itemOf_result eval tgt s x vs cs s.label (some o) act (setKey key it inputs) hin]
    congr 1
    apply ih (o + 1)
    intro j it' hj
    have := hall (j + 1) it' (by simpa using hj)
    rw [show j + (o + 1) = j + 1 + o by omega]; exact this

/-- **faithfulness**: what a fault-free evaluation of a step of `ofWorkflow` answers is what the fault model stores
    for that step when every task completes, in the environment that answers from the step's cluster state
    (`frunOf`) — and the fault model's all-done outcome is C01's `stepResult` (`evalStep_fault_free`) -/
theorem ofWorkflow_step_faithful (k : Nat) (s : Step) (x : JVal) (vs : List JVal) (cs : EKey → S₀) (cause : Bool) :
    ((vecStepper (evalKeys eval s) (itemOf tgt eval s) k (combStep eval s)).pass x vs cs).2 =
      (evalStep eval (frunOf tgt cs) x cause (some (drOf s.deps vs)) s
        ⟨.done, match gate eval x (drOf s.deps vs) s with
          | .each _ _ _ items => items.map fun _ => Tag.done
          | _ => []⟩).out := by
  show combStep eval s x vs ((evalKeys eval s x vs).map fun key =>
    ((itemOf tgt eval s key).pass x vs (cs key)).2) = _
  cases hg : gate eval x (drOf s.deps vs) s with
  | done o => simp [combStep, evalKeys, evalStep, hg, plainStep]
  | single act inputs =>
    have hin : evalInputsAt eval s x vs none = inputs := by simp [evalInputsAt, hg, Gate.inputsAt]
    simp only [combStep, evalKeys, evalStep, hg, List.map_cons, List.map_nil, taskOut, classify]
    exact itemOf_result eval tgt s x vs cs s.label none act inputs hin
  | each act inputs key items =>
    obtain ⟨-, -, -, -, -, -, -, -, -, hne⟩ := gate_each hg
    have hz := items_result eval tgt s x vs cs act inputs key items hg items 0 (fun j it h => by simpa using h)
    cases items with
    | nil => exact absurd rfl hne
    | cons it rest =>
      simp only [combStep, evalKeys, evalStep, hg, List.map_map]
      simp only [List.map_cons] at hz ⊢
      have hz' : (List.map ((fun key => ((itemOf tgt eval s key).pass x vs (cs key)).2) ∘
          fun p : JVal × Nat => (some p.2, selTarget eval s.logic act (setKey key p.1 inputs)))
          ((it :: rest).zipIdx)) = _ := hz
      rw [hz']

end faithful

end Koreo.WorkflowFaults
