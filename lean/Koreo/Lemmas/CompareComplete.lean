/-
  C05, comparator side: whatever the (repaired) comparator reports as matching meets the target in
  every field the comparison is answerable for (`meetsB .excl`).
-/
import Koreo.Lemmas.CompareSound
namespace Koreo.Compare
open Koreo Koreo.JVal

theorem excl_eq : (Mode.excl == Mode.excl) = true := rfl

theorem spec_of_setMatch (txs lxs : List JVal) (ht : txs.all isScalar = true)
    (h : setMatch txs lxs = .ok) : setEqSpec txs lxs = true := by
  simp only [setMatch] at h
  by_cases he : (txs.isEmpty && lxs.isEmpty) = true
  · simp only [Bool.and_eq_true, List.isEmpty_iff] at he
    obtain ⟨rfl, rfl⟩ := he
    rfl
  · simp only [he, Bool.false_eq_true, ↓reduceIte, ht, Bool.not_true, Bool.false_or] at h
    by_cases hl : lxs.all isScalar = true
    · simp only [hl, Bool.not_true, Bool.false_eq_true, ↓reduceIte] at h
      split at h
      · rename_i hs
        rw [Bool.and_eq_true] at hs
        have e1 : subsetBy scalarMatch txs lxs = subsetBy scalarEq txs lxs :=
          subsetBy_congr _ _ _ _ fun x hx y hy =>
            scalarMatch_eq_scalarEq x y (List.all_eq_true.mp ht x hx) (List.all_eq_true.mp hl y hy)
        have e2 : subsetBy (fun a t => scalarMatch t a) lxs txs = subsetBy (fun l t => scalarEq t l) lxs txs :=
          subsetBy_congr _ _ _ _ fun x hx y hy =>
            scalarMatch_eq_scalarEq y x (List.all_eq_true.mp ht y hy) (List.all_eq_true.mp hl x hx)
        simp [setEqSpec, ht, hl, ← e1, ← e2, hs.1, hs.2]
      · cases h
    · simp only [hl, Bool.not_false, ↓reduceIte] at h; cases h

theorem listToObject_some_some (fields : List JVal) (cv : JVal) (adict : List (String × JVal))
    (h : listToObject fields cv = some (some adict)) :
    ∃ lms, cv = .arr lms ∧ allObj lms = true ∧ keyedDict fields lms = some adict := by
  cases cv <;> simp only [listToObject, Option.some.injEq, reduceCtorEq] at h
  rename_i xs
  by_cases ho : allObj xs = true
  · simp only [ho, ↓reduceIte] at h
    cases hk : keyedDict fields xs with
    | none => simp [hk] at h
    | some d => simp [hk] at h; exact ⟨xs, rfl, ho, by rw [hk, h]⟩
  · simp [ho] at h

theorem keyedDispatch_ok {T : Option (List (String × JVal))} {A L : Option (Option (List (String × JVal)))}
    {f : List (String × JVal) → List (String × JVal) → Res} (h : keyedDispatch T A L f = .ok) :
    ∃ adict l, A = some (some adict) ∧ L = some l ∧ f adict (l.getD []) = .ok := by
  unfold keyedDispatch at h
  split at h
  · exact ⟨_, _, rfl, rfl, h⟩
  · cases h
  · cases h

mutual
theorem meets_of_vm (t live la la' : JVal) (hw : wfB t = true) (h : validateMatch t live la false = .ok) :
    meetsB .excl t live la' = true := by
  match t with
  | .obj tkvs =>
    match live with
    | .obj lkvs =>
      rw [wfB.eq_1, Bool.and_eq_true] at hw
      rw [validateMatch.eq_1, parseDirs_of_ok _ hw.1] at h
      rw [meetsB.eq_1, excl_eq, Bool.true_or, Bool.true_and]
      exact meetsO_of_vm (specDirs tkvs) lkvs la _ tkvs (fun k f hf => specMap_strs _ k f hf) hw.2 h
    | .null | .bool _ | .int _ | .flt _ | .str _ | .arr _ =>
      rw [validateMatch.eq_2 _ _ _ _ (by intro _ h; cases h)] at h; cases h
  | .arr txs =>
    match live with
    | .arr lxs =>
      rw [wfB.eq_2] at hw
      rw [validateMatch.eq_4] at h
      simp only [Bool.false_eq_true, ↓reduceIte] at h
      rw [meetsB.eq_3, excl_eq, Bool.true_or, Bool.true_and]
      split at h
      · rename_i he
        simp only [Bool.and_eq_true, List.isEmpty_iff] at he
        obtain ⟨rfl, rfl⟩ := he
        rw [meetsL.eq_1]
      · split at h
        · cases h
        · rename_i hlen
          cases hi : laItems la with
          | none => rw [hi] at h; cases h
          | some items =>
            rw [hi] at h
            exact meetsL_of_vm txs lxs items _ hw (by simpa using hlen) h
    | .obj _ => rw [validateMatch.eq_3] at h; cases h
    | .null | .bool _ | .int _ | .flt _ | .str _ =>
      rw [validateMatch.eq_def] at h; simp at h
  | .null | .bool _ | .int _ | .flt _ | .str _ =>
    rw [meetsB.eq_def]
    rw [validateMatch.eq_def] at h
    cases live <;> simp_all [scalarEq, scalarMatch, pyEq, num8?] <;> omega
termination_by structural t
theorem meetsO_of_vm (d : Dirs) (akvs : List (String × JVal)) (la : JVal) (lakvs' : List (String × JVal))
    (tkvs : List (String × JVal))
    (hd : ∀ k f, fieldsFor k d.asMap = some f → f.all isStr = true)
    (hw : wfO d tkvs = true) (h : vmO d akvs la tkvs = .ok) :
    meetsO .excl d akvs lakvs' tkvs = true := by
  match tkvs with
  | [] => rw [meetsO.eq_1]
  | (k, tv) :: rest =>
    rw [wfO.eq_2, Bool.and_eq_true, Bool.and_eq_true] at hw
    by_cases hdir : isDirective k = true
    · rw [vmO_cons_skip _ _ _ _ _ _ (by simp [skippedKey, hdir])] at h
      rw [meetsO_cons_dir _ _ _ _ _ _ _ hdir]
      exact meetsO_of_vm d akvs la lakvs' rest hd hw.2 h
    · have hdir : isDirective k = false := by simpa using hdir
      have hkd : keyDirOk d k tv = true := by simpa [hdir] using hw.1.1
      by_cases hx : (k == ownerReferences || d.lastApplied.contains k) = true
      · rw [meetsO_cons_excl _ _ _ _ _ _ hx]
        have hrest : vmO d akvs la rest = .ok := by
          by_cases hs : skippedKey k = true
          · rw [vmO_cons_skip _ _ _ _ _ _ hs] at h; exact h
          · rw [vmO.eq_2] at h; exact (Res.join_eq_ok.mp h).2
        exact meetsO_of_vm d akvs la lakvs' rest hd hw.2 hrest
      · have hx1 : (k == ownerReferences) = false := by
          cases h1 : (k == ownerReferences)
          · rfl
          · exact absurd (by rw [h1]; rfl) hx
        have hx2 : d.lastApplied.contains k = false := by
          cases h2 : d.lastApplied.contains k
          · rfl
          · exact absurd (by rw [h2, Bool.or_true]) hx
        have hs : skippedKey k = false := by
          show (isDirective k || k == ownerReferences) = false
          rw [hdir, hx1]; rfl
        have hc : compared .excl d k = true := by
          show (!isDirective k && !(Mode.excl == Mode.excl && (k == ownerReferences || d.lastApplied.contains k))) = true
          rw [hdir, hx1, hx2]; rfl
        have hcmp : ∀ lav, cmpValue d k akvs lav = lookup k akvs := by
          intro lav; simp only [cmpValue, hx2, Bool.false_eq_true, ↓reduceIte]
        cases hl : laAt la k with
        | junkRaise =>
          rw [vmO_cons_junkRaise _ _ _ _ _ _ hs hl] at h
          have := (Res.join_eq_ok.mp h).1; cases this
        | junkIn =>
          rw [vmO_cons_junkIn _ _ _ _ _ _ hs hl] at h
          have := (Res.join_eq_ok.mp h).1
          split at this <;> cases this
        | val lav =>
          cases hcv : lookup k akvs with
          | none =>
            rw [vmO_cons_missing _ _ _ _ _ _ hs hl (by rw [hcmp, hcv])] at h
            have := (Res.join_eq_ok.mp h).1; cases this
          | some cv =>
            have hcv1 : cmpValue d k akvs lav = some cv := by rw [hcmp, hcv]
            have hcv2 : cmpValue d k akvs (laVal lakvs' k) = some cv := by rw [hcmp, hcv]
            match hf : fieldsFor k d.asMap with
            | some fields =>
              cases tv with
              | arr tms =>
                simp only [keyDirOk, hf, Bool.and_eq_true] at hkd
                rw [vmO_cons_keyed _ _ _ _ _ hs hl hcv1 hf hkd.1.1] at h
                obtain ⟨h1, h2⟩ := Res.join_eq_ok.mp h
                obtain ⟨adict, l, hA, _, hK⟩ := keyedDispatch_ok h1
                obtain ⟨lms, rfl, hlo, had⟩ := listToObject_some_some fields cv adict hA
                rw [meetsO_cons_keyed _ _ _ _ _ _ hc hcv2 hf, excl_eq, Bool.true_or, Bool.true_and,
                  Bool.and_eq_true]
                rw [wfB.eq_2] at hw
                exact ⟨meetsK_of_vm fields (hd k fields hf) lms _ adict (l.getD []) had hlo tms hw.1.2 hkd.1.2 hkd.1.1 hK,
                  meetsO_of_vm d akvs la lakvs' rest hd hw.2 h2⟩
              | _ => simp [keyDirOk, hf] at hkd
            | none =>
              rw [vmO_cons_plain _ _ _ _ _ _ hs hl hcv1 hf] at h
              obtain ⟨h1, h2⟩ := Res.join_eq_ok.mp h
              rw [meetsO_cons_plain _ _ _ _ _ _ _ hc hcv2 hf, Bool.and_eq_true]
              refine ⟨?_, meetsO_of_vm d akvs la lakvs' rest hd hw.2 h2⟩
              by_cases hset : (d.asSet.contains k && isArr tv) = true
              · rw [if_pos hset]
                rw [Bool.and_eq_true] at hset
                cases tv with
                | arr txs =>
                  simp only [keyDirOk, hf, hset.1, ↓reduceIte] at hkd
                  rw [hset.1] at h1
                  cases cv with
                  | arr lxs =>
                    rw [validateMatch.eq_4, if_pos rfl] at h1
                    exact spec_of_setMatch txs lxs hkd h1
                  | obj _ => rw [validateMatch.eq_3] at h1; cases h1
                  | _ => rw [validateMatch.eq_def] at h1; simp at h1
                | _ => simp [isArr] at hset
              · rw [if_neg hset]
                by_cases hcn : d.asSet.contains k = true
                · have harr : isArr tv = false := by
                    cases hh : isArr tv
                    · rfl
                    · exact absurd (by rw [hcn, hh]; rfl) hset
                  rw [vm_asSet_irrelevant _ _ _ _ harr] at h1
                  exact meets_of_vm tv cv lav _ hw.1.2 h1
                · rw [Bool.not_eq_true] at hcn; rw [hcn] at h1
                  exact meets_of_vm tv cv lav _ hw.1.2 h1
termination_by structural tkvs
theorem meetsL_of_vm (txs lxs items items' : List JVal) (hw : wfL txs = true)
    (hlen : txs.length = lxs.length) (h : vmL txs lxs items = .ok) :
    meetsL .excl txs lxs items' = true := by
  match txs, lxs with
  | [], [] => rw [meetsL.eq_1]
  | [], _ :: _ => simp at hlen
  | _ :: _, [] => simp at hlen
  | t :: ts, l :: ls =>
    rw [wfL.eq_2, Bool.and_eq_true] at hw
    rw [vmL.eq_1] at h
    rw [meetsL.eq_2, Bool.and_eq_true]
    cases hv : validateMatch t l (items.head?.getD .null) false with
    | ok =>
      rw [hv] at h
      exact ⟨meets_of_vm t l _ _ hw.1 hv, meetsL_of_vm ts ls _ _ hw.2 (by simpa using hlen) h⟩
    | bad d r => rw [hv] at h; cases h
termination_by structural txs
theorem meetsK_of_vm (fields : List JVal) (hf : fields.all isStr = true) (lms lams' : List JVal)
    (adict ldict : List (String × JVal)) (hA : keyedDict fields lms = some adict) (hAo : allObj lms = true)
    (tms : List JVal) (hw : wfL tms = true) (hdist : keysDistinct fields tms = true) (hto : allObj tms = true)
    (h : vmK fields adict ldict tms = .ok) : meetsK .excl fields lms lams' tms = true := by
  match tms with
  | [] => rw [meetsK.eq_1]
  | tm :: rest =>
    match tm, hto with
    | .obj mkvs, hto =>
      simp only [allObj] at hto
      rw [wfL.eq_2, Bool.and_eq_true] at hw
      simp only [keysDistinct, memberKey, Bool.and_eq_true] at hdist
      rw [vmK.eq_2] at h
      obtain ⟨h1, h2⟩ := Res.join_eq_ok.mp h
      rw [meetsK.eq_2, Bool.and_eq_true]
      refine ⟨?_, meetsK_of_vm fields hf lms lams' adict ldict hA hAo rest hw.2 hdist.2 hto h2⟩
      obtain ⟨key, hkey⟩ := objKey_isSome fields hf mkvs
      have hd1 := hdist.1
      simp only [hkey, Bool.and_eq_true, Bool.not_eq_true'] at hd1
      simp only [hkey, hd1.1, hd1.2, Bool.or_self, Bool.false_eq_true, ↓reduceIte] at h1
      rw [keyedDict_lookup fields key lms adict hAo hA] at h1
      simp only [hkey, show (Mode.excl == Mode.full) = false from rfl, Bool.false_eq_true, ↓reduceIte]
      by_cases hk : hasKey fields key lms = true
      · simp only [hk, ↓reduceIte] at h1
        obtain ⟨hmem, hmk⟩ := laMember_spec fields key lms hk
        rw [List.any_eq_true]
        refine ⟨_, hmem, ?_⟩
        rw [Bool.and_eq_true]
        exact ⟨by simp [hmk], meets_of_vm (.obj mkvs) _ _ _ hw.1 h1⟩
      · simp only [hk, Bool.false_eq_true, ↓reduceIte] at h1; cases h1
termination_by structural tms
end

end Koreo.Compare
