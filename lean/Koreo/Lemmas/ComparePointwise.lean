/-
  C04: `Meets` of a target map, key by key.  `meetsO … [(k, tv)]` (the loop on a one-element list) is the
  condition the spec puts on one target binding; a target map is met iff every binding's condition
  holds, and a binding's condition only looks at `live[k]` and `lastApplied[k]`.  This makes edits of
  the live object / last-applied tree at one key (the annotation write, the owner-reference write, a
  create overlay) compositional.
-/
import Koreo.Lemmas.Compare
namespace Koreo.Compare
open Koreo Koreo.JVal

section
variable (m : Mode) (d : Dirs) (L LA : List (String × JVal))

theorem meetsO_cons_split (k : String) (tv : JVal) (rest : List (String × JVal)) :
    meetsO m d L LA ((k, tv) :: rest) = (meetsO m d L LA [(k, tv)] && meetsO m d L LA rest) := by
  rw [meetsO.eq_2, meetsO.eq_2 m d L LA k tv [], meetsO.eq_1, Bool.and_true]

theorem meetsO_forall : ∀ tkvs : List (String × JVal),
    meetsO m d L LA tkvs = true ↔ ∀ kv ∈ tkvs, meetsO m d L LA [kv] = true := by
  intro tkvs
  induction tkvs with
  | nil => simp [meetsO.eq_1]
  | cons kv rest ih =>
    obtain ⟨k, tv⟩ := kv
    rw [meetsO_cons_split, Bool.and_eq_true, ih]
    constructor
    · rintro ⟨h1, h2⟩ kv hkv
      rcases List.mem_cons.mp hkv with e | h
      · rw [e]; exact h1
      · exact h2 kv h
    · intro h
      exact ⟨h _ (List.mem_cons_self ..), fun kv hkv => h kv (List.mem_cons_of_mem _ hkv)⟩

/-- a binding's condition depends on the live map and the last-applied map only at its own key -/
theorem key_congr {L' LA' : List (String × JVal)} (k : String) (tv : JVal)
    (h1 : lookup k L' = lookup k L) (h2 : laVal LA' k = laVal LA k) :
    meetsO m d L' LA' [(k, tv)] = meetsO m d L LA [(k, tv)] := by
  rw [meetsO.eq_2, meetsO.eq_2, meetsO.eq_1, meetsO.eq_1]
  unfold cmpValue
  rw [h1, h2]

theorem key_dir (k : String) (tv : JVal) (h : isDirective k = true) : meetsO m d L LA [(k, tv)] = true := by
  rw [meetsO_cons_dir _ _ _ _ _ _ _ h, meetsO.eq_1]
end

theorem compared_full' (d : Dirs) (k : String) (h : isDirective k = false) : compared .full d k = true := by
  show (!isDirective k && !(Mode.full == Mode.excl && _)) = true
  rw [h]; rfl

/-- the condition on a binding whose target value is not a list: the key is compared plainly and the
    compared value meets the target value -/
theorem key_nonarr_iff (d : Dirs) (L LA : List (String × JVal)) (k : String) (tv : JVal)
    (hd : isDirective k = false) (ha : isArr tv = false) :
    meetsO .full d L LA [(k, tv)] = true ↔
      fieldsFor k d.asMap = none ∧ ∃ cv, cmpValue d k L (laVal LA k) = some cv ∧
        meetsB .full tv cv (laVal LA k) = true := by
  have hc := compared_full' d k hd
  cases hcv : cmpValue d k L (laVal LA k) with
  | none =>
    rw [meetsO_cons_missing _ _ _ _ _ _ _ hc hcv]
    constructor
    · intro h; cases h
    · rintro ⟨_, cv, h, _⟩; cases h
  | some cv =>
    cases hf : fieldsFor k d.asMap with
    | some fields =>
      rw [meetsO_cons_keyedBad _ _ _ _ _ _ _ hc hcv hf (Or.inl ha)]
      constructor
      · intro h; cases h
      · rintro ⟨h, _⟩; cases h
    | none =>
      rw [meetsO_cons_plain _ _ _ _ _ _ _ hc hcv hf, meetsO.eq_1, Bool.and_true, ha, Bool.and_false]
      simp only [Bool.false_eq_true, ↓reduceIte]
      constructor
      · intro h; exact ⟨trivial, cv, rfl, h⟩
      · rintro ⟨_, cv', h1, h2⟩
        cases h1; exact h2

/-- the live map and the last-applied tree of a met target map may be replaced by any others under
    which every binding's condition still holds -/
theorem meets_obj_change (tkvs L L' : List (String × JVal)) (la la' : JVal)
    (h : meetsB .full (.obj tkvs) (.obj L) la = true) (hla : laMapOk la' = true)
    (hk : ∀ kv ∈ tkvs, meetsO .full (specDirs tkvs) L (laObjKvs la) [kv] = true →
      meetsO .full (specDirs tkvs) L' (laObjKvs la') [kv] = true) :
    meetsB .full (.obj tkvs) (.obj L') la' = true := by
  rw [meetsB.eq_1, Bool.and_eq_true] at h ⊢
  refine ⟨by rw [hla]; rfl, ?_⟩
  rw [meetsO_forall] at h ⊢
  exact fun kv hkv => hk kv hkv (h.2 kv hkv)

theorem laVal_insert_ne (k k0 : String) (v : JVal) (l : List (String × JVal)) (h : k0 ≠ k) :
    laVal (JVal.insert k0 v l) k = laVal l k := by
  unfold laVal
  have : lookup k (JVal.insert k0 v l) = lookup k l := by
    induction l with
    | nil => simp [JVal.insert, lookup, h]
    | cons kv rest ih =>
      obtain ⟨k', v'⟩ := kv
      by_cases h1 : k' = k0
      · subst h1; simp [JVal.insert, lookup, h]
      · by_cases h2 : k' = k
        · subst h2; simp [JVal.insert, lookup, h1]
        · simp [JVal.insert, lookup, h1, h2, ih]
  rw [this]

end Koreo.Compare
