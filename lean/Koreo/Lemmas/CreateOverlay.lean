/-
  C04: the target with a non-contradicting create overlay merged in (and the owner references written)
  still meets the target, with itself as last-applied tree.
-/
import Koreo.CreateOverlay
import Koreo.Lemmas.Overlay
import Koreo.Lemmas.CompareWrite
import Koreo.Lemmas.Reconcile45
namespace Koreo.R45
open Koreo Koreo.JVal Koreo.Compare Koreo.Overlay

theorem ncO_lookup (tkvs : List (String × JVal)) (k : String) (tv : JVal) (hk : isDirective k = false)
    (hl : lookup k tkvs = some tv) : ∀ (kvs : List (String × OSpec JVal)) (s : OSpec JVal),
    ncO tkvs kvs = true → specLookup k kvs = some s → ncV tv s = true := by
  intro kvs
  induction kvs with
  | nil => intro s _ h; simp [specLookup] at h
  | cons ks rest ih =>
    intro s hn hs
    obtain ⟨k', s'⟩ := ks
    rw [ncO.eq_2, Bool.and_eq_true] at hn
    by_cases e : k' = k
    · subst e
      simp only [specLookup, ↓reduceIte, Option.some.injEq] at hs
      subst hs
      have := hn.1
      rw [hk, Bool.false_or, hl] at this
      exact this
    · simp only [specLookup, e, ↓reduceIte] at hs
      exact ih s hn.2 hs

theorem ncV_nonarr {tv : JVal} {s : OSpec JVal} (h : ncV tv s = true) : isArr tv = false := by
  cases s with
  | leaf v =>
    rw [ncV.eq_1, Bool.and_eq_true, Bool.and_eq_true] at h
    cases tv <;> simp_all [isScalar, isArr]
  | node kvs =>
    cases tv <;> first | rfl | (rw [ncV.eq_def] at h; simp at h)

mutual
theorem mergeV_meets (s : OSpec JVal) (t : JVal) (hw : wfB t = true) (hn : noDupB t = true) (hs : s.WF)
    (hc : ncV t s = true) :
    meetsB .full t (strip (mergeV (some t) s)) (strip (mergeV (some t) s)) = true := by
  match s with
  | .leaf v =>
    rw [ncV.eq_1, Bool.and_eq_true, Bool.and_eq_true] at hc
    rw [mergeV, strip_scalar v hc.1.2]
    cases t <;> first | (rw [meetsB.eq_def]; exact hc.2) | (simp [isScalar] at hc)
  | .node kvs =>
    match t with
    | .obj tkvs =>
      rw [ncV.eq_2] at hc
      have hwfo : WFO kvs := hs
      have hbase := meets_strip_self (.obj tkvs) hw hn
      rw [strip.eq_1] at hbase
      show meetsB .full (.obj tkvs) (strip (.obj (mergeO tkvs kvs))) (strip (.obj (mergeO tkvs kvs))) = true
      rw [strip.eq_1]
      have hn' := hn
      rw [noDupB.eq_2, Bool.and_eq_true] at hn'
      refine meets_obj_change tkvs _ _ _ _ hbase rfl ?_
      rintro ⟨k, tv⟩ hkv hold
      simp only [laObjKvs] at hold ⊢
      by_cases hd : isDirective k = true
      · exact key_dir _ _ _ _ _ _ hd
      · have hd : isDirective k = false := by simpa using hd
        have hl := mem_lookup_nodup tkvs k tv hn'.1 hkv
        have hlook : lookup k (stripO (mergeO tkvs kvs)) =
            (match specLookup k kvs with
             | none => some (strip tv)
             | some s' => some (strip (mergeV (some tv) s'))) := by
          rw [lookup_stripO k hd, mergeO_lookup k kvs hwfo tkvs, hl]
          cases specLookup k kvs <;> rfl
        cases hsl : specLookup k kvs with
        | none =>
          rw [hsl] at hlook
          simp only [] at hlook
          have e1 : lookup k (stripO (mergeO tkvs kvs)) = lookup k (stripO tkvs) := by
            rw [hlook, lookup_stripO k hd, hl]; rfl
          rw [key_congr _ _ (stripO tkvs) (stripO tkvs) k tv e1 (by simp [laVal, e1])]
          exact hold
        | some s' =>
          rw [hsl] at hlook
          simp only [] at hlook
          have hcs := ncO_lookup tkvs k tv hd hl kvs s' hc hsl
          have ha := ncV_nonarr hcs
          have hwt : wfB tv = true := wf_sub hw hl
          have hnt : noDupB tv = true := nodup_sub hn hl
          have ih := mergeO_meets kvs k s' hsl hwfo tv hwt hnt hcs
          obtain ⟨hf, _⟩ := (key_nonarr_iff _ _ _ _ _ hd ha).mp hold
          have hlv : laVal (stripO (mergeO tkvs kvs)) k = strip (mergeV (some tv) s') := by
            simp [laVal, hlook]
          refine (key_nonarr_iff _ _ _ _ _ hd ha).mpr ⟨hf, strip (mergeV (some tv) s'), ?_, ?_⟩
          · simp only [cmpValue, hlv, hlook, ite_self]
          · rw [hlv]; exact ih
    | .null | .bool _ | .int _ | .flt _ | .str _ | .arr _ => rw [ncV.eq_def] at hc; simp at hc
termination_by structural s
theorem mergeO_meets (kvs : List (String × OSpec JVal)) (k : String) (s : OSpec JVal)
    (hl : specLookup k kvs = some s) (hs : WFO kvs) (tv : JVal) (hw : wfB tv = true) (hn : noDupB tv = true)
    (hc : ncV tv s = true) :
    meetsB .full tv (strip (mergeV (some tv) s)) (strip (mergeV (some tv) s)) = true := by
  match kvs with
  | [] => simp [specLookup] at hl
  | (k', s') :: rest =>
    obtain ⟨_, hs1, hs2⟩ := hs
    by_cases e : k' = k
    · simp only [specLookup, e, ↓reduceIte, Option.some.injEq] at hl
      subst hl
      exact mergeV_meets s' tv hw hn hs1 hc
    · simp only [specLookup, e, ↓reduceIte] at hl
      exact mergeO_meets rest k s hl hs2 tv hw hn hc
termination_by structural kvs
end

/-- the stripped create view meets the target with itself as last-applied tree -/
theorem create_view_meets (t cv : JVal) (ov : List (String × OSpec JVal)) (refs : Option JVal)
    (hw : wfB t = true) (hn : noDupB t = true) (hf : ownerRefsFree t = true)
    (hov : WFO ov) (hc : noContradict t ov = true) (hv : createViewOf t ov refs = some cv) :
    meetsB .full t (strip cv) (strip cv) = true := by
  match t, hc, hv, hf with
  | .obj tkvs, hc, hv, hf =>
    simp only [noContradict] at hc
    have hm := mergeV_meets (.node ov) (.obj tkvs) hw hn hov (by rw [ncV.eq_2]; exact hc)
    have hmv : mergeV (some (.obj tkvs)) (.node ov) = .obj (mergeO tkvs ov) := rfl
    rw [hmv, strip.eq_1] at hm
    simp only [createViewOf] at hv
    cases refs with
    | none =>
      simp only [Option.some.injEq] at hv
      subst hv; rw [strip.eq_1]; exact hm
    | some r =>
      simp only [setOwnerRefs] at hv
      cases hmd : lookup "metadata" (mergeO tkvs ov) with
      | none => rw [hmd] at hv; simp at hv
      | some md =>
        rw [hmd] at hv
        cases md with
        | obj mm =>
          simp only [Option.some.injEq] at hv
          subst hv
          rw [strip.eq_1, stripO_insert _ _ (by decide), strip.eq_1, stripO_insert _ _ (by decide)]
          have hls : lookup "metadata" (stripO (mergeO tkvs ov)) = some (.obj (stripO mm)) := by
            rw [lookup_stripO _ (by decide), hmd]; rfl
          exact owner_write (strip r) tkvs _ _ hm hn hf hls
        | null | bool _ | int _ | flt _ | str _ | arr _ => simp at hv

/-- reading the annotation of a freshly built body -/
theorem extract_annotated (c : Codec) (s : String) (hs : s ≠ "") (kvs0 mkvs0 akvs0 : List (String × JVal)) :
    extractLastApplied c (annotated s kvs0 mkvs0 akvs0) = c.loads s := by
  have hne : (s != "") = true := by simpa using hs
  simp only [annotated, extractLastApplied, Compare.lookup_insert_self, truthy, insert_ne_nil, Bool.not_false,
    Bool.false_eq_true, ↓reduceIte, hne, Bool.not_true]

/-- the body `_prepare_for_api` builds from any view -/
theorem prepareForApi_shape (c : Codec) (x body : JVal) (h : prepareForApi c x = some body) :
    ∃ kvs S', strip x = .obj kvs ∧ body = .obj S' ∧
      setAnnotation lastAppliedAnnotation (.str (c.dumps (.obj kvs))) kvs = some S' ∧
      ∃ mkvs akvs, body = annotated (c.dumps (.obj kvs)) kvs mkvs akvs ∧
        (lookup "metadata" kvs).getD (.obj []) = .obj mkvs ∧
        (lookup "annotations" mkvs).getD (.obj []) = .obj akvs := by
  unfold prepareForApi at h
  cases hx : strip x with
  | obj kvs =>
    rw [hx] at h
    simp only [] at h
    cases hs : setAnnotation lastAppliedAnnotation (.str (c.dumps (.obj kvs))) kvs with
    | none => rw [hs] at h; simp at h
    | some S' =>
      rw [hs] at h
      simp only [Option.map_some, Option.some.injEq] at h
      refine ⟨kvs, S', rfl, h.symm, hs, ?_⟩
      unfold setAnnotation at hs
      cases hm : (lookup "metadata" kvs).getD (.obj []) with
      | obj mkvs =>
        rw [hm] at hs; simp only [] at hs
        cases ha : (lookup "annotations" mkvs).getD (.obj []) with
        | obj akvs =>
          rw [ha] at hs; simp only [Option.some.injEq] at hs
          exact ⟨mkvs, akvs, by rw [← h, ← hs]; rfl, by first | rfl | exact hm, by first | rfl | exact ha⟩
        | null | bool _ | int _ | flt _ | str _ | arr _ => rw [ha] at hs; simp at hs
      | null | bool _ | int _ | flt _ | str _ | arr _ => rw [hm] at hs; simp at hs
  | null | bool _ | int _ | flt _ | str _ | arr _ => rw [hx] at h; simp at h

/-- what any view that meets the target gives once `_prepare_for_api` has written the annotation:
    the body meets the target, and its annotation reads back as the stripped view -/
theorem view_body_facts (c : Codec) (t x body : JVal) (hn : noDupB t = true) (ha : annFree t = true)
    (hm : meetsB .full t (strip x) (strip x) = true) (hb : prepareForApi c x = some body)
    (hr : c.reads (strip x)) :
    meetsB .full t body (strip x) = true ∧ extractLastApplied c body = some (strip x) := by
  obtain ⟨kvs, S', hx, hbody, hs, mkvs, akvs, hann, _, _⟩ := prepareForApi_shape c x body hb
  match t, hn, ha, hm with
  | .obj tkvs, hn, ha, hm =>
    rw [hx] at hm hr ⊢
    constructor
    · rw [hbody]; exact ann_write _ tkvs kvs S' _ hm hn ha hs
    · rw [hann, extract_annotated c _ hr.1]; exact hr.2
  | .null, _, ha, _ | .bool _, _, ha, _ | .int _, _, ha, _ | .flt _, _, ha, _ | .str _, _, ha, _
  | .arr _, _, ha, _ => simp [annFree] at ha

end Koreo.R45
