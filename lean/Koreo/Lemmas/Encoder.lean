/-
  Helper lemmas for C11 (`Koreo/Props/C11.lean`): digit strings, the numeral regex against celpy's
  number grammar, the escape-aware scanners against `escBody`, token texts, parser round trip.
  Core Lean only.
-/
import Koreo.Encoder

namespace Koreo.Encoder

set_option linter.unusedSimpArgs false

/-! ## digits, `str(int)`, `repr(float)` -/

theorem digitChar_isDigit : ∀ d, d < 10 → isDigit (digitChar d) = true := by decide
theorem digitChar_val : ∀ d, d < 10 → (digitChar d).toNat - 48 = d := by decide

theorem foldl_digits (b : Str) (acc : Nat) :
    b.foldl (fun a c => a * 10 + (c.toNat - 48)) acc
      = acc * 10 ^ b.length + b.foldl (fun a c => a * 10 + (c.toNat - 48)) 0 := by
  induction b generalizing acc with
  | nil => simp
  | cons c b ih =>
    simp only [List.foldl_cons, List.length_cons]
    rw [ih, ih (0 * 10 + _)]
    simp only [Nat.pow_succ]
    grind

theorem digitsVal_eq (s : Str) : digitsVal s = s.foldl (fun a c => a * 10 + (c.toNat - 48)) 0 := rfl

theorem digitsVal_append (a b : Str) : digitsVal (a ++ b) = digitsVal a * 10 ^ b.length + digitsVal b := by
  simp only [digitsVal_eq]
  rw [List.foldl_append, foldl_digits]

theorem renderNat_spec (n : Nat) :
    (renderNat n).all isDigit = true ∧ renderNat n ≠ [] ∧ digitsVal (renderNat n) = n := by
  induction n using Nat.strongRecOn with
  | _ n ih =>
    rw [renderNat]
    split
    · rename_i h
      refine ⟨by simp [digitChar_isDigit n h], by simp, ?_⟩
      simp [digitsVal_eq, digitChar_val n h]
    · rename_i h
      have hlt : n / 10 < n := by omega
      obtain ⟨h1, h2, h3⟩ := ih (n / 10) hlt
      have hm : n % 10 < 10 := Nat.mod_lt _ (by decide)
      refine ⟨?_, by simp, ?_⟩
      · simp [List.all_append, h1, digitChar_isDigit _ hm]
      · rw [digitsVal_append, h3]
        simp [digitsVal_eq, digitChar_val _ hm]
        omega

theorem normDec_mul10 (neg : Bool) (m : Nat) (x : Int) : normDec neg (m * 10) (x - 1) = normDec neg m x := by
  by_cases hm : m = 0
  · subst hm; simp [normDec]
  · rw [normDec]
    have h1 : m * 10 ≠ 0 := by omega
    simp [h1]
    

theorem span_digits (ds rest : Str) (h : ds.all isDigit = true) (hr : ∀ c r, rest = c :: r → isDigit c = false) :
    (ds ++ rest).takeWhile isDigit = ds ∧ (ds ++ rest).dropWhile isDigit = rest := by
  induction ds with
  | nil =>
    cases rest with
    | nil => simp
    | cons c r => simp [hr c r rfl]
  | cons d ds ih =>
    simp only [List.all_cons, Bool.and_eq_true] at h
    simp [h.1, ih h.2]

theorem renderNat_head (n : Nat) : ∃ c r, renderNat n = c :: r ∧ isDigit c = true := by
  obtain ⟨h1, h2, _⟩ := renderNat_spec n
  cases hr : renderNat n with
  | nil => exact absurd hr h2
  | cons c r =>
    rw [hr] at h1
    simp only [List.all_cons, Bool.and_eq_true] at h1
    exact ⟨c, r, rfl, h1.1⟩

theorem isDigit_ne_minus (c : Char) (h : isDigit c = true) : c ≠ '-' := by
  intro e; subst e; revert h; decide

theorem lexUnsigned_renderNat (neg : Bool) (k : Nat) :
    lexUnsigned neg (renderNat k) = some (.int (signed neg k)) := by
  obtain ⟨h1, h2, h3⟩ := renderNat_spec k
  have := span_digits (renderNat k) [] h1 (by intro c r h; cases h)
  simp only [List.append_nil] at this
  simp [lexUnsigned, this.1, this.2, lexAfter, h2, h3]

theorem lexNumber_renderInt (n : Int) : lexNumber (renderInt n) = some (.int n) := by
  unfold renderInt
  split
  · rename_i hn
    simp only [lexNumber, if_true]
    rw [lexUnsigned_renderNat]
    simp only [signed, if_true]
    congr 2; omega
  · rename_i hn
    obtain ⟨c, r, hcr, hd⟩ := renderNat_head n.natAbs
    have hne := isDigit_ne_minus c hd
    rw [hcr]
    simp only [lexNumber, hne, if_false]
    rw [← hcr, lexUnsigned_renderNat]
    simp only [signed]
    congr 2
    simp; omega

theorem fracDigits_all (r : Nat) : (fracDigits r).all isDigit = true := by
  unfold fracDigits; split <;> decide

theorem lexUnsigned_flt (neg : Bool) (q r : Nat) (hr : r < 8) :
    lexUnsigned neg (renderNat q ++ '.' :: fracDigits r) = some (normDec neg ((q * 8 + r) * 125) (-3)) := by
  obtain ⟨h1, h2, h3⟩ := renderNat_spec q
  have hs := span_digits (renderNat q) ('.' :: fracDigits r) h1
    (by intro c r h; cases h; decide)
  have hf := span_digits (fracDigits r) [] (fracDigits_all r) (by intro c r h; cases h)
  simp only [List.append_nil] at hf
  simp only [lexUnsigned, hs.1, hs.2, lexAfter, if_true, hf.1, hf.2, lexExp, h2, false_and, if_false,
    Option.getD_none, digitsVal_append, h3]
  have cases8 : r = 0 ∨ r = 1 ∨ r = 2 ∨ r = 3 ∨ r = 4 ∨ r = 5 ∨ r = 6 ∨ r = 7 := by omega
  rcases cases8 with h | h | h | h | h | h | h | h <;> subst h <;>
    simp only [fracDigits, List.length_cons, List.length_nil, digitsVal_eq, List.foldl_cons, List.foldl_nil]
  all_goals simp only [Nat.zero_mul, Nat.zero_add, Nat.reducePow, Nat.reduceMul, Nat.reduceAdd, Nat.reduceSub, Char.reduceToNat]
  · -- "0"
    have e : (q * 8 + 0) * 125 = (q * 10 + 0) * 10 * 10 := by omega
    rw [e, show ((-3 : Int)) = (0 - ((1 : Nat) : Int)) - 1 - 1 by omega, normDec_mul10, normDec_mul10]
  · have e : (q * 8 + 1) * 125 = q * 1000 + 125 := by omega
    rw [e]; rfl
  · have e : (q * 8 + 2) * 125 = (q * 100 + 25) * 10 := by omega
    rw [e, show ((-3 : Int)) = (0 - ((2 : Nat) : Int)) - 1 by omega, normDec_mul10]
  · have e : (q * 8 + 3) * 125 = q * 1000 + 375 := by omega
    rw [e]; rfl
  · have e : (q * 8 + 4) * 125 = (q * 10 + 5) * 10 * 10 := by omega
    rw [e, show ((-3 : Int)) = (0 - ((1 : Nat) : Int)) - 1 - 1 by omega, normDec_mul10, normDec_mul10]
  · have e : (q * 8 + 5) * 125 = q * 1000 + 625 := by omega
    rw [e]; rfl
  · have e : (q * 8 + 6) * 125 = (q * 100 + 75) * 10 := by omega
    rw [e, show ((-3 : Int)) = (0 - ((2 : Nat) : Int)) - 1 by omega, normDec_mul10]
  · have e : (q * 8 + 7) * 125 = q * 1000 + 875 := by omega
    rw [e]; rfl

theorem lexNumber_renderFlt (e : Int) :
    lexNumber (renderFlt e) = some (normDec (decide (e < 0)) (e.natAbs * 125) (-3)) := by
  have hr : e.natAbs % 8 < 8 := Nat.mod_lt _ (by decide)
  have hq : e.natAbs / 8 * 8 + e.natAbs % 8 = e.natAbs := by omega
  unfold renderFlt
  split
  · rename_i hn
    simp only [List.cons_append, List.nil_append, lexNumber, if_true]
    rw [lexUnsigned_flt _ _ _ hr, hq]
    simp [hn]
  · rename_i hn
    obtain ⟨c, r, hcr, hd⟩ := renderNat_head (e.natAbs / 8)
    have hne := isDigit_ne_minus c hd
    simp only [List.nil_append]
    rw [hcr]
    simp only [List.cons_append, lexNumber, hne, if_false]
    rw [← List.cons_append, ← hcr, lexUnsigned_flt _ _ _ hr, hq]
    simp [hn]

/-! ## the numeral regex refines celpy's number grammar -/

theorem splitExp_nil_iff (t : Str) : splitExp t = some none ↔ t = [] := by
  constructor
  · intro h
    cases t with
    | nil => rfl
    | cons l t1 =>
      exfalso
      simp only [splitExp] at h
      split at h
      · cases t1 with
        | nil => simp at h
        | cons s t2 =>
          simp only at h
          split at h
          · split at h <;> simp at h
          · split at h <;> simp at h
      · simp at h
  · intro h; subst h; rfl

theorem splitExp_lexExp (t : Str) (e) (h : splitExp t = some (some e)) :
    lexExp t = some (some (expVal (some e))) := by
  cases t with
  | nil => simp [splitExp] at h
  | cons l t1 =>
    simp only [splitExp] at h
    simp only [lexExp]
    split at h
    · rename_i hl
      simp only [hl, if_true]
      cases t1 with
      | nil => simp at h
      | cons s t2 =>
        simp only at h ⊢
        split at h
        · rename_i hs
          split at h
          · rename_i hd
            simp only [Option.some.injEq] at h
            subst h
            rcases hs with hs | hs
            · subst hs; simp [hd, expVal]
            · subst hs; simp [hd, expVal]
          · simp at h
        · rename_i hs
          have h1 : s ≠ '+' := fun e => hs (Or.inl e)
          have h2 : s ≠ '-' := fun e => hs (Or.inr e)
          split at h
          · rename_i hd
            simp only [Option.some.injEq] at h
            subst h
            simp [h1, h2, hd, expVal]
          · simp at h
    · simp at h

theorem splitAfter_lexAfter (neg : Bool) (ip s2 : Str) (p : NumParts) (h : splitAfter neg ip s2 = some p) :
    lexAfter neg ip s2 = some p.value := by
  unfold splitAfter at h
  by_cases hip : ip = []
  · simp [hip] at h
  · simp only [hip, if_false] at h
    cases s2 with
    | nil =>
      simp only [Option.some.injEq] at h
      subst h
      simp [lexAfter, hip, NumParts.value]
    | cons c s3 =>
      simp only at h
      simp only [lexAfter]
      by_cases hc : c = '.'
      · simp only [hc, if_true] at h ⊢
        by_cases hf : List.takeWhile isDigit s3 = []
        · simp [hf] at h
        · simp only [hf, if_false] at h
          split at h
          · rename_i ex hex
            simp only [Option.some.injEq] at h
            subst h
            simp only [hip, false_and, if_false]
            cases ex with
            | none =>
              rw [(splitExp_nil_iff _).1 hex]
              simp [lexExp, NumParts.value, expVal]
            | some e =>
              rw [splitExp_lexExp _ _ hex]
              simp [NumParts.value]
          · simp at h
      · simp only [hc, if_false] at h ⊢
        split at h
        · rename_i ex hex
          simp only [Option.some.injEq] at h
          subst h
          simp only [hip, if_false]
          cases ex with
          | none => simp [(splitExp_nil_iff _)] at hex
          | some e =>
            rw [splitExp_lexExp _ _ hex]
            simp [NumParts.value]
        · simp at h

theorem isNumeral_lexNumber (s : Str) (p : NumParts) (h : splitNumeral s = some p) :
    lexNumber s = some p.value := by
  cases s with
  | nil => simp [splitNumeral] at h
  | cons c r =>
    simp only [splitNumeral] at h
    simp only [lexNumber]
    split at h
    · rename_i hc
      simp only [hc, if_true]
      exact splitAfter_lexAfter _ _ _ _ h
    · rename_i hc
      simp only [hc, if_false]
      exact splitAfter_lexAfter _ _ _ _ h

theorem splitExp_text (t : Str) (ex) (h : splitExp t = some ex) :
    expText ex = t := by
  cases t with
  | nil => simp [splitExp] at h; subst h; rfl
  | cons l t1 =>
    simp only [splitExp] at h
    split at h
    · cases t1 with
      | nil => simp at h
      | cons s t2 =>
        simp only at h
        split at h
        · split at h
          · simp only [Option.some.injEq] at h; subst h; rfl
          · simp at h
        · split at h
          · simp only [Option.some.injEq] at h; subst h; rfl
          · simp at h
    · simp at h

theorem splitAfter_text (neg : Bool) (ip s2 : Str) (p : NumParts) (h : splitAfter neg ip s2 = some p) :
    p.text = (if neg then ['-'] else []) ++ ip ++ s2 ∧ p.neg = neg ∧ p.ip = ip := by
  unfold splitAfter at h
  by_cases hip : ip = []
  · simp [hip] at h
  · simp only [hip, if_false] at h
    cases s2 with
    | nil =>
      simp only [Option.some.injEq] at h
      subst h
      simp [NumParts.text, fracText, expText]
    | cons c s3 =>
      simp only at h
      by_cases hc : c = '.'
      · simp only [hc, if_true] at h
        by_cases hf : List.takeWhile isDigit s3 = []
        · simp [hf] at h
        · simp only [hf, if_false] at h
          split at h
          · rename_i ex hex
            simp only [Option.some.injEq] at h
            subst h
            have := splitExp_text _ _ hex
            simp only [NumParts.text, hc, fracText]
            rw [this]
            simp [List.takeWhile_append_dropWhile]
          · simp at h
      · simp only [hc, if_false] at h
        split at h
        · rename_i ex hex
          simp only [Option.some.injEq] at h
          subst h
          have := splitExp_text _ _ hex
          simp only [NumParts.text, fracText]
          rw [this]
          simp
        · simp at h

theorem splitNumeral_text (s : Str) (p : NumParts) (h : splitNumeral s = some p) : p.text = s := by
  cases s with
  | nil => simp [splitNumeral] at h
  | cons c r =>
    simp only [splitNumeral] at h
    split at h
    · rename_i hc
      obtain ⟨h1, _, _⟩ := splitAfter_text _ _ _ _ h
      rw [h1, hc]
      simp [List.takeWhile_append_dropWhile]
    · obtain ⟨h1, _, _⟩ := splitAfter_text _ _ _ _ h
      rw [h1]
      simp [List.takeWhile_append_dropWhile]

/-- a numeral starts with `-` or a digit -/
theorem splitNumeral_head (s : Str) (h : isNumeral s = true) :
    ∃ c r, s = c :: r ∧ (c = '-' ∨ isDigit c = true) := by
  cases s with
  | nil => simp [isNumeral, splitNumeral] at h
  | cons c r =>
    refine ⟨c, r, rfl, ?_⟩
    by_cases hc : c = '-'
    · exact Or.inl hc
    · right
      simp only [isNumeral, splitNumeral, hc, if_false, splitUnsigned, splitAfter] at h
      by_cases hd : isDigit c = true
      · exact hd
      · simp [hd] at h

/-! ## strings -/

theorem decodeEscape_bs (t : Str) : decodeEscape ('\\' :: t) = some ('\\', 1) := by
  simp [decodeEscape, unescLetter, escTable, List.lookup]
theorem decodeEscape_q (t : Str) : decodeEscape ('"' :: t) = some ('"', 1) := by
  simp [decodeEscape, unescLetter, escTable, List.lookup]
theorem decodeEscape_n (t : Str) : decodeEscape ('n' :: t) = some ('\n', 1) := by
  simp [decodeEscape, unescLetter, escTable, List.lookup]
theorem decodeEscape_r (t : Str) : decodeEscape ('r' :: t) = some ('\r', 1) := by
  simp [decodeEscape, unescLetter, escTable, List.lookup]
theorem decodeEscape_t (t : Str) : decodeEscape ('t' :: t) = some ('\t', 1) := by
  simp [decodeEscape, unescLetter, escTable, List.lookup]

theorem hasQuote_cons (c : Char) (s : Str) : hasQuote (c :: s) = (decide (c = '"') || hasQuote s) := by
  simp [hasQuote]

/-- the short form: scanning the escaped body up to the closing quote gives back the text -/
theorem scanShort_escBody (s rest : Str) (hq : hasQuote s = false) :
    scanShort (escBody s ++ '"' :: rest) = some (s, rest) := by
  induction s with
  | nil => rw [escBody, List.nil_append, scanShort]; simp
  | cons c s ih =>
    rw [hasQuote_cons] at hq
    simp only [Bool.or_eq_false_iff, decide_eq_false_iff_not] at hq
    have ih := ih hq.2
    have hcq := hq.1
    simp only [escBody, escChar]
    by_cases h1 : c = '\\'
    · subst h1
      simp only [if_true, List.cons_append, List.nil_append]
      rw [scanShort]
      simp [decodeEscape_bs, ih, consFst]
    · by_cases h3 : c = '\n'
      · subst h3
        simp only [h1, hcq, if_false, if_true, List.cons_append, List.nil_append]
        rw [scanShort]
        simp [decodeEscape_n, ih, consFst]
      · by_cases h4 : c = '\r'
        · subst h4
          simp only [h1, hcq, h3, if_false, if_true, List.cons_append, List.nil_append]
          rw [scanShort]
          simp [decodeEscape_r, ih, consFst]
        · by_cases h5 : c = '\t'
          · subst h5
            simp only [h1, hcq, h3, h4, if_false, if_true, List.cons_append, List.nil_append]
            rw [scanShort]
            simp [decodeEscape_t, ih, consFst]
          · simp only [h1, hcq, h3, h4, h5, if_false, List.cons_append, List.nil_append]
            rw [scanShort]
            simp [h1, hcq, h3, ih, consFst]

/-- the long form: every quote of the text is escaped, so the first `"""` met is the closing one -/
theorem scanLong_escBody (s rest : Str) :
    scanLong (escBody s ++ '"' :: '"' :: '"' :: rest) = some (s, rest) := by
  induction s with
  | nil => rw [escBody, List.nil_append, scanLong]; simp
  | cons c s ih =>
    simp only [escBody, escChar]
    by_cases h1 : c = '\\'
    · subst h1
      simp only [if_true, List.cons_append, List.nil_append]
      rw [scanLong]
      simp [decodeEscape_bs, ih, consFst]
    · by_cases h2 : c = '"'
      · subst h2
        simp only [h1, if_false, if_true, List.cons_append, List.nil_append]
        rw [scanLong]
        simp [decodeEscape_q, ih, consFst]
      · by_cases h3 : c = '\n'
        · subst h3
          simp only [h1, h2, if_false, if_true, List.cons_append, List.nil_append]
          rw [scanLong]
          simp [decodeEscape_n, ih, consFst]
        · by_cases h4 : c = '\r'
          · subst h4
            simp only [h1, h2, h3, if_false, if_true, List.cons_append, List.nil_append]
            rw [scanLong]
            simp [decodeEscape_r, ih, consFst]
          · by_cases h5 : c = '\t'
            · subst h5
              simp only [h1, h2, h3, h4, if_false, if_true, List.cons_append, List.nil_append]
              rw [scanLong]
              simp [decodeEscape_t, ih, consFst]
            · simp only [h1, h2, h3, h4, h5, if_false, List.cons_append, List.nil_append]
              rw [scanLong]
              simp [h1, h2, h3, ih, consFst]

/-- the first character written for a non-quote character is not a quote -/
theorem escChar_head (c : Char) (hc : c ≠ '"') : ∃ d r, escChar c = d :: r ∧ d ≠ '"' := by
  unfold escChar
  by_cases h1 : c = '\\'
  · exact ⟨'\\', ['\\'], by simp [h1], by decide⟩
  · by_cases h3 : c = '\n'
    · exact ⟨'\\', ['n'], by simp [h3], by decide⟩
    · by_cases h4 : c = '\r'
      · exact ⟨'\\', ['r'], by simp [h4], by decide⟩
      · by_cases h5 : c = '\t'
        · exact ⟨'\\', ['t'], by simp [h5], by decide⟩
        · exact ⟨c, [], by simp [h1, hc, h3, h4, h5], hc⟩

theorem lexString_quoteStr (s : Str) : lexString (quoteStr s) = some s := by
  unfold quoteStr
  split
  · simp [lexString, scanLong_escBody, whole]
  · rename_i hq
    simp only [Bool.not_eq_true] at hq
    cases s with
    | nil => simp [lexString, escBody, scanShort, whole]
    | cons c s =>
      have hq' := hq
      rw [hasQuote_cons] at hq'
      simp only [Bool.or_eq_false_iff, decide_eq_false_iff_not] at hq'
      obtain ⟨d, r, hd, hdq⟩ := escChar_head c hq'.1
      have key := scanShort_escBody (c :: s) [] hq
      simp only [lexString, if_true]
      have hne : (escBody (c :: s) ++ ['"']).take 2 ≠ ['"', '"'] := by
        simp only [escBody, hd, List.cons_append]
        intro h
        cases hr : (r ++ escBody s ++ ['"']) with
        | nil => simp [hr] at h
        | cons x xs => simp [hr] at h; exact hdq h.1
      simp only [hne, if_false, key, whole]

theorem isDigit_quote : isDigit '"' = false := by decide

theorem lexNumber_quoteStr (s : Str) : lexNumber (quoteStr s) = none := by
  have h : ∃ r, quoteStr s = '"' :: r := by
    unfold quoteStr; split <;> exact ⟨_, rfl⟩
  obtain ⟨r, hr⟩ := h
  rw [hr]
  simp [lexNumber, lexUnsigned, lexAfter, List.takeWhile_cons, List.dropWhile_cons, isDigit_quote]

theorem encodeStr_of_nonnumeral (s : Str) (hn : isNumeral s = false) (he : startsWithEq s = false) :
    encodeStr s = quoteStr s := by
  unfold encodeStr
  simp only [hn, he, Bool.false_eq_true, if_false]
  split
  · rename_i h; subst h; rfl
  · rfl

/-! ## token texts -/

theorem toksText_append (a b : List Tok) : toksText (a ++ b) = toksText a ++ toksText b := by
  simp [toksText, List.flatMap_append]

theorem toksText_cons (t : Tok) (ts : List Tok) : toksText (t :: ts) = t.text ++ toksText ts := by
  simp [toksText, List.flatMap_cons]

mutual
theorem toksText_toks : ∀ v : JVal, toksText (toks v) = enc v
  | .null => by simp [toks, enc, toksText, Tok.text]
  | .bool b => by simp [toks, enc, toksText, Tok.text]
  | .int n => by simp [toks, enc, toksText, Tok.text]
  | .flt e => by simp [toks, enc, toksText, Tok.text]
  | .str s => by simp [toks, enc, toksText, Tok.text]
  | .arr [] => by simp [toks, enc, toksText, Tok.text]
  | .arr (x :: xs) => by
    simp only [toks, enc, toksText_cons, toksText_append, Tok.text, toksText_toks x, toksText_toksTail xs]
    simp [toksText]
  | .obj [] => by simp [toks, enc, toksText, Tok.text]
  | .obj ((k, v) :: kvs) => by
    simp only [toks, enc, toksText_cons, toksText_append, Tok.text, toksText_toks v, toksText_toksTailO kvs]
    simp [toksText]
theorem toksText_toksTail : ∀ xs : List JVal, toksText (toksTail xs) = encTail xs
  | [] => by simp [toksTail, encTail, toksText]
  | x :: xs => by
    simp only [toksTail, encTail, toksText_cons, toksText_append, Tok.text, toksText_toks x, toksText_toksTail xs]
    simp
theorem toksText_toksTailO : ∀ kvs : List (String × JVal), toksText (toksTailO kvs) = encTailO kvs
  | [] => by simp [toksTailO, encTailO, toksText]
  | (k, v) :: kvs => by
    simp only [toksTailO, encTailO, toksText_cons, toksText_append, Tok.text, toksText_toks v, toksText_toksTailO kvs]
    simp
end


/-! ## literal tokens and the parser -/

theorem isDigit_ne_quote (c : Char) (h : isDigit c = true) : c ≠ '"' := by
  intro e; subst e; revert h; decide

theorem litVal_num (t : Str) (n : CNum) (c : Char) (r : Str) (ht : t = c :: r)
    (hc : c = '-' ∨ isDigit c = true) (hl : lexNumber t = some n) : litVal t = some (.num n) := by
  subst ht
  have hq : c ≠ '"' := by
    rcases hc with h | h
    · subst h; decide
    · exact isDigit_ne_quote c h
  have hc' : c = '-' ∨ c = '.' ∨ isDigit c = true := by
    rcases hc with h | h
    · exact Or.inl h
    · exact Or.inr (Or.inr h)
  simp [litVal, hq, hc', hl]

theorem renderInt_head (n : Int) : ∃ c r, renderInt n = c :: r ∧ (c = '-' ∨ isDigit c = true) := by
  unfold renderInt
  split
  · exact ⟨'-', _, rfl, Or.inl rfl⟩
  · obtain ⟨c, r, hcr, hd⟩ := renderNat_head n.natAbs
    exact ⟨c, r, hcr, Or.inr hd⟩

theorem renderFlt_head (e : Int) : ∃ c r, renderFlt e = c :: r ∧ (c = '-' ∨ isDigit c = true) := by
  unfold renderFlt
  split
  · exact ⟨'-', _, rfl, Or.inl rfl⟩
  · obtain ⟨c, r, hcr, hd⟩ := renderNat_head (e.natAbs / 8)
    exact ⟨c, r ++ '.' :: fracDigits (e.natAbs % 8), by simp [hcr], Or.inr hd⟩

theorem litVal_renderInt (n : Int) : litVal (renderInt n) = some (.num (.int n)) := by
  obtain ⟨c, r, hcr, hc⟩ := renderInt_head n
  exact litVal_num _ _ c r hcr hc (lexNumber_renderInt n)

theorem litVal_renderFlt (e : Int) :
    litVal (renderFlt e) = some (.num (normDec (decide (e < 0)) (e.natAbs * 125) (-3))) := by
  obtain ⟨c, r, hcr, hc⟩ := renderFlt_head e
  exact litVal_num _ _ c r hcr hc (lexNumber_renderFlt e)

theorem litVal_quoteStr (s : Str) : litVal (quoteStr s) = some (.str s) := by
  have h : ∃ r, quoteStr s = '"' :: r := by
    unfold quoteStr; split <;> exact ⟨_, rfl⟩
  obtain ⟨r, hr⟩ := h
  have := lexString_quoteStr s
  rw [hr] at this ⊢
  simp [litVal, this]

theorem litVal_encodeStr (s : Str) (he : startsWithEq s = false) :
    litVal (encodeStr s) = some (numeraliseStr s) := by
  cases hn : isNumeral s with
  | true =>
    have hs : encodeStr s = s := by simp [encodeStr, hn]
    obtain ⟨c, r, hcr, hc⟩ := splitNumeral_head s hn
    unfold isNumeral at hn
    cases hp : splitNumeral s with
    | none => simp [hp] at hn
    | some p =>
      rw [hs]
      simp only [numeraliseStr, hp]
      exact litVal_num s _ c r hcr hc (isNumeral_lexNumber s p hp)
  | false =>
    rw [encodeStr_of_nonnumeral s hn he, litVal_quoteStr]
    unfold isNumeral at hn
    cases hp : splitNumeral s with
    | none => simp [numeraliseStr, hp]
    | some p => simp [hp] at hn


/-- tokens that can start a value -/
def Tok.opens : Tok → Bool
  | .lbrack | .lbrace | .lit _ => true
  | _ => false

theorem toks_head : ∀ v : JVal, ∃ t r, toks v = t :: r ∧ t.opens = true
  | .null => ⟨.lit nullText, [], by simp [toks], rfl⟩
  | .bool b => ⟨.lit (if b then trueText else falseText), [], by simp [toks], rfl⟩
  | .int n => ⟨.lit (renderInt n), [], by simp [toks], rfl⟩
  | .flt e => ⟨.lit (renderFlt e), [], by simp [toks], rfl⟩
  | .str s => ⟨.lit (encodeStr s.toList), [], by simp [toks], rfl⟩
  | .arr [] => ⟨.lbrack, [.rbrack], by simp [toks], rfl⟩
  | .arr (x :: xs) => ⟨.lbrack, toks x ++ toksTail xs ++ [.rbrack], by simp [toks], rfl⟩
  | .obj [] => ⟨.lbrace, [.rbrace], by simp [toks], rfl⟩
  | .obj ((k, v) :: kvs) =>
    ⟨.lbrace, .lit (quoteStr k.toList) :: .colon :: toks v ++ toksTailO kvs ++ [.rbrace], by simp [toks], rfl⟩

theorem toks_length_pos (v : JVal) : 1 ≤ (toks v).length := by
  obtain ⟨t, r, h, _⟩ := toks_head v
  simp [h]

theorem pVal_lit (f : Nat) (x : Str) (v : CVal) (ts : List Tok) (h : litVal x = some v) :
    pVal (f + 1) (.lit x :: ts) = some (v, ts) := by
  simp [pVal, h]

theorem pVal_lbrack (f : Nat) (ts : List Tok) (h : ∃ t r, ts = t :: r ∧ t.opens = true) :
    pVal (f + 1) (.lbrack :: ts) =
      match pVal f ts with
      | some (v, r1) => (match pTail f r1 with
        | some (vs, r2) => some (.arr (v :: vs), r2)
        | none => none)
      | none => none := by
  obtain ⟨t, r, rfl, ho⟩ := h
  cases t <;> simp [Tok.opens] at ho <;> (simp only [pVal]; try rfl)

theorem pVal_lbrace (f : Nat) (ts : List Tok) (h : ∃ x r, ts = .lit x :: r) :
    pVal (f + 1) (.lbrace :: ts) =
      match pEntry f ts with
      | some (kv, r1) => (match pTailO f r1 with
        | some (kvs, r2) => some (.obj (kv :: kvs), r2)
        | none => none)
      | none => none := by
  obtain ⟨x, r, rfl⟩ := h
  simp only [pVal]; try rfl

theorem succ_of_pos {f : Nat} (h : 1 ≤ f) : ∃ g, f = g + 1 := ⟨f - 1, by omega⟩

mutual
theorem pVal_toks : ∀ (v : JVal), noExpr v = true → ∀ (f : Nat) (rest : List Tok), (toks v).length ≤ f →
    pVal f (toks v ++ rest) = some (numeralise v, rest)
  | .null, _, f, rest, hf => by
    obtain ⟨g, rfl⟩ := succ_of_pos (Nat.le_trans (toks_length_pos _) hf)
    simp only [toks, List.cons_append, List.nil_append, numeralise]
    exact pVal_lit _ _ _ _ (by simp [litVal, nullText, trueText, falseText, isDigit])
  | .bool b, _, f, rest, hf => by
    obtain ⟨g, rfl⟩ := succ_of_pos (Nat.le_trans (toks_length_pos _) hf)
    simp only [toks, List.cons_append, List.nil_append, numeralise]
    cases b
    · exact pVal_lit _ _ _ _ (by simp [litVal, nullText, trueText, falseText, isDigit])
    · exact pVal_lit _ _ _ _ (by simp [litVal, nullText, trueText, falseText, isDigit])
  | .int n, _, f, rest, hf => by
    obtain ⟨g, rfl⟩ := succ_of_pos (Nat.le_trans (toks_length_pos _) hf)
    simp only [toks, List.cons_append, List.nil_append, numeralise]
    exact pVal_lit _ _ _ _ (litVal_renderInt n)
  | .flt e, _, f, rest, hf => by
    obtain ⟨g, rfl⟩ := succ_of_pos (Nat.le_trans (toks_length_pos _) hf)
    simp only [toks, List.cons_append, List.nil_append, numeralise]
    exact pVal_lit _ _ _ _ (litVal_renderFlt e)
  | .str s, hne, f, rest, hf => by
    obtain ⟨g, rfl⟩ := succ_of_pos (Nat.le_trans (toks_length_pos _) hf)
    simp only [toks, List.cons_append, List.nil_append, numeralise]
    simp only [noExpr, Bool.not_eq_true'] at hne
    exact pVal_lit _ _ _ _ (litVal_encodeStr _ hne)
  | .arr [], _, f, rest, hf => by
    obtain ⟨g, rfl⟩ := succ_of_pos (Nat.le_trans (toks_length_pos _) hf)
    simp [toks, pVal, numeralise, numeraliseL]
  | .arr (x :: xs), hne, f, rest, hf => by
    obtain ⟨g, rfl⟩ := succ_of_pos (Nat.le_trans (toks_length_pos _) hf)
    simp only [noExpr, noExprL, Bool.and_eq_true] at hne
    simp only [toks, List.length_cons, List.length_append, List.length_nil] at hf
    simp only [toks, List.cons_append, List.append_assoc, List.nil_append]
    have hh : ∃ t r, toks x ++ (toksTail xs ++ .rbrack :: rest) = t :: r ∧ t.opens = true := by
      obtain ⟨t, r, h, ho⟩ := toks_head x
      exact ⟨t, r ++ (toksTail xs ++ .rbrack :: rest), by simp [h], ho⟩
    rw [pVal_lbrack _ _ hh, pVal_toks x hne.1 g _ (by omega)]
    simp only []
    rw [pTail_toks xs hne.2 g rest (by omega)]
    simp [numeralise, numeraliseL]
  | .obj [], _, f, rest, hf => by
    obtain ⟨g, rfl⟩ := succ_of_pos (Nat.le_trans (toks_length_pos _) hf)
    simp [toks, pVal, numeralise, numeraliseO]
  | .obj ((k, v) :: kvs), hne, f, rest, hf => by
    obtain ⟨g, rfl⟩ := succ_of_pos (Nat.le_trans (toks_length_pos _) hf)
    simp only [noExpr, noExprO, Bool.and_eq_true] at hne
    simp only [toks, List.length_cons, List.length_append, List.length_nil] at hf
    simp only [toks, List.cons_append, List.append_assoc, List.nil_append]
    rw [pVal_lbrace _ _ ⟨_, _, rfl⟩]
    obtain ⟨g', rfl⟩ := succ_of_pos (show 1 ≤ g by omega)
    have he : pEntry (g' + 1) (.lit (quoteStr k.toList) :: .colon :: (toks v ++ (toksTailO kvs ++ .rbrace :: rest)))
        = some ((k.toList, numeralise v), toksTailO kvs ++ .rbrace :: rest) := by
      simp only [pEntry, lexString_quoteStr]
      rw [pVal_toks v hne.1 g' _ (by omega)]
    rw [he]
    simp only []
    rw [pTailO_toks kvs hne.2 (g' + 1) rest (by omega)]
    simp [numeralise, numeraliseO]
theorem pTail_toks : ∀ (xs : List JVal), noExprL xs = true → ∀ (f : Nat) (rest : List Tok),
    (toksTail xs).length + 1 ≤ f →
    pTail f (toksTail xs ++ .rbrack :: rest) = some (numeraliseL xs, rest)
  | [], _, f, rest, hf => by
    obtain ⟨g, rfl⟩ := succ_of_pos (show 1 ≤ f by omega)
    simp [toksTail, pTail, numeraliseL]
  | x :: xs, hne, f, rest, hf => by
    obtain ⟨g, rfl⟩ := succ_of_pos (show 1 ≤ f by omega)
    simp only [noExprL, Bool.and_eq_true] at hne
    simp only [toksTail, List.length_cons, List.length_append] at hf
    simp only [toksTail, List.cons_append, List.append_assoc, pTail]
    rw [pVal_toks x hne.1 g _ (by omega)]
    simp only []
    rw [pTail_toks xs hne.2 g rest (by omega)]
    simp [numeraliseL]
theorem pTailO_toks : ∀ (kvs : List (String × JVal)), noExprO kvs = true → ∀ (f : Nat) (rest : List Tok),
    (toksTailO kvs).length + 1 ≤ f →
    pTailO f (toksTailO kvs ++ .rbrace :: rest) = some (numeraliseO kvs, rest)
  | [], _, f, rest, hf => by
    obtain ⟨g, rfl⟩ := succ_of_pos (show 1 ≤ f by omega)
    simp [toksTailO, pTailO, numeraliseO]
  | (k, v) :: kvs, hne, f, rest, hf => by
    obtain ⟨g, rfl⟩ := succ_of_pos (show 1 ≤ f by omega)
    simp only [noExprO, Bool.and_eq_true] at hne
    simp only [toksTailO, List.length_cons, List.length_append] at hf
    simp only [toksTailO, List.cons_append, List.append_assoc, pTailO]
    obtain ⟨g', rfl⟩ := succ_of_pos (show 1 ≤ g by omega)
    have he : pEntry (g' + 1) (.lit (quoteStr k.toList) :: .colon :: (toks v ++ (toksTailO kvs ++ .rbrace :: rest)))
        = some ((k.toList, numeralise v), toksTailO kvs ++ .rbrace :: rest) := by
      simp only [pEntry, lexString_quoteStr]
      rw [pVal_toks v hne.1 g' _ (by omega)]
    rw [he]
    simp only []
    rw [pTailO_toks kvs hne.2 (g' + 1) rest (by omega)]
    simp [numeraliseO]
end


/-! ## the character-level tokenizer on emitted texts -/

/-- what can follow a token in an emitted text: the end, or one of `, ] } :` -/
def sepStart (rest : Str) : Prop :=
  rest = [] ∨ ∃ c r, rest = c :: r ∧ (c = ',' ∨ c = ']' ∨ c = '}' ∨ c = ':')

theorem sepStart_nil : sepStart [] := Or.inl rfl
theorem sepStart_comma (r : Str) : sepStart (',' :: r) := Or.inr ⟨_, _, rfl, Or.inl rfl⟩
theorem sepStart_rbrack (r : Str) : sepStart (']' :: r) := Or.inr ⟨_, _, rfl, Or.inr (Or.inl rfl)⟩
theorem sepStart_rbrace (r : Str) : sepStart ('}' :: r) := Or.inr ⟨_, _, rfl, Or.inr (Or.inr (Or.inl rfl))⟩
theorem sepStart_colon (r : Str) : sepStart (':' :: r) := Or.inr ⟨_, _, rfl, Or.inr (Or.inr (Or.inr rfl))⟩

/-- the first character of what follows satisfies none of the scanners' character classes -/
theorem sepStart_head (rest : Str) (h : sepStart rest) (c : Char) (r : Str) (hr : rest = c :: r) :
    isDigit c = false ∧ isIdentChar c = false ∧ c ≠ '.' ∧ c ≠ 'e' ∧ c ≠ 'E' ∧ c ≠ '"' := by
  rcases h with h | ⟨c', r', h, hc⟩
  · rw [h] at hr; cases hr
  · rw [h] at hr; cases hr
    rcases hc with hc | hc | hc | hc <;> subst hc <;> decide

theorem span_append (p : Char → Bool) (l rest : Str) (hr : ∀ c r, rest = c :: r → p c = false) :
    (l ++ rest).takeWhile p = l.takeWhile p ∧ (l ++ rest).dropWhile p = l.dropWhile p ++ rest := by
  induction l with
  | nil =>
    cases rest with
    | nil => simp
    | cons c r => simp [List.takeWhile_cons, List.dropWhile_cons, hr c r rfl]
  | cons d l ih =>
    by_cases hd : p d = true
    · simp [List.takeWhile_cons, List.dropWhile_cons, hd, ih.1, ih.2]
    · simp [List.takeWhile_cons, List.dropWhile_cons, hd]

theorem length_span (p : Char → Bool) (l : Str) : (l.takeWhile p).length + (l.dropWhile p).length = l.length := by
  rw [← List.length_append, List.takeWhile_append_dropWhile]

theorem expLen_sep (rest : Str) (h : sepStart rest) : expLen rest = 0 := by
  cases rest with
  | nil => rfl
  | cons c r =>
    obtain ⟨_, _, _, he, hE, _⟩ := sepStart_head _ h c r rfl
    simp [expLen, he, hE]

theorem splitExp_expLen (t rest : Str) (ex) (h : splitExp t = some ex) (hs : sepStart rest) :
    expLen (t ++ rest) = t.length := by
  have hnd : ∀ c r, rest = c :: r → isDigit c = false := fun c r hr => (sepStart_head _ hs c r hr).1
  cases t with
  | nil => simpa using expLen_sep rest hs
  | cons l t1 =>
    simp only [splitExp] at h
    split at h
    · rename_i hl
      cases t1 with
      | nil => simp at h
      | cons s t2 =>
        simp only at h
        split at h
        · rename_i hsg
          split at h
          · rename_i hd
            have := span_append isDigit t2 rest hnd
            have htw : t2.takeWhile isDigit = t2 := by
              have := span_digits t2 [] hd.2 (by intro c r h; cases h)
              simpa using this.1
            simp only [List.cons_append, expLen, hl, if_true, hsg, this.1, htw]
            simp [hd.1]; omega
          · simp at h
        · rename_i hsg
          split at h
          · rename_i hd
            have := span_append isDigit (s :: t2) rest hnd
            have htw : (s :: t2).takeWhile isDigit = s :: t2 := by
              have := span_digits (s :: t2) [] hd (by intro c r h; cases h)
              simpa using this.1
            simp only [List.cons_append] at this
            simp only [List.cons_append, expLen, hl, if_true, hsg, if_false, this.1, htw]
            simp; omega
          · simp at h
    · simp at h

/-- the part of a numeral after its integer digits is consumed completely, and nothing more -/
theorem splitAfter_numLenAfter (neg : Bool) (ip s2 rest : Str) (p : NumParts)
    (h : splitAfter neg ip s2 = some p) (hs : sepStart rest) :
    numLenAfter ip.length (s2 ++ rest) = some (ip.length + s2.length) := by
  have hnd : ∀ c r, rest = c :: r → isDigit c = false := fun c r hr => (sepStart_head _ hs c r hr).1
  unfold splitAfter at h
  by_cases hip : ip = []
  · simp [hip] at h
  · have hl : ip.length ≠ 0 := by simpa using hip
    simp only [hip, if_false] at h
    cases s2 with
    | nil =>
      cases rest with
      | nil => simp [numLenAfter, hl]
      | cons c r =>
        obtain ⟨_, _, hdot, _⟩ := sepStart_head _ hs c r rfl
        simp [numLenAfter, hl, hdot, expLen_sep _ hs]
    | cons c s3 =>
      simp only at h
      by_cases hc : c = '.'
      · simp only [hc, if_true] at h
        by_cases hf : List.takeWhile isDigit s3 = []
        · simp [hf] at h
        · simp only [hf, if_false] at h
          split at h
          · rename_i ex hex
            have hsp := span_append isDigit s3 rest hnd
            have hlen := length_span isDigit s3
            simp only [List.cons_append, numLenAfter, hc, if_true, hsp.1, hsp.2, hf, and_false, if_false,
              splitExp_expLen _ rest _ hex hs, List.length_cons]
            congr 1; omega
          · simp at h
      · simp only [hc, if_false] at h
        split at h
        · rename_i ex hex
          have := splitExp_expLen _ rest _ hex hs
          simp only [List.cons_append] at this
          simp only [List.cons_append, numLenAfter, hc, if_false, hl, this, List.length_cons]
        · simp at h

theorem numeral_numLen (x rest : Str) (h : isNumeral x = true) (hs : sepStart rest) :
    numLen (x ++ rest) = some x.length := by
  have hnd : ∀ c r, rest = c :: r → isDigit c = false := fun c r hr => (sepStart_head _ hs c r hr).1
  unfold isNumeral at h
  cases hp : splitNumeral x with
  | none => simp [hp] at h
  | some p =>
    cases x with
    | nil => simp [splitNumeral] at hp
    | cons c r =>
      simp only [splitNumeral, splitUnsigned] at hp
      simp only [List.cons_append, numLen]
      split at hp
      · rename_i hc
        have hsp := span_append isDigit r rest hnd
        have hlen := length_span isDigit r
        simp only [hc, if_true, hsp.1, hsp.2, splitAfter_numLenAfter _ _ _ rest _ hp hs, Option.map_some,
          List.length_cons]
        congr 1; omega
      · rename_i hc
        have hsp := span_append isDigit (c :: r) rest hnd
        have hlen := length_span isDigit (c :: r)
        simp only [List.cons_append] at hsp
        simp only [hc, if_false, hsp.1, hsp.2, splitAfter_numLenAfter _ _ _ rest _ hp hs]
        congr 1

/-- a numeral followed by a separator is cut off as one token, exactly -/
theorem nextTok_numeral (x rest : Str) (h : isNumeral x = true) (hs : sepStart rest) :
    nextTok (x ++ rest) = some (.lit x, x.length) := by
  obtain ⟨c, r, hx, hc⟩ := splitNumeral_head x h
  have hn := numeral_numLen x rest h hs
  have hc' : c = '-' ∨ c = '.' ∨ isDigit c = true := by
    rcases hc with h | h
    · exact Or.inl h
    · exact Or.inr (Or.inr h)
  have htake : (x ++ rest).take x.length = x := by simp
  subst hx
  simp only [List.cons_append] at hn htake ⊢
  simp only [nextTok, hc', if_true, hn, htake]

/-- `str(int)` is a numeral -/
theorem isNumeral_renderInt (n : Int) : isNumeral (renderInt n) = true := by
  have key : ∀ (neg : Bool) (k : Nat), splitUnsigned neg (renderNat k) = some ⟨neg, renderNat k, none, none⟩ := by
    intro neg k
    obtain ⟨h1, h2, _⟩ := renderNat_spec k
    have := span_digits (renderNat k) [] h1 (by intro c r h; cases h)
    simp only [List.append_nil] at this
    simp [splitUnsigned, this.1, this.2, splitAfter, h2]
  unfold renderInt isNumeral
  split
  · simp [splitNumeral, key]
  · obtain ⟨c, r, hcr, hd⟩ := renderNat_head n.natAbs
    have hne := isDigit_ne_minus c hd
    have := key false n.natAbs
    rw [hcr] at this ⊢
    simp [splitNumeral, hne, this]

/-- `repr(float)` of a multiple of 1/8 is a numeral -/
theorem isNumeral_renderFlt (e : Int) : isNumeral (renderFlt e) = true := by
  have key : ∀ (neg : Bool) (q r : Nat), ∃ p, splitUnsigned neg (renderNat q ++ '.' :: fracDigits r) = some p := by
    intro neg q r
    obtain ⟨h1, h2, _⟩ := renderNat_spec q
    have hs := span_digits (renderNat q) ('.' :: fracDigits r) h1 (by intro c r h; cases h; decide)
    have hf := span_digits (fracDigits r) [] (fracDigits_all r) (by intro c r h; cases h)
    simp only [List.append_nil] at hf
    have hne : fracDigits r ≠ [] := by unfold fracDigits; split <;> simp
    exact ⟨⟨neg, renderNat q, some (fracDigits r), none⟩,
      by simp [splitUnsigned, hs.1, hs.2, splitAfter, h2, hf.1, hf.2, hne, splitExp]⟩
  unfold renderFlt isNumeral
  split
  · obtain ⟨p, hp⟩ := key true (e.natAbs / 8) (e.natAbs % 8)
    simp [splitNumeral, hp]
  · obtain ⟨c, r, hcr, hd⟩ := renderNat_head (e.natAbs / 8)
    have hne := isDigit_ne_minus c hd
    obtain ⟨p, hp⟩ := key false (e.natAbs / 8) (e.natAbs % 8)
    rw [hcr] at hp ⊢
    simp only [List.nil_append, List.cons_append] at hp ⊢
    simp [splitNumeral, hne, hp]

theorem quoteStr_length_pos (s : Str) : ∃ b, quoteStr s = '"' :: b := by
  unfold quoteStr; split <;> exact ⟨_, rfl⟩

/-- a quoted string followed by a separator is cut off as one token, exactly -/
theorem nextTok_quoteStr (s rest : Str) (hs : sepStart rest) :
    nextTok (quoteStr s ++ rest) = some (.lit (quoteStr s), (quoteStr s).length) := by
  have hq : ∀ c r, rest = c :: r → c ≠ '"' := fun c r hr => (sepStart_head _ hs c r hr).2.2.2.2.2
  have htake : (quoteStr s ++ rest).take (quoteStr s).length = quoteStr s := by simp
  have hnum : ¬('"' = '-' ∨ '"' = '.' ∨ isDigit '"' = true) := by decide
  suffices h : ∃ b, quoteStr s = '"' :: b ∧ strLen (b ++ rest) = some (quoteStr s).length by
    obtain ⟨b, hb, hl⟩ := h
    rw [hb] at htake hl ⊢
    simp only [List.cons_append] at htake ⊢
    simp only [nextTok, hnum, if_false, if_true, hl, htake]
  unfold quoteStr
  split
  · refine ⟨_, rfl, ?_⟩
    have := scanLong_escBody s rest
    simp only [List.cons_append, List.append_assoc, List.nil_append, strLen, List.take, if_true, List.drop, this]
    simp only [List.length_cons, List.length_append, List.length_nil]
    congr 1; omega
  · rename_i hnq
    simp only [Bool.not_eq_true] at hnq
    refine ⟨_, rfl, ?_⟩
    have key := scanShort_escBody s rest hnq
    have hne : (escBody s ++ ['"'] ++ rest).take 2 ≠ ['"', '"'] := by
      cases s with
      | nil =>
        cases rest with
        | nil => simp [escBody]
        | cons c r => simp [escBody]; exact hq c r rfl
      | cons c s =>
        have hq' := hnq
        rw [hasQuote_cons] at hq'
        simp only [Bool.or_eq_false_iff, decide_eq_false_iff_not] at hq'
        obtain ⟨d, r, hd, hdq⟩ := escChar_head c hq'.1
        simp only [escBody, hd, List.cons_append]
        intro h
        cases hr : (r ++ escBody s ++ ['"'] ++ rest) with
        | nil => simp at h; exact hdq h.1
        | cons x xs => simp [hr] at h; exact hdq h.1
    simp only [List.append_assoc, List.cons_append, List.nil_append] at hne key ⊢
    simp only [strLen, hne, if_false, key]
    simp only [List.length_cons, List.length_append, List.length_nil]
    congr 1; omega

theorem takeWhile_all (p : Char → Bool) (w : Str) (h : w.all p = true) : w.takeWhile p = w := by
  induction w with
  | nil => rfl
  | cons c w ih =>
    simp only [List.all_cons, Bool.and_eq_true] at h
    simp [List.takeWhile_cons, h.1, ih h.2]

theorem nextTok_word (w rest : Str) (hw : w = nullText ∨ w = trueText ∨ w = falseText) (hs : sepStart rest) :
    nextTok (w ++ rest) = some (.lit w, w.length) := by
  have hni : ∀ c r, rest = c :: r → isIdentChar c = false := fun c r hr => (sepStart_head _ hs c r hr).2.1
  have hall : w.all isIdentChar = true := by rcases hw with h | h | h <;> subst h <;> decide
  have hsp : (w ++ rest).takeWhile isIdentChar = w := by
    rw [(span_append isIdentChar w rest hni).1, takeWhile_all _ _ hall]
  rcases hw with h | h | h <;> subst h
  · simp only [nullText, List.cons_append, List.nil_append] at hsp ⊢
    simp [nextTok, isDigit, isIdentStart, hsp, nullText, trueText, falseText]
  · simp only [trueText, List.cons_append, List.nil_append] at hsp ⊢
    simp [nextTok, isDigit, isIdentStart, hsp, nullText, trueText, falseText]
  · simp only [falseText, List.cons_append, List.nil_append] at hsp ⊢
    simp [nextTok, isDigit, isIdentStart, hsp, nullText, trueText, falseText]


/-- prepend a token list to a tokenisation result -/
def appToks (ts : List Tok) : Option (List Tok) → Option (List Tok)
  | some r => some (ts ++ r)
  | none => none

theorem appToks_nil (o : Option (List Tok)) : appToks [] o = o := by cases o <;> rfl
theorem appToks_cons (t : Tok) (ts : List Tok) (o : Option (List Tok)) :
    appToks (t :: ts) o = consTok t (appToks ts o) := by cases o <;> rfl
theorem appToks_append (a b : List Tok) (o : Option (List Tok)) :
    appToks (a ++ b) o = appToks a (appToks b o) := by cases o <;> simp [appToks]
theorem consTok_eq (t : Tok) (o : Option (List Tok)) : consTok t o = appToks [t] o := by cases o <;> rfl

theorem tokenize_tok (c : Char) (x' rest : Str) (tok : Tok) (hws : isWs c = false)
    (h : nextTok ((c :: x') ++ rest) = some (tok, (c :: x').length)) :
    tokenize ((c :: x') ++ rest) = consTok tok (tokenize rest) := by
  simp only [List.cons_append] at h ⊢
  rw [tokenize]
  simp [hws, h]

theorem tokenize_punct (c : Char) (tok : Tok) (rest : Str)
    (h : (c = '[' ∧ tok = .lbrack) ∨ (c = ']' ∧ tok = .rbrack) ∨ (c = '{' ∧ tok = .lbrace) ∨
         (c = '}' ∧ tok = .rbrace) ∨ (c = ',' ∧ tok = .comma) ∨ (c = ':' ∧ tok = .colon)) :
    tokenize (c :: rest) = consTok tok (tokenize rest) := by
  have := tokenize_tok c [] rest tok
  simp only [List.cons_append, List.nil_append, List.length_cons, List.length_nil] at this
  rcases h with ⟨hc, ht⟩ | ⟨hc, ht⟩ | ⟨hc, ht⟩ | ⟨hc, ht⟩ | ⟨hc, ht⟩ | ⟨hc, ht⟩ <;> subst hc <;> subst ht <;>
    exact this (by decide) (by simp [nextTok, isDigit, isIdentStart])

theorem isWs_of_numeral_head (c : Char) (h : c = '-' ∨ isDigit c = true) : isWs c = false := by
  rcases h with h | h
  · subst h; decide
  · unfold isDigit at h
    simp only [Bool.and_eq_true, decide_eq_true_eq] at h
    unfold isWs
    have e1 : c ≠ ' ' := by intro e; subst e; revert h; decide
    have e2 : c ≠ '\t' := by intro e; subst e; revert h; decide
    have e3 : c ≠ '\n' := by intro e; subst e; revert h; decide
    have e4 : c ≠ '\r' := by intro e; subst e; revert h; decide
    have e5 : c ≠ Char.ofNat 12 := by intro e; subst e; revert h; decide
    simp [e1, e2, e3, e4, e5]

theorem tokenize_numeral (x rest : Str) (h : isNumeral x = true) (hs : sepStart rest) :
    tokenize (x ++ rest) = consTok (.lit x) (tokenize rest) := by
  obtain ⟨c, r, hx, hc⟩ := splitNumeral_head x h
  have := nextTok_numeral x rest h hs
  subst hx
  exact tokenize_tok c r rest _ (isWs_of_numeral_head c hc) this

theorem tokenize_quoteStr (s rest : Str) (hs : sepStart rest) :
    tokenize (quoteStr s ++ rest) = consTok (.lit (quoteStr s)) (tokenize rest) := by
  obtain ⟨b, hb⟩ := quoteStr_length_pos s
  have := nextTok_quoteStr s rest hs
  rw [hb] at this ⊢
  exact tokenize_tok '"' b rest _ (by decide) this

theorem tokenize_word (w rest : Str) (hw : w = nullText ∨ w = trueText ∨ w = falseText) (hs : sepStart rest) :
    tokenize (w ++ rest) = consTok (.lit w) (tokenize rest) := by
  have := nextTok_word w rest hw hs
  rcases hw with h | h | h <;> subst h
  · exact tokenize_tok 'n' _ rest _ (by decide) this
  · exact tokenize_tok 't' _ rest _ (by decide) this
  · exact tokenize_tok 'f' _ rest _ (by decide) this

theorem tokenize_encodeStr (s rest : Str) (he : startsWithEq s = false) (hs : sepStart rest) :
    tokenize (encodeStr s ++ rest) = consTok (.lit (encodeStr s)) (tokenize rest) := by
  cases hn : isNumeral s with
  | true =>
    have : encodeStr s = s := by simp [encodeStr, hn]
    rw [this]; exact tokenize_numeral s rest hn hs
  | false =>
    rw [encodeStr_of_nonnumeral s hn he]; exact tokenize_quoteStr s rest hs

theorem sepStart_encTail (xs : List JVal) (rest : Str) : sepStart (encTail xs ++ ']' :: rest) := by
  cases xs with
  | nil => simpa [encTail] using sepStart_rbrack rest
  | cons x xs => simpa [encTail] using sepStart_comma _

theorem sepStart_encTailO (kvs : List (String × JVal)) (rest : Str) : sepStart (encTailO kvs ++ '}' :: rest) := by
  cases kvs with
  | nil => simpa [encTailO] using sepStart_rbrace rest
  | cons kv kvs => obtain ⟨k, v⟩ := kv; simpa [encTailO] using sepStart_comma _

mutual
/-- celpy-style tokenisation of the emitted text of a value, followed by a separator or the end, yields
    exactly the tokens `toks v` and continues with what follows -/
theorem tokenize_enc : ∀ (v : JVal), noExpr v = true → ∀ (rest : Str), sepStart rest →
    tokenize (enc v ++ rest) = appToks (toks v) (tokenize rest)
  | .null, _, rest, hs => by
    simp only [enc, toks, appToks_cons, appToks_nil]; exact tokenize_word _ rest (Or.inl rfl) hs
  | .bool b, _, rest, hs => by
    simp only [enc, toks, appToks_cons, appToks_nil]
    cases b
    · exact tokenize_word _ rest (Or.inr (Or.inr rfl)) hs
    · exact tokenize_word _ rest (Or.inr (Or.inl rfl)) hs
  | .int n, _, rest, hs => by
    simp only [enc, toks, appToks_cons, appToks_nil]; exact tokenize_numeral _ rest (isNumeral_renderInt n) hs
  | .flt e, _, rest, hs => by
    simp only [enc, toks, appToks_cons, appToks_nil]; exact tokenize_numeral _ rest (isNumeral_renderFlt e) hs
  | .str s, hne, rest, hs => by
    simp only [noExpr, Bool.not_eq_true'] at hne
    simp only [enc, toks, appToks_cons, appToks_nil]; exact tokenize_encodeStr _ rest hne hs
  | .arr [], _, rest, _ => by
    simp only [enc, toks, List.cons_append, List.nil_append, appToks_cons, appToks_nil]
    rw [tokenize_punct '[' .lbrack _ (Or.inl ⟨rfl, rfl⟩), tokenize_punct ']' .rbrack _ (Or.inr (Or.inl ⟨rfl, rfl⟩))]
  | .arr (x :: xs), hne, rest, _ => by
    simp only [noExpr, noExprL, Bool.and_eq_true] at hne
    simp only [enc, toks, List.cons_append, List.append_assoc, List.nil_append, appToks_cons, appToks_append, appToks_nil]
    rw [tokenize_punct '[' .lbrack _ (Or.inl ⟨rfl, rfl⟩),
      tokenize_enc x hne.1 _ (sepStart_encTail xs rest), tokenize_encTail xs hne.2 rest,
      tokenize_punct ']' .rbrack _ (Or.inr (Or.inl ⟨rfl, rfl⟩))]
  | .obj [], _, rest, _ => by
    simp only [enc, toks, List.cons_append, List.nil_append, appToks_cons, appToks_nil]
    rw [tokenize_punct '{' .lbrace _ (Or.inr (Or.inr (Or.inl ⟨rfl, rfl⟩))),
      tokenize_punct '}' .rbrace _ (Or.inr (Or.inr (Or.inr (Or.inl ⟨rfl, rfl⟩))))]
  | .obj ((k, v) :: kvs), hne, rest, _ => by
    simp only [noExpr, noExprO, Bool.and_eq_true] at hne
    simp only [enc, toks, List.cons_append, List.append_assoc, List.nil_append, appToks_cons, appToks_append, appToks_nil]
    rw [tokenize_punct '{' .lbrace _ (Or.inr (Or.inr (Or.inl ⟨rfl, rfl⟩))),
      tokenize_quoteStr _ _ (sepStart_colon _),
      tokenize_punct ':' .colon _ (Or.inr (Or.inr (Or.inr (Or.inr (Or.inr ⟨rfl, rfl⟩))))),
      tokenize_enc v hne.1 _ (sepStart_encTailO kvs rest), tokenize_encTailO kvs hne.2 rest,
      tokenize_punct '}' .rbrace _ (Or.inr (Or.inr (Or.inr (Or.inl ⟨rfl, rfl⟩))))]
theorem tokenize_encTail : ∀ (xs : List JVal), noExprL xs = true → ∀ (rest : Str),
    tokenize (encTail xs ++ ']' :: rest) = appToks (toksTail xs) (tokenize (']' :: rest))
  | [], _, rest => by simp [encTail, toksTail, appToks_nil]
  | x :: xs, hne, rest => by
    simp only [noExprL, Bool.and_eq_true] at hne
    simp only [encTail, toksTail, List.cons_append, List.append_assoc, appToks_cons, appToks_append]
    rw [tokenize_punct ',' .comma _ (Or.inr (Or.inr (Or.inr (Or.inr (Or.inl ⟨rfl, rfl⟩))))),
      tokenize_enc x hne.1 _ (sepStart_encTail xs rest), tokenize_encTail xs hne.2 rest]
theorem tokenize_encTailO : ∀ (kvs : List (String × JVal)), noExprO kvs = true → ∀ (rest : Str),
    tokenize (encTailO kvs ++ '}' :: rest) = appToks (toksTailO kvs) (tokenize ('}' :: rest))
  | [], _, rest => by simp [encTailO, toksTailO, appToks_nil]
  | (k, v) :: kvs, hne, rest => by
    simp only [noExprO, Bool.and_eq_true] at hne
    simp only [encTailO, toksTailO, List.cons_append, List.append_assoc, appToks_cons, appToks_append]
    rw [tokenize_punct ',' .comma _ (Or.inr (Or.inr (Or.inr (Or.inr (Or.inl ⟨rfl, rfl⟩))))),
      tokenize_quoteStr _ _ (sepStart_colon _),
      tokenize_punct ':' .colon _ (Or.inr (Or.inr (Or.inr (Or.inr (Or.inr ⟨rfl, rfl⟩))))),
      tokenize_enc v hne.1 _ (sepStart_encTailO kvs rest), tokenize_encTailO kvs hne.2 rest]
end


end Koreo.Encoder
