/-
  C16 — hot reload: the prepare cache (src/koreo/cache.py) together with the subscription
  registry (src/koreo/registry.py) as a transition system.  Core Lean only.

  Atomicity facts the model relies on (checked in the code, see DESIGN.md Appendix A): no real
  `prepare_*` coroutine suspends, `_handle_notifications` contains no suspending await,
  `delete_from_cache` never reaches `queue.join()`; hence `prepare_and_cache` and
  `delete_from_cache` are atomic w.r.t. the event loop and the only code that runs "between"
  operations is the monitor tasks.  A woken monitor drains its whole queue in one go
  (`Queue.get()` does not suspend on a non-empty queue).

  What is modelled (function by function):
    offer   = cache.prepare_and_cache        (version short-circuit, registry.register, preparer,
                                              cache write, _handle_notifications incl. monitor start)
    delete  = cache.delete_from_cache        (version guard, kill + deregister, monitor dropped)
    bg      = one scheduling of a monitor    (_monitor_and_reprepare: first `register`, then pop
                                              events newest first; an event not newer than the own
                                              prepare start is dropped, a newer one re-prepares from
                                              the cached spec: _reprepare_and_update_cache)
    notify  = registry.notify_subscribers    (every subscriber that has a queue gets the event)
  The preparer is an oracle that reads the cache for its dependencies: `seen` records the
  generation of every resource at the moment of (re)preparation (ghost), `gen` is bumped by every
  (re)preparation and every delete (ghost).  The declared dependencies are a function of the spec,
  so a re-preparation from the cached spec declares the same ones.
  Times are a logical clock that increases at every read (the harness installs such a clock).

  The model is of the REPAIRED delete/done-callback protocol (fix F3): a delete forgets the
  monitor task at once (the cancelled task can only exit), and the done-callback of a task that
  is no longer the registered one does nothing.
-/
namespace Koreo.HotReload

variable {R : Type} [DecidableEq R]

/-- point update of a function -/
def upd {α : Type} (f : R → α) (a : R) (b : α) : R → α := fun x => if x = a then b else f x

structure Entry (R : Type) where
  version : Nat
  deps : List R
  /-- generation of every resource when this entry was (re)prepared (what the preparer read) -/
  seen : R → Nat

inductive Mon where
  | none      -- no monitor task registered for the resource
  | starting  -- task created, has not run yet
  | waiting   -- blocked in (or about to return from) `queue.get()`
  deriving DecidableEq, Repr

structure State (R : Type) where
  cache : R → Option (Entry R)
  gen : R → Nat
  /-- registry: who `r` watches (the inverse view is derived) -/
  subs : R → List R
  /-- registry queue of `r`: event times, newest first (LIFO); `none` = not registered -/
  queue : R → Option (List Nat)
  mon : R → Mon
  prepT : R → Nat
  clock : Nat

def init : State R :=
  { cache := fun _ => none, gen := fun _ => 0, subs := fun _ => [], queue := fun _ => none,
    mon := fun _ => .none, prepT := fun _ => 0, clock := 0 }

/-- `registry.notify_subscribers(d, t)`: every `x` that watches `d` and has a queue gets the event -/
def notify (s : State R) (d : R) (t : Nat) : State R :=
  { s with queue := fun x => if d ∈ s.subs x then (s.queue x).map (t :: ·) else s.queue x }

def tick (s : State R) : State R := { s with clock := s.clock + 1 }

/-- `registry.register(r)`: create the queue if there is none and tell `r`'s watchers -/
def register (s : State R) (r : R) : State R :=
  match s.queue r with
  | some _ => s
  | none => notify (tick { s with queue := upd s.queue r (some []) }) r s.clock

/-- `_handle_notifications` -/
def handleNotifications (s : State R) (r : R) (deps : List R) (t0 tf : Nat) (withPreparer : Bool) :
    State R :=
  let s1 := notify { s with prepT := upd s.prepT r t0, subs := upd s.subs r deps } r tf
  if withPreparer ∧ deps ≠ [] ∧ s1.mon r = .none then { s1 with mon := upd s1.mon r .starting } else s1

/-- the part of `prepare_and_cache` after the version short-circuit -/
def offerNew (s : State R) (r : R) (v : Nat) (deps : List R) : State R :=
  let t0 := s.clock
  let s1 := register (tick s) r
  let e : Entry R := { version := v, deps := deps, seen := s1.gen }
  let s2 := { s1 with cache := upd s1.cache r (some e), gen := upd s1.gen r (s1.gen r + 1) }
  handleNotifications (tick s2) r deps t0 s2.clock true

/-- `cache.prepare_and_cache` -/
def offer (s : State R) (r : R) (v : Nat) (deps : List R) : State R :=
  match s.cache r with
  | some e => if e.version = v then s else offerNew s r v deps
  | none => offerNew s r v deps

/-- `if version and version != cached.resource_version` -/
def staleVersion (ver : Option Nat) (v : Nat) : Bool :=
  match ver with
  | some w => w != v
  | none => false

/-- `cache.delete_from_cache(r, version)`; `ver = none` is "no (or empty) version given" -/
def delete (s : State R) (r : R) (ver : Option Nat) : State R :=
  match s.cache r with
  | none => s
  | some e =>
    if staleVersion ver e.version then s
    else
      let s1 := tick s
      notify { s1 with cache := upd s1.cache r none, gen := upd s1.gen r (s1.gen r + 1),
                       subs := upd s1.subs r [], queue := upd s1.queue r none,
                       mon := upd s1.mon r .none } r s.clock

/-- `_reprepare_and_update_cache` -/
def reprepare (s : State R) (r : R) : State R :=
  match s.cache r with
  | none => s
  | some e =>
    let t0 := s.clock
    let s1 := tick s
    let e' : Entry R := { e with seen := s1.gen }
    let s2 := { s1 with cache := upd s1.cache r (some e'), gen := upd s1.gen r (s1.gen r + 1) }
    handleNotifications (tick s2) r e.deps t0 s2.clock false

/-- the monitor pops events newest first; one not newer than the own prepare start is dropped -/
def drain (s : State R) (r : R) : List Nat → State R
  | [] => s
  | t :: rest => if t ≤ s.prepT r then drain s r rest else drain (reprepare s r) r rest

def runDrain (s : State R) (r : R) : State R :=
  match s.queue r with
  | none => s
  | some q => drain { s with queue := upd s.queue r (some []) } r q

/-- one scheduling of `r`'s monitor task -/
def bg (s : State R) (r : R) : State R :=
  match s.mon r with
  | .none => s
  | .starting => runDrain (let s1 := register s r; { s1 with mon := upd s1.mon r .waiting }) r
  | .waiting => runDrain s r

inductive Action (R : Type) where
  | offer (r : R) (v : Nat) (deps : List R)
  | delete (r : R) (ver : Option Nat)
  | bg (r : R)

def step (s : State R) : Action R → State R
  | .offer r v deps => offer s r v deps
  | .delete r ver => delete s r ver
  | .bg r => bg s r

def run (s : State R) (acts : List (Action R)) : State R := acts.foldl step s

/-- nothing left to do for any monitor: none is about to start and every waiting one has an empty queue -/
def Idle (s : State R) : Prop :=
  ∀ r, s.mon r ≠ .starting ∧ (s.mon r = .waiting → s.queue r = some [])

/-- every cached entry was built from the current generation of everything it depends on -/
def Coherent (s : State R) : Prop :=
  ∀ r e, s.cache r = some e → ∀ d ∈ e.deps, e.seen d = s.gen d

/-- the declared dependencies respect a rank (i.e. they are acyclic, and nothing depends on itself) -/
def Ranked (rank : R → Nat) : Action R → Prop
  | .offer r _ deps => ∀ d ∈ deps, rank d < rank r
  | _ => True

end Koreo.HotReload
