/-
  C16 — hot reload: the prepare cache (src/koreo/cache.py) together with the subscription
  registry (src/koreo/registry.py) as a transition system.  Core Lean only.

  Atomicity facts the model relies on (checked in the code, see DESIGN.md Appendix A): no real
  `prepare_*` coroutine suspends, `_handle_notifications` contains no suspending await,
  `delete_from_cache` never reaches `queue.join()`; hence `prepare_and_cache` and
  `delete_from_cache` are atomic w.r.t. the event loop and the only code that runs "between"
  operations is the monitor tasks.  A woken monitor drains its whole queue in one go
  (`Queue.get()` does not suspend on a non-empty queue).

  What is modelled (function by function):
    offer   = cache.prepare_and_cache        (version short-circuit, registry.register, preparer,
                                              cache write, _handle_notifications incl. monitor start)
    delete  = cache.delete_from_cache        (version guard, kill + deregister, monitor dropped)
    bg      = one scheduling of a monitor    (_monitor_and_reprepare: first `register`, then pop
                                              events newest first; an event not newer than the own
                                              prepare start is dropped, a newer one re-prepares from
                                              the cached spec: _reprepare_and_update_cache)
    notify  = registry.notify_subscribers    (every subscriber that has a queue gets the event)
  The preparer is an oracle that reads the cache for its dependencies: `seen` records the
  generation of every resource at the moment of (re)preparation (ghost), `gen` is bumped by every
  (re)preparation and every delete (ghost).  What a preparation DECLARES as its dependencies is
  `decl spec cached`: a function of the spec and of which resources are cached at that moment (the
  real FunctionTest preparer watches its ResourceTemplate only once the function under test is
  cached), so a re-preparation from the cached spec may declare other dependencies than the last.
  Times are a logical clock that increases at every read (the harness installs such a clock).

  The model is of the REPAIRED delete/done-callback protocol (fix F3): a delete forgets the
  monitor task at once (the cancelled task can only exit), and the done-callback of a task that
  is no longer the registered one does nothing.
-/
namespace Koreo.HotReload

variable {R : Type} [DecidableEq R] {Spec : Type}

/-- point update of a function -/
def upd {α : Type} (f : R → α) (a : R) (b : α) : R → α := fun x => if x = a then b else f x

structure Entry (R Spec : Type) where
  version : Nat
  /-- the spec as offered (opaque); re-preparations run the preparer on it again -/
  spec : Spec
  /-- what the last (re)preparation declared -/
  deps : List R
  /-- generation of every resource when this entry was (re)prepared (what the preparer read) -/
  seen : R → Nat

inductive Mon where
  | none      -- no monitor task registered for the resource
  | starting  -- task created, has not run yet
  | waiting   -- blocked in (or about to return from) `queue.get()`
  deriving DecidableEq, Repr

structure State (R Spec : Type) where
  cache : R → Option (Entry R Spec)
  gen : R → Nat
  /-- registry: who `r` watches (the inverse view is derived) -/
  subs : R → List R
  /-- registry queue of `r`: event times, newest first (LIFO); `none` = not registered -/
  queue : R → Option (List Nat)
  mon : R → Mon
  prepT : R → Nat
  clock : Nat

def init : State R Spec :=
  { cache := fun _ => none, gen := fun _ => 0, subs := fun _ => [], queue := fun _ => none,
    mon := fun _ => .none, prepT := fun _ => 0, clock := 0 }

/-- `registry.notify_subscribers(d, t)`: every `x` that watches `d` and has a queue gets the event -/
def notify (s : State R Spec) (d : R) (t : Nat) : State R Spec :=
  { s with queue := fun x => if d ∈ s.subs x then (s.queue x).map (t :: ·) else s.queue x }

def tick (s : State R Spec) : State R Spec := { s with clock := s.clock + 1 }

/-- `registry.register(r)`: create the queue if there is none and tell `r`'s watchers -/
def register (s : State R Spec) (r : R) : State R Spec :=
  match s.queue r with
  | some _ => s
  | none => notify (tick { s with queue := upd s.queue r (some []) }) r s.clock

/-- `_handle_notifications` -/
def handleNotifications (s : State R Spec) (r : R) (deps : List R) (t0 tf : Nat) (withPreparer : Bool) :
    State R Spec :=
  let s1 := notify { s with prepT := upd s.prepT r t0, subs := upd s.subs r deps } r tf
  if withPreparer ∧ deps ≠ [] ∧ s1.mon r = .none then { s1 with mon := upd s1.mon r .starting } else s1

/-- which resources are cached (what a preparer can find out by looking them up) -/
def cachedB (s : State R Spec) : R → Bool := fun x => (s.cache x).isSome

/-- the part of `prepare_and_cache` after the version short-circuit -/
def offerNew (decl : Spec → (R → Bool) → List R) (s : State R Spec) (r : R) (v : Nat) (spec : Spec) :
    State R Spec :=
  let t0 := s.clock
  let s1 := register (tick s) r
  let deps := decl spec (cachedB s1)
  let e : Entry R Spec := { version := v, spec := spec, deps := deps, seen := s1.gen }
  let s2 := { s1 with cache := upd s1.cache r (some e), gen := upd s1.gen r (s1.gen r + 1) }
  handleNotifications (tick s2) r deps t0 s2.clock true

/-- `cache.prepare_and_cache` -/
def offer (decl : Spec → (R → Bool) → List R) (s : State R Spec) (r : R) (v : Nat) (spec : Spec) :
    State R Spec :=
  match s.cache r with
  | some e => if e.version = v then s else offerNew decl s r v spec
  | none => offerNew decl s r v spec

/-- `if version and version != cached.resource_version` -/
def staleVersion (ver : Option Nat) (v : Nat) : Bool :=
  match ver with
  | some w => w != v
  | none => false

/-- `cache.delete_from_cache(r, version)`; `ver = none` is "no (or empty) version given" -/
def delete (s : State R Spec) (r : R) (ver : Option Nat) : State R Spec :=
  match s.cache r with
  | none => s
  | some e =>
    if staleVersion ver e.version then s
    else
      let s1 := tick s
      notify { s1 with cache := upd s1.cache r none, gen := upd s1.gen r (s1.gen r + 1),
                       subs := upd s1.subs r [], queue := upd s1.queue r none,
                       mon := upd s1.mon r .none } r s.clock

/-- `_reprepare_and_update_cache`: the preparer runs again on the cached spec -/
def reprepare (decl : Spec → (R → Bool) → List R) (s : State R Spec) (r : R) : State R Spec :=
  match s.cache r with
  | none => s
  | some e =>
    let t0 := s.clock
    let s1 := tick s
    let deps := decl e.spec (cachedB s1)
    let e' : Entry R Spec := { version := e.version, spec := e.spec, deps := deps, seen := s1.gen }
    let s2 := { s1 with cache := upd s1.cache r (some e'), gen := upd s1.gen r (s1.gen r + 1) }
    handleNotifications (tick s2) r deps t0 s2.clock false

/-- the monitor pops events newest first; one not newer than the own prepare start is dropped -/
def drain (decl : Spec → (R → Bool) → List R) (s : State R Spec) (r : R) : List Nat → State R Spec
  | [] => s
  | t :: rest =>
    if t ≤ s.prepT r then drain decl s r rest else drain decl (reprepare decl s r) r rest

def runDrain (decl : Spec → (R → Bool) → List R) (s : State R Spec) (r : R) : State R Spec :=
  match s.queue r with
  | none => s
  | some q => drain decl { s with queue := upd s.queue r (some []) } r q

/-- one scheduling of `r`'s monitor task -/
def bg (decl : Spec → (R → Bool) → List R) (s : State R Spec) (r : R) : State R Spec :=
  match s.mon r with
  | .none => s
  | .starting => runDrain decl (let s1 := register s r; { s1 with mon := upd s1.mon r .waiting }) r
  | .waiting => runDrain decl s r

inductive Action (R Spec : Type) where
  | offer (r : R) (v : Nat) (spec : Spec)
  | delete (r : R) (ver : Option Nat)
  | bg (r : R)

def step (decl : Spec → (R → Bool) → List R) (s : State R Spec) : Action R Spec → State R Spec
  | .offer r v spec => offer decl s r v spec
  | .delete r ver => delete s r ver
  | .bg r => bg decl s r

def run (decl : Spec → (R → Bool) → List R) (s : State R Spec) (acts : List (Action R Spec)) :
    State R Spec := acts.foldl (step decl) s

/-- nothing left to do for any monitor: none is about to start and every waiting one has an empty queue -/
def Idle (s : State R Spec) : Prop :=
  ∀ r, s.mon r ≠ .starting ∧ (s.mon r = .waiting → s.queue r = some [])

/-- every cached entry was built from the current generation of everything it depends on -/
def Coherent (s : State R Spec) : Prop :=
  ∀ r e, s.cache r = some e → ∀ d ∈ e.deps, e.seen d = s.gen d

/-- whatever a spec may make its preparer declare respects the rank (i.e. the declared
    dependencies are acyclic, and nothing depends on itself) -/
def SpecRanked (decl : Spec → (R → Bool) → List R) (rank : R → Nat) (r : R) (spec : Spec) : Prop :=
  ∀ c, ∀ d ∈ decl spec c, rank d < rank r

def Ranked (decl : Spec → (R → Bool) → List R) (rank : R → Nat) : Action R Spec → Prop
  | .offer r _ spec => SpecRanked decl rank r spec
  | _ => True

/-- A concrete family of preparers (the one the correspondence harness installs): static
    dependencies, plus dependencies that are declared only while some other resource is cached. -/
structure CondSpec (R : Type) where
  static : List R
  /-- `(c, d)`: `d` is declared iff `c` is cached at the moment of (re)preparation -/
  cond : List (R × R)
  /-- the preparation FAILS (the preparer returns a non-Ok outcome, which is cached like a result and
      declares nothing) while one of these resources is cached -/
  failWhen : List R := []

def condDecl (sp : CondSpec R) (c : R → Bool) : List R :=
  if sp.failWhen.any c then [] else sp.static ++ (sp.cond.filter (fun p => c p.1)).map (·.2)

end Koreo.HotReload
