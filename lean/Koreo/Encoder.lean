/-
  C11 — model of the REPAIRED `src/koreo/cel/encoder.py` (fixes/F2-encoder.diff) and of the
  inverse as implemented by celpy 0.3.0 (string / number literal lexing and un-escaping,
  `celpy/cel.lark` STRING_LIT / MLSTRING_LIT / INT_LIT / FLOAT_LIT and
  `celpy.evaluation.celstr` / `CEL_ESCAPES`), plus a token-level parser for the JSON-like
  subset of CEL that `encode_cel` emits.

  Texts are `List Char` (`Str`) throughout: every proof is a list induction.
  Core Lean only.
-/
import Koreo.Json

namespace Koreo.Encoder

abbrev Str := List Char

/-! ## characters -/

/-- `[0-9]` — ASCII digits only (the repaired encoder uses `[0-9]`, celpy's grammar `DIGIT : /[0-9]/`). -/
def isDigit (c : Char) : Bool := '0'.toNat ≤ c.toNat && c.toNat ≤ '9'.toNat

def isHex (c : Char) : Bool :=
  isDigit c || ('a'.toNat ≤ c.toNat && c.toNat ≤ 'f'.toNat) || ('A'.toNat ≤ c.toNat && c.toNat ≤ 'F'.toNat)

def hexVal (c : Char) : Nat :=
  if isDigit c then c.toNat - '0'.toNat
  else if 'a'.toNat ≤ c.toNat && c.toNat ≤ 'f'.toNat then c.toNat - 'a'.toNat + 10
  else c.toNat - 'A'.toNat + 10

def isOct (c : Char) : Bool := '0'.toNat ≤ c.toNat && c.toNat ≤ '7'.toNat

def digitChar (d : Nat) : Char :=
  match d with
  | 0 => '0' | 1 => '1' | 2 => '2' | 3 => '3' | 4 => '4'
  | 5 => '5' | 6 => '6' | 7 => '7' | 8 => '8' | _ => '9'

/-- value of a digit string, most significant first (`int("0123")`) -/
def digitsVal (ds : Str) : Nat := ds.foldl (fun a c => a * 10 + (c.toNat - '0'.toNat)) 0

/-- `str(n)` for a natural number -/
def renderNat (n : Nat) : Str :=
  if n < 10 then [digitChar n] else renderNat (n / 10) ++ [digitChar (n % 10)]
termination_by n
decreasing_by omega

/-- `f"{n}"` for a Python int -/
def renderInt (n : Int) : Str :=
  if n < 0 then '-' :: renderNat n.natAbs else renderNat n.natAbs

/-- the digits Python's `repr` prints after the point for r/8 -/
def fracDigits (r : Nat) : Str :=
  match r with
  | 0 => ['0'] | 1 => ['1', '2', '5'] | 2 => ['2', '5'] | 3 => ['3', '7', '5']
  | 4 => ['5'] | 5 => ['6', '2', '5'] | 6 => ['7', '5'] | _ => ['8', '7', '5']

/-- `f"{x}"` for the float x = e/8 (|x| < 10^16, so `repr` uses positional notation; -0.0 is not
    representable in `JVal.flt`) -/
def renderFlt (e : Int) : Str :=
  (if e < 0 then ['-'] else []) ++ renderNat (e.natAbs / 8) ++ '.' :: fracDigits (e.natAbs % 8)

/-! ## the numeral test of the repaired `_encode_plain`
    `re.fullmatch(r"-?[0-9]+(\.[0-9]+)?([eE][+-]?[0-9]+)?", s)` -/

/-- the parts of a decimal numeral -/
structure NumParts where
  neg : Bool
  ip : Str                      -- integer digits, non-empty
  fp : Option Str               -- fraction digits (non-empty) if a point is written
  ex : Option (Char × Option Char × Str)  -- exponent: the letter, the optional sign, the digits (non-empty)
  deriving Repr, DecidableEq

def expText : Option (Char × Option Char × Str) → Str
  | some (l, some s, ds) => l :: s :: ds
  | some (l, none, ds) => l :: ds
  | none => []

def fracText : Option Str → Str
  | some f => '.' :: f
  | none => []

def NumParts.text (p : NumParts) : Str :=
  (if p.neg then ['-'] else []) ++ p.ip ++ fracText p.fp ++ expText p.ex

/-- `([eE][+-]?[0-9]+)?` then end of text -/
def splitExp (t : Str) : Option (Option (Char × Option Char × Str)) :=
  match t with
  | [] => some none
  | l :: t1 =>
    if l = 'e' ∨ l = 'E' then
      match t1 with
      | [] => none
      | s :: t2 =>
        if s = '+' ∨ s = '-' then
          (if t2 ≠ [] ∧ t2.all isDigit then some (some (l, some s, t2)) else none)
        else
          (if t1.all isDigit then some (some (l, none, t1)) else none)
    else none

/-- after the integer digits `ip`: `(\.[0-9]+)?([eE][+-]?[0-9]+)?` then end of text -/
def splitAfter (neg : Bool) (ip s2 : Str) : Option NumParts :=
  if ip = [] then none else
  match s2 with
  | [] => some ⟨neg, ip, none, none⟩
  | c :: s3 =>
    if c = '.' then
      (if s3.takeWhile isDigit = [] then none else
       match splitExp (s3.dropWhile isDigit) with
       | some ex => some ⟨neg, ip, some (s3.takeWhile isDigit), ex⟩
       | none => none)
    else
      match splitExp s2 with
      | some ex => some ⟨neg, ip, none, ex⟩
      | none => none

/-- `[0-9]+(\.[0-9]+)?([eE][+-]?[0-9]+)?` then end of text -/
def splitUnsigned (neg : Bool) (s1 : Str) : Option NumParts :=
  splitAfter neg (s1.takeWhile isDigit) (s1.dropWhile isDigit)

def splitNumeral (s : Str) : Option NumParts :=
  match s with
  | [] => none
  | c :: r => if c = '-' then splitUnsigned true r else splitUnsigned false s

def isNumeral (s : Str) : Bool := (splitNumeral s).isSome

/-! ## numbers as delivered -/

/-- a CEL number: an `int`, or a `double` given exactly as ±m·10^x with m stripped of trailing
    zeros (IEEE rounding of the decimal is not modelled) -/
inductive CNum where
  | int (n : Int)
  | dec (neg : Bool) (m : Nat) (x : Int)
  deriving Repr, DecidableEq

/-- strip trailing zeros of the mantissa -/
def normDec (neg : Bool) (m : Nat) (x : Int) : CNum :=
  if h0 : m = 0 then .dec neg 0 0
  else if m % 10 = 0 then normDec neg (m / 10) (x + 1) else .dec neg m x
termination_by m
decreasing_by omega

def signed (neg : Bool) (n : Nat) : Int := if neg then -(n : Int) else (n : Int)

def expVal : Option (Char × Option Char × Str) → Int
  | none => 0
  | some (_, some s, ds) => if s = '-' then -(digitsVal ds : Int) else (digitsVal ds : Int)
  | some (_, none, ds) => (digitsVal ds : Int)

/-- the number a decimal numeral denotes: an integer when neither fraction nor exponent is written -/
def NumParts.value (p : NumParts) : CNum :=
  match p.fp, p.ex with
  | none, none => .int (signed p.neg (digitsVal p.ip))
  | fp, ex =>
    let f := fp.getD []
    normDec p.neg (digitsVal (p.ip ++ f)) (expVal ex - f.length)

/-! ## celpy's number literals
    INT_LIT   : -? DIGIT+                      (the hex alternative is never emitted; not modelled)
    FLOAT_LIT : -? DIGIT+ "." DIGIT* EXP? | -? DIGIT* "." DIGIT+ EXP? | -? DIGIT+ EXP
    value     : IntType(text) / DoubleType(text) -/

/-- `EXPONENT : /[eE]/ /[+-]?/ DIGIT+` covering the rest of the token; `some none` = no exponent -/
def lexExp (t : Str) : Option (Option Int) :=
  match t with
  | [] => some none
  | l :: t1 =>
    if l = 'e' ∨ l = 'E' then
      match t1 with
      | [] => none
      | s :: t2 =>
        if s = '+' then (if t2 ≠ [] ∧ t2.all isDigit then some (some (digitsVal t2 : Int)) else none)
        else if s = '-' then (if t2 ≠ [] ∧ t2.all isDigit then some (some (-(digitsVal t2 : Int))) else none)
        else (if t1.all isDigit then some (some (digitsVal t1 : Int)) else none)
    else none

/-- after the integer digits `ip`: `("." DIGIT*)? EXP?` with the side conditions of INT_LIT / FLOAT_LIT,
    to the end of the text -/
def lexAfter (neg : Bool) (ip t2 : Str) : Option CNum :=
  match t2 with
  | [] => if ip = [] then none else some (.int (signed neg (digitsVal ip)))
  | c :: t3 =>
    if c = '.' then
      (if ip = [] ∧ t3.takeWhile isDigit = [] then none else
       match lexExp (t3.dropWhile isDigit) with
       | some x => some (normDec neg (digitsVal (ip ++ t3.takeWhile isDigit)) (x.getD 0 - (t3.takeWhile isDigit).length))
       | none => none)
    else
      if ip = [] then none else
      match lexExp t2 with
      | some (some x) => some (normDec neg (digitsVal ip) x)
      | _ => none

def lexUnsigned (neg : Bool) (t1 : Str) : Option CNum :=
  lexAfter neg (t1.takeWhile isDigit) (t1.dropWhile isDigit)

/-- the whole text as one INT_LIT / FLOAT_LIT token, and its value -/
def lexNumber (t : Str) : Option CNum :=
  match t with
  | [] => none
  | c :: r => if c = '-' then lexUnsigned true r else lexUnsigned false t

/-! ## the repaired string encoder -/

/-- `_STRING_ESCAPES` — what `str.translate` writes for one character -/
def escChar (c : Char) : Str :=
  if c = '\\' then ['\\', '\\']
  else if c = '"' then ['\\', '"']
  else if c = '\n' then ['\\', 'n']
  else if c = '\r' then ['\\', 'r']
  else if c = '\t' then ['\\', 't']
  else [c]

/-- `value.translate(_STRING_ESCAPES)` -/
def escBody : Str → Str
  | [] => []
  | c :: s => escChar c ++ escBody s

def hasQuote (s : Str) : Bool := s.any (· = '"')

/-- `_encode_str`: `"""…"""` when the value contains a quote, `"…"` otherwise; same body -/
def quoteStr (s : Str) : Str :=
  if hasQuote s then '"' :: '"' :: '"' :: (escBody s ++ ['"', '"', '"'])
  else '"' :: (escBody s ++ ['"'])

def startsWithEq (s : Str) : Bool := s.head? = some '='

/-- `encode_cel` on a `str`: numerals pass through, `=`-expressions are spliced, the rest is quoted -/
def encodeStr (s : Str) : Str :=
  if isNumeral s then s
  else if s = [] then ['"', '"']
  else if startsWithEq s then s.dropWhile (· = '=')
  else quoteStr s

/-! ## `encode_cel` on JSON values (exact text) -/

def nullText : Str := ['n', 'u', 'l', 'l']
def trueText : Str := ['t', 'r', 'u', 'e']
def falseText : Str := ['f', 'a', 'l', 's', 'e']

mutual
def enc : JVal → Str
  | .null => nullText
  | .bool b => if b then trueText else falseText
  | .int n => renderInt n
  | .flt e => renderFlt e
  | .str s => encodeStr s.toList
  | .arr [] => ['[', ']']
  | .arr (x :: xs) => '[' :: (enc x ++ encTail xs ++ [']'])
  | .obj [] => ['{', '}']
  | .obj ((k, v) :: kvs) => '{' :: (quoteStr k.toList ++ ':' :: enc v ++ encTailO kvs ++ ['}'])
/-- `",".join(...)` for the elements after the first -/
def encTail : List JVal → Str
  | [] => []
  | x :: xs => ',' :: (enc x ++ encTail xs)
def encTailO : List (String × JVal) → Str
  | [] => []
  | (k, v) :: kvs => ',' :: (quoteStr k.toList ++ ':' :: enc v ++ encTailO kvs)
end

def encodeCel (v : JVal) : String := String.ofList (enc v)

/-! ## celpy's string literals (the cooked `"…"` and `"""…"""` forms — the only ones emitted)

  The token regexes `STRING_LIT` / `MLSTRING_LIT` and `celstr`'s `CEL_ESCAPES_PAT` are read as
  one left-to-right scanner: it stops at the first closing delimiter that is not part of an
  escape, and expands escapes on the way.  (The real lexer is a backtracking regex; on a text
  in which every backslash starts a recognised escape and which has a closing delimiter the
  first path it tries is this scan.) -/

/-- `CEL_ESCAPES`: letter after the backslash ↦ character -/
def escTable : List (Char × Char) :=
  [('"', '"'), ('\'', '\''), ('\\', '\\'), ('a', Char.ofNat 7), ('b', Char.ofNat 8), ('f', Char.ofNat 12),
   ('n', '\n'), ('r', '\r'), ('t', '\t'), ('v', Char.ofNat 11)]

def unescLetter (c : Char) : Option Char := escTable.lookup c

/-- what follows a backslash: `some (ch, n)` = a recognised escape of n further characters
    (`\n`-style, `\ooo`, `\xHH`, `\uHHHH`, `\UHHHHHHHH`) standing for ch -/
def decodeEscape (t : Str) : Option (Char × Nat) :=
  match t with
  | [] => none
  | c :: t1 =>
    match unescLetter c with
    | some d => some (d, 1)
    | none =>
      if c = 'x' then
        match t1 with
        | h1 :: h2 :: _ => if isHex h1 ∧ isHex h2 then some (Char.ofNat (hexVal h1 * 16 + hexVal h2), 3) else none
        | _ => none
      else if c = 'u' then
        (let hs := t1.take 4
         if hs.length = 4 ∧ hs.all isHex then some (Char.ofNat (hs.foldl (fun a h => a * 16 + hexVal h) 0), 5) else none)
      else if c = 'U' then
        (let hs := t1.take 8
         if hs.length = 8 ∧ hs.all isHex then some (Char.ofNat (hs.foldl (fun a h => a * 16 + hexVal h) 0), 9) else none)
      else if isOct c then
        match t1 with
        | o2 :: o3 :: _ =>
          if isOct o2 ∧ isOct o3 then
            some (Char.ofNat (((c.toNat - '0'.toNat) * 8 + (o2.toNat - '0'.toNat)) * 8 + (o3.toNat - '0'.toNat)), 3)
          else none
        | _ => none
      else none

def consFst (c : Char) : Option (Str × Str) → Option (Str × Str)
  | some (s, r) => some (c :: s, r)
  | none => none

/-- after the opening `"`: (decoded text, what follows the closing `"`).
    A raw newline cannot occur (`.` does not match it). -/
def scanShort (t : Str) : Option (Str × Str) :=
  match t with
  | [] => none
  | c :: rest =>
    if c = '"' then some ([], rest)
    else if c = '\\' then
      match decodeEscape rest with
      | some (d, n) => consFst d (scanShort (rest.drop n))
      | none => consFst '\\' (scanShort rest)
    else if c = '\n' then none
    else consFst c (scanShort rest)
termination_by t.length
decreasing_by all_goals (simp only [List.length_cons, List.length_drop]; omega)

/-- after the opening `"""`: (decoded text, what follows the closing `"""`).
    A raw newline is accepted by the token regex but dropped by `celstr`
    (`CEL_ESCAPES_PAT`'s `.` does not match it). -/
def scanLong (t : Str) : Option (Str × Str) :=
  match t with
  | [] => none
  | c :: rest =>
    if c = '"' then
      (if rest.take 2 = ['"', '"'] then some ([], rest.drop 2) else consFst '"' (scanLong rest))
    else if c = '\\' then
      match decodeEscape rest with
      | some (d, n) => consFst d (scanLong (rest.drop n))
      | none => consFst '\\' (scanLong rest)
    else if c = '\n' then scanLong rest
    else consFst c (scanLong rest)
termination_by t.length
decreasing_by all_goals (simp only [List.length_cons, List.length_drop]; omega)

def whole : Option (Str × Str) → Option Str
  | some (s, []) => some s
  | _ => none

/-- the whole text as one STRING_LIT / MLSTRING_LIT token (cooked, double-quoted), and its value -/
def lexString (t : Str) : Option Str :=
  match t with
  | c :: t1 =>
    if c = '"' then
      (if t1.take 2 = ['"', '"'] then whole (scanLong (t1.drop 2)) else whole (scanShort t1))
    else none
  | [] => none

/-! ## values as delivered, tokens, parser -/

/-- a CEL value of the JSON-like subset -/
inductive CVal where
  | null
  | bool (b : Bool)
  | num (n : CNum)
  | str (s : Str)
  | arr (xs : List CVal)
  | obj (kvs : List (Str × CVal))
  deriving Repr

inductive Tok where
  | lbrack | rbrack | lbrace | rbrace | comma | colon
  | lit (text : Str)
  deriving Repr, DecidableEq

def Tok.text : Tok → Str
  | .lbrack => ['['] | .rbrack => [']'] | .lbrace => ['{'] | .rbrace => ['}']
  | .comma => [','] | .colon => [':']
  | .lit t => t

def toksText (ts : List Tok) : Str := ts.flatMap Tok.text

mutual
/-- the token sequence `encode_cel` writes (each literal token carries its text) -/
def toks : JVal → List Tok
  | .null => [.lit nullText]
  | .bool b => [.lit (if b then trueText else falseText)]
  | .int n => [.lit (renderInt n)]
  | .flt e => [.lit (renderFlt e)]
  | .str s => [.lit (encodeStr s.toList)]
  | .arr [] => [.lbrack, .rbrack]
  | .arr (x :: xs) => .lbrack :: (toks x ++ toksTail xs ++ [.rbrack])
  | .obj [] => [.lbrace, .rbrace]
  | .obj ((k, v) :: kvs) => .lbrace :: (.lit (quoteStr k.toList) :: .colon :: toks v ++ toksTailO kvs ++ [.rbrace])
def toksTail : List JVal → List Tok
  | [] => []
  | x :: xs => .comma :: (toks x ++ toksTail xs)
def toksTailO : List (String × JVal) → List Tok
  | [] => []
  | (k, v) :: kvs => .comma :: (.lit (quoteStr k.toList) :: .colon :: toks v ++ toksTailO kvs)
end

/-- value of one literal token -/
def litVal (t : Str) : Option CVal :=
  match t with
  | [] => none
  | c :: _ =>
    if c = '"' then (lexString t).map .str
    else if c = '-' ∨ c = '.' ∨ isDigit c then (lexNumber t).map .num
    else if t = nullText then some .null
    else if t = trueText then some (.bool true)
    else if t = falseText then some (.bool false)
    else none

mutual
/-- recursive descent over the token list for `literal | [v, …] | {"k": v, …}`; `fuel` bounds the
    recursion (the number of tokens always suffices) -/
def pVal : Nat → List Tok → Option (CVal × List Tok)
  | 0, _ => none
  | _ + 1, [] => none
  | f + 1, t :: ts =>
    match t with
    | .lit x => match litVal x with
      | some v => some (v, ts)
      | none => none
    | .lbrack =>
      (match ts with
       | .rbrack :: r => some (.arr [], r)
       | _ => match pVal f ts with
         | some (v, r1) => match pTail f r1 with
           | some (vs, r2) => some (.arr (v :: vs), r2)
           | none => none
         | none => none)
    | .lbrace =>
      (match ts with
       | .rbrace :: r => some (.obj [], r)
       | _ => match pEntry f ts with
         | some (kv, r1) => match pTailO f r1 with
           | some (kvs, r2) => some (.obj (kv :: kvs), r2)
           | none => none
         | none => none)
    | _ => none
/-- `, v , v … ]` -/
def pTail : Nat → List Tok → Option (List CVal × List Tok)
  | 0, _ => none
  | _ + 1, [] => none
  | f + 1, t :: ts =>
    match t with
    | .rbrack => some ([], ts)
    | .comma => match pVal f ts with
      | some (v, r1) => match pTail f r1 with
        | some (vs, r2) => some (v :: vs, r2)
        | none => none
      | none => none
    | _ => none
/-- `"k" : v` -/
def pEntry : Nat → List Tok → Option ((Str × CVal) × List Tok)
  | 0, _ => none
  | f + 1, ts =>
    match ts with
    | .lit k :: .colon :: r =>
      (match lexString k with
       | some key => match pVal f r with
         | some (v, r1) => some ((key, v), r1)
         | none => none
       | none => none)
    | _ => none
/-- `, "k" : v … }` -/
def pTailO : Nat → List Tok → Option (List (Str × CVal) × List Tok)
  | 0, _ => none
  | _ + 1, [] => none
  | f + 1, t :: ts =>
    match t with
    | .rbrace => some ([], ts)
    | .comma => match pEntry f ts with
      | some (kv, r1) => match pTailO f r1 with
        | some (kvs, r2) => some (kv :: kvs, r2)
        | none => none
      | none => none
    | _ => none
end

def parse (ts : List Tok) : Option CVal :=
  match pVal ts.length ts with
  | some (v, []) => some v
  | _ => none

/-! ## character-level tokenizer for the sub-language `encode_cel` emits

  Modelled on celpy's lark terminals (celpy/cel.lark) as its contextual lexer applies them in
  the positions that occur: WHITESPACE is ignored; `[ ] { } , :` are the anonymous punctuation
  terminals; a text starting with `-`, `.` or a digit is matched by FLOAT_LIT (tried first) or
  INT_LIT — greedy digits, an optional `.digits`, an exponent only when it is complete
  (`[eE][+-]?DIGIT+`); a text starting with `"` is MLSTRING_LIT when it starts with `"""`
  (tried first), else STRING_LIT; a text starting with a letter or `_` is matched by IDENT's
  `[_a-zA-Z][_a-zA-Z0-9]*` and is BOOL_LIT / NULL_LIT exactly when the whole run is
  `true` / `false` / `null` (any other identifier is outside the sub-language: `none`).
  Anything else (operators, a lone `-`, raw / single-quoted / bytes strings, `u` suffixes,
  hex) is outside the sub-language as well. -/

def isWs (c : Char) : Bool := c = ' ' || c = '\t' || c = '\n' || c = '\r' || c = Char.ofNat 12

def isIdentStart (c : Char) : Bool :=
  ('a'.toNat ≤ c.toNat && c.toNat ≤ 'z'.toNat) || ('A'.toNat ≤ c.toNat && c.toNat ≤ 'Z'.toNat) || c = '_'

def isIdentChar (c : Char) : Bool := isIdentStart c || isDigit c

/-- length of a complete exponent `[eE][+-]?DIGIT+` at the start of `t`, 0 if there is none -/
def expLen (t : Str) : Nat :=
  match t with
  | [] => 0
  | l :: t1 =>
    if l = 'e' ∨ l = 'E' then
      match t1 with
      | [] => 0
      | s :: t2 =>
        if s = '+' ∨ s = '-' then
          (if t2.takeWhile isDigit = [] then 0 else 2 + (t2.takeWhile isDigit).length)
        else
          (if t1.takeWhile isDigit = [] then 0 else 1 + (t1.takeWhile isDigit).length)
    else 0

/-- after the sign and `ipLen` integer digits: how far FLOAT_LIT / INT_LIT reach -/
def numLenAfter (ipLen : Nat) (t2 : Str) : Option Nat :=
  match t2 with
  | [] => if ipLen = 0 then none else some ipLen
  | c :: t3 =>
    if c = '.' then
      (if ipLen = 0 ∧ t3.takeWhile isDigit = [] then none
       else some (ipLen + 1 + (t3.takeWhile isDigit).length + expLen (t3.dropWhile isDigit)))
    else if ipLen = 0 then none else some (ipLen + expLen t2)

/-- length of the number token at the start of `t` -/
def numLen (t : Str) : Option Nat :=
  match t with
  | [] => none
  | c :: r =>
    if c = '-' then (numLenAfter (r.takeWhile isDigit).length (r.dropWhile isDigit)).map (· + 1)
    else numLenAfter (t.takeWhile isDigit).length (t.dropWhile isDigit)

/-- length of the string token whose opening quote precedes `t1` -/
def strLen (t1 : Str) : Option Nat :=
  if t1.take 2 = ['"', '"'] then
    match scanLong (t1.drop 2) with
    | some (_, rest) => some (1 + t1.length - rest.length)
    | none => none
  else
    match scanShort t1 with
    | some (_, rest) => some (1 + t1.length - rest.length)
    | none => none

/-- the token at the start of `t` (which does not start with white space) and the length of its text -/
def nextTok (t : Str) : Option (Tok × Nat) :=
  match t with
  | [] => none
  | c :: r =>
    if c = '-' ∨ c = '.' ∨ isDigit c then
      match numLen t with
      | some n => some (.lit (t.take n), n)
      | none => none
    else if c = '"' then
      match strLen r with
      | some n => some (.lit (t.take n), n)
      | none => none
    else if isIdentStart c then
      (let w := t.takeWhile isIdentChar
       if w = nullText ∨ w = trueText ∨ w = falseText then some (.lit w, w.length) else none)
    else if c = '[' then some (.lbrack, 1)
    else if c = ']' then some (.rbrack, 1)
    else if c = '{' then some (.lbrace, 1)
    else if c = '}' then some (.rbrace, 1)
    else if c = ',' then some (.comma, 1)
    else if c = ':' then some (.colon, 1)
    else none

def consTok (t : Tok) : Option (List Tok) → Option (List Tok)
  | some ts => some (t :: ts)
  | none => none

/-- cut a text into the tokens of the sub-language -/
def tokenize (t : Str) : Option (List Tok) :=
  match t with
  | [] => some []
  | c :: r =>
    if isWs c then tokenize r
    else
      match nextTok (c :: r) with
      | some (tok, n) => consTok tok (tokenize (r.drop (n - 1)))
      | none => none
termination_by t.length
decreasing_by all_goals (simp only [List.length_cons, List.length_drop]; omega)

/-- tokenise, then parse: the whole reading of an emitted text -/
def parseChars (t : Str) : Option CVal :=
  match tokenize t with
  | some ts => parse ts
  | none => none

/-! ## the specification: what must arrive -/

/-- the documented exception applied to a string value -/
def numeraliseStr (s : Str) : CVal :=
  match splitNumeral s with
  | some p => .num p.value
  | none => .str s

mutual
/-- the value as written, with numeral strings (values, not keys) replaced by their number -/
def numeralise : JVal → CVal
  | .null => .null
  | .bool b => .bool b
  | .int n => .num (.int n)
  | .flt e => .num (normDec (decide (e < 0)) (e.natAbs * 125) (-3))
  | .str s => numeraliseStr s.toList
  | .arr xs => .arr (numeraliseL xs)
  | .obj kvs => .obj (numeraliseO kvs)
def numeraliseL : List JVal → List CVal
  | [] => []
  | x :: xs => numeralise x :: numeraliseL xs
def numeraliseO : List (String × JVal) → List (Str × CVal)
  | [] => []
  | (k, v) :: kvs => (k.toList, numeralise v) :: numeraliseO kvs
end

mutual
/-- no string *value* anywhere starts with `=` (those are expressions, outside C11) -/
def noExpr : JVal → Bool
  | .str s => !startsWithEq s.toList
  | .arr xs => noExprL xs
  | .obj kvs => noExprO kvs
  | _ => true
def noExprL : List JVal → Bool
  | [] => true
  | x :: xs => noExpr x && noExprL xs
def noExprO : List (String × JVal) → Bool
  | [] => true
  | (_, v) :: kvs => noExpr v && noExprO kvs
end

end Koreo.Encoder
