/-
  C08 — what is put into a payload before it is sent.  Core Lean only.

  Transcribed from src/koreo/resource_function/reconcile/__init__.py
    `_prepare_for_api`        (strip, dump **before** the annotation is added, containers created on demand)
    `_updated_owner_refs`     (existing references + ours, unless one with our uid is there)
    `_validate_owner_reffed`  (is a reference with our uid there — a PermFail answer is truthy)
  `_strip_koreo_directives` is `Koreo.strip` (Koreo/Directives.lean).

  JSON text is abstract: `enc : JVal → String` stands for `json.dumps`; the theorems assume only
  that some `dec` undoes it (`dec (enc v) = some v`), the harness checks `json.loads` on the real text.
-/
import Koreo.Directives
import Koreo.Identity
namespace Koreo.Payload
open Koreo JVal Koreo.Identity

/-- `LAST_APPLIED_ANNOTATION` (constants.py; regenerated into Gen/RfDefaults.lean) -/
def lastApplied : String := "koreo.dev/last-applied-configuration"

/-- `_prepare_for_api(obj)`; `none` = the Python raises (`metadata` / `annotations` present but not maps) -/
def prepareForApi (enc : JVal → String) (o : JVal) : Option JVal :=
  match strip o with
  | .obj kvs =>
    let dumped := JVal.str (enc (.obj kvs))
    let kvs1 := match JVal.lookup "metadata" kvs with
      | some _ => kvs
      | none => JVal.insert "metadata" (.obj []) kvs
    match JVal.lookup "metadata" kvs1 with
    | some (.obj m) =>
      let m1 := match JVal.lookup "annotations" m with
        | some _ => m
        | none => JVal.insert "annotations" (.obj []) m
      match JVal.lookup "annotations" m1 with
      | some (.obj a) =>
        some (.obj (JVal.insert "metadata"
          (.obj (JVal.insert "annotations" (.obj (JVal.insert lastApplied dumped a)) m1)) kvs1))
      | _ => none
    | _ => none
  | _ => none

/-- the annotation's text, if the payload has one -/
def annotationOf (p : JVal) : Option String :=
  match (metaKey "annotations" p).bind (getKey lastApplied) with
  | some (.str s) => some s
  | _ => none

/-- the payload without the last-applied annotation (containers stay) -/
def removeAnnotation : JVal → JVal
  | .obj kvs =>
    match JVal.lookup "metadata" kvs with
    | some (.obj m) =>
      match JVal.lookup "annotations" m with
      | some (.obj a) =>
        .obj (JVal.insert "metadata" (.obj (JVal.insert "annotations" (.obj (JVal.erase lastApplied a)) m)) kvs)
      | _ => .obj kvs
    | _ => .obj kvs
  | v => v

/-- `a` is `b`, or `b` plus only the empty containers `_prepare_for_api` creates to hold the
    annotation (`metadata.annotations`, or `metadata` with it) -/
def HolderEq (a b : JVal) : Prop :=
  a = b ∨
  (∃ kvs m, b = .obj kvs ∧ JVal.lookup "metadata" kvs = some (.obj m) ∧ JVal.lookup "annotations" m = none ∧
      a = .obj (JVal.insert "metadata" (.obj (JVal.insert "annotations" (.obj []) m)) kvs)) ∨
  (∃ kvs, b = .obj kvs ∧ JVal.lookup "metadata" kvs = none ∧
      a = .obj (JVal.insert "metadata" (.obj [("annotations", .obj [])]) kvs))

/-- the target does not itself set Koreo's bookkeeping annotation -/
def LacksLastApplied (o : JVal) : Prop :=
  (metaKey "annotations" o).bind (getKey lastApplied) = none

/-! ## directive keys anywhere -/

mutual
/-- no map anywhere inside (any depth, any list position) has a directive key -/
def noDirectiveKey : JVal → Bool
  | .obj kvs => noDirectiveKeyO kvs
  | .arr xs => noDirectiveKeyL xs
  | _ => true
def noDirectiveKeyL : List JVal → Bool
  | [] => true
  | x :: xs => noDirectiveKey x && noDirectiveKeyL xs
def noDirectiveKeyO : List (String × JVal) → Bool
  | [] => true
  | (k, v) :: rest => !isDirective k && noDirectiveKey v && noDirectiveKeyO rest
end

/-! ## owner references -/

/-- `current_ref.get("uid")` (`None` when absent) -/
def uidOf (r : JVal) : JVal := (getKey "uid" r).getD .null

/-- a reference with this uid is in the list (`current_ref.get("uid") == trigger_uid`, Python `==`) -/
def hasUid (uid : JVal) (refs : List JVal) : Bool := refs.any fun r => JVal.pyEq (uidOf r) uid

/-- `v.metadata.ownerReferences` as a list (`[]` when there is none) -/
def ownerRefsOf (v : JVal) : List JVal :=
  match metaKey "ownerReferences" v with
  | some (.arr xs) => xs
  | _ => []

/-- `_updated_owner_refs(resource_view, owner_ref)`; `none` = PermFail (nothing is sent).
    List items are assumed to be maps (the API server guarantees it for live objects). -/
def updatedOwnerRefs (view ownerRef : JVal) : Option (List JVal) :=
  match getKey "metadata" view with
  | some (.obj m) =>
    match JVal.lookup "ownerReferences" m with
    | none => some [ownerRef]
    | some refs =>
      if !refs.truthy then some [ownerRef]
      else match refs with
        | .arr xs => if hasUid (uidOf ownerRef) xs then some xs else some (xs ++ [ownerRef])
        | _ => none
  | _ => none

/-- `_validate_owner_reffed(live, owner_ref)` as the truth value the caller tests
    (a PermFail object is truthy, so the "corrupt" answers count as reffed) -/
def ownerReffed (live ownerRef : JVal) : Bool :=
  match getKey "metadata" live with
  | some (.obj m) =>
    match JVal.lookup "ownerReferences" m with
    | none => false
    | some refs =>
      if !refs.truthy then false
      else match refs with
        | .arr xs => hasUid (uidOf ownerRef) xs
        | _ => true
  | _ => true

/-- the target does not itself specify `metadata.ownerReferences` -/
def TargetHasNoOwnerRefs (t : JVal) : Prop := metaKey "ownerReferences" t = none

end Koreo.Payload
