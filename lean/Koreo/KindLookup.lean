/-
  Kind → plural discovery with an in-flight lock table
  (`src/koreo/resource_function/reconcile/kind_lookup.py::get_plural_kind`), fault-free part: every
  discovery call is answered (C02 only speaks about passes whose calls succeed in time).

  Two process-global tables: `_plural_map` (results) and `_lookup_locks` (one `asyncio.Event` per lookup
  that is, or was, in flight).  A caller of `get_plural_kind(kind, api_version)`

    * returns the remembered plural of ITS key `lookup_kind = kind[.api_version]` if there is one;
    * otherwise, if the lock table has an event under its lock key, WAITS for that event and then returns
      the remembered plural of its own key — or raises "Waiting on … failed." if there is none;
    * otherwise becomes the OWNER: files a fresh event under its lock key, asks the API, remembers the
      answer under its key, sets the event.

  The model is a transition system over those tables; the events of a schedule are `call` (a task enters
  `get_plural_kind`), `answer` (the API answers an owner's discovery call) and `wake` (a waiter whose event
  is set runs again).  Everything between two awaits is atomic in asyncio, so these are the only
  interleaving points.  The key under which the LOCK is filed is a parameter (`Cfg.lk`), so is whether the
  lock entry is dropped when the lookup ends (`Cfg.release`): the code at HEAD is `lk = id`,
  `release = false`.
-/
namespace Koreo.KindLookup

abbrev Key := String      -- `lookup_kind`
abbrev LKey := String     -- key of `_lookup_locks`

/-- `lookup_kind` as `get_plural_kind` builds it -/
def lookupKey (kind apiVersion : String) : Key :=
  if apiVersion = "v1" then kind else kind ++ "." ++ apiVersion

/-- what a task that entered `get_plural_kind` is doing; an event is identified with the request id of
    the owner that created it -/
inductive Req where
  | owner (k : Key)                        -- its discovery call is in flight
  | waiting (k : Key) (ev : Nat)           -- awaits the event created by request `ev`
  | done (k : Key) (p : Option String)     -- returned `p`; `none` = raised "Waiting on … failed."
  deriving DecidableEq, Repr

structure St where
  plural : Key → Option String      -- `_plural_map`
  locks  : LKey → Option Nat        -- `_lookup_locks`: lock key ↦ event (= its owner's request id)
  isSet  : Nat → Bool               -- events that have been set
  reqs   : Nat → Option Req

/-- first pass after start: nothing discovered, nothing in flight -/
def cold : St := ⟨fun _ => none, fun _ => none, fun _ => false, fun _ => none⟩

def upd {α β : Type} [DecidableEq α] (f : α → β) (a : α) (b : β) : α → β :=
  fun x => if x = a then b else f x

inductive Ev where
  | call (r : Nat) (k : Key)
  | answer (r : Nat)
  | wake (r : Nat)
  deriving DecidableEq, Repr

structure Cfg where
  lk : Key → LKey          -- the key the lock is filed under
  release : Bool           -- the lock entry is removed when the lookup ends
  srv : Key → String       -- what the API answers for a key

/-- HEAD: lock table and result table share the key, entries stay -/
def head (srv : Key → String) : Cfg := ⟨id, false, srv⟩

def step (c : Cfg) (s : St) : Ev → Option St
  | .call r k =>
    match s.reqs r with
    | some _ => none
    | none =>
      match s.plural k with
      | some p => some { s with reqs := upd s.reqs r (some (.done k (some p))) }
      | none =>
        match s.locks (c.lk k) with
        | some ev => some { s with reqs := upd s.reqs r (some (.waiting k ev)) }
        | none => some { s with locks := upd s.locks (c.lk k) (some r),
                                reqs := upd s.reqs r (some (.owner k)) }
  | .answer r =>
    match s.reqs r with
    | some (.owner k) =>
      some { plural := upd s.plural k (some (c.srv k)),
             locks := if c.release then upd s.locks (c.lk k) none else s.locks,
             isSet := upd s.isSet r true,
             reqs := upd s.reqs r (some (.done k (some (c.srv k)))) }
    | _ => none
  | .wake r =>
    match s.reqs r with
    | some (.waiting k ev) =>
      if s.isSet ev then some { s with reqs := upd s.reqs r (some (.done k (s.plural k))) } else none
    | _ => none

/-- a schedule; `none` if some event is not enabled -/
def run (c : Cfg) : St → List Ev → Option St
  | s, [] => some s
  | s, e :: es => match step c s e with
    | none => none
    | some s' => run c s' es

/-- what request `r` returned after the schedule (outer `none`: not executable / not finished) -/
def answerOf (c : Cfg) (σ : List Ev) (r : Nat) : Option (Option String) :=
  match run c cold σ with
  | some s => match s.reqs r with
    | some (.done _ p) => some p
    | _ => none
  | none => none

/-- a lock table keyed by the bare kind word (the part of `lookup_kind` before the first dot) -/
def kindWord (k : Key) : LKey := String.ofList (k.toList.takeWhile (· != '.'))

end Koreo.KindLookup
