/-
  Shared JSON value model.  Core Lean only (no Mathlib) so the driver can be a `lean_exe`.

  `JVal` keeps what Python distinguishes: bool vs int vs float, map insertion order.
  Floats are restricted to eighths (`flt e` stands for e/8) — every generator in the
  harness only emits dyadic rationals k/8, so float equality is integer equality.
-/
namespace Koreo

inductive JVal where
  | null
  | bool (b : Bool)
  | int (n : Int)
  | flt (e : Int)            -- the float e/8
  | str (s : String)
  | arr (xs : List JVal)
  | obj (kvs : List (String × JVal))
  deriving Repr, BEq, Inhabited

namespace JVal

/-- association-list lookup (first match — Python dicts have unique keys). -/
def lookup (k : String) : List (String × JVal) → Option JVal
  | [] => none
  | (k', v) :: rest => if k' = k then some v else lookup k rest

/-- Python `d[k] = v` on an insertion-ordered dict: replace in place or append. -/
def insert (k : String) (v : JVal) : List (String × JVal) → List (String × JVal)
  | [] => [(k, v)]
  | (k', v') :: rest => if k' = k then (k, v) :: rest else (k', v') :: insert k v rest

def erase (k : String) : List (String × JVal) → List (String × JVal)
  | [] => []
  | (k', v') :: rest => if k' = k then rest else (k', v') :: erase k rest

def keys (kvs : List (String × JVal)) : List String := kvs.map (·.1)

/-- numeric value in eighths, for Python's cross-type numeric `==`. -/
def num8? : JVal → Option Int
  | .bool b => some (if b then 8 else 0)
  | .int n => some (n * 8)
  | .flt e => some e
  | _ => none

mutual
/-- Python `==` restricted to JSON values (`True == 1 == 1.0`; dict equality ignores order). -/
def pyEq : JVal → JVal → Bool
  | .null, .null => true
  | .str a, .str b => a == b
  | .arr xs, .arr ys => pyEqL xs ys
  | .obj xs, .obj ys => xs.length == ys.length && pyEqO xs ys
  | a, b =>
    match a.num8?, b.num8? with
    | some x, some y => x == y
    | _, _ => false
def pyEqL : List JVal → List JVal → Bool
  | [], [] => true
  | x :: xs, y :: ys => pyEq x y && pyEqL xs ys
  | _, _ => false
/-- every binding of the left dict is matched in the right dict -/
def pyEqO : List (String × JVal) → List (String × JVal) → Bool
  | [], _ => true
  | (k, v) :: rest, ys =>
    (match lookup k ys with
     | some w => pyEq v w
     | none => false) && pyEqO rest ys
end

/-- Python truthiness. -/
def truthy : JVal → Bool
  | .null => false
  | .bool b => b
  | .int n => n != 0
  | .flt e => e != 0
  | .str s => s != ""
  | .arr xs => !xs.isEmpty
  | .obj kvs => !kvs.isEmpty

def isObj : JVal → Bool | .obj _ => true | _ => false
def isArr : JVal → Bool | .arr _ => true | _ => false

end JVal
end Koreo
