/-
  C18 — the per-case mock API of the FunctionTest runner (`MockApi`, `_merge_overlay` in
  src/koreo/function_test/run.py), which `Koreo/FunctionTest.lean` keeps inside the oracle `Env.fn`.

  A mock is created for every test case from the case's current resource; the Function under test
  talks to it through `async_get` (GET), and `call_api` (POST / PATCH with a JSON body, DELETE).
  After the reconcile the runner reads `materialized`, `_api_called`, `_delete_called`.

    async_get        : answers the current resource when it is truthy, nothing otherwise; no state change
    call_api DELETE  : `_materialized = {}`, `_api_called = _delete_called = True`
    call_api <body>  : `_materialized = body` when there is no current resource, else
                       `_merge_overlay(current, body)`; `_api_called = True`
    `_merge_overlay` : a copy of the base in which every key of the body REPLACES the base's value (the
                       recursive merge it computes for map values is overwritten by `updated[key] = value`)

  `_current_resource` is never assigned after construction, so a second write merges over the
  case's own resource again, not over what the first write materialised.

  Bodies and current resources are JSON objects (the body is the Function's payload, the current
  resource is `currentResource` / the threaded resource); on anything else the model answers the body.
  Core Lean only.
-/
import Koreo.FunctionTest
namespace Koreo.FT.Mock
open Koreo JVal Koreo.FT

/-- `_merge_overlay(base, overlay)` on the two key lists -/
def mergeTop (base : List (String × JVal)) : List (String × JVal) → List (String × JVal)
  | [] => base
  | (k, v) :: rest => mergeTop (insert k v base) rest

/-- what a write materialises over the case's resource -/
def merged (cur : Option JVal) (body : JVal) : JVal :=
  if truthyO cur then
    match cur, body with
    | some (.obj b), .obj o => .obj (mergeTop b o)
    | _, d => d
  else body

structure Mock where
  current : Option JVal
  materialized : Option JVal := none
  apiCalled : Bool := false
  deleteCalled : Bool := false
  deriving Repr, BEq, Inhabited

inductive Call where
  | get
  | delete
  | write (body : JVal)
  deriving Repr, BEq, Inhabited

def Call.isMutation : Call → Bool
  | .get => false
  | _ => true

def Call.isDelete : Call → Bool
  | .delete => true
  | _ => false

def fresh (cur : Option JVal) : Mock := { current := cur }

def step (m : Mock) : Call → Mock
  | .get => m
  | .delete => { m with materialized := some (.obj []), apiCalled := true, deleteCalled := true }
  | .write d => { m with materialized := some (merged m.current d), apiCalled := true }

/-- what the call hands back to the Function: the object for a GET (nothing when absent), the
    materialised object for a write, no body for a DELETE -/
def answer (m : Mock) : Call → Option JVal
  | .get => if truthyO m.current then m.current else none
  | .delete => none
  | .write d => some (merged m.current d)

def run (m : Mock) (cs : List Call) : Mock := cs.foldl step m

/-- the answers of a whole conversation, in order -/
def answers (m : Mock) : List Call → List (Option JVal)
  | [] => []
  | c :: cs => answer m c :: answers (step m c) cs

/-- the last mutating call of a conversation -/
def lastMutation : List Call → Option Call
  | [] => none
  | c :: cs =>
    match lastMutation cs with
    | some d => some d
    | none => if c.isMutation then some c else none

/-- the `Effect` the C18/C19 model reads off the mock (exact when the Function made at most one
    mutating request, which is what C07 bounds; see `effect_exact_of_single_mutation`) -/
def effectOf (cur : Option JVal) (cs : List Call) : Effect :=
  match lastMutation cs with
  | some .delete => .deleted
  | some (.write d) => .wrote (merged cur d)
  | _ => .none

/-- what a non-variant case hands to its successor:
    `api.materialized if api._api_called else resource` -/
def handedOn (m : Mock) (resource : Option JVal) : Option JVal :=
  if m.apiCalled then m.materialized else resource

end Koreo.FT.Mock
