/-
  C06 / C07 / C08 — the CRUD decision of a ResourceFunction and its payload pipeline.  Core Lean only.

  Transcribed from src/koreo/resource_function/reconcile/__init__.py
    `reconcile_resource_function`   the precondition gate (nothing touches the API before it)
    `reconcile_krm_resource`        the `if` cascade after the load, in the same order
    `_construct_resource_template`  template, then the forced overlay
    `_materialize_from_overlays`    every overlay step, then the forced overlay again
                                    (only entered when there is at least one overlay)
    `_create_api_resource`          create.overlay, the forced overlay a third time, owner
                                    references, `_prepare_for_api`, POST
  and from src/koreo/resource_function/prepare.py `_prepare_api_config` / `_prepare_create` /
  `_prepare_update` (flag defaults; tied to the source by Gen/RfDefaults.lean).

  The comparator (validate.py) is a parameter `cmp : target → live → Bool`; overlay steps
  (inline overlays, overlayRef ValueFunctions, create.overlay — with whatever the inputs make
  them compute) are arbitrary partial functions on the running resource.
-/
import Koreo.Identity
import Koreo.Payload
namespace Koreo.ResourceFn
open Koreo JVal Koreo.Identity Koreo.Payload

/-! ## C07: the finite decision table -/

inductive Policy where
  | patch | recreate | never
  deriving Repr, BEq, DecidableEq

/-- the management mode of a prepared ResourceFunction plus the precondition result.
    `namespaced`: in the table the owner (parent) lives in the namespace apiConfig names, so a
    namespaced object shares it and a cluster-scoped one (no namespace) does not. -/
structure Cfg where
  readonly : Bool
  owned : Bool
  namespaced : Bool
  createEnabled : Bool
  deleteIfExists : Bool
  policy : Policy
  /-- every precondition's assertion evaluated to the boolean `true`; `false` for a false
      assertion AND for one that evaluates to anything that is not a boolean (a text such as
      "false", a number, a list — truthy or not): neither lets the function through -/
  precondPass : Bool
  /-- `create.overlay` is written in the spec (must not influence whether create is enabled) -/
  createOverlay : Bool
  /-- `apiConfig.plural` is given; otherwise the first reconcile of the kind in a process has to
      discover it (`get_plural_kind` → `api.lookup_kind`), which is an API call too -/
  pluralGiven : Bool
  deriving Repr, BEq, DecidableEq

/-- `absentConflict`: absent when loaded, but a competitor creates the object before our POST
    arrives, so the server answers 409 -/
inductive Situation where
  | absent | presentMatching | presentDrifted | presentNoOwnerRef | absentConflict
  /-- present and drifted, and the server answers the mutating call (PATCH, or the DELETE of
      recreate / delete-if-exists) with an error status (422, 409, 500, …) -/
  | presentDriftedRejected
  /-- present (and drifted) when loaded, but gone by the time the mutating call arrives: the server
      answers 404 (another deleter, the garbage collector) -/
  | presentVanished
  deriving Repr, BEq, DecidableEq

/-- what reaches the API: nothing at all; reads only (the load); or the load plus one mutation -/
inductive Action where
  | noApiAtAll | none | create | patch | delete
  deriving Repr, BEq, DecidableEq

/-- `precond` = whatever outcome the failing precondition is configured to give -/
inductive OutcomeClass where
  | ok | retry | precond
  /-- apiConfig does not evaluate to a usable name / namespace -/
  | permFail
  /-- the API server rejected the one mutating call and the error propagates out of the reconcile -/
  | raised
  deriving Repr, BEq, DecidableEq

/-- which configured delay a Retry carries -/
inductive DelaySrc where
  | load | create | update
  deriving Repr, BEq, DecidableEq

/-- absent as far as the load can tell -/
def Situation.isAbsent : Situation → Bool
  | .absent => true
  | .absentConflict => true
  | _ => false
def Situation.isDrifted : Situation → Bool
  | .presentDrifted => true
  | .presentDriftedRejected => true
  | .presentVanished => true
  | _ => false
def Situation.mutationRejected : Situation → Bool
  | .presentDriftedRejected => true
  | .presentVanished => true
  | _ => false
def Action.isMutation : Action → Bool
  | .create => true
  | .patch => true
  | .delete => true
  | _ => false
def Situation.lacksOwnerRef : Situation → Bool
  | .presentNoOwnerRef => true
  | _ => false

/-- `should_own = own_resource and owner_namespace == namespace` in the table's setting -/
def Cfg.shouldOwn (c : Cfg) : Bool := c.owned && c.namespaced

/-- `reconcile_resource_function` + `reconcile_krm_resource` as a table, same order as the code -/
def decideCore (c : Cfg) (s : Situation) : Action × OutcomeClass :=
  if !c.precondPass then (.noApiAtAll, .precond)            -- lines 55-60
  else if c.deleteIfExists then                             -- 228-242
    if s.isAbsent then (.none, .ok) else (.delete, .retry)
  else if s.isAbsent && (c.readonly || !c.createEnabled) then (.none, .retry)   -- 244-253
  else if !s.isAbsent && c.readonly then (.none, .ok)       -- 255-256
  else if s.isAbsent then (.create, .retry)                 -- 298-313
  else
    let ownerReffed := if c.shouldOwn then !s.lacksOwnerRef else true            -- 315-320
    let resourceMatch := !s.isDrifted
    if resourceMatch && ownerReffed then (.none, .ok)       -- 331-334
    else match c.policy with                                -- 336-376
      | .never => (.none, .ok)
      | .recreate => (.delete, .retry)
      | .patch => (.patch, .retry)

/-- The table.  A rejected mutation changes nothing about WHAT is attempted — still exactly the one
    call the mode allows, no fallback to another kind of mutation — only the outcome: the error
    propagates. -/
protected def decide (c : Cfg) (s : Situation) : Action × OutcomeClass :=
  let r := decideCore c s
  if s.mutationRejected && r.1.isMutation then (r.1, .raised) else r

/-- does the run make a kind-to-plural discovery call (cold cache)?  The lookup sits in
    `reconcile_krm_resource`, behind the precondition gate, in front of the load. -/
def discovers (c : Cfg) : Bool := c.precondPass && !c.pluralGiven

/-- the delay of the Retry the cell reports (`none`: no Retry of koreo's own) -/
def delaySrc (c : Cfg) (s : Situation) : Option DelaySrc :=
  match ResourceFn.decide c s with
  | (.create, _) => some .create
  | (.patch, _) => some .update
  | (.delete, _) => if c.deleteIfExists then some .load else some .update
  | (.none, .retry) => some .load
  | _ => none

/-! ## flag parsing (`_prepare_api_config`, `_prepare_create`, `_prepare_update`) -/

/-- the flags as written in a spec (`none` = key omitted) -/
structure FlagSpec where
  readonly : Option Bool := none
  owned : Option Bool := none
  namespaced : Option Bool := none
  createEnabled : Option Bool := none
  deleteIfExists : Option Bool := none
  update : Option Policy := none
  createDelay : Option Int := none
  updateDelay : Option Int := none
  createOverlay : Bool := false
  pluralGiven : Bool := true

def namespacedDefault : Bool := true
def ownedDefault : Bool := true
def readonlyDefault : Bool := false
def deleteIfExistsDefault : Bool := false
def createEnabledDefault : Bool := true
def policyDefault : Policy := .patch
def createDelayDefault : Int := 30
def updateDelayDefault : Int := 30
/-- `DEFAULT_LOAD_RETRY_DELAY`: not configurable -/
def loadRetryDelay : Int := 30

def FlagSpec.cfg (f : FlagSpec) (precondPass : Bool) : Cfg :=
  { readonly := f.readonly.getD readonlyDefault, owned := f.owned.getD ownedDefault,
    namespaced := f.namespaced.getD namespacedDefault,
    createEnabled := f.createEnabled.getD createEnabledDefault,
    deleteIfExists := f.deleteIfExists.getD deleteIfExistsDefault,
    policy := f.update.getD policyDefault, precondPass := precondPass,
    createOverlay := f.createOverlay, pluralGiven := f.pluralGiven }

def FlagSpec.delay (f : FlagSpec) : DelaySrc → Int
  | .load => loadRetryDelay
  | .create => f.createDelay.getD createDelayDefault
  | .update => f.updateDelay.getD updateDelayDefault

/-! ## the payload pipeline -/

/-- an overlay step applied to the running resource; `none` = it fails (PermFail, nothing is sent) -/
abbrev Step := JVal → Option JVal

/-- a step's answer must be a map (`case celtypes.MapType()`), anything else is a PermFail -/
def stepMap (s : Step) (v : JVal) : Option JVal :=
  match s v with
  | some (.obj kvs) => some (.obj kvs)
  | _ => none

/-- the loop of `_materialize_from_overlays` -/
def runSteps (r : JVal) : List Step → Option JVal
  | [] => some r
  | s :: rest => (stepMap s r).bind fun r' => runSteps r' rest

/-- `_construct_resource_template` then `_materialize_from_overlays`: forced overlay after the
    template and — when there are overlays — again after the last one -/
def materialise (f : JVal) (tmpl : JVal) (steps : List Step) : Option JVal :=
  let base := deepOverlay tmpl f
  if steps.isEmpty then some base else (runSteps base steps).map fun r => deepOverlay r f

/-- `resource_view["metadata"]["ownerReferences"] = refs` guarded by `should_own` -/
def withOwner (shouldOwn : Bool) (refsFrom ownerRef v : JVal) : Option JVal :=
  if shouldOwn then
    (updatedOwnerRefs refsFrom ownerRef).bind fun refs => setMetaKey "ownerReferences" (.arr refs) v
  else some v

/-- `_create_api_resource` up to the payload: create.overlay, forced overlay (third time), owner
    references, `_prepare_for_api` -/
def applyCreateOv (createOv : Option Step) (view : JVal) : Option JVal :=
  match createOv with
  | none => some view
  | some s => stepMap s view

def createPayload (enc : JVal → String) (f view : JVal) (createOv : Option Step) (shouldOwn : Bool)
    (ownerRef : JVal) : Option JVal :=
  (applyCreateOv createOv view).bind fun v =>
    (withOwner shouldOwn (deepOverlay v f) ownerRef (deepOverlay v f)).bind (prepareForApi enc)

/-- the object the patch branch hands to `_prepare_for_api`: live references + ours when ours is
    missing; otherwise the target **without** `metadata.ownerReferences` (a merge-patch replaces
    lists, so the target's own list is only ever applied on create — fa30b95) -/
def patchView (expected live ownerRef : JVal) (shouldOwn reffed : Bool) : Option JVal :=
  if shouldOwn && !reffed then withOwner true live ownerRef expected
  else dropMetaKey "ownerReferences" expected

/-- the patch branch up to the payload -/
def patchPayload (enc : JVal → String) (expected live ownerRef : JVal) (shouldOwn reffed : Bool) : Option JVal :=
  (patchView expected live ownerRef shouldOwn reffed).bind (prepareForApi enc)

/-! ## inline overlays with evaluated leaves (what the correspondence instantiates `Step` with) -/

/-- An overlay as `_overlay_indexer` splits it: `node` = a non-empty map written in the overlay,
    `leaf` = anything else, already evaluated (a literal, or what an `=inputs.x` expression gave).
    (A small private copy; the compile/apply machinery itself is C12's subject.) -/
inductive Ov where
  | leaf (v : JVal)
  | node (kvs : List (String × Ov))
  deriving Repr, Inhabited

mutual
/-- `_overlay_applier`: a leaf replaces, a node merges into the base's map (or into a fresh one
    when the base has no map there) -/
def Ov.apply (base : JVal) : Ov → JVal
  | .leaf v => v
  | .node kvs =>
    .obj (Ov.applyL (match base with
                     | .obj b => b
                     | _ => []) kvs)
def Ov.applyL (b : List (String × JVal)) : List (String × Ov) → List (String × JVal)
  | [] => b
  | (k, o) :: rest => Ov.applyL (JVal.insert k (Ov.apply ((JVal.lookup k b).getD .null) o) b) rest
end

/-- an inline overlay / an overlayRef ValueFunction's `return` / create.overlay as a step -/
def Ov.step (o : Ov) : Step := fun r => some (o.apply r)

/-- `spec.apiConfig` as far as the class is concerned, and the class `_prepare_api_config` builds
    from it (a function of this spec alone: no memo across functions) -/
structure ApiConfigSpec where
  apiVersion : String
  kind : String
  plural : String
  namespaced : Bool

def ApiConfigSpec.cls (a : ApiConfigSpec) : ApiClass := ⟨a.apiVersion, a.kind, a.plural, a.namespaced⟩

/-- a prepared ResourceFunction, as far as `reconcile_krm_resource` looks at it -/
structure Rf where
  api : ApiClass
  name : String
  ns : Option String
  readonly : Bool
  owned : Bool
  createEnabled : Bool
  deleteIfExists : Bool
  policy : Policy
  tmpl : JVal
  steps : List Step
  createOv : Option Step

def Rf.target (rf : Rf) : Target := ⟨rf.api.ver, rf.api.kind, rf.name, rf.ns⟩

/-- the parent: its namespace and the owner reference built from it -/
structure Owner where
  ns : Option String
  ref : JVal

/-- what one reconcile did: the class of API traffic, the outcome class (`none` = materialising
    the target failed: PermFail/Retry of that step or an exception — nothing was sent), and the
    one mutating request if any -/
structure Run where
  action : Action
  outcome : Option OutcomeClass
  request : Option Request

def failedRun : Run := ⟨.none, none, none⟩

/-- `reconcile_krm_resource` after the (successful) evaluation of apiConfig; `stored` is what the
    cluster holds under (kind, namespace, name) -/
def reconcileKrm (enc : JVal → String) (defNs : String) (cmp : JVal → JVal → Bool)
    (rf : Rf) (owner : Owner) (stored : Option JVal) : Run :=
  let f := forced rf.target
  let shouldOwn := rf.owned && owner.ns == rf.ns
  match stored.bind fun o => krLoaded rf.api o rf.ns with
  | none =>
    if rf.deleteIfExists then ⟨.none, some .ok, none⟩
    else if rf.readonly || !rf.createEnabled then ⟨.none, some .retry, none⟩
    else
      match (materialise f rf.tmpl rf.steps).bind fun view =>
              (createPayload enc f view rf.createOv shouldOwn owner.ref).bind fun p =>
                createRequest rf.api defNs p rf.ns with
      | some req => ⟨.create, some .retry, some req⟩
      | none => failedRun
  | some live =>
    if rf.deleteIfExists then
      match deleteRequest rf.api defNs live with
      | some req => ⟨.delete, some .retry, some req⟩
      | none => failedRun
    else if rf.readonly then ⟨.none, some .ok, none⟩
    else
      match materialise f rf.tmpl rf.steps with
      | none => failedRun
      | some expected =>
        let reffed := if shouldOwn then ownerReffed live owner.ref else true
        if cmp expected live && reffed then ⟨.none, some .ok, none⟩
        else match rf.policy with
          | .never => ⟨.none, some .ok, none⟩
          | .recreate =>
            match deleteRequest rf.api defNs live with
            | some req => ⟨.delete, some .retry, some req⟩
            | none => failedRun
          | .patch =>
            match (patchPayload enc expected live owner.ref shouldOwn reffed).bind fun p =>
                    patchRequest rf.api defNs live p with
            | some req => ⟨.patch, some .retry, some req⟩
            | none => failedRun

/-- `reconcile_resource_function`: the precondition gate first; then `reconcile_krm_resource`
    evaluates apiConfig, and a namespaced kind whose namespace evaluates to nothing (`""`, null,
    missing: `rf.ns = none`) is a PermFail before anything touches the API -/
def reconcile (enc : JVal → String) (defNs : String) (cmp : JVal → JVal → Bool)
    (precondPass : Bool) (rf : Rf) (owner : Owner) (stored : Option JVal) : Run :=
  if !precondPass then ⟨.noApiAtAll, some .precond, none⟩
  else if rf.api.namespaced && rf.ns.isNone then ⟨.noApiAtAll, some .permFail, none⟩
  else reconcileKrm enc defNs cmp rf owner stored

/-- the table's view of a prepared function -/
def Rf.cfg (rf : Rf) (precondPass : Bool) : Cfg :=
  ⟨rf.readonly, rf.owned, rf.api.namespaced, rf.createEnabled, rf.deleteIfExists, rf.policy, precondPass,
   rf.createOv.isSome, true⟩

/-- the table's view of the cluster -/
def situationOf (cmp : JVal → JVal → Bool) (expected : JVal) (ownerRef : JVal) (live : Option JVal) : Situation :=
  match live with
  | none => .absent
  | some l =>
    if !cmp expected l then .presentDrifted
    else if ownerReffed l ownerRef then .presentMatching else .presentNoOwnerRef

end Koreo.ResourceFn
