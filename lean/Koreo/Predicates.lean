/-
  C13 — preconditions / postconditions.  Core Lean only.

  Transcribed from
    src/koreo/predicate_helpers.py   predicate_extractor        (the single CEL program
                                      `[p0, p1, …].filter(predicate, !predicate.assert)`)
                                     predicate_to_koreo_result  (first remaining predicate decides)
    src/koreo/cel/evaluation.py      evaluate_predicates        (raise ⇒ PermFail, scan ⇒ PermFail)
    src/koreo/value_function/reconcile.py, src/koreo/resource_function/reconcile/__init__.py
                                     (where the two predicate lists sit in a Function)

  What celpy contributes is abstracted into what each sub-expression of one predicate map
  came back as (`AssertV`, `MsgV`, `DelayV`):
    * a predicate is a *map literal*; celpy keeps an evaluation error of a member inside the
      map (it does not propagate), so the list literal always exists;
    * `!x` is an error for every `x` that is not a bool (string, int, null, map, an error value);
    * the `filter` macro yields an error as soon as the condition is an error for one element,
      whatever the other elements are.
-/
namespace Koreo.Predicates

/-- what `predicate.assert` evaluated to -/
inductive AssertV where
  | ok (b : Bool)      -- a boolean
  | nonBool            -- a value of another type ("x", 1, null, a literal written without `=`)
  | failed             -- an evaluation error (`inputs.missing`, `1/0`)
  deriving Repr, DecidableEq, Inhabited

/-- which outcome key the predicate map carries; the order of the constructors is the order of
    the `case`s in `predicate_to_koreo_result` -/
inductive Kind where
  | ok | depSkip | skip | retry | permFail
  | other              -- none of the five keys (only reachable when the CRD schema is bypassed)
  deriving Repr, DecidableEq, Inhabited

/-- what the `message` member evaluated to (rendered with `f"{message}"`) -/
inductive MsgV where
  | ok (s : String)
  | failed
  deriving Repr, DecidableEq, Inhabited

/-- what the `delay` member evaluated to, read the way the repaired retry arm reads it (/repo
    7c6f12a, b49864f): `int(delay)`, where a float (CEL doubles included) must be a whole number -/
inductive DelayV where
  | ok (n : Int)       -- an int, a bool (0/1), an integral float, a numeral string
  | notInt             -- evaluates, but is a fractional float or something `int(…)` rejects
                       -- (TypeError / ValueError / OverflowError) ⇒ PermFail "Invalid retry delay"
  | failed             -- evaluation error
  deriving Repr, DecidableEq, Inhabited

structure Pred where
  assert : AssertV
  kind : Kind
  message : MsgV
  delay : DelayV
  deriving Repr, DecidableEq, Inhabited

/-- why a predicate list could not be decided by its own predicates -/
inductive Why where
  | assertion          -- `!predicate.assert` was an error for some element
  | member             -- an error object inside a surviving predicate (message, delay)
  | badDelay           -- the retry arm's own PermFail for a delay that is not a whole number
  | unknownKind        -- the `case _` branch
  deriving Repr, DecidableEq, Inhabited

/-- a non-"continue" answer of `evaluate_predicates` -/
inductive Decision where
  | depSkip (m : String)
  | skip (m : String)
  | retry (d : Int) (m : String)
  | permFail (m : String)        -- the predicate's own `permFail` outcome
  | evalFail (w : Why)           -- PermFail because something could not be evaluated
  deriving Repr, DecidableEq, Inhabited

inductive Cls where
  | depSkip | skip | retry | permFail
  deriving Repr, DecidableEq

def Decision.cls : Decision → Cls
  | .depSkip _ => .depSkip
  | .skip _ => .skip
  | .retry _ _ => .retry
  | .permFail _ => .permFail
  | .evalFail _ => .permFail

/-- `!predicate.assert`; `none` is celpy's error value -/
def negate : AssertV → Option Bool
  | .ok b => some (!b)
  | .nonBool => none
  | .failed => none

/-- `list.filter(predicate, !predicate.assert)`: the sub-list of the elements whose negated
    assertion is `true`, or an error (`none`) if the condition is an error for any element -/
def filterNeg : List Pred → Option (List Pred)
  | [] => some []
  | p :: ps =>
    match negate p.assert, filterNeg ps with
    | some true, some r => some (p :: r)
    | some false, some r => some r
    | _, _ => none

/-- `check_for_celevalerror` restricted to one predicate map: is an error object inside? -/
def Pred.hasErr (p : Pred) : Bool :=
  (match p.assert with | .failed => true | _ => false) ||
  (match p.message with | .failed => true | _ => false) ||
  (match p.delay with | .failed => true | _ => false)

/-- the body of the `for` loop of `predicate_to_koreo_result` for one predicate
    (every `case` returns, so only the first remaining predicate is ever looked at);
    `none` = "continue with the Function" -/
def outcomeOf (p : Pred) : Option Decision :=
  match p.kind with
  | .ok => none
  | .depSkip => (match p.message with | .ok m => some (.depSkip m) | .failed => some (.evalFail .member))
  | .skip => (match p.message with | .ok m => some (.skip m) | .failed => some (.evalFail .member))
  | .retry =>
    (match p.message, p.delay with
     | .ok m, .ok d => some (.retry d m)
     | .ok _, .notInt => some (.evalFail .badDelay)
     | _, _ => some (.evalFail .member))
  | .permFail => (match p.message with | .ok m => some (.permFail m) | .failed => some (.evalFail .member))
  | .other => some (.evalFail .unknownKind)

/-- `predicate_to_koreo_result` -/
def toResult : List Pred → Option Decision
  | [] => none
  | p :: _ => outcomeOf p

/-- `evaluate_predicates` on a prepared list (an absent/empty list was compiled to `None`,
    which is `decide [] = none`) -/
def decide (ps : List Pred) : Option Decision :=
  match filterNeg ps with
  | none => some (.evalFail .assertion)
  | some surv => if surv.any Pred.hasErr then some (.evalFail .member) else toResult surv

/-! ## the model's dispatch as a table (compared with the table regenerated from the source) -/

def Kind.key : Kind → String
  | .ok => "ok" | .depSkip => "depSkip" | .skip => "skip" | .retry => "retry"
  | .permFail => "permFail" | .other => "_"

/-- the kinds in the order in which `predicate_to_koreo_result` tries them -/
def Kind.caseOrder : List Kind := [.ok, .depSkip, .skip, .retry, .permFail, .other]

def answerName : Option Decision → String
  | none => "continue"
  | some d => match d.cls with
    | .depSkip => "DepSkip" | .skip => "Skip" | .retry => "Retry" | .permFail => "PermFail"

/-- (map key, what is returned) for a false assertion of each kind whose members evaluate -/
def caseTable : List (String × String) :=
  Kind.caseOrder.map fun k => (k.key, answerName (outcomeOf ⟨.ok false, k, .ok "m", .ok 1⟩))

/-- the text `predicate_extractor` appends to the encoded list (secondary, syntactic signal only) -/
def filterSuffix : String := ".filter(predicate, !predicate.assert)"

/-! ### what the model says about the translator's probe inputs

The translator runs the real functions on a small fixed table of inputs; the tables below are the
model's answers on the same inputs, computed from `filterNeg`, `toResult`, `decide`. -/

/-- the probe's assertion patterns: t = true, f = false, n = not a boolean -/
def probePatterns : List (String × List AssertV) :=
  let t := AssertV.ok true; let f := AssertV.ok false; let n := AssertV.nonBool
  [("t", [t]), ("f", [f]), ("n", [n]), ("tt", [t, t]), ("tf", [t, f]), ("ft", [f, t]), ("ff", [f, f]),
   ("tn", [t, n]), ("nt", [n, t]), ("fn", [f, n]), ("nf", [n, f]), ("ftf", [f, t, f]), ("tff", [t, f, f]),
   ("fnf", [f, n, f]), ("fft", [f, f, t])]

/-- predicates numbered through their `delay` field -/
def numbered : Nat → List AssertV → List Pred
  | _, [] => []
  | i, a :: rest => ⟨a, .skip, .ok "m", .ok i⟩ :: numbered (i + 1) rest

def renderSurvivors : Option (List Pred) → String
  | none => "error"
  | some ps =>
    match ps.map (fun p => match p.delay with | .ok d => d.toNat | _ => 99) with
    | [] => "[]" | [0] => "[0]" | [1] => "[1]" | [2] => "[2]" | [0, 1] => "[0,1]" | [0, 2] => "[0,2]"
    | [1, 2] => "[1,2]" | [0, 1, 2] => "[0,1,2]" | _ => "?"

/-- an absent / empty list is not compiled at all ("none"); otherwise what `filterNeg` keeps -/
def filterProbeTable : List (String × String) :=
  ("", "none") :: probePatterns.map fun (name, as) => (name, renderSurvivors (filterNeg (numbered 0 as)))

private def fp (k : Kind) (m : String) (d : Int) : Pred := ⟨.ok false, k, .ok m, .ok d⟩

def renderDecision : Option Decision → String
  | none => "continue"
  | some (.skip "first") => "Skip:first"
  | some (.skip "a") => "Skip:a"
  | some (.retry 9 "wait") => "Retry:wait:9"
  | some d => answerName (some d)

/-- only the first remaining predicate decides, with its own message and delay -/
def firstOnlyTable : List (String × String) :=
  [("skip first; permFail second", renderDecision (toResult [fp .skip "first" 0, fp .permFail "second" 0])),
   ("ok; permFail second", renderDecision (toResult [fp .ok "" 0, fp .permFail "second" 0])),
   ("retry 9 wait; skip later", renderDecision (toResult [fp .retry "wait" 9, fp .skip "later" 0])),
   ("empty", renderDecision (toResult []))]

/-- `evaluate_predicates` on the probe's stand-in programs: a raise is the model's failing filter,
    an error object in a survivor is a failed member; a result that is not a list is PermFail in the code -/
def evaluatePredicatesTable : List (String × String) :=
  [("raises CELEvalError", renderDecision (decide [⟨.failed, .skip, .ok "m", .ok 0⟩])),
   ("raises ValueError", renderDecision (decide [⟨.nonBool, .skip, .ok "m", .ok 0⟩])),
   ("returns an error value", renderDecision (decide [⟨.failed, .skip, .ok "m", .ok 0⟩])),
   ("error in the first survivor", renderDecision (decide [⟨.ok false, .skip, .failed, .ok 0⟩, fp .skip "b" 0])),
   ("error in a later survivor", renderDecision (decide [fp .skip "a" 0, ⟨.ok false, .skip, .failed, .ok 0⟩])),
   ("not a list", "PermFail"),
   ("clean: skip a; skip b", renderDecision (decide [fp .skip "a" 0, fp .skip "b" 0])),
   ("no survivor", renderDecision (decide [⟨.ok true, .skip, .ok "m", .ok 0⟩]))]

/-- how the retry arm reads a delay (the abstraction `DelayV` the harness hands to the model):
    ints, bools (0/1), numeral strings and whole doubles are that integer; everything else is invalid -/
def delayTable : List (String × String) :=
  [("0", "0"), ("7", "7"), ("-1", "-1"), ("true", "1"), ("false", "0"), ("\"12\"", "12"), ("\"1.0\"", "invalid"),
   ("\"abc\"", "invalid"), ("2.0", "2"), ("1.5", "invalid"), ("null", "invalid"), ("[1]", "invalid")]

/-! ## where the lists sit in a Function -/

/-- observable events of one reconcile, in order -/
inductive Ev where
  | preconditions | locals | returnValue        -- evaluation sites (ValueFunction + ResourceFunction)
  | apiConfig | resource | postconditions        -- ResourceFunction only
  | api                                          -- a request to the cluster
  deriving Repr, DecidableEq, Inhabited

/-- outcome of a Function as far as C13 is concerned -/
inductive FnOut where
  | decided (d : Decision)       -- a predicate list answered
  | body (tag : String)          -- whatever the rest of the Function produced
  deriving Repr, DecidableEq, Inhabited

structure Run where
  out : FnOut
  trace : List Ev
  deriving Repr, DecidableEq, Inhabited

/-- `reconcile_value_function`: preconditions, then (only if there is a `return`) locals and return -/
def vfRun (pre : List Pred) (hasReturn : Bool) : Run :=
  match decide pre with
  | some d => ⟨.decided d, [.preconditions]⟩
  | none =>
    if hasReturn then ⟨.body "return", [.preconditions, .locals, .returnValue]⟩
    else ⟨.body "null", [.preconditions]⟩

/-- the kind-to-plural discovery at the start of `reconcile_krm_resource` (after `apiConfig` was
    evaluated): not needed when `apiConfig.plural` is given or the plural is already cached;
    otherwise one request to the cluster (`api.lookup_kind`), which may not know the kind -/
inductive Lookup where
  | notNeeded | found | unknownKind
  deriving Repr, DecidableEq, Inhabited

def Lookup.trace : Lookup → List Ev
  | .notNeeded => []
  | _ => [.api]

/-- what the Kubernetes part of a ResourceFunction did after the discovery -/
inductive Crud where
  | okReadonly       -- GET found the object, readonly
  | okMatch          -- GET found the object, template evaluated, it matched
  | createRetry      -- GET found nothing, template evaluated, POST, Retry
  | deletedAbsent    -- deleteIfExists, GET found nothing: the result is the empty map `{}` — an Ok result
  | deleting         -- deleteIfExists, GET found the object: DELETE, Retry
  deriving Repr, DecidableEq, Inhabited

def Crud.trace : Crud → List Ev
  | .okReadonly => [.api]
  | .okMatch => [.api, .resource]
  | .createRetry => [.api, .resource, .api]
  | .deletedAbsent => [.api]
  | .deleting => [.api, .api]

/-- `is_unwrapped_ok(reconcile_result.result)`: every result that is not a Retry/PermFail, the
    empty map of an already-deleted object included -/
def Crud.isOk : Crud → Bool
  | .createRetry => false
  | .deleting => false
  | _ => true

/-- `reconcile_resource_function`: preconditions, locals, the Kubernetes part (apiConfig, plural
    discovery, GET, …), then — only if that part produced an object — postconditions, then return -/
def rfRunR (hasReturn : Bool) (pre post : List Pred) (lk : Lookup) (crud : Crud) : Run :=
  match decide pre with
  | some d => ⟨.decided d, [.preconditions]⟩
  | none =>
    let t := [Ev.preconditions, .locals, .apiConfig] ++ lk.trace
    match lk with
    | .unknownKind => ⟨.body "lookupFailed", t⟩
    | _ =>
      let t := t ++ crud.trace
      if crud.isOk then
        match decide post with
        | some d => ⟨.decided d, t ++ [.postconditions]⟩
        | none => ⟨.body "return", t ++ [.postconditions] ++ (if hasReturn then [.returnValue] else [])⟩
      else ⟨.body "retry", t⟩

/-- a ResourceFunction with a `return` (one without evaluates nothing after the postconditions and is Ok with `null`) -/
def rfRun (pre post : List Pred) (lk : Lookup) (crud : Crud) : Run := rfRunR true pre post lk crud

end Koreo.Predicates
