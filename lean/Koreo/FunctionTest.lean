/-
  C18 / C19 — the FunctionTest runner (src/koreo/function_test/run.py).

  C19: the four verdict functions (`_validate_return_match`, `_validate_resource_match`,
       `_validate_outcome_match`, the inline `expectDelete` test) over the runner's own exact
       comparator (`Koreo/ExactCompare.lean`).
  C18: `_run_test_case` / `_run_test_cases`: how inputs and resource are threaded from case to case.

  The Function under test together with the per-case mock API (`MockApi`: GET returns the current
  resource, POST/PATCH materialise the body over it with `_merge_overlay`, DELETE materialises `{}`)
  is an ORACLE (`Env.fn`), and so is the CEL evaluation of `overlayResource` (`Env.evalOverlay`);
  theorems hold for every oracle.  Core Lean only.

  Not modelled: `convert_bools` (celtypes → Python scalars: type plumbing, `JVal` already keeps
  bool ≠ int), labels, messages and `differences` of a `TestCaseResult`, the dead branch
  "inputs overlay error" (`_deep_overlay` never yields a `CELEvalError`).
-/
import Koreo.ExactCompare
namespace Koreo.FT
open Koreo JVal Koreo.Exact

/-! ## C19 — verdicts -/

/-- the unwrapped outcome a reconcile returned -/
inductive Out where
  | ok (v : JVal)
  | depSkip (m : Option String)
  | skip (m : Option String)
  | retry (delay : Int) (m : Option String)
  | permFail (m : Option String)
  deriving Repr, BEq, Inhabited

/-- `expectOutcome` as prepared through `predicate_to_koreo_result`: `ok` is Python `None` -/
inductive Expect where
  | ok
  | depSkip (m : String)
  | skip (m : String)
  | retry (m : String) (delay : Int)
  | permFail (m : String)
  deriving Repr, BEq, Inhabited

/-- what the case's `MockApi` recorded -/
inductive Effect where
  | none                 -- no request (`_api_called = False`, `materialized = None`)
  | deleted              -- DELETE (`materialized = {}`, `_delete_called = True`)
  | wrote (m : JVal)     -- POST / PATCH; `m` is the object the mock holds afterwards
  deriving Repr, BEq, Inhabited

def Effect.materialized : Effect → Option JVal
  | .none => Option.none
  | .deleted => some (.obj [])
  | .wrote m => some m

def Effect.apiCalled : Effect → Bool
  | .none => false
  | _ => true

def Effect.deleteCalled : Effect → Bool
  | .deleted => true
  | _ => false

structure FnResult where
  out : Out
  eff : Effect
  deriving Repr, BEq, Inhabited

inductive Assertion where
  | outcome (e : Expect)
  | ret (v : JVal)
  | resource (r : JVal)
  | delete (expected : Bool)
  deriving Repr, BEq, Inhabited

/-- `str.lower()` on the ASCII range (the harness keeps cased characters ASCII) -/
def lowerChars (s : String) : List Char := s.toList.map Char.toLower

/-- `p in s` on character lists -/
def containsSub (p : List Char) : List Char → Bool
  | [] => p.isEmpty
  | c :: cs => p.isPrefixOf (c :: cs) || containsSub p cs

/-- `not expected_message or (actual_message and expected_message.lower() in actual_message.lower())` -/
def msgOk (e : String) (a : Option String) : Bool :=
  e.isEmpty ||
  match a with
  | some m => !m.isEmpty && containsSub (lowerChars e) (lowerChars m)
  | Option.none => false

/-- `_validate_outcome_match` -/
def outcomeVerdict : Expect → Out → Bool
  | .retry em ed, .retry ad am => msgOk em am && !(ed != 0 && ed != ad)
  | .permFail em, .permFail am => msgOk em am
  | .depSkip em, .depSkip am => msgOk em am
  | .skip em, .skip am => msgOk em am
  | .ok, .ok _ => true
  | _, _ => false

/-- `_validate_return_match` -/
def returnVerdict (expected : JVal) : Out → Bool
  | .ok v => exactMatch expected v
  | _ => false

/-- REPAIRED `_validate_resource_match` (fixes/F8): both sides lose the last-applied annotation and an
    empty annotations map before the exact comparison -/
def resourceVerdict (expected : JVal) (eff : Effect) (out : Out) : Bool :=
  match eff.materialized with
  | Option.none => false
  | some m =>
    match out with
    | .retry _ _ => exactMatch (stripLastApplied expected) (stripLastApplied m)
    | _ => false

/-- `api._delete_called == expected` -/
def deleteVerdict (expected : Bool) (eff : Effect) : Bool := eff.deleteCalled == expected

def verdict : Assertion → FnResult → Bool
  | .outcome e, r => outcomeVerdict e r.out
  | .ret v, r => returnVerdict v r.out
  | .resource x, r => resourceVerdict x r.eff r.out
  | .delete b, r => deleteVerdict b r.eff

/-! ## C18 — threading of inputs and resource -/

mutual
/-- `_deep_overlay(resource, overlay)` (both maps): maps merge key by key, anything else replaces -/
def deepOverlayO (base : List (String × JVal)) (ov : List (String × JVal)) : List (String × JVal) :=
  match ov with
  | [] => base
  | (k, v) :: rest => deepOverlayO (insert k (deepOverlayV (lookup k base) v) base) rest
termination_by structural ov
def deepOverlayV (cur : Option JVal) (v : JVal) : JVal :=
  match v with
  | .obj okvs =>
    match cur with
    | some (.obj bkvs) => .obj (deepOverlayO bkvs okvs)
    | _ => .obj okvs
  | v => v
termination_by structural v
end

def deepOverlay (base ov : JVal) : JVal :=
  match base, ov with
  | .obj b, .obj o => .obj (deepOverlayO b o)
  | _, o => o

structure Case (Ov : Type) where
  skip : Bool := false
  variant : Bool := false
  overrides : Option JVal := none     -- `input_overrides` (None when the spec gave none / `{}`)
  current : Option JVal := none       -- `current_resource`
  overlay : Option Ov := none         -- `resource_overlay`
  assertion : Assertion

/-- `(current_inputs, current_resource)` -/
structure State where
  inputs : Option JVal
  resource : Option JVal
  deriving Repr, BEq, Inhabited

structure Env (Ov : Type) where
  /-- `evaluate_overlay(overlay, inputs, base)`; `none` = PermFail -/
  evalOverlay : Ov → JVal → JVal → Option JVal
  /-- the Function under test run against a fresh mock holding `resource` -/
  fn : JVal → Option JVal → FnResult

def truthyO : Option JVal → Bool
  | Option.none => false
  | some v => v.truthy

inductive CaseResult where
  | skipped
  | setupError        -- `overlayResource` before a resource exists: aborts the run
  | overlayError      -- the resource overlay did not evaluate
  | ran (pass : Bool) (inputs : JVal) (resource : Option JVal) (res : FnResult)
  deriving Repr, BEq, Inhabited

/-- the inputs a case hands to the Function -/
def caseInputs {Ov : Type} (st : State) (c : Case Ov) : JVal :=
  if truthyO st.inputs && truthyO c.overrides then
    deepOverlay (st.inputs.getD (.obj [])) (c.overrides.getD (.obj []))
  else if truthyO st.inputs then st.inputs.getD (.obj [])
  else if truthyO c.overrides then c.overrides.getD (.obj [])
  else .obj []

/-- run the Function, judge it, and decide what is handed on -/
def finishCase {Ov : Type} (env : Env Ov) (st : State) (c : Case Ov) (inputs : JVal)
    (resource : Option JVal) : State × CaseResult × Bool :=
  let r := env.fn inputs resource
  let pass := verdict c.assertion r
  if c.variant then (st, .ran pass inputs resource r, false)
  else
    ({ inputs := some inputs,
       resource := if r.eff.apiCalled then r.eff.materialized else resource },
     .ran pass inputs resource r, !pass)

/-- `_run_test_case`: (state handed on, result, fatal) -/
def runCase {Ov : Type} (env : Env Ov) (st : State) (c : Case Ov) : State × CaseResult × Bool :=
  if c.skip then (st, .skipped, false)
  else
    let inputs := caseInputs st c
    match c.overlay with
    | some ov =>
      if truthyO st.resource then
        match env.evalOverlay ov inputs (st.resource.getD (.obj [])) with
        | Option.none => (st, .overlayError, !c.variant)
        | some r => finishCase env st c inputs (some r)
      else (st, .setupError, true)
    | Option.none =>
      finishCase env st c inputs (if truthyO c.current then c.current else st.resource)

/-- `_run_test_cases`: results in order, stop after the first fatal case -/
def runCases {Ov : Type} (env : Env Ov) : State → List (Case Ov) → List CaseResult × Bool
  | _, [] => ([], false)
  | st, c :: cs =>
    match runCase env st c with
    | (st', r, fatal) =>
      if fatal then ([r], true)
      else
        match runCases env st' cs with
        | (rs, f) => (r :: rs, f)

end Koreo.FT
