/-
  C06 — identity of a managed object and how a request is addressed.  Core Lean only.

  Transcribed from
    src/koreo/cel/functions.py                               `_overlay` / `_deep_overlay`
    src/koreo/resource_function/reconcile/__init__.py        `_forced_overlay`
    kr8s/_objects.py (0.20.7)   `APIObject.__init__` (the `namespace=` argument is written into
                                `raw.metadata.namespace`), the `raw` getter (re-imposes the class's
                                `kind`/`apiVersion`), `namespace`, `name`, `async_create` (POST to
                                `endpoint`), `async_patch` / `async_delete` (`endpoint/name`)
    harness/cluster.py          `async_get` (how a stored object becomes a loaded `APIObject`)

  (`deepOverlay` is deliberately a small private copy: `Koreo/Overlay.lean` belongs to C12.)
-/
import Koreo.Json
namespace Koreo.Identity
open Koreo JVal

abbrev Fields := List (String × JVal)

/-! ## `_deep_overlay` -/

mutual
/-- `_deep_overlay(resource, overlay)`: recurse only where **both** sides are maps, otherwise the
    overlay's value replaces what is there (scalars, lists, null — and a map over a non-map). -/
def deepOverlay (r : JVal) : JVal → JVal
  | .obj okvs =>
    match r with
    | .obj rkvs => .obj (deepOverlayO rkvs okvs)
    | _ => .obj okvs
  | o => o
/-- the loop `for field, overlay_value in overlay.items()` over a copy of the resource's fields -/
def deepOverlayO (rkvs : Fields) : Fields → Fields
  | [] => rkvs
  | (k, ov) :: rest =>
    deepOverlayO (JVal.insert k (match JVal.lookup k rkvs with
                                 | some rv => deepOverlay rv ov
                                 | none => ov) rkvs) rest
end

/-! ## identity -/

/-- `v[k]` when `v` is a map that has `k` -/
def getKey (k : String) : JVal → Option JVal
  | .obj kvs => JVal.lookup k kvs
  | _ => none

/-- `v["metadata"][k]` when both exist and `metadata` is a map -/
def metaKey (k : String) (v : JVal) : Option JVal := (getKey "metadata" v).bind (getKey k)

/-- what identifies a Kubernetes object: apiVersion, kind, metadata.name, metadata.namespace -/
structure Ident where
  apiVersion : Option JVal
  kind : Option JVal
  name : Option JVal
  ns : Option JVal
  deriving Repr, BEq

def identity (v : JVal) : Ident :=
  ⟨getKey "apiVersion" v, getKey "kind" v, metaKey "name" v, metaKey "namespace" v⟩

/-- what `apiConfig` evaluates to: the class's version/kind and the evaluated name / namespace
    (`ns = none`: no namespace was given, which prepare only accepts for cluster-scoped kinds) -/
structure Target where
  ver : String
  kind : String
  name : String
  ns : Option String
  deriving Repr

/-- `_forced_overlay(resource_api, name, namespace)` -/
def forced (t : Target) : JVal :=
  .obj [("apiVersion", .str t.ver), ("kind", .str t.kind),
        ("metadata", .obj (("name", .str t.name) ::
          (match t.ns with
           | some n => [("namespace", .str n)]
           | none => [])))]

/-- the object carries the identity apiConfig evaluates to (the namespace clause only when
    apiConfig gives one — always the case for namespaced kinds) -/
def Pinned (t : Target) (v : JVal) : Prop :=
  getKey "apiVersion" v = some (.str t.ver) ∧ getKey "kind" v = some (.str t.kind) ∧
  metaKey "name" v = some (.str t.name) ∧ ∀ n, t.ns = some n → metaKey "namespace" v = some (.str n)

/-- executable form of `Pinned` (used by the driver) -/
def pinnedB (t : Target) (v : JVal) : Bool :=
  getKey "apiVersion" v == some (.str t.ver) && getKey "kind" v == some (.str t.kind) &&
  metaKey "name" v == some (.str t.name) &&
  (match t.ns with
   | some n => metaKey "namespace" v == some (.str n)
   | none => true)


/-! ## `convert_bools`: CEL map keys become text (F18)

  The kind/name overlay is applied to CEL values, whose map keys are typed: the text key `name` and a
  bytes key are different keys.  `convert_bools` (src/koreo/cel/encoder.py) then builds
  `{convert(k): convert(v) for k, v in m.items()}`; a bytes key becomes its base64 text, so two keys can
  fold onto one and the later entry replaces the earlier one's value.  REPAIRED `_pin_identity`
  (reconcile/__init__.py) lays the kind/name overlay over the converted object once more. -/

/-- a CEL map key: text, or bytes given by their base64 text -/
inductive CKey where
  | text (s : String)
  | bytes (b64 : String)
  deriving Repr

/-- `convert_bools` on a key -/
def CKey.converted : CKey → String
  | .text s => s
  | .bytes b => b

/-- a CEL value as far as key conversion goes: maps with typed keys over already plain leaves -/
inductive CVal where
  | plain (v : JVal)
  | map (kvs : List (CKey × CVal))


/-- put an EARLIER entry under the entries that follow it: the later value wins, the earlier position stays -/
def convertOnto (k : String) (v : JVal) (later : Fields) : Fields :=
  match JVal.lookup k later with
  | some w => (k, w) :: JVal.erase k later
  | none => (k, v) :: later

mutual
/-- `convert_bools` -/
def convert : CVal → JVal
  | .plain v => v
  | .map kvs => .obj (convertKvs kvs)
/-- the dict comprehension, entry by entry: `d[convert(k)] = convert(v)` (a later entry with the same
    converted key replaces the value, at the earlier entry's position) -/
def convertKvs : List (CKey × CVal) → Fields
  | [] => []
  | (k, v) :: rest => convertOnto k.converted (convert v) (convertKvs rest)
end

/-- REPAIRED `_pin_identity(converted, forced_overlay)`: apiVersion / kind are set, `metadata` is
    updated with name / namespace (and becomes that map when it was not one) — on an object this is
    the forced overlay once more -/
def pinIdentity (t : Target) : JVal → JVal
  | .obj kvs => deepOverlay (.obj kvs) (forced t)
  | v => v

/-! ## kr8s: objects and requests -/

/-- the kr8s class `_prepare_api_config` builds / looks up -/
structure ApiClass where
  ver : String
  kind : String
  plural : String
  namespaced : Bool
  deriving Repr

/-- Python `v["metadata"][k] = x`; `none` = the statement raises (no `metadata`, or not a map) -/
def setMetaKey (k : String) (x : JVal) : JVal → Option JVal
  | .obj kvs =>
    match JVal.lookup "metadata" kvs with
    | some (.obj m) => some (.obj (JVal.insert "metadata" (.obj (JVal.insert k x m)) kvs))
    | _ => none
  | _ => none

/-- Python `v["metadata"].pop(k, None)`; `none` = the statement raises (no `metadata`, or not a map) -/
def dropMetaKey (k : String) : JVal → Option JVal
  | .obj kvs =>
    match JVal.lookup "metadata" kvs with
    | some (.obj m) => some (.obj (JVal.insert "metadata" (.obj (JVal.erase k m)) kvs))
    | _ => none
  | _ => none

/-- the `raw` getter: `self._raw.update({"kind": self.kind, "apiVersion": self.version})` -/
def krRaw (c : ApiClass) : JVal → JVal
  | .obj kvs => .obj (JVal.insert "apiVersion" (.str c.ver) (JVal.insert "kind" (.str c.kind) kvs))
  | v => v

/-- `APIObject(api, resource=…, namespace=ns)`: `raw["metadata"]["namespace"] = ns` when given -/
def krNew (resource : JVal) : Option String → Option JVal
  | some n => setMetaKey "namespace" (.str n) resource
  | none => some resource

/-- the `namespace` property: `raw.get("metadata", {}).get("namespace", api.namespace)` for
    namespaced classes, `None` otherwise -/
def krNamespace (c : ApiClass) (defNs : String) (raw : JVal) : Option JVal :=
  if c.namespaced then some ((metaKey "namespace" raw).getD (.str defNs)) else none

inductive Method where
  | post | patch | delete
  deriving Repr, BEq, DecidableEq

/-- one mutating `call_api`: method, endpoint, the name in the URL (PATCH/DELETE), the
    `namespace=` argument, the JSON body, and the `version=` argument (group/version of the path) -/
structure Request where
  method : Method
  plural : String
  name : Option JVal
  nsArg : Option JVal
  body : Option JVal
  version : String
  deriving Repr

/-- `resource_api(api=…, resource=payload, namespace=ns).create()` -/
def createRequest (c : ApiClass) (defNs : String) (payload : JVal) (ns : Option String) : Option Request :=
  (krNew payload ns).map fun o =>
    let raw := krRaw c o
    ⟨.post, c.plural, none, krNamespace c defNs raw, some raw, c.ver⟩

/-- what `api.async_get(cls, name, namespace=ns)` hands back for a stored object
    (cluster.py: `cls(api, resource=copy, namespace=ns if cls.namespaced else None)`) -/
def krLoaded (c : ApiClass) (stored : JVal) (ns : Option String) : Option JVal :=
  (krNew stored (if c.namespaced then ns else none)).map (krRaw c)

/-- `loaded.patch(payload)`: PATCH `endpoint/<loaded name>` in the loaded object's namespace -/
def patchRequest (c : ApiClass) (defNs : String) (loaded payload : JVal) : Option Request :=
  (metaKey "name" loaded).map fun n => ⟨.patch, c.plural, some n, krNamespace c defNs loaded, some payload, c.ver⟩

/-- `loaded.delete()` -/
def deleteRequest (c : ApiClass) (defNs : String) (loaded : JVal) : Option Request :=
  (metaKey "name" loaded).map fun n => ⟨.delete, c.plural, some n, krNamespace c defNs loaded, none, c.ver⟩

end Koreo.Identity
