-- Root of the `Koreo` library: models (core Lean only) and property theorems.
import Koreo.Json
import Koreo.Props.C03
import Koreo.Props.C06
import Koreo.Props.C07
import Koreo.Props.C08
