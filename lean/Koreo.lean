-- Root of the `Koreo` library: models (core Lean only) and property theorems.
import Koreo.Json
import Koreo.Props.C03
