import Driver.MiniJson
import Koreo.EvalScan
namespace Koreo.Driver.C10
open MiniJson Koreo.EvalScan Koreo.EvalScan.ETree Koreo.EvalScan.Run

/-- wire: null | true/false | "str" | {"i":"<int>"} | {"f":"<eighths>"} | [..] | {"m":[[key,v],..]} | {"e":1};
    a key is "str" or {"e":1} -/
partial def toETree (j : J) : Except String ETree :=
  match j with
  | .null => pure .null
  | .bool b => pure (.bool b)
  | .str s => pure (.str s)
  | .arr xs => do pure (.arr (← xs.mapM toETree))
  | .num _ => throw "bare number on the wire"
  | .obj [("i", .str s)] => match s.toInt? with
    | some n => pure (.int n)
    | none => throw s!"bad int {s}"
  | .obj [("f", .str s)] => match s.toInt? with
    | some n => pure (.flt n)
    | none => throw s!"bad float {s}"
  | .obj [("e", _)] => pure .err
  | .obj [("m", .arr kvs)] => do
    let kvs ← kvs.mapM fun kv => match kv with
      | .arr [.str k, v] => do pure (EKey.str k, ← toETree v)
      | .arr [.obj [("e", _)], v] => do pure (EKey.err, ← toETree v)
      | _ => throw "bad map entry"
    pure (.obj kvs)
  | .obj _ => throw "bad object on the wire"

partial def toIndex (j : J) : Except String (List (String × Index)) :=
  match j with
  | .arr kvs => kvs.mapM fun kv => match kv with
    | .arr [.str k, .num n] => pure (k, Index.leaf n.toNat)
    | .arr [.str k, sub] => do pure (k, Index.node (← toIndex sub))
    | _ => throw "bad index entry"
  | _ => throw "bad index"

def optIndex (j : J) : Except String (Option (List (String × Index))) :=
  match j with
  | .null => pure none
  | j => do pure (some (← toIndex j))

def vfSiteName : VfSite → String
  | .preconditions => "preconditions" | .locals => "locals" | .returnValue => "return"

def siteName : Site → String
  | .vf s => "vf." ++ vfSiteName s
  | .rfPre => "rf.preconditions" | .rfLocals => "rf.locals" | .apiConfig => "rf.apiConfig"
  | .templateName => "rf.templateName" | .resource => "rf.resource"
  | .overlaySkipIf i => s!"rf.overlays[{i}].skipIf"
  | .overlay i => s!"rf.overlays[{i}].overlay"
  | .overlayInputs i => s!"rf.overlays[{i}].inputs"
  | .overlayRef i s => s!"rf.overlays[{i}].ref." ++ vfSiteName s
  | .createOverlay => "rf.create.overlay" | .securityOverlay => "rf.securityOverlay"
  | .rfPost => "rf.postconditions" | .rfReturn => "rf.return"
  | .stepInputs => "step.inputs" | .stepSkipIf => "step.skipIf" | .forEach => "step.forEach"
  | .switchOn => "step.switchOn" | .state => "step.state"
  | .iter j s => s!"iter[{j}]/" ++ siteName s
  | .step k s => s!"step[{k}]/" ++ siteName s

/-- [[siteName, "raised" | {"v": tree}], …]; a site that was not recorded answers `raised` -/
def toOracle (j : J) : Except String Oracle := do
  let entries ← match j with
    | .arr xs => xs.mapM fun x => match x with
      | .arr [.str n, .str "raised"] => pure (n, EvalResult.raised)
      | .arr [.str n, .obj [("v", t)]] => do pure (n, EvalResult.val (← toETree t))
      | _ => throw "bad oracle entry"
    | _ => throw "bad oracle"
  pure fun s => (entries.lookup (siteName s)).getD .raised

def toVF (j : J) : Except String VF := do
  pure ⟨← j.getBool "pre", ← j.getBool "locals", ← optIndex (j.getD "ret")⟩

def toOverlayStep (j : J) : Except String OverlayStep := do
  match ← j.getStr "kind" with
  | "inline" => pure (.inline (← j.getBool "skipIf") (← toIndex (j.getD "index")))
  | "ref" => pure (.ref (← j.getBool "skipIf") (← j.getBool "inputs") (← toVF (j.getD "vf")))
  | k => throw s!"bad overlay kind {k}"

def toRF (j : J) : Except String RF := do
  let template ← match ← j.getStr "template" with
    | "absent" => pure Template.absent
    | "ref" => pure Template.ref
    | "inline" => pure (Template.inline true)
    | "inlineEmpty" => pure (Template.inline false)
    | t => throw s!"bad template {t}"
  let update ← match ← j.getStr "update" with
    | "patch" => pure Update.patch
    | "recreate" => pure Update.recreate
    | "never" => pure Update.never
    | u => throw s!"bad update {u}"
  pure {
    hasPre := ← j.getBool "pre", hasLocals := ← j.getBool "locals", namespaced := ← j.getBool "namespaced",
    readonly := ← j.getBool "readonly", deleteIfExists := ← j.getBool "deleteIfExists", owned := ← j.getBool "owned",
    template := template, overlays := ← (← j.getArr "overlays").mapM toOverlayStep,
    createEnabled := ← j.getBool "createEnabled", createOverlay := ← optIndex (j.getD "createOverlay"),
    update := update, hasPost := ← j.getBool "post", hasReturn := ← j.getBool "return" }

def textOf : ETree → String
  | .str s => s
  | _ => "x"

def toEnv (j : J) : Except String Env := do
  let live ← match j.getD "live" with
    | .null => pure none
    | t => do pure (some (← toETree t))
  let template ← match j.getD "templateDoc" with
    | .null => pure none
    | t => do pure (some (← toETree t))
  let isMatch ← j.getBool "isMatch"
  pure {
    live := live, templates := fun _ => template, ownerRef := .obj [(.str "uid", .str "uid-parent")],
    ownerSameNamespace := ← j.getBool "ownerSameNamespace", isMatch := fun _ _ => isMatch,
    ownerReffed := ← j.getBool "ownerReffed", apiVersion := "v1", kind := "Kind",
    text := textOf, render := fun _ => "{}" }

def toFn (j : J) : Except String Fn := do
  match ← j.getStr "kind" with
  | "vf" => pure (.vf (← toVF (j.getD "f")))
  | "rf" => pure (.rf (← toRF (j.getD "f")) (← toEnv (j.getD "env")))
  | k => throw s!"bad fn kind {k}"

def toLogic (j : J) : Except String Logic := do
  match j.get? "switch" with
  | some (.arr cases) =>
    let cs ← cases.mapM fun c => match c with
      | .arr [k, f] => do pure (← toETree k, ← toFn f)
      | _ => throw "bad switch case"
    let dflt ← match j.getD "default" with
      | .null => pure none
      | f => do pure (some (← toFn f))
    pure (.switch fun v =>
      match cs.find? (fun c => match c.1, v with
        | .str a, .str b => a == b
        | .int a, .int b => a == b
        | _, _ => false) with
      | some c => some c.2
      | none => dflt)
  | _ => do pure (.fn (← toFn (j.getD "fn")))

def toStep (j : J) : Except String Step := do
  let deps ← (← j.getArr "deps").mapM fun d => match d with
    | .num n => pure n.toNat
    | _ => throw "bad dep"
  pure { deps := deps, hasInputs := ← j.getBool "inputs", hasSkipIf := ← j.getBool "skipIf",
         forEach := (j.getD "forEach").str?, logic := ← toLogic (j.getD "logic"),
         hasState := ← j.getBool "state" }

def whyName : Why → String
  | .evalError => "evalError" | .badType => "badType" | .other => "other"

def ofStop : Stop → J
  | .permFail l w => .obj [("c", .str "permFail"), ("loc", .str (siteName l)), ("why", .str (whyName w))]
  | .retry t => .obj [("c", .str "retry"), ("tag", .str t)]
  | .skip => .obj [("c", .str "skip")]
  | .depSkip => .obj [("c", .str "depSkip")]
  | .crash t => .obj [("c", .str "crash"), ("tag", .str t)]

def outName : Out → String
  | .post => "POST" | .patch => "PATCH" | .delete => "DELETE" | .fnInputs => "fnInputs" | .state => "state"

def ofRun (r : Run α) (resJ : α → J) : J :=
  .obj [("res", match r.res with | .ok a => resJ a | .error e => ofStop e),
        ("evals", .arr (r.evals.map fun e => .str (siteName e.1))),
        ("outs", .arr (r.outs.map fun o => .arr [.str (outName o.1), .bool (scan o.2)]))]

def okJ (t : ETree) : J := .obj [("c", .str "ok"), ("err", .bool (scan t))]

def noInterp : Interp := fun _ => none

/-- predicates are C13's subject; here the filtered list is taken from the oracle and a non-empty
    one decides with the class the harness observed (`interp` field of the request) -/
def toInterp (j : J) : Interp :=
  match j.getD "interp" with
  | .str "skip" => fun t => match t with | .arr (_ :: _) => some .skip | _ => none
  | .str "depSkip" => fun t => match t with | .arr (_ :: _) => some .depSkip | _ => none
  | .str "retry" => fun t => match t with | .arr (_ :: _) => some (.retry "predicate") | _ => none
  | _ => noInterp

def handle (j : J) : Except String J := do
  match ← j.getStr "op" with
  | "scan" => pure (.obj [("found", .bool (scan (← toETree (j.getD "t"))))])
  | "vf" =>
    let base ← match j.getD "base" with
      | .null => pure none
      | t => do pure (some (← toETree t))
    pure (ofRun (vfRun (← toOracle (j.getD "oracle")) (toInterp j) .vf (← toVF (j.getD "f")) base) okJ)
  | "rf" =>
    pure (ofRun (rfRun (← toOracle (j.getD "oracle")) (toInterp j) id (← toRF (j.getD "f")) (← toEnv (j.getD "env"))) okJ)
  | "wf" =>
    let steps ← (← j.getArr "steps").mapM toStep
    let r := wfRun (← toOracle (j.getD "oracle")) (toInterp j) steps
    pure (.obj [
      ("res", match r.res with
        | .ok rs => .arr (rs.map fun x => match x with | .ok v => okJ v | .error e => ofStop e)
        | .error e => ofStop e),
      ("evals", .arr (r.evals.map fun e => .str (siteName e.1))),
      ("outs", .arr (r.outs.map fun o => .arr [.str (outName o.1), .bool (scan o.2)])),
      ("stateErr", .bool (scan (publishedState r.outs)))])
  | op => throw s!"bad op {op}"

end Koreo.Driver.C10

def main : IO UInt32 := MiniJson.runLoop Koreo.Driver.C10.handle
