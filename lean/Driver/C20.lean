import Driver.C14Core
def main : IO UInt32 := MiniJson.runLoop Koreo.Driver.C14.handle
