/-
  Line-protocol dispatcher: `driver <model>` reads one JSON document per line on stdin
  and answers one JSON document per line on stdout.  Imports models only (no Mathlib).
-/
import Driver.C03
open Lean (Json)

def handlers : List (String × (Json → Except String Json)) :=
  [("C03", Koreo.Driver.C03.handle)]

partial def loop (h : IO.FS.Stream) (out : IO.FS.Stream) (f : Json → Except String Json) : IO Unit := do
  let line ← h.getLine
  if line.isEmpty then return ()
  let ans := match Json.parse line with
    | .error e => Json.mkObj [("error", .str s!"parse: {e}")]
    | .ok j => match f j with
      | .ok r => r
      | .error e => Json.mkObj [("error", .str e)]
  out.putStrLn ans.compress
  loop h out f

def main (args : List String) : IO UInt32 := do
  match args with
  | [m] =>
    match handlers.lookup m with
    | some f => loop (← IO.getStdin) (← IO.getStdout) f; (← IO.getStdout).flush; return 0
    | none => IO.eprintln s!"unknown model {m}"; return 2
  | _ => IO.eprintln "usage: driver <model>"; return 2
