import Driver.MiniJson
import Koreo.Cache
namespace Koreo.Driver.C15
open MiniJson Koreo.Cache

/-- the harness's specs: an identifying number and whether its preparer fails on it -/
structure DSpec where
  id : Nat
  fail : Bool
  deep : Bool     -- nested too deeply for `copy.deepcopy`: the guarded preparation ends in a PermFail
  deriving Repr

/-- the harness's preparer: fails when told so, else Ok; the result names what it was built from -/
def dprep : Nat → String → DSpec → PrepResult (Nat × String × Nat) :=
  fun kind name spec => if spec.fail || spec.deep then .failed (kind, name, spec.id) else .ok (kind, name, spec.id)

def optStr (j : J) (k : String) : Option String := (j.getD k).str?

def optNat (j : J) (k : String) : Option Nat :=
  match j.getD k with
  | .num n => if n < 0 then none else some n.toNat
  | _ => none

def getNat (j : J) (k : String) : Except String Nat := do
  let n ← j.getInt k
  if n < 0 then throw s!"negative {k}" else pure n.toNat

def toKey (j : J) : Except String Key := do
  pure (← getNat j "kind", ← j.getStr "name")

/-- the offered `metadata`: name, resourceVersion, and under "meta" generation plus anything else -/
def toMeta (j : J) : Meta :=
  let extra := j.getD "meta"
  let others := match extra with
    | .obj kvs => kvs.filterMap fun (k, v) => if k == "generation" then none else some (k, render v)
    | _ => []
  { name := optStr j "name", resourceVersion := optStr j "version",
    generation := optNat extra "generation", others := others }

def toOp (j : J) : Except String (Op DSpec) := do
  match ← j.getStr "op" with
  | "offer" =>
    let spec := j.getD "spec"
    pure (offerOf (← getNat j "kind") (toMeta j) ⟨← getNat spec "id", ← spec.getBool "fail", decide ((optNat spec "deep").getD 0 > 0)⟩ (optNat j "sys")
      ((j.getD "cycle").bool?.getD false))
  | "delete" => pure (.delete (← toKey j) (optStr j "version"))
  | "deleteMeta" => pure (deleteMetaOf (← getNat j "kind") (toMeta j))
  | "lookup" => pure (.lookup (← toKey j))
  | "systemData" => pure (.systemData (← toKey j))
  | "elapse" => pure (.elapse ((optNat j "seconds").getD 0))
  | o => throw s!"bad op {o}"

def ofResult : PrepResult (Nat × String × Nat) → J
  | .ok (k, n, i) => .obj [("c", .str "ok"), ("kind", .num k), ("name", .str n), ("id", .num i)]
  | .failed (k, n, i) => .obj [("c", .str "failed"), ("kind", .num k), ("name", .str n), ("id", .num i)]

def ofEntry (e : Entry DSpec (Nat × String × Nat)) : J :=
  .obj [("spec", .obj [("id", .num e.spec.id), ("fail", .bool e.spec.fail), ("deep", .bool e.spec.deep)]),
        ("resource", ofResult e.resource), ("serial", .num e.serial), ("version", .str e.version),
        ("sys", match e.sys with | some n => .num n | none => .null)]

def ofOut : Out DSpec (Nat × String × Nat) → J
  | .typeError => .obj [("k", .str "typeError")]
  | .returned r n p => .obj [("k", .str "returned"), ("resource", ofResult r), ("serial", .num n), ("prepared", .bool p)]
  | .raisedCycle r n => .obj [("k", .str "raisedCycle"), ("resource", ofResult r), ("serial", .num n)]
  | .unit => .obj [("k", .str "unit")]
  | .found none => .obj [("k", .str "found"), ("v", .null)]
  | .found (some (r, n)) => .obj [("k", .str "found"), ("v", .obj [("resource", ofResult r), ("serial", .num n)])]
  | .entry none => .obj [("k", .str "entry"), ("v", .null)]
  | .entry (some e) => .obj [("k", .str "entry"), ("v", ofEntry e)]

/-- both lookups of every key of the universe -/
def view (keys : List Key) (s : State DSpec (Nat × String × Nat)) : J :=
  .arr (keys.map fun k => match find? s.cache k with
    | none => .obj [("entry", .null), ("lookup", .null)]
    | some e => .obj [("entry", ofEntry e), ("lookup", .num e.serial)])

def runAll (keys : List Key) : State DSpec (Nat × String × Nat) → List (Op DSpec) → List J
  | _, [] => []
  | s, op :: ops =>
    let (s', out) := step dprep s op
    .obj [("out", ofOut out), ("calls", .num s'.calls), ("view", view keys s')] :: runAll keys s' ops

/-- {"keys":[{"kind","name"}…], "ops":[op…]} → one {"out","calls","view"} per op -/
def handle (j : J) : Except String J := do
  let keys ← (← j.getArr "keys").mapM toKey
  let ops ← (← j.getArr "ops").mapM toOp
  pure (.arr (runAll keys init ops))

end Koreo.Driver.C15

def main : IO UInt32 := MiniJson.runLoop Koreo.Driver.C15.handle
