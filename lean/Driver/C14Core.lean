import Driver.MiniJson
import Koreo.WorkflowPrep
namespace Koreo.Driver.C14
open MiniJson Koreo.CelAst Koreo.WorkflowPrep

/-- index ↔ kind / terminal (the harness sends names' positions in these lists) -/
def kinds : List Kind :=
  [.expr, .conditionalor, .conditionaland,
   .relation, .relation_lt, .relation_le, .relation_gt, .relation_ge, .relation_eq, .relation_ne, .relation_in,
   .addition, .addition_add, .addition_sub,
   .multiplication, .multiplication_mul, .multiplication_div, .multiplication_mod,
   .unary, .unary_not, .unary_neg,
   .member, .member_dot, .member_dot_arg, .member_index, .member_object,
   .primary, .literal, .dot_ident_arg, .dot_ident, .ident_arg, .ident, .paren_expr, .list_lit, .map_lit,
   .exprlist, .fieldinits, .mapinits]

def toks : List TokT :=
  [.IDENT, .UINT_LIT, .FLOAT_LIT, .INT_LIT, .MLSTRING_LIT, .STRING_LIT, .BYTES_LIT, .BOOL_LIT, .NULL_LIT]

/-- tree = [kindIndex, child…]   token = [-1 - tokIndex, "text"] -/
partial def toCel (j : J) : Except String Cel :=
  match j with
  | .arr (.num n :: rest) =>
    if n ≥ 0 then
      match kinds[n.toNat]? with
      | some k => do pure (.node k (← rest.mapM toCel))
      | none => throw s!"bad kind index {n}"
    else
      match toks[(-1 - n).toNat]?, rest with
      | some t, [.str s] => pure (.tok t s)
      | _, _ => throw s!"bad token {n}"
  | _ => throw "bad tree"

def ofStrs (xs : List String) : J := .arr (xs.map .str)

def toFld (j : J) : Except String Fld :=
  match j with
  | .null => pure .absent
  | .str _ => pure .parseFail
  | other => do pure (.ast (← toCel other))

def toRef (j : J) : Except String Ref := do
  pure ⟨(j.getD "kind").str?.getD "", (j.getD "name").str?.getD ""⟩

def toCase (j : J) : Except String CaseSpec := do
  pure ⟨(j.getD "case").str?.getD "", (j.getD "default").bool?.getD false, ← toRef j⟩

def toStep (j : J) : Except String StepSpec := do
  let ref ← match j.getD "ref" with
    | .null => pure none
    | r => do pure (some (← toRef r))
  let sw ← match j.getD "refSwitch" with
    | .null => pure none
    | s => do
      let cases ← (← s.getArr "cases").mapM toCase
      pure (some ⟨← toFld (s.getD "switchOn"), cases⟩)
  let fe ← match j.getD "forEach" with
    | .null => pure none
    | f => do pure (some ⟨← toFld (f.getD "itemIn"), (f.getD "inputKeyEmpty").bool?.getD false,
                          (f.getD "conditionNotObject").bool?.getD false⟩)
  pure {
    label := (j.getD "label").str?
    ref := ref
    refSwitch := sw
    skipIf := ← toFld (j.getD "skipIf")
    forEach := fe
    inputs := ← toFld (j.getD "inputs")
    state := ← toFld (j.getD "state") }

/-- env entries: [kind, name, "missing" | "unhealthy" | "ready", isWorkflow, [keys]] -/
def toEnv (xs : List J) : Except String Env := do
  let entries ← xs.mapM fun e => match e with
    | .arr [.str k, .str n, .str st, .bool w, .arr ks] =>
      let c : Cached := if st == "ready" then .ready w (ks.filterMap J.str?) else if st == "unhealthy" then .unhealthy else .missing
      pure ((⟨k, n⟩ : Ref), c)
    | _ => throw "bad env entry"
  pure fun r => ((entries.find? (fun e => e.1 == r)).map (·.2)).getD .missing

def ofErr : ErrCls → String
  | .retry => "retry"
  | .permFail => "permFail"

def ofStepR : StepR → J
  | .step deps => .obj [("deps", ofStrs deps)]
  | .error c => .obj [("err", .str (ofErr c))]

def ofReady : Ready → String
  | .ok => "ok" | .retry => "retry" | .permFail => "permFail"

def ofRes (rs : List Res) : J := .arr (rs.map fun (k, n) => .arr [.str k, .str n])

def toOverlay (j : J) : Except String OverlaySpec := do
  pure ⟨← toFld (j.getD "skipIf"), (j.getD "hasInline").bool?.getD false, (j.getD "refName").str?⟩

def handle (j : J) : Except String J := do
  let op ← j.getStr "op"
  match op with
  | "extract" =>
    let t ← toCel (j.getD "t")
    match extract t with
    | .ok ks => pure (.obj [("ok", ofStrs ks), ("steps", ofStrs (stepDeps ks)), ("parent", ofStrs (parentProps ks))])
    | .error e => pure (.obj [("raise", .str e)])
  | "names" =>
    let keys := (← j.getArr "keys").filterMap J.str?
    pure (.obj [("steps", .arr (keys.map fun k => J.ofOptStr (stepsName k))),
                ("parent", .arr (keys.map fun k => J.ofOptStr (parentName k)))])
  | "workflow" =>
    let env ← toEnv (← j.getArr "env")
    let steps ← (← j.getArr "steps").mapM toStep
    match prepareWorkflow env steps with
    | .ok r => pure (.obj [("steps", .arr (r.steps.map ofStepR)), ("ready", .str (ofReady r.ready)),
                           ("watched", ofRes r.watched), ("pp", ofStrs r.parentProps)])
    | .error e => pure (.obj [("raise", .str e)])
  | "workflowSeq" =>
    -- {"op":"workflowSeq","env":[…],"seq":[[step…],…]}: a run of preparations in one process
    let env ← toEnv (← j.getArr "env")
    let specs ← (← j.getArr "seq").mapM fun w => match w with
      | .arr xs => xs.mapM toStep
      | _ => throw "bad sequence entry"
    let rs := (prepareSeq env specs).map fun x => match x with
      | .ok r => J.obj [("steps", .arr (r.steps.map ofStepR)), ("ready", .str (ofReady r.ready)),
                        ("watched", ofRes r.watched), ("pp", ofStrs r.parentProps)]
      | .error e => J.obj [("raise", .str e)]
    pure (.obj [("results", .arr rs)])
  | "rf" =>
    let os ← (← j.getArr "overlays").mapM toOverlay
    match rfWatched (← j.getBool "bodyOk") os with
    | some w => pure (.obj [("watched", ofRes w)])
    | none => pure (.obj [("watched", .null)])
  | "ft" =>
    let fn ← toRef (j.getD "fn")
    let ts := (← j.getArr "templates").filterMap J.str?
    match ftWatched fn (← j.getBool "casesOk") ts with
    | some w => pure (.obj [("watched", ofRes w)])
    | none => pure (.obj [("watched", .null)])
  | "gate" =>
    -- {"op":"gate","valid":bool,"body":"prepared"|"permFail"|"retry","compiles":n,"lookups":m}
    let valid ← j.getBool "valid"
    let body := match (j.getD "body").str?.getD "prepared" with
      | "permFail" => PrepR.permFail | "retry" => .retry | _ => .prepared
    let evs := List.replicate (← j.getInt "compiles").toNat Ev.compile ++ List.replicate (← j.getInt "lookups").toNat Ev.lookup
    let (tr, r) := prepareK (fun (_ : Unit) => valid) (fun _ => (evs, body)) ()
    let ev2s : Ev → String := fun e => match e with | .validate => "validate" | .compile => "compile" | .lookup => "lookup"
    let r2s : PrepR → String := fun e => match e with | .prepared => "prepared" | .permFail => "permFail" | .retry => "retry"
    pure (.obj [("trace", ofStrs (tr.map ev2s)), ("result", .str (r2s r))])
  | "overlayInputs" =>
    -- {"op":"overlayInputs","keys":[dynamic_input_keys of the ValueFunction],"provided":[input names]}
    let keys := (← j.getArr "keys").filterMap J.str?
    let provided := (← j.getArr "provided").filterMap J.str?
    let needed := J.arr ((neededInputs keys).map J.ofOptStr)
    match overlayInputsCheck modelJoinStyle keys provided with
    | .ok none => pure (.obj [("needed", needed), ("missing", .null)])
    | .ok (some names) => pure (.obj [("needed", needed), ("missing", ofStrs names)])
    | .error e => pure (.obj [("needed", needed), ("raise", .str e)])
  | "registry" =>
    -- {"op":"registry","versions":[apiVersion…]}: a run of ResourceFunction prepares in one process
    let avs := (← j.getArr "versions").filterMap J.str?
    let (reg, rs) := prepareApiSeq prepareApi [] avs
    let r2s : ApiR → String := fun r => match r with | .prepared => "prepared" | .permFail => "permFail" | .raised => "raised"
    pure (.obj [("results", ofStrs (rs.map r2s)), ("usable", .bool (lookupOk reg))])
  | _ => throw s!"bad op {op}"

end Koreo.Driver.C14
