import Driver.MiniJson
import Koreo.Registry
namespace Koreo.Driver.C17
open MiniJson Koreo.Registry

def getNat (j : J) (k : String) : Except String Nat := do
  let n ← j.getInt k
  if n < 0 then throw s!"negative {k}" else pure n.toNat

/-- `none` = a harness-only action the registry must not notice (the caller mutating a set object it
    once passed to `subscribe_only_to`) -/
def toOp (j : J) : Except String (Option Op) := do
  match ← j.getStr "op" with
  | "mutate" => pure none
  | "register" => pure (some (.register (← getNat j "r") (← getNat j "cap")))
  | "subscribe" => pure (some (.subscribe (← getNat j "s") (← getNat j "r")))
  | "only" =>
    let rs ← (← j.getArr "rs").mapM fun x => match x with
      | .num n => if n < 0 then throw "negative resource" else pure n.toNat
      | _ => throw "bad resource"
    pure (some (.subscribeOnlyTo (← getNat j "s") rs))
  | "unsubscribe" => pure (some (.unsubscribe (← getNat j "s") (← getNat j "r")))
  | "notify" => pure (some (.notify (← getNat j "r") (← getNat j "t")))
  | "kill" => pure (some (.kill (← getNat j "r")))
  | "deregister" => pure (some (.deregister (← getNat j "r") (← getNat j "t")))
  | o => throw s!"bad op {o}"

def sorted (l : List Nat) : List Nat := (l.toArray.qsort (· < ·)).toList

def ofNats (l : List Nat) : J := .arr ((sorted l).map fun (n : Nat) => J.num (Int.ofNat n))

def ofItem : Item → J
  | .kill => .str "K"
  | .event src t => .arr [.str "E", .num src, match t with | some t => .num t | none => .null]

def ofQueue (q : Queue) : J :=
  .obj [("items", .arr (q.items.map ofItem)), ("shut", .bool q.shut),
        ("unfinished", .num q.unfinished), ("cap", .num q.cap)]

def ofOut : Out → J
  | .ok => .obj [("k", .str "ok")]
  | .cycle => .obj [("k", .str "cycle")]
  | .keyError => .obj [("k", .str "keyError")]
  | .diverged => .obj [("k", .str "diverged")]
  | .delivered to => .obj [("k", .str "delivered"), ("to", ofNats to)]
  | .released q to =>
    .obj [("k", .str "released"), ("q", match q with | some q => ofQueue q | none => .null), ("to", ofNats to)]
  | .raised .full => .obj [("k", .str "raised"), ("e", .str "QueueFull")]
  | .raised .shutDown => .obj [("k", .str "raised"), ("e", .str "QueueShutDown")]

/-- both maps (sorted, over the universe `0..n-1`) and every registered queue -/
def ofState (n : Nat) (s : State) : J :=
  let rs := List.range n
  .obj [("subs", .arr (rs.map fun r => ofNats (s.subs r))),
        ("subscribers", .arr (rs.map fun r => ofNats (s.subscribers r))),
        ("queues", .arr (rs.map fun r => match s.queues.find? r with | some q => ofQueue q | none => .null))]

def runAll (caught : QErr → Bool) (n : Nat) : State → List (Option Op) → List J
  | _, [] => []
  | s, none :: ops => .obj [("out", ofOut .ok), ("state", ofState n s)] :: runAll caught n s ops
  | s, some op :: ops =>
    let (s', out) := stepWith caught s op
    .obj [("out", ofOut out), ("state", ofState n s')] :: runAll caught n s' ops

/-- {"n": universe size, "ops": [op…], "variant": "repaired" | "original"} → one {"out","state"} per op -/
def handle (j : J) : Except String J := do
  let n ← getNat j "n"
  let ops ← (← j.getArr "ops").mapM toOp
  let caught := match (j.getD "variant").str? with
    | some "original" => caughtOriginal
    | _ => caughtRepaired
  pure (.arr (runAll caught n init ops))

end Koreo.Driver.C17

def main : IO UInt32 := MiniJson.runLoop Koreo.Driver.C17.handle
