import Driver.MiniJson
import Koreo.Predicates
namespace Koreo.Driver.C13
open MiniJson Koreo.Predicates

/-- {"a":"t"|"f"|"nb"|"fail", "k":"ok"|"depSkip"|"skip"|"retry"|"permFail"|"other",
     "m": "text" | null (failed), "d": "<int>" | "notInt" | "failed"} -/
def toPred (j : J) : Except String Pred := do
  let a ← match ← j.getStr "a" with
    | "t" => pure (AssertV.ok true)
    | "f" => pure (AssertV.ok false)
    | "nb" => pure AssertV.nonBool
    | "fail" => pure AssertV.failed
    | s => throw s!"bad assert {s}"
  let k ← match ← j.getStr "k" with
    | "ok" => pure Kind.ok
    | "depSkip" => pure Kind.depSkip
    | "skip" => pure Kind.skip
    | "retry" => pure Kind.retry
    | "permFail" => pure Kind.permFail
    | "other" => pure Kind.other
    | s => throw s!"bad kind {s}"
  let m := match j.getD "m" with
    | .str s => MsgV.ok s
    | _ => MsgV.failed
  let d ← match ← j.getStr "d" with
    | "notInt" => pure DelayV.notInt
    | "failed" => pure DelayV.failed
    | s => match s.toInt? with
      | some n => pure (DelayV.ok n)
      | none => throw s!"bad delay {s}"
  pure ⟨a, k, m, d⟩

def whyName : Why → String
  | .assertion => "assertion" | .member => "member" | .badDelay => "badDelay" | .unknownKind => "unknownKind"

def ofDecision : Option Decision → J
  | none => .obj [("r", .str "continue")]
  | some (.depSkip m) => .obj [("r", .str "depSkip"), ("m", .str m)]
  | some (.skip m) => .obj [("r", .str "skip"), ("m", .str m)]
  | some (.retry d m) => .obj [("r", .str "retry"), ("m", .str m), ("d", .str (toString d))]
  | some (.permFail m) => .obj [("r", .str "permFail"), ("m", .str m)]
  | some (.evalFail w) => .obj [("r", .str "permFail"), ("why", .str (whyName w))]

def evName : Ev → String
  | .preconditions => "preconditions" | .locals => "locals" | .returnValue => "return"
  | .apiConfig => "apiConfig" | .resource => "resource" | .postconditions => "postconditions"
  | .api => "api"

def ofRun (r : Run) : J :=
  let out := match r.out with
    | .decided d => ofDecision (some d)
    | .body tag => .obj [("r", .str "body"), ("tag", .str tag)]
  .obj [("out", out), ("trace", .arr (r.trace.map fun e => .str (evName e)))]

def handle (j : J) : Except String J := do
  match ← j.getStr "op" with
  | "decide" => pure (ofDecision (decide (← (← j.getArr "ps").mapM toPred)))
  | "vf" =>
    pure (ofRun (vfRun (← (← j.getArr "pre").mapM toPred) (← j.getBool "ret")))
  | "rf" =>
    let crud ← match ← j.getStr "crud" with
      | "okReadonly" => pure Crud.okReadonly
      | "okMatch" => pure Crud.okMatch
      | "createRetry" => pure Crud.createRetry
      | "deletedAbsent" => pure Crud.deletedAbsent
      | "deleting" => pure Crud.deleting
      | s => throw s!"bad crud {s}"
    let lk ← match (j.getD "lookup").str? with
      | some "found" => pure Lookup.found
      | some "unknownKind" => pure Lookup.unknownKind
      | _ => pure Lookup.notNeeded
    let hasReturn := match j.get? "ret" with | some (.bool b) => b | _ => true
    pure (ofRun (rfRunR hasReturn (← (← j.getArr "pre").mapM toPred) (← (← j.getArr "post").mapM toPred) lk crud))
  | op => throw s!"bad op {op}"

end Koreo.Driver.C13

def main : IO UInt32 := MiniJson.runLoop Koreo.Driver.C13.handle
