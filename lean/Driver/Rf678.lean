/-
  Shared driver for C06 and C08: one reconcile of the payload-level model
  (`Koreo.ResourceFn.reconcile`) on a wire-encoded ResourceFunction.
-/
import Driver.Wire
import Koreo.ResourceFn
namespace Koreo.Driver.Rf678
open MiniJson Koreo Koreo.Wire Koreo.Identity Koreo.Payload Koreo.ResourceFn

partial def toOv (j : J) : Except String Ov :=
  match j with
  | .obj [("leaf", v)] => do pure (.leaf (← toJVal v))
  | .obj [("node", .arr kvs)] => do
    let kvs ← kvs.mapM fun kv => match kv with
      | .arr [.str k, o] => do pure (k, ← toOv o)
      | _ => throw "bad overlay entry"
    pure (.node kvs)
  | _ => throw "bad overlay"

/-- {"ov": Ov} | {"skip": true} (skipIf was true: the step leaves the resource alone) -/
def toStep (j : J) : Except String Step := do
  match j.get? "skip" with
  | some (.bool true) => pure fun r => some r
  | _ => pure (← toOv (j.getD "ov")).step

def toPolicy : String → Except String Policy
  | "patch" => pure .patch
  | "recreate" => pure .recreate
  | "never" => pure .never
  | s => throw s!"bad policy {s}"

def actionName : Action → String
  | .noApiAtAll => "noApiAtAll" | .none => "none" | .create => "create" | .patch => "patch" | .delete => "delete"

def outcomeName : Option OutcomeClass → J
  | some .ok => .str "ok" | some .retry => .str "retry" | some .precond => .str "precond"
  | some .permFail => .str "permFail" | some .raised => .str "raised" | none => .null

def methodName : Method → String
  | .post => "POST" | .patch => "PATCH" | .delete => "DELETE"

def optJ : Option JVal → J
  | some v => ofJVal v
  | none => .null

def ofRequest (r : Request) : J :=
  .obj [("method", .str (methodName r.method)), ("plural", .str r.plural), ("name", optJ r.name),
        ("nsArg", optJ r.nsArg), ("body", optJ r.body), ("version", .str r.version)]

def ofRun (r : Run) : J :=
  .obj [("action", .str (actionName r.action)), ("outcome", outcomeName r.outcome),
        ("request", match r.request with | some q => ofRequest q | none => .null)]

/-- `json.dumps` stand-in: the wire rendering of the value (the harness decodes both sides) -/
def enc (v : JVal) : String := render (ofJVal v)

def optStr (j : J) (k : String) : Option String := (j.getD k).str?

/-- a CEL value with typed keys on the wire: {"plain": val} | {"map": [[{"t": s} | {"b": base64}, cval] …]} -/
partial def toCVal (j : J) : Except String Koreo.Identity.CVal := do
  match j with
  | .obj [("plain", v)] => pure (.plain (← toJVal v))
  | .obj [("map", .arr es)] =>
    let kvs ← es.mapM fun e => do
      match e with
      | .arr [.obj [("t", .str s)], c] => pure (Koreo.Identity.CKey.text s, ← toCVal c)
      | .arr [.obj [("b", .str s)], c] => pure (Koreo.Identity.CKey.bytes s, ← toCVal c)
      | _ => throw "bad map entry"
    pure (.map kvs)
  | _ => throw "bad cval"

/-- {"op":"convertPin","c":cval,"ver","kind","name","ns":str|null} → {"converted": val, "pinned": val}
    {"op":"run","api":{"ver","kind","plural","namespaced"},"name","ns","flags":{"readonly","owned",
     "createEnabled","deleteIfExists","policy"},"tmpl","steps":[…],"createOv":Ov|null,
     "owner":{"ns","ref"},"stored":val|null,"defNs","precond"}
    → {"expected": val|null, "ifMatch": run, "ifDrift": run} -/
def handle (j : J) : Except String J := do
  match ← j.getStr "op" with
  | "run" =>
    let a := j.getD "api"
    let api : ApiClass := ⟨← a.getStr "ver", ← a.getStr "kind", ← a.getStr "plural", ← a.getBool "namespaced"⟩
    let f := j.getD "flags"
    let steps ← (← j.getArr "steps").mapM toStep
    let createOv ← match j.getD "createOv" with
      | .null => pure none
      | o => do pure (some (← toOv o).step)
    let rf : Rf :=
      { api := api, name := ← j.getStr "name", ns := optStr j "ns",
        readonly := ← f.getBool "readonly", owned := ← f.getBool "owned",
        createEnabled := ← f.getBool "createEnabled", deleteIfExists := ← f.getBool "deleteIfExists",
        policy := ← toPolicy (← f.getStr "policy"),
        tmpl := ← toJVal (j.getD "tmpl"), steps := steps, createOv := createOv }
    let o := j.getD "owner"
    let owner : Owner := ⟨optStr o "ns", ← toJVal (o.getD "ref")⟩
    let stored ← match j.getD "stored" with
      | .null => pure none
      | s => do pure (some (← toJVal s))
    let defNs := (optStr j "defNs").getD "default"
    let pp ← j.getBool "precond"
    let expected := materialise (forced rf.target) rf.tmpl rf.steps
    pure (.obj [("expected", optJ expected),
                ("ifMatch", ofRun (reconcile enc defNs (fun _ _ => true) pp rf owner stored)),
                ("ifDrift", ofRun (reconcile enc defNs (fun _ _ => false) pp rf owner stored))])
  | "convertPin" =>
    let c ← toCVal (j.getD "c")
    let t : Target := ⟨← j.getStr "ver", ← j.getStr "kind", ← j.getStr "name", (j.getD "ns").str?⟩
    let v := Koreo.Identity.convert c
    pure (.obj [("converted", ofJVal v), ("pinned", ofJVal (Koreo.Identity.pinIdentity t v))])
  | op => throw s!"bad op {op}"

end Koreo.Driver.Rf678
