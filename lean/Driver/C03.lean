import Driver.Wire
import Koreo.Result
namespace Koreo.Driver.C03
open MiniJson Koreo.Result Koreo.Wire

/-- {"c":"ok","v":<val>,"l":loc} | {"c":"retry","d":"5","m":..,"l":..} | {"c":"skip"|"depSkip"|"permFail","m":..,"l":..} -/
def toOutcome (j : J) : Except String (Outcome JVal) := do
  let c ← j.getStr "c"
  let m := (j.getD "m").str?
  let l := (j.getD "l").str?
  match c with
  | "depSkip" => pure (.depSkip m l)
  | "skip" => pure (.skip m l)
  | "permFail" => pure (.permFail m l)
  | "retry" => pure (.retry (← j.getInt "d") m l)
  | "ok" => pure (.ok (.raw (← toJVal (j.getD "v"))) l)
  | _ => throw s!"bad class {c}"

def ofCombined : Combined JVal → J
  | .okList vs l => .obj [("c", .str "ok"), ("v", .arr (vs.map ofJVal)), ("l", J.ofOptStr l)]
  | .nonOk (.depSkip m l) => .obj [("c", .str "depSkip"), ("m", J.ofOptStr m), ("l", J.ofOptStr l)]
  | .nonOk (.skip m l) => .obj [("c", .str "skip"), ("m", J.ofOptStr m), ("l", J.ofOptStr l)]
  | .nonOk (.permFail m l) => .obj [("c", .str "permFail"), ("m", J.ofOptStr m), ("l", J.ofOptStr l)]
  | .nonOk (.retry d m l) =>
    .obj [("c", .str "retry"), ("d", .str (toString d)), ("m", J.ofOptStr m), ("l", J.ofOptStr l)]
  | .nonOk (.ok ..) => .obj [("c", .str "internal-ok")]

/-- {"op":"combine","xs":[outcome..]} | {"op":"unwrapped","xs":[outcome-or-{"c":"val","v":..}]} -/
def handle (j : J) : Except String J := do
  let op ← j.getStr "op"
  let xs ← j.getArr "xs"
  match op with
  | "combine" => pure (ofCombined (combine (← xs.mapM toOutcome)))
  | "unwrapped" =>
    let os ← xs.mapM fun x => do
      if (← x.getStr "c") == "val" then pure (Unwrapped.val (← toJVal (x.getD "v")))
      else pure (Unwrapped.out (← toOutcome x))
    pure (ofCombined (unwrappedCombine os))
  | _ => throw s!"bad op {op}"

end Koreo.Driver.C03

def main : IO UInt32 := MiniJson.runLoop Koreo.Driver.C03.handle
