import Driver.Wire
import Koreo.Result
namespace Koreo.Driver.C03
open Lean (Json)
open Koreo.Result Koreo.Wire

/-- {"c":"ok","v":<val>,"l":loc} | {"c":"retry","d":"5","m":..,"l":..} | {"c":"skip"|"depSkip"|"permFail","m":..,"l":..} -/
def toOutcome (j : Json) : Except String (Outcome JVal) := do
  let c ← j.getObjValAs? String "c"
  let m := optStr (j.getObjValD "m")
  let l := optStr (j.getObjValD "l")
  match c with
  | "depSkip" => pure (.depSkip m l)
  | "skip" => pure (.skip m l)
  | "permFail" => pure (.permFail m l)
  | "retry" =>
    let d ← j.getObjValAs? String "d"
    match d.toInt? with
    | some d => pure (.retry d m l)
    | none => throw "bad delay"
  | "ok" => pure (.ok (.raw (← toJVal (j.getObjValD "v"))) l)
  | _ => throw s!"bad class {c}"

def ofCombined : Combined JVal → Json
  | .okList vs l => Json.mkObj [("c", "ok"), ("v", .arr (vs.map ofJVal).toArray), ("l", ofOptStr l)]
  | .nonOk (.depSkip m l) => Json.mkObj [("c", "depSkip"), ("m", ofOptStr m), ("l", ofOptStr l)]
  | .nonOk (.skip m l) => Json.mkObj [("c", "skip"), ("m", ofOptStr m), ("l", ofOptStr l)]
  | .nonOk (.permFail m l) => Json.mkObj [("c", "permFail"), ("m", ofOptStr m), ("l", ofOptStr l)]
  | .nonOk (.retry d m l) =>
    Json.mkObj [("c", "retry"), ("d", .str (toString d)), ("m", ofOptStr m), ("l", ofOptStr l)]
  | .nonOk (.ok ..) => Json.mkObj [("c", "internal-ok")]

/-- {"op":"combine","xs":[outcome..]} | {"op":"unwrapped","xs":[outcome-or-{"c":"val","v":..}]} -/
def handle (j : Json) : Except String Json := do
  let op ← j.getObjValAs? String "op"
  let xs ← j.getObjValAs? (Array Json) "xs"
  match op with
  | "combine" =>
    let os ← xs.toList.mapM toOutcome
    pure (ofCombined (combine os))
  | "unwrapped" =>
    let os ← xs.toList.mapM fun x => do
      let c ← x.getObjValAs? String "c"
      if c == "val" then pure (Unwrapped.val (← toJVal (x.getObjValD "v")))
      else pure (Unwrapped.out (← toOutcome x))
    pure (ofCombined (unwrappedCombine os))
  | _ => throw s!"bad op {op}"

end Koreo.Driver.C03
