/-
  driver_c09: one (possibly faulty) Workflow reconcile pass through the fault model `Koreo/WorkflowFaults.lean`.

  request {"op":"pass","trig":V,"main":"main","defs":[WF..],"fns":[[id,FN]..],
           "objs":[[resource name,"absent"|"matching"|"differing"]..],       situation of each resource before the pass
           "fault":{"path":[[label,idx|null]..],"call":j,"kind":K}|null,    the j-th API call of the Logic evaluation at
                                                                            `path` (nested through sub-workflows) fails
           "interrupted":bool,                                              the pass reached STEP_TIMEOUT
           "obs":RUN}
    WF, STEP, T, E as in Driver/WorkflowWire.lean
    FN   {"c":class,"d":delay,"by":key?,"rf":{"prefix":s,"nameKey":s?,"pre":bool,"readonly":bool,"policy":"patch"|"recreate"|"never","deleteIfExists":bool?}?}
    K    "raise-before"|"raise-after"|"404"|"409"|"500"|"hang"|"no-response"|"400"|"401"|"403"|"429"
    RUN  {"steps":[[label,TAG,[TAG..],SUB]..]}       observed final task states: step task, its forEach iteration tasks
    TAG  "done"|"raised"|"cancelled"
    SUB  null | RUN (the step's Logic is a sub-workflow) | [RUN|null ..] (one per forEach iteration)
  answer  {"possible":bool,                the observed task states are in the model's relation (at every nesting level)
           "steps":[[label,TAG,RES,rid]..],"overall":RES,"state":V,"stateErrors":[..],"conditions":[[type,reason,status]..],
           "resourceIds":V,"mayRun":[label..],"affected":[label..],"wf":bool}
-/
import Driver.WorkflowWire
import Koreo.WorkflowFaults
namespace Koreo.Driver.C09
open MiniJson Koreo Koreo.Workflow Koreo.WorkflowFaults Koreo.Wire Koreo.Driver.WorkflowWire

abbrev Path := List (Label × Option Nat)

structure RfSpec9 where
  pfx : String
  nameKey : Option String
  pre : Bool
  readonly : Bool
  policy : Policy
  deleteIfExists : Bool

structure FnSpec9 where
  cls : String
  delay : Int
  byKey : Option String
  rf : Option RfSpec9

def toPolicy : String → Policy
  | "recreate" => .recreate
  | "never" => .never
  | _ => .patch

def toFnSpec9 (j : J) : Except String FnSpec9 := do
  let rf ← match optField j "rf" with
    | none => pure none
    | some r => do
      pure (some { pfx := ← r.getStr "prefix", nameKey := (r.getD "nameKey").str?,
                   pre := ((r.getD "pre").bool?).getD false,
                   readonly := ((r.getD "readonly").bool?).getD false,
                   policy := toPolicy (((r.getD "policy").str?).getD "patch"),
                   deleteIfExists := ((r.getD "deleteIfExists").bool?).getD false : RfSpec9 })
  pure { cls := ← j.getStr "c", delay := ((j.get? "d").bind J.int?).getD 0, byKey := (j.getD "by").str?, rf }

def toKind : String → Except String FaultKind
  | "raise-before" => pure .raiseBefore
  | "raise-after" => pure .raiseAfter
  | "404" => pure .e404
  | "409" => pure .e409
  | "500" => pure .e500
  | "hang" => pure .hang
  | "no-response" => pure .noResp
  | "400" | "401" | "403" | "429" => pure .e4xx
  | k => throw s!"bad fault kind {k}"

def toObjState : String → ObjState
  | "matching" => .matching
  | "differing" => .differing
  | _ => .absent

structure Fault where
  path : Path
  call : Nat
  kind : FaultKind

def toPath (j : J) : Except String Path := do
  (← (j.arr?).elim (throw "bad path") pure).mapM fun e => match e with
    | .arr [.str l, .num i] => pure (l, some i.toNat)
    | .arr [.str l, .null] => pure (l, none)
    | _ => throw "bad path element"

def toTag : J → Except String Tag
  | .str "done" => pure .done
  | .str "raised" => pure .raised
  | .str "cancelled" => pure .cancelled
  | _ => throw "bad tag"

/-- observed task states of one workflow evaluation, with the nested observations -/
inductive Obs where
  | run (steps : List (Label × StepTags × List (Option Obs)))

partial def toObs (j : J) : Except String Obs := do
  let steps ← (← j.getArr "steps").mapM fun s => match s with
    | .arr [.str l, t, .arr its, sub] => do
      let tg : StepTags := { tag := ← toTag t, items := ← its.mapM toTag }
      let subs ← match sub with
        | .null => pure []
        | .arr xs => xs.mapM fun x => match x with
          | .null => pure none
          | o => do pure (some (← toObs o))
        | o => do pure [some (← toObs o)]
      pure (l, tg, subs)
    | _ => throw "bad observed step"
  pure (.run steps)

structure Ctx where
  env : Env
  fns : List (String × FnSpec9)
  objs : List (String × ObjState)
  fault : Option Fault

def pathEq (a b : Path) : Bool := a == b

/-- a Function evaluated at `path`: ValueFunctions and precondition-forced classes never touch the API; a
    ResourceFunction is `rfPass` over the three-situation machine, hit by the fault iff the fault is placed here -/
def fnAnswer (ctx : Ctx) (path : Path) (id : String) (inputs : JVal) : FAns :=
  match ctx.fns.lookup id with
  | none => .ans ⟨.permFail, .null, []⟩
  | some f =>
    let cls := match f.byKey with
      | none => f.cls
      | some k => match inputKey inputs k with | some (.str s) => s | _ => "permFail"
    let res := resOf cls f.delay id inputs
    match f.rf with
    | none => .ans ⟨res, .null, []⟩
    | some rf =>
      if rf.pre then .ans ⟨res, .null, []⟩
      else
        let name? := match rf.nameKey with
          | none => some rf.pfx
          | some k => match inputKey inputs k with
            | some (.str s) => some (rf.pfx ++ "." ++ s)
            | _ => none
        match name? with
        | none => .ans ⟨.permFail, .null, []⟩
        | some name =>
          let st := (ctx.objs.lookup name).getD .absent
          let cfg : RfCfg := { deleteIfExists := rf.deleteIfExists, readonly := rf.readonly, policy := rf.policy,
                               loadDelay := 30,
                               createDelay := f.delay, updateDelay := f.delay }
          let fault := match ctx.fault with
            | some ft => if pathEq ft.path path then some (ft.call, ft.kind) else none
            | none => none
          let p := rfPass objMach cfg fault st
          let rid := JVal.obj [("fn", .str id), ("name", .str name)]
          let api := p.calls.map fun m => (match m with
            | .get => "GET" | .post => "POST" | .patch => "PATCH" | .delete => "DELETE") ++ " " ++ name
          match p.ans with
          | .ok _ => .ans ⟨resOf "ok" f.delay id inputs, rid, api⟩
          | .retry d => .ans ⟨.retry d, rid, api⟩
          | .permFail => .ans ⟨.permFail, rid, api⟩
          | .raised => .raised
          | .hung => .hung

def obsTags : Obs → List (Label × StepTags)
  | .run steps => steps.map fun (l, tg, _) => (l, tg)

def obsSub (o : Obs) (l : Label) (idx : Option Nat) : Option Obs :=
  match o with
  | .run steps =>
    match steps.find? (fun s => s.1 == l) with
    | none => none
    | some (_, _, subs) =>
      match idx with
      | none => (subs.head?).join
      | some i => (subs[i]?).join

/-- the Logic evaluations the model makes for step `s` given the final entries: (idx, target, inputs) -/
def evaluationsOf (frunSel : Logic → List (String × JVal) → JVal → Option Target)
    (trig : JVal) (pre : List (Label × Entry)) (s : Step) : List (Option Nat × Target × JVal) :=
  match depsDone pre s.deps with
  | none => []
  | some dr =>
    match gate evalStd trig dr s with
    | .done _ => []
    | .single act inputs =>
      match frunSel s.logic act inputs with
      | some t => [(none, t, inputs)]
      | none => []
    | .each act inputs key items =>
      (items.zipIdx).filterMap fun (it, i) =>
        let inp := setKey key it inputs
        (frunSel s.logic act inp).map fun t => (some i, t, inp)

def selTarget : Logic → List (String × JVal) → JVal → Option Target
  | .ref t, _, _ => some t
  | .switch on cases dflt, act, inputs =>
    match select evalStd on cases dflt act inputs with
    | .hit t => some t
    | _ => none

structure LevelOut where
  possible : Bool
  pre : List (Label × Entry)
  result : WfResult
  mayRun : List Label
  affected : List Label
  deriving Inhabited

/-- one workflow evaluation at `path` against its observed task states -/
partial def evalLevel (ctx : Ctx) (path : Path) (wf : Workflow) (trig : JVal) (interrupted : Bool)
    (obs : Obs) : LevelOut :=
  let tags := obsTags obs
  let cause := causeOf interrupted tags
  let causeAt (l : Label) (idx : Option Nat) : Bool :=
    match idx with
    | none => cause
    | some _ => cause || ((tags.lookup l).map fun tg => tg.items.any fun t => decide (t = .raised)).getD false
  let frun : FRun := fun l idx t inputs =>
    match t with
    | .fn id => fnAnswer ctx (path ++ [(l, idx)]) id inputs
    | .wf name =>
      match lookupL name ctx.env, obsSub obs l idx with
      | some w, some sub =>
        let lo := evalLevel ctx (path ++ [(l, idx)]) w inputs (causeAt l idx) sub
        subAnswer evalStd w lo.pre []
      -- a sub-workflow whose tasks were never observed did not get to run: only `cancelled` is consistent
      | _, _ => .hung
  let run := runF evalStd frun trig interrupted wf tags
  -- the nested levels the model's evaluations reach must be consistent too
  let nested := wf.steps.all fun s =>
    (evaluationsOf selTarget trig run.pre s).all fun (idx, t, inputs) =>
      match t with
      | .fn _ => true
      | .wf name =>
        match lookupL name ctx.env, obsSub obs s.label idx with
        | some w, some sub => (evalLevel ctx (path ++ [(s.label, idx)]) w inputs (causeAt s.label idx) sub).possible
        | _, _ => true
  let affected := wf.steps.filter fun s =>
    (evaluationsOf selTarget trig run.pre s).any fun (idx, t, inputs) => (frun s.label idx t inputs).faulty
  { possible := run.ok && nested, pre := run.pre, result := collectF evalStd wf run.pre, mayRun := run.mayRun,
    affected := affected.map (·.label) }

def ofTag : Tag → J
  | .done => .str "done"
  | .raised => .str "raised"
  | .cancelled => .str "cancelled"

def handle (j : J) : Except String J := do
  let op ← j.getStr "op"
  if op != "pass" then throw s!"bad op {op}"
  let trig ← toJVal (j.getD "trig")
  let defs ← (← j.getArr "defs").mapM toWorkflow
  let fns ← (← j.getArr "fns").mapM fun kv => match kv with
    | .arr [.str id, f] => do pure (id, ← toFnSpec9 f)
    | _ => throw "bad fn entry"
  let objs ← (← j.getArr "objs").mapM fun kv => match kv with
    | .arr [.str n, .str s] => pure (n, toObjState s)
    | _ => throw "bad objs entry"
  let fault ← match optField j "fault" with
    | none => pure none
    | some f => do
      let call ← match (f.getD "call").int? with | some n => pure n.toNat | none => throw "bad fault call"
      pure (some { path := ← toPath (f.getD "path"), call, kind := ← toKind (← f.getStr "kind") : Fault })
  let interrupted := ((j.getD "interrupted").bool?).getD false
  let obs ← toObs (j.getD "obs")
  let main ← j.getStr "main"
  let env : Env := defs.map fun w => (w.name, w)
  let wf ← match lookupL main env with
    | some w => pure w
    | none => throw "main workflow not among defs"
  let lo := evalLevel { env, fns, objs, fault } [] wf trig interrupted obs
  let tagOf (l : Label) : J := match lookupL l lo.pre with | some e => ofTag e.1 | none => .null
  pure (.obj ([("possible", .bool lo.possible),
    ("steps", .arr (lo.result.steps.map fun (l, o) => .arr [.str l, tagOf l, ofRes o.res, ofJVal o.rid]))] ++
    (ofResult lo.result).filter (fun kv => kv.1 != "steps") ++
    [("mayRun", .arr (lo.mayRun.map .str)), ("affected", .arr (lo.affected.map .str)),
     ("wf", .bool (defs.all (·.WF)))]))

end Koreo.Driver.C09

def main : IO UInt32 := MiniJson.runLoop Koreo.Driver.C09.handle
