/-
  Wire handler shared by driver_c01 / driver_c02 (and usable by C09): a workflow-as-data plus an
  outcome assignment for its Functions goes through the Lean `reconcile` (and, when a schedule is
  given, through `runAsync`).

  request  {"op":"reconcile","trig":V,"main":"main","defs":[WF..],"fns":[[id,FN]..],"schedule":[EV..]?}
    WF    {"name":s,"steps":[STEP..]}
    STEP  {"label":s,"deps":[s..],"inputs":E?,"skipIf":E?,"forEach":{"itemIn":E,"inputKey":s}?,
           "logic":{"ref":T} | {"switch":{"on":E,"cases":[[s,T]..],"default":T?}},"state":E?,"cond":[type,name]?}
    T     {"fn":id} | {"wf":name}
    E     {"lit":V} | {"path":[root,k..]} | {"map":[[k,E]..]} | {"list":[E..]} | {"call":f,"args":[E..]} | {"bad":true}
    FN    {"c":"ok"|"skip"|"depSkip"|"retry"|"permFail","d":int?,"by":key?,
           "rf":{"prefix":s,"nameKey":s?,"calls":[s..],"pre":bool}?,"noret":bool?,"res":bool?}
          c=ok answers {"site":id,"got":inputs}; "by":key takes the class from inputs[key] instead
          ("ok"/"skip"/"depSkip"/"retry"/"permFail"/anything else = permFail);
          rf: the class is forced before any API call when pre=true; otherwise the resource name is
          prefix (nameKey absent) or prefix+"."+inputs[nameKey] (a string, else permFail), the resource id
          is {"fn":id,"name":name} and the API requests are calls.map (· ++ " " ++ name)
    EV    [label] | [label, index]
    "nschedule":[NEV..]?   NEV = EV | {"in":[label, index|null],"ev":NEV}   (answer field "nasync", like "async")
  answer   {"steps":[[label,RES,rid]..],"overall":RES,"state":V,"stateErrors":[s..],
            "conditions":[[type,reason,status]..],"resourceIds":V,"calls":[CALL..],"wf":bool,"async":{…}|null|absent}
-/
import Driver.Wire
import Koreo.Workflow
import Koreo.WorkflowNested
namespace Koreo.Driver.WorkflowWire
open MiniJson Koreo Koreo.Workflow Koreo.Wire

def optField (j : J) (k : String) : Option J :=
  match j.get? k with
  | some .null => none
  | o => o

partial def toExpr (j : J) : Except String Expr := do
  if let some (.arr xs) := j.get? "list" then
    return .listE (← xs.mapM toExpr)
  if let some (.str f) := j.get? "call" then
    return .callE f (← (← j.getArr "args").mapM toExpr)
  match j.get? "lit", j.get? "path", j.get? "map", j.get? "bad" with
  | some v, _, _, _ => pure (.lit (← toJVal v))
  | _, some (.arr (.str r :: ks)), _, _ =>
    pure (.path r (← ks.mapM fun k => match k with | .str s => pure s | _ => throw "bad path key"))
  | _, _, some (.arr kvs), _ => do
    let kvs ← kvs.mapM fun kv => match kv with
      | .arr [.str k, e] => do pure (k, ← toExpr e)
      | _ => throw "bad map entry"
    pure (.mapE kvs)
  | _, _, _, some _ => pure .bad
  | _, _, _, _ => throw "bad expression"

def toOptExpr (j : J) (k : String) : Except String (Option Expr) :=
  match optField j k with
  | none => pure none
  | some e => do pure (some (← toExpr e))

def toTarget (j : J) : Except String Target :=
  match j.get? "fn", j.get? "wf" with
  | some (.str id), _ => pure (.fn id)
  | _, some (.str n) => pure (.wf n)
  | _, _ => throw "bad target"

def toLogic (j : J) : Except String Logic := do
  match j.get? "ref", j.get? "switch" with
  | some t, _ => pure (.ref (← toTarget t))
  | _, some sw => do
    let on ← toExpr (sw.getD "on")
    let cases ← (← sw.getArr "cases").mapM fun c => match c with
      | .arr [.str k, t] => do pure (k, ← toTarget t)
      | _ => throw "bad case"
    let dflt ← match optField sw "default" with
      | none => pure none
      | some t => do pure (some (← toTarget t))
    pure (.switch on cases dflt)
  | _, _ => throw "bad logic"

def toStep (j : J) : Except String Step := do
  let label ← j.getStr "label"
  let deps ← (← j.getArr "deps").mapM fun d => match d with | .str s => pure s | _ => throw "bad dep"
  let forEach ← match optField j "forEach" with
    | none => pure none
    | some fe => do pure (some { itemIn := ← toExpr (fe.getD "itemIn"), inputKey := ← fe.getStr "inputKey" : ForEach })
  let cond ← match optField j "cond" with
    | some (.arr [.str t, .str n]) => pure (some (t, n))
    | none => pure none
    | _ => throw "bad cond"
  pure { label, deps, inputs := ← toOptExpr j "inputs", skipIf := ← toOptExpr j "skipIf", forEach,
         logic := ← toLogic (j.getD "logic"), state := ← toOptExpr j "state", cond }

def toWorkflow (j : J) : Except String Workflow := do
  pure { name := ← j.getStr "name", steps := ← (← j.getArr "steps").mapM toStep }

structure RfSpec where
  pfx : String
  nameKey : Option String
  calls : List String
  pre : Bool
  /-- the kind whose plural the (single) evaluation has to discover first: API request "LOOKUP kind" -/
  lookup : Option String := none

structure FnSpec where
  cls : String
  delay : Int
  byKey : Option String
  rf : Option RfSpec
  /-- no `return`: the Ok value is null -/
  noret : Bool := false
  /-- the Ok value also carries `res` = the tag of the object read (the Function's id) -/
  showRes : Bool := false
  /-- the Koreo resource name when it is not the id (what `resourceFunction` in a resource id says) -/
  kname : Option String := none
  /-- further members of the Ok value (values without a JSON counterpart travel as tagged one-key maps) -/
  extra : List (String × JVal) := []

def toFnSpec (j : J) : Except String FnSpec := do
  let rf ← match optField j "rf" with
    | none => pure none
    | some r => do
      let calls ← (← r.getArr "calls").mapM fun c => match c with | .str s => pure s | _ => throw "bad call"
      pure (some { pfx := ← r.getStr "prefix", nameKey := (r.getD "nameKey").str?, calls,
                   pre := ((r.getD "pre").bool?).getD false, lookup := (r.getD "lookup").str? : RfSpec })
  pure { cls := ← j.getStr "c", delay := ((j.get? "d").bind J.int?).getD 0, byKey := (j.getD "by").str?, rf,
         noret := ((j.getD "noret").bool?).getD false, showRes := ((j.getD "res").bool?).getD false,
         kname := (j.getD "kname").str?,
         extra := ← match j.get? "extra" with
           | some (.arr kvs) => kvs.mapM fun kv => match kv with
             | .arr [.str k, v] => do pure (k, ← toJVal v)
             | _ => throw "bad extra entry"
           | _ => pure [] }

def resOf (cls : String) (d : Int) (id : String) (inputs : JVal) (noret : Bool := false) (showRes : Bool := false)
    (extra : List (String × JVal) := []) : StepRes :=
  match cls with
  | "ok" =>
    if noret then .ok .null
    else .ok (.obj ([("site", .str id), ("got", inputs)] ++ (if showRes then [("res", .str id)] else []) ++ extra))
  | "skip" => .skip
  | "depSkip" => .depSkip
  | "retry" => .retry d
  | _ => .permFail

def inputKey (inputs : JVal) (k : String) : Option JVal :=
  match inputs with
  | .obj kvs => JVal.lookup k kvs
  | _ => none

/-- the Function oracle described by the outcome assignment -/
def runOf (fns : List (String × FnSpec)) : RunFn := fun t inputs =>
  match t with
  | .wf _ => ⟨.permFail, .null, []⟩
  | .fn id =>
    match fns.lookup id with
    | none => ⟨.permFail, .null, []⟩
    | some f =>
      let cls := match f.byKey with
        | none => f.cls
        | some k => match inputKey inputs k with | some (.str s) => s | _ => "permFail"
      let res := resOf cls f.delay id inputs f.noret (f.showRes && f.rf.isSome) f.extra
      match f.rf with
      | none => ⟨res, .null, []⟩
      | some rf =>
        if rf.pre then ⟨res, .null, []⟩
        else
          let name? := match rf.nameKey with
            | none => some rf.pfx
            | some k => match inputKey inputs k with
              | some (.str s) => some (rf.pfx ++ "." ++ s)
              | _ => none
          match name? with
          | none => ⟨.permFail, .null, []⟩
          | some name =>
            ⟨res, .obj [("fn", .str (f.kname.getD id)), ("name", .str name)],
              (match rf.lookup with | some k => ["LOOKUP " ++ k] | none => []) ++ rf.calls.map (· ++ " " ++ name)⟩

def ofRes : StepRes → J
  | .ok v => .obj [("c", .str "ok"), ("v", ofJVal v)]
  | .skip => .obj [("c", .str "skip")]
  | .depSkip => .obj [("c", .str "depSkip")]
  | .retry d => .obj [("c", .str "retry"), ("d", .str (toString d))]
  | .permFail => .obj [("c", .str "permFail")]

def ofTarget : Target → J
  | .fn id => .obj [("fn", .str id)]
  | .wf n => .obj [("wf", .str n)]

def ofCall (c : Call) : J :=
  .obj [("step", .str c.step), ("idx", match c.idx with | some i => .num i | none => .null),
        ("target", ofTarget c.target), ("inputs", ofJVal c.inputs), ("api", .arr (c.api.map .str))]

def ofResult (r : WfResult) : List (String × J) :=
  [("steps", .arr (r.steps.map fun (l, o) => .arr [.str l, ofRes o.res, ofJVal o.rid])),
   ("overall", ofRes r.overall),
   ("state", ofJVal (.obj r.state)),
   ("stateErrors", .arr (r.stateErrors.map .str)),
   ("conditions", .arr (r.conditions.map fun c => .arr [.str c.type, .str c.reason, .str c.status])),
   ("resourceIds", ofJVal r.resourceIds)]

def toEvent (j : J) : Except String Event :=
  match j with
  | .arr [.str l] => pure (.step l)
  | .arr [.str l, .num i] => pure (.item l i.toNat)
  | _ => throw "bad event"

/-- NEV  =  EV | {"in":[label, index|null], "ev":NEV} -/
partial def toNEvent (j : J) : Except String NEvent :=
  match j.get? "in", j.get? "ev" with
  | some (.arr [.str l, idx]), some e => do
    let i ← match idx with
      | .null => pure none
      | .num k => pure (some k.toNat)
      | _ => throw "bad frame index"
    pure (.inside l i (← toNEvent e))
  | _, _ => do pure (.here (← toEvent j))

def handle (j : J) : Except String J := do
  let op ← j.getStr "op"
  if op != "reconcile" then throw s!"bad op {op}"
  let trig ← toJVal (j.getD "trig")
  let defs ← (← j.getArr "defs").mapM toWorkflow
  let fns ← (← j.getArr "fns").mapM fun kv => match kv with
    | .arr [.str id, f] => do pure (id, ← toFnSpec f)
    | _ => throw "bad fn entry"
  let main ← j.getStr "main"
  let env : Env := defs.map fun w => (w.name, w)
  let wf ← match lookupL main env with
    | some w => pure w
    | none => throw "main workflow not among defs"
  let run := runAt evalStd (runOf fns) env defs.length
  let tr := trace evalStd run trig wf
  let seq := collect evalStd wf tr.results
  let base := ofResult seq ++
    [("calls", .arr (tr.calls.map ofCall)),
     ("api", .arr ((tr.calls.flatMap (·.api)).map .str)),
     ("wf", .bool (defs.all (·.WF)))]
  -- a nested schedule (inner events of sub-workflows interleaved): replayed through `nrunEvents`
  let base ← match optField j "nschedule" with
    | some (.arr evs) => do
      let σ ← evs.mapM toNEvent
      let a := match nrunEvents evalStd (runOf fns) env defs.length wf trig σ .empty with
        | none => J.null
        | some st =>
          .obj (ofResult (collect evalStd wf st.top.done) ++
                [("complete", .bool (wf.steps.all fun s => isDone st.top s.label))])
      pure (base ++ [("nasync", a)])
    | _ => pure base
  match optField j "schedule" with
  | none => pure (.obj base)
  | some (.arr evs) => do
    let σ ← evs.mapM toEvent
    let a := match runEvents evalStd run trig wf σ {} with
      | none => J.null
      | some st =>
        .obj (ofResult (collect evalStd wf st.done) ++
              [("complete", .bool (wf.steps.all fun s => isDone st s.label))])
    pure (.obj (base ++ [("async", a)]))
  | some _ => throw "bad schedule"

end Koreo.Driver.WorkflowWire
