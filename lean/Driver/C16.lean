/-
  C16 driver: trace inclusion.  The harness sends the operations it performs on the real
  cache/registry and, after each operation and after each loop turn, the public view it
  observes.  The driver keeps the SET of model states consistent with the observations so far
  (closure under background steps of any monitor) and answers how many candidates remain;
  0 means no model state explains the observation.
-/
import Driver.MiniJson
import Koreo.HotReload

namespace Koreo.Driver.C16
open MiniJson Koreo.HotReload

abbrev S := State Nat (CondSpec Nat)

/-- the preparer the harness installs -/
abbrev dcl : CondSpec Nat → (Nat → Bool) → List Nat := condDecl

/-- canonical finite rendering of a state over the universe `[0, n)` (internal: includes
    queues, monitor states, prepare times and the clock) -/
def key (n : Nat) (s : S) : String :=
  let rs := List.range n
  let one (r : Nat) : String :=
    let c := match s.cache r with
      | none => "-"
      | some e => s!"{e.version}:{e.spec.static}:{e.spec.cond}:{e.spec.failWhen}:{e.deps}:{e.deps.map e.seen}"
    let m := match s.mon r with | .none => "n" | .starting => "s" | .waiting => "w"
    s!"[{c}|g{s.gen r}|s{s.subs r}|q{s.queue r}|{m}|p{s.prepT r}]"
  String.join (rs.map one) ++ s!"c{s.clock}"

/-- what the harness can observe through the public API (plus its own generation counters) -/
def view (n : Nat) (s : S) : J :=
  .arr ((List.range n).map fun r =>
    J.obj [
      ("version", match s.cache r with | none => .null | some e => .num e.version),
      ("seen", match s.cache r with
        | none => .arr []
        | some e => .arr (e.deps.map fun d => J.arr [.num (d : Nat), .num (e.seen d)])),
      ("subs", .arr ((s.subs r).map fun (d : Nat) => J.num d)),
      ("gen", .num (s.gen r))])

def insertUniq (n : Nat) (seen : List String) (acc : List S) (s : S) : List String × List S :=
  let k := key n s
  if seen.contains k then (seen, acc) else (k :: seen, s :: acc)

def dedup (n : Nat) (ss : List S) : List S :=
  (ss.foldl (fun (p : List String × List S) s => insertUniq n p.1 p.2 s) ([], [])).2

/-- closure of a set of states under background steps (bounded by fuel; the system quiesces) -/
def closure (n : Nat) : Nat → List String → List S → List S → List S
  | 0, _, acc, _ => acc
  | fuel + 1, seen, acc, frontier =>
    match frontier with
    | [] => acc
    | _ =>
      let next := frontier.flatMap fun s => (List.range n).map fun r => bg dcl s r
      let (seen', fresh) := next.foldl
        (fun (p : List String × List S) s => insertUniq n p.1 p.2 s) (seen, [])
      closure n fuel seen' (acc ++ fresh) fresh

def closeUnderBg (n : Nat) (ss : List S) : List S :=
  let ss := dedup n ss
  closure n 64 (ss.map (key n)) ss ss

structure Sess where
  n : Nat
  cands : List S

def natList (j : J) : Except String (List Nat) := do
  match j.arr? with
  | some xs => xs.mapM fun x => match x.int? with
    | some i => pure i.toNat
    | none => throw "bad nat"
  | none => throw "expected array"

/-- order-insensitive comparison of the observable view -/
def normView (j : J) : J :=
  match j with
  | .arr rs => .arr (rs.map fun r =>
      match r with
      | .obj kvs => .obj (kvs.map fun (k, v) =>
          if k == "subs" then
            match natList v with
            | .ok ns => (k, J.arr ((ns.toArray.qsort (· < ·)).toList.map fun (d : Nat) => J.num d))
            | .error _ => (k, v)
          else (k, v))
      | x => x)
  | x => x

def filterObs (sess : Sess) (obs : J) : Sess :=
  let want := normView obs
  { sess with cands := sess.cands.filter fun s => normView (view sess.n s) == want }

def reply (sess : Sess) : J :=
  .obj [("candidates", .num sess.cands.length),
        ("view", match sess.cands with | s :: _ => view sess.n s | [] => .null)]

/-- one request = a whole history: {"n":3,"events":[{"op":"offer","r":1,"v":2,"deps":[0],"cond":[[c,d]…],"obs":…},
    {"op":"delete","r":1,"ver":null|2,"obs":…}, {"op":"turn","obs":…}]}; the answer lists the
    number of candidate states left after every event. -/
def handle (j : J) : Except String J := do
  let n := (← j.getInt "n").toNat
  let events ← j.getArr "events"
  let mut sess : Sess := { n := n, cands := [init] }
  let mut out : List J := []
  for ev in events do
    let op ← ev.getStr "op"
    match op with
    | "offer" =>
      let r := (← ev.getInt "r").toNat
      let v := (← ev.getInt "v").toNat
      let deps ← natList (ev.getD "deps")
      let cond ← match (ev.getD "cond").arr? with
        | some xs => xs.mapM fun x => do
            match ← natList x with
            | [c, d] => pure (c, d)
            | _ => throw "bad cond pair"
        | none => pure []
      let failWhen ← match (ev.getD "fail").arr? with
        | some _ => natList (ev.getD "fail")
        | none => pure []
      let spec : CondSpec Nat := { static := deps, cond := cond, failWhen := failWhen }
      sess := { sess with cands := dedup n (sess.cands.map fun s => offer dcl s r v spec) }
    | "delete" =>
      let r := (← ev.getInt "r").toNat
      let ver := ((ev.getD "ver").int?).map Int.toNat
      sess := { sess with cands := dedup n (sess.cands.map fun s => delete s r ver) }
    | "turn" =>
      sess := { sess with cands := closeUnderBg n sess.cands }
    | _ => throw s!"bad op {op}"
    match ev.get? "obs" with
    | some obs => sess := filterObs sess obs
    | none => pure ()
    out := reply sess :: out
  pure (.arr out.reverse)

end Koreo.Driver.C16

def main : IO UInt32 := MiniJson.runLoop Koreo.Driver.C16.handle
