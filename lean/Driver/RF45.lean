/-
  Shared handler of the C04 / C05 drivers.
  ops:  {"op":"vm","t":v,"a":v,"la":v}                      → {"r":"ok"} | {"r":"bad","d":b,"x":b}
        {"op":"meets","mode":"full"|"excl","t":v,"l":v,"la":v} → {"b":bool}
        {"op":"wf","t":v}                                  → {"wf":b,"nonulls":b,"nodup":b,"annfree":b}
        {"op":"laok","t":v,"la":v}                         → {"b":bool}
        {"op":"update","spec":v|absent}                    → {"p":policy} | {"p":null}
        {"op":"pass","cfg":{..},"t":v,"cluster":v|null}    → {"rs":[{"cluster":v|null,"o":outcome,"reqs":[..]}]}
  The codec of the driver is the wire text itself (harness rewrites annotation texts accordingly).
-/
import Driver.Wire
import Koreo.Reconcile45
import Koreo.CompareWF
namespace Koreo.Driver.RF45
open MiniJson Koreo Koreo.Compare Koreo.R45 Koreo.Wire

def wireCodec : Codec where
  dumps v := render (ofJVal v)
  loads s := match parse s with
    | .ok j => (match toJVal j with | .ok v => some v | .error _ => none)
    | .error _ => none

def ofRes : Res → J
  | .ok => .obj [("r", .str "ok")]
  | .bad d x => .obj [("r", .str "bad"), ("d", .bool d), ("x", .bool x)]

def ofPolicy : Policy → J
  | .patch d => .obj [("k", .str "patch"), ("d", ofJVal d)]
  | .recreate d => .obj [("k", .str "recreate"), ("d", ofJVal d)]
  | .never => .obj [("k", .str "never")]

def toPolicy (j : J) : Except String Policy := do
  match ← j.getStr "k" with
  | "patch" => pure (.patch (← toJVal (j.getD "d")))
  | "recreate" => pure (.recreate (← toJVal (j.getD "d")))
  | "never" => pure .never
  | k => throw s!"bad policy {k}"

def toOwnerFix (j : J) : Except String OwnerFix :=
  match j with
  | .null => pure .none
  | .str "permFail" => pure .permFail
  | .obj [("refs", v)] => do pure (.refs (← toJVal v))
  | _ => throw "bad ownerFix"

/-- show the last-applied annotation decoded, so that both sides compare JSON and not text -/
def decodeAnn (v : JVal) : JVal :=
  match v with
  | .obj kvs =>
    match JVal.lookup "metadata" kvs with
    | some (.obj mkvs) =>
      match JVal.lookup "annotations" mkvs with
      | some (.obj akvs) =>
        match JVal.lookup lastAppliedAnnotation akvs with
        | some (.str s) =>
          match wireCodec.loads s with
          | some d => .obj (JVal.insert "metadata" (.obj (JVal.insert "annotations"
              (.obj (JVal.insert lastAppliedAnnotation (.obj [("__decoded__", d)]) akvs)) mkvs)) kvs)
          | none => v
        | _ => v
      | _ => v
    | _ => v
  | _ => v

def ofOutcome : Outcome → J
  | .okLive v => .obj [("c", .str "ok"), ("v", ofJVal (decodeAnn v))]
  | .retry d => .obj [("c", .str "retry"), ("d", ofJVal d)]
  | .permFail => .obj [("c", .str "permFail")]
  | .raised => .obj [("c", .str "raised")]

def ofReq : Req → J
  | .post b => .obj [("m", .str "POST"), ("b", ofJVal (decodeAnn b))]
  | .patch b => .obj [("m", .str "PATCH"), ("b", ofJVal (decodeAnn b))]
  | .delete => .obj [("m", .str "DELETE")]

def ofPass (r : PassResult) : J :=
  .obj [("cluster", match r.cluster with | some v => ofJVal (decodeAnn v) | none => .null),
        ("o", ofOutcome r.outcome), ("reqs", .arr (r.reqs.map ofReq))]

def handle (j : J) : Except String J := do
  match ← j.getStr "op" with
  | "vm" =>
    pure (ofRes (validateMatch (← toJVal (j.getD "t")) (← toJVal (j.getD "a")) (← toJVal (j.getD "la")) false))
  | "meets" =>
    let m ← match ← j.getStr "mode" with
      | "full" => pure Mode.full | "excl" => pure Mode.excl | x => throw s!"bad mode {x}"
    pure (.obj [("b", .bool (meetsB m (← toJVal (j.getD "t")) (← toJVal (j.getD "l")) (← toJVal (j.getD "la"))))])
  | "unit" =>
    let t ← toJVal (j.getD "t")
    let a ← toJVal (j.getD "a")
    let la ← toJVal (j.getD "la")
    pure (.obj [("vm", ofRes (validateMatch t a la false)), ("full", .bool (meetsB .full t a la)),
      ("excl", .bool (meetsB .excl t a .null)), ("wf", .bool (wfB t)), ("nonulls", .bool (noNullsB t)),
      ("laok", .bool (laOkB t la))])
  | "laok" =>
    pure (.obj [("b", .bool (laOkB (← toJVal (j.getD "t")) (← toJVal (j.getD "la"))))])
  | "wf" =>
    let t ← toJVal (j.getD "t")
    pure (.obj [("wf", .bool (wfB t)), ("nonulls", .bool (noNullsB t)), ("nodup", .bool (noDupB t)),
      ("annfree", .bool (annFree t))])
  | "update" =>
    let spec ← match j.get? "spec" with
      | some s => do pure (some (← toJVal s))
      | none => pure none
    pure (.obj [("p", match prepareUpdate spec with | some p => ofPolicy p | none => .null)])
  | "pass" =>
    let cfgJ := j.getD "cfg"
    let cfg : Cfg := {
      codec := wireCodec
      policy := ← toPolicy (cfgJ.getD "policy")
      shouldOwn := (match cfgJ.get? "own" with
        | some (.bool o) =>      -- the model takes the decision itself from (owned, parent's namespace, namespace)
          shouldOwnOf o (match cfgJ.getD "parentNs" with | .str s => some s | _ => none)
            (match cfgJ.getD "ns" with | .str s => some s | _ => none)
        | _ => (match cfgJ.get? "shouldOwn" with | some (.bool b) => b | _ => false))
      ownerRef := ← toJVal (cfgJ.getD "ownerRef")
      createEnabled := (match cfgJ.get? "createEnabled" with | some (.bool b) => b | _ => true)
      createDelay := ← toJVal (cfgJ.getD "createDelay")
      createView := ← toJVal (cfgJ.getD "createView") }
    let t ← toJVal (j.getD "t")
    let cl ← match j.getD "cluster" with
      | .null => pure none
      | .obj [("some", v)] => do pure (some (← toJVal v))
      | _ => throw "bad cluster"
    let rs := match j.get? "loadFault" with
      | some (.bool true) => passLoadFailed cl
      | _ => pass cfg t cl
    pure (.obj [("rs", .arr (rs.map ofPass))])
  | op => throw s!"bad op {op}"

end Koreo.Driver.RF45
