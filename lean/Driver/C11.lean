import Driver.Wire
import Koreo.Encoder
namespace Koreo.Driver.C11
open MiniJson Koreo.Encoder Koreo.Wire

def ofNum : CNum → J
  | .int n => .obj [("i", .str (toString n))]
  | .dec neg m x => .obj [("d", .arr [.bool neg, .str (toString m), .str (toString x)])]

partial def ofCVal : CVal → J
  | .null => .null
  | .bool b => .bool b
  | .num n => ofNum n
  | .str s => .str (String.ofList s)
  | .arr xs => .arr (xs.map ofCVal)
  | .obj kvs => .obj [("m", .arr (kvs.map fun (k, v) => J.arr [.str (String.ofList k), ofCVal v]))]

def ofOpt {α : Type} (f : α → J) : Option α → J
  | some a => f a
  | none => .obj [("none", .bool true)]

/--
  {"op":"enc","v":<wire>}     → {"t": encodeCel v, "toks": toksText (toks v) = enc v,
                                  "parsed": parse (toks v), "want": numeralise v, "noExpr": …}
  {"op":"str","s":"…"}        → {"t": encodeStr s, "q": quoteStr s, "num": isNumeral s,
                                  "lexs": lexString (encodeStr s), "lexq": lexString (quoteStr s),
                                  "lexn": lexNumber (encodeStr s)}
  {"op":"lex","t":"…"}        → {"s": lexString t, "n": lexNumber t}
  {"op":"tok","t":"…"}        → {"toks": texts of tokenize t, "parsed": parseChars t}
-/
def handle (j : J) : Except String J := do
  let op ← j.getStr "op"
  match op with
  | "enc" =>
    let v ← toJVal (j.getD "v")
    pure (.obj [("t", .str (encodeCel v)),
                ("toks", .bool (toksText (toks v) == enc v)),
                ("parsed", ofOpt ofCVal (parse (toks v))),
                ("chars", ofOpt ofCVal (parseChars (enc v))),
                ("tokenized", .bool (tokenize (enc v) == some (toks v))),
                ("want", ofCVal (numeralise v)),
                ("noExpr", .bool (noExpr v))])
  | "str" =>
    let s := (← j.getStr "s").toList
    pure (.obj [("t", .str (String.ofList (encodeStr s))),
                ("q", .str (String.ofList (quoteStr s))),
                ("num", .bool (isNumeral s)),
                ("lexs", ofOpt (fun x => J.str (String.ofList x)) (lexString (encodeStr s))),
                ("lexq", ofOpt (fun x => J.str (String.ofList x)) (lexString (quoteStr s))),
                ("lexn", ofOpt ofNum (lexNumber (encodeStr s)))])
  | "tok" =>
    let t := (← j.getStr "t").toList
    pure (.obj [("toks", ofOpt (fun ts => J.arr (ts.map fun tk => J.str (String.ofList tk.text))) (tokenize t)),
                ("parsed", ofOpt ofCVal (parseChars t))])
  | "lex" =>
    let t := (← j.getStr "t").toList
    pure (.obj [("s", ofOpt (fun x => J.str (String.ofList x)) (lexString t)),
                ("n", ofOpt ofNum (lexNumber t))])
  | _ => throw s!"bad op {op}"

end Koreo.Driver.C11

def main : IO UInt32 := MiniJson.runLoop Koreo.Driver.C11.handle
