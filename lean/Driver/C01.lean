import Driver.WorkflowWire
/-! driver_c01: the sequential workflow model (`reconcile`, calls) behind the line protocol -/
def main : IO UInt32 := MiniJson.runLoop Koreo.Driver.WorkflowWire.handle
