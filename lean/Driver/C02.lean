import Driver.WorkflowWire
/-! driver_c02: as driver_c01; a request carrying "schedule" is also run through `runAsync` -/
def main : IO UInt32 := MiniJson.runLoop Koreo.Driver.WorkflowWire.handle
