import Driver.Wire
import Koreo.Overlay
namespace Koreo.Driver.C12
open MiniJson Koreo Koreo.Overlay Koreo.Wire

/-- the oracle instance: the generators' path language (`Koreo.Overlay.evalWritten`) -/
def ev : Env → JVal → JVal := evalWritten

def fieldsAt (j : J) (k : String) : Except String Fields := do
  match ← toJVal (j.getD k) with
  | .obj kvs => pure kvs
  | _ => throw s!"field {k}: expected a map"

def optAt (j : J) (k : String) : Except String (Option JVal) :=
  match j.get? k with
  | none | some .null => pure none
  | some v => do pure (some (← toJVal v))

/-- a `null` on the wire inside {"v": …} is a value, a missing/JSON-null field is "absent" -/
def optFieldsAt (j : J) (k : String) : Except String (Option Fields) :=
  match j.get? k with
  | none | some .null => pure none
  | some _ => do pure (some (← fieldsAt j k))

partial def ofIndex : Index → J
  | .pos i => .num i
  | .sub kvs => .obj [("s", .arr (kvs.map fun (k, i) => J.arr [.str k, ofIndex i]))]

def ofFields (kvs : Fields) : J := ofJVal (.obj kvs)

/-- activation of a ResourceFunction / top-level call: inputs + evaluated locals -/
def rfEnv (j : J) : Except String Env := do
  let inputs ← toJVal (j.getD "inputs")
  let env0 : Env := [("inputs", inputs)]
  let locals ← optAt j "locals"
  pure (JVal.insert "locals" (match locals with | some l => ev env0 l | none => .obj []) env0)

def toStep (j : J) : Except String (Step JVal) := do
  let skipIf ← optAt j "skipIf"
  match ← j.getStr "kind" with
  | "inline" => pure (.inline skipIf (OSpec.ofFields (← fieldsAt j "spec")))
  | "vf" =>
    pure (.vfRef skipIf (← optAt j "inputs")
      { locals := ← optAt j "locals", ret := OSpec.ofFields (← fieldsAt j "ret") })
  | k => throw s!"bad step kind {k}"

def handle (j : J) : Except String J := do
  match ← j.getStr "op" with
  | "index" =>
    -- {"op":"index","spec":map,"base":n} -> index tree, written leaves, positions left to right
    let spec := OSpec.ofFields (← fieldsAt j "spec")
    let b := ((j.getD "base").int?.getD 0).toNat
    let r := indexO spec b
    pure (.obj [("index", ofIndex (.sub r.1)), ("leaves", .arr (r.2.map ofJVal)),
                ("positions", .arr ((positionsO r.1).map fun (n : Nat) => J.num (Int.ofNat n)))])
  | "apply" =>
    -- {"op":"apply","base":map,"spec":map,"inputs":v,"locals":written?} -> evaluate_overlay
    let base ← fieldsAt j "base"
    let spec := OSpec.ofFields (← fieldsAt j "spec")
    let env ← rfEnv j
    pure (.obj [("result", ofFields (evalOverlay ev env base spec)),
                ("merge", ofFields (deepMerge base (evalTree ev env base spec)))])
  | "overlay" =>
    -- {"op":"overlay","resource":map,"overlay":map} -> _deep_overlay
    pure (.obj [("result", ofFields (deepOverlay (← fieldsAt j "resource") (← fieldsAt j "overlay")))])
  | "vf" =>
    -- {"op":"vf","inputs":v,"base":map|null,"locals":written?,"ret":map} -> reconcile_value_function
    let inputs ← toJVal (j.getD "inputs")
    let vf : VFn JVal := { locals := ← optAt j "locals", ret := OSpec.ofFields (← fieldsAt j "ret") }
    pure (.obj [("result", ofFields (vfReturn ev vf inputs (← optFieldsAt j "base")))])
  | "materialise" =>
    -- {"op":"materialise","template":map,"inline":bool,"forced":{apiVersion,kind,name,namespace|null},
    --  "steps":[…],"inputs":v,"locals":written?,"create":map|null} -> target and create view
    let env ← rfEnv j
    let written ← fieldsAt j "template"
    let template : Fields :=
      if (j.getD "inline").bool?.getD false then
        (match ev env (.obj written) with | .obj kvs => kvs | _ => [])
      else written
    let f := j.getD "forced"
    let forced := forcedOverlay (← f.getStr "apiVersion") (← f.getStr "kind") (← f.getStr "name")
      ((f.getD "namespace").str?)
    -- a step with "available": false is a listed overlayRef whose ValueFunction was not there at prepare time
    let listed ← (← j.getArr "steps").mapM fun sj => do
      if (sj.getD "available").bool?.getD true then pure (some (← toStep sj)) else pure none
    let create ← optFieldsAt j "create"
    match materialiseP ev okWritten env template forced listed with
    | none =>
      -- an unavailable listed overlay, a skipIf that is not a boolean, or failing inputs of an applied
      -- function overlay: no target
      pure (.obj [("fail", .bool true), ("unavailable", .bool (listed.any Option.isNone))])
    | some target =>
      pure (.obj [("target", ofFields target),
                  ("create", ofFields (createView ev env target forced (create.map OSpec.ofFields)))])
  | op => throw s!"bad op {op}"

end Koreo.Driver.C12

def main : IO UInt32 := MiniJson.runLoop Koreo.Driver.C12.handle
