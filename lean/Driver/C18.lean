import Driver.FtWire
import Koreo.MockApi
namespace Koreo.Driver.C18
open MiniJson Koreo Koreo.Exact Koreo.FT Koreo.Wire Koreo.Driver.Ft

/-- a JSON value up to Python truthiness of "no resource": `None` and `{}` are the same to the mock -/
def normRes : Option JVal → Option JVal
  | some v => if v.truthy then some v else none
  | none => none

/-- the overlay language the generator emits for `overlayResource`: literal JSON with `"=<key>"` leaves
    (the runner hands the inputs map itself to `evaluate_overlay`, so an input key is a CEL variable;
    a missing key is a CEL error → PermFail) and `"=1/0"` (always an error).
    Mirrors `_overlay_indexer` / `_overlay_applier`: a non-empty map in the overlay descends (into the
    base's map, or into `{}` if the base has none there), anything else replaces. -/
partial def applyOv (inputs : JVal) (base : List (String × JVal)) :
    List (String × JVal) → Option (List (String × JVal))
  | [] => some base
  | (k, v) :: rest =>
    let leaf : JVal → Option JVal := fun x =>
      match x with
      | .str s =>
        if s == "=1/0" then none
        else if s.startsWith "=" then
          match inputs with
          | .obj ikvs => JVal.lookup (s.drop 1).toString ikvs
          | _ => none
        else some x
      | x => some x
    let nv : Option JVal :=
      match v with
      | .obj (o :: os) =>
        let sub := match JVal.lookup k base with
          | some (.obj b) => b
          | _ => []
        (applyOv inputs sub (o :: os)).map JVal.obj
      | x => leaf x
    match nv with
    | none => none
    | some x => applyOv inputs (JVal.insert k x base) rest

def evalOv (ov : JVal) (inputs base : JVal) : Option JVal :=
  match ov, base with
  | .obj o, .obj b => (applyOv inputs b o).map JVal.obj
  | _, _ => none

structure Row where
  inputs : JVal
  resource : Option JVal
  res : FnResult

/-- equality of JSON values with maps compared as maps (insertion order ignored) -/
partial def jeq : JVal → JVal → Bool
  | .obj a, .obj b =>
    a.length == b.length &&
    a.all fun kv => match JVal.lookup kv.1 b with
      | some w => jeq kv.2 w
      | none => false
  | .arr a, .arr b => a.length == b.length && (a.zip b).all fun xy => jeq xy.1 xy.2
  | x, y => x == y

def beqOpt : Option JVal → Option JVal → Bool
  | none, none => true
  | some a, some b => jeq a b
  | _, _ => false

/-- the Function under test as the finite table the harness observed; a miss is reported -/
def tableFn (rows : List Row) (inputs : JVal) (resource : Option JVal) : FnResult :=
  match rows.find? (fun r => jeq r.inputs inputs && beqOpt (normRes r.resource) (normRes resource)) with
  | some r => r.res
  | none => { out := .permFail (some "ORACLE-MISS"), eff := .none }

def toCase (j : J) : Except String (Case JVal) := do
  pure { skip := (j.getD "skip").bool?.getD false,
         variant := (j.getD "variant").bool?.getD false,
         overrides := ← optWire (j.getD "overrides"),
         current := ← optWire (j.getD "current"),
         overlay := ← optWire (j.getD "overlay"),
         assertion := ← toAssertion (j.getD "as") }

def ofResult : CaseResult → J
  | .skipped => .obj [("r", .str "skipped")]
  | .setupError => .obj [("r", .str "setupError")]
  | .overlayError => .obj [("r", .str "overlayError")]
  | .ran p i res fr =>
    .obj [("r", .str "ran"), ("pass", .bool p), ("inputs", ofJVal i), ("resource", ofOptWire (normRes res)),
          ("res", ofFnResult fr)]

/-- {"op":"run","inputs":opt,"resource":opt,"cases":[case…],"fn":[{"inputs":w,"resource":opt,"out":…,"eff":…}…]}
      → {"results":[…],"fatal":bool}
    {"op":"overlay","ov":w,"inputs":w,"base":w} → {"v":opt}
    {"op":"inputs","base":opt,"overrides":opt} → {"v":w}      (`caseInputs`)
    {"op":"mock","cur":opt,"calls":[{"c":"get"|"delete"|"write","body":w}…]}
      → {"answers":[opt…],"materialized":opt,"apiCalled":b,"deleteCalled":b,"handed":opt}   (`Koreo.FT.Mock`) -/
def handle (j : J) : Except String J := do
  match (← j.getStr "op") with
  | "run" =>
    let rows ← (← j.getArr "fn").mapM fun r => do
      pure { inputs := ← toJVal (r.getD "inputs"), resource := ← optWire (r.getD "resource"),
             res := ← toFnResult r : Row }
    let env : Env JVal := { evalOverlay := evalOv, fn := tableFn rows }
    let st : State := { inputs := ← optWire (j.getD "inputs"), resource := ← optWire (j.getD "resource") }
    let cases ← (← j.getArr "cases").mapM toCase
    let (rs, fatal) := runCases env st cases
    pure (.obj [("results", .arr (rs.map ofResult)), ("fatal", .bool fatal)])
  | "overlay" =>
    pure (.obj [("v", ofOptWire (evalOv (← toJVal (j.getD "ov")) (← toJVal (j.getD "inputs")) (← toJVal (j.getD "base"))))])
  | "inputs" =>
    let st : State := { inputs := ← optWire (j.getD "base"), resource := none }
    let c : Case JVal := { overrides := ← optWire (j.getD "overrides"), assertion := .delete false }
    pure (.obj [("v", ofJVal (caseInputs st c))])
  | "mock" =>
    let cur ← optWire (j.getD "cur")
    let calls ← (← j.getArr "calls").mapM fun c => do
      match (← c.getStr "c") with
      | "get" => pure Mock.Call.get
      | "delete" => pure Mock.Call.delete
      | "write" => pure (Mock.Call.write (← toJVal (c.getD "body")))
      | x => throw s!"bad call {x}"
    let m := Mock.run (Mock.fresh cur) calls
    pure (.obj [("answers", .arr ((Mock.answers (Mock.fresh cur) calls).map ofOptWire)),
                ("materialized", ofOptWire m.materialized), ("apiCalled", .bool m.apiCalled),
                ("deleteCalled", .bool m.deleteCalled), ("handed", ofOptWire (Mock.handedOn m cur))])
  | op => throw s!"bad op {op}"

end Koreo.Driver.C18

def main : IO UInt32 := MiniJson.runLoop Koreo.Driver.C18.handle
