import Driver.RF45
def main : IO UInt32 := MiniJson.runLoop Koreo.Driver.RF45.handle
