/-
  A small JSON reader/printer in core Lean (no `import Lean`), so that every per-property
  driver links in a second and stays small.  Numbers are integers only (the wire format
  carries ints/floats as strings); object key order is preserved.
-/
namespace MiniJson

inductive J where
  | null
  | bool (b : Bool)
  | num (n : Int)
  | str (s : String)
  | arr (xs : List J)
  | obj (kvs : List (String × J))
  deriving Repr, Inhabited, BEq

structure P where
  s : Array Char
  i : Nat

abbrev PM := StateT Nat (Except String)

section parse
variable (cs : Array Char)

def peek : PM (Option Char) := do
  let i ← get
  pure (cs[i]?)

def next : PM Char := do
  let i ← get
  match cs[i]? with
  | some c => set (i + 1); pure c
  | none => throw "unexpected end of input"

partial def skipWs : PM Unit := do
  match ← peek cs with
  | some c => if c == ' ' || c == '\n' || c == '\t' || c == '\r' then do let _ ← next cs; skipWs else pure ()
  | none => pure ()

def expect (c : Char) : PM Unit := do
  let d ← next cs
  if d == c then pure () else throw s!"expected '{c}' got '{d}'"

def hexVal (c : Char) : PM Nat :=
  if '0' ≤ c ∧ c ≤ '9' then pure (c.toNat - '0'.toNat)
  else if 'a' ≤ c ∧ c ≤ 'f' then pure (c.toNat - 'a'.toNat + 10)
  else if 'A' ≤ c ∧ c ≤ 'F' then pure (c.toNat - 'A'.toNat + 10)
  else throw "bad hex digit"

def hex4 : PM Nat := do
  let a ← hexVal (← next cs); let b ← hexVal (← next cs)
  let c ← hexVal (← next cs); let d ← hexVal (← next cs)
  pure (((a * 16 + b) * 16 + c) * 16 + d)

partial def strBody (acc : String) : PM String := do
  let c ← next cs
  if c == '"' then pure acc
  else if c == '\\' then do
    let e ← next cs
    match e with
    | '"' => strBody (acc.push '"')
    | '\\' => strBody (acc.push '\\')
    | '/' => strBody (acc.push '/')
    | 'b' => strBody (acc.push (Char.ofNat 8))
    | 'f' => strBody (acc.push (Char.ofNat 12))
    | 'n' => strBody (acc.push '\n')
    | 'r' => strBody (acc.push '\r')
    | 't' => strBody (acc.push '\t')
    | 'u' => do
      let u ← hex4 cs
      if 0xD800 ≤ u ∧ u < 0xDC00 then do
        -- surrogate pair (Python's ensure_ascii output for non-BMP characters)
        expect cs '\\'; expect cs 'u'
        let l ← hex4 cs
        strBody (acc.push (Char.ofNat (0x10000 + (u - 0xD800) * 0x400 + (l - 0xDC00))))
      else strBody (acc.push (Char.ofNat u))
    | _ => throw "bad escape"
  else strBody (acc.push c)

partial def digits (acc : Nat) (seen : Bool) : PM (Nat × Bool) := do
  match ← peek cs with
  | some c =>
    if '0' ≤ c ∧ c ≤ '9' then do
      let _ ← next cs
      digits (acc * 10 + (c.toNat - '0'.toNat)) true
    else pure (acc, seen)
  | none => pure (acc, seen)

def lit (w : String) : PM Unit := do
  for c in w.toList do
    expect cs c

mutual
partial def value : PM J := do
  skipWs cs
  match ← peek cs with
  | some '"' => do let _ ← next cs; pure (.str (← strBody cs ""))
  | some '[' => do
    let _ ← next cs; skipWs cs
    if (← peek cs) == some ']' then do let _ ← next cs; pure (.arr [])
    else pure (.arr (← elems []))
  | some '{' => do
    let _ ← next cs; skipWs cs
    if (← peek cs) == some '}' then do let _ ← next cs; pure (.obj [])
    else pure (.obj (← members []))
  | some 't' => do lit cs "true"; pure (.bool true)
  | some 'f' => do lit cs "false"; pure (.bool false)
  | some 'n' => do lit cs "null"; pure .null
  | some '-' => do
    let _ ← next cs
    let (n, ok) ← digits cs 0 false
    if ok then pure (.num (-(n : Int))) else throw "bad number"
  | some _ => do
    let (n, ok) ← digits cs 0 false
    if ok then pure (.num n) else throw "unexpected character"
  | none => throw "empty input"
partial def elems (acc : List J) : PM (List J) := do
  let v ← value
  skipWs cs
  let c ← next cs
  if c == ',' then elems (v :: acc)
  else if c == ']' then pure (v :: acc).reverse
  else throw "expected , or ]"
partial def members (acc : List (String × J)) : PM (List (String × J)) := do
  skipWs cs
  expect cs '"'
  let k ← strBody cs ""
  skipWs cs
  expect cs ':'
  let v ← value
  skipWs cs
  let c ← next cs
  if c == ',' then members ((k, v) :: acc)
  else if c == '}' then pure ((k, v) :: acc).reverse
  else throw "expected , or }"
end
end parse

def parse (s : String) : Except String J :=
  let cs := s.toList.toArray
  match (value cs).run 0 with
  | .ok (v, _) => .ok v
  | .error e => .error e

def hexDigit (n : Nat) : Char :=
  if n < 10 then Char.ofNat ('0'.toNat + n) else Char.ofNat ('a'.toNat + n - 10)

def escape (s : String) : String := Id.run do
  let mut out := "\""
  for c in s.toList do
    if c == '"' then out := out ++ "\\\""
    else if c == '\\' then out := out ++ "\\\\"
    else if c == '\n' then out := out ++ "\\n"
    else if c == '\r' then out := out ++ "\\r"
    else if c == '\t' then out := out ++ "\\t"
    else if c.toNat < 32 || c.toNat == 127 then
      out := out ++ "\\u00" ++ String.singleton (hexDigit (c.toNat / 16)) ++ String.singleton (hexDigit (c.toNat % 16))
    else out := out.push c
  return out.push '"'

partial def render : J → String
  | .null => "null"
  | .bool true => "true"
  | .bool false => "false"
  | .num n => toString n
  | .str s => escape s
  | .arr xs => "[" ++ ",".intercalate (xs.map render) ++ "]"
  | .obj kvs => "{" ++ ",".intercalate (kvs.map fun (k, v) => escape k ++ ":" ++ render v) ++ "}"

namespace J
def get? (j : J) (k : String) : Option J :=
  match j with
  | .obj kvs => kvs.lookup k
  | _ => none
def getD (j : J) (k : String) : J := (j.get? k).getD .null
def str? : J → Option String | .str s => some s | _ => none
def arr? : J → Option (List J) | .arr xs => some xs | _ => none
def bool? : J → Option Bool | .bool b => some b | _ => none
def int? : J → Option Int
  | .num n => some n
  | .str s => s.toInt?
  | _ => none
def getStr (j : J) (k : String) : Except String String :=
  match j.get? k with | some (.str s) => pure s | _ => throw s!"missing string field {k}"
def getArr (j : J) (k : String) : Except String (List J) :=
  match j.get? k with | some (.arr xs) => pure xs | _ => throw s!"missing array field {k}"
def getInt (j : J) (k : String) : Except String Int :=
  match (j.get? k).bind int? with | some n => pure n | none => throw s!"missing int field {k}"
def getBool (j : J) (k : String) : Except String Bool :=
  match j.get? k with | some (.bool b) => pure b | _ => throw s!"missing bool field {k}"
def ofOptStr : Option String → J | some s => .str s | none => .null
end J

/-- read one JSON document per line, answer one per line -/
partial def runLoop (f : J → Except String J) : IO UInt32 := do
  let stdin ← IO.getStdin
  let stdout ← IO.getStdout
  let rec go : IO Unit := do
    let line ← stdin.getLine
    if line.isEmpty then return ()
    let ans := match parse line with
      | .error e => J.obj [("error", .str s!"parse: {e}")]
      | .ok j => match f j with
        | .ok r => r
        | .error e => J.obj [("error", .str e)]
    stdout.putStrLn (render ans)
    go
  go
  stdout.flush
  return 0

end MiniJson
