/-
  Wire format between the Python harness and the Lean models (one JSON document per line).
  values:  null | true/false | {"i":"<int>"} | {"f":"<eighths>"} | "str" | [..] | {"m":[[k,v],..]}
-/
import Driver.MiniJson
import Koreo.Json

namespace Koreo.Wire
open MiniJson

partial def toJVal (j : J) : Except String JVal :=
  match j with
  | .null => pure .null
  | .bool b => pure (.bool b)
  | .str s => pure (.str s)
  | .arr xs => do pure (.arr (← xs.mapM toJVal))
  | .num _ => throw "bare number on the wire"
  | .obj [("i", .str s)] => match s.toInt? with
    | some n => pure (.int n)
    | none => throw s!"bad int {s}"
  | .obj [("f", .str s)] => match s.toInt? with
    | some n => pure (.flt n)
    | none => throw s!"bad float {s}"
  | .obj [("m", .arr kvs)] => do
    let kvs ← kvs.mapM fun kv => match kv with
      | .arr [.str k, v] => do pure (k, ← toJVal v)
      | _ => throw "bad map entry"
    pure (.obj kvs)
  | .obj _ => throw "bad object on the wire"

partial def ofJVal : JVal → J
  | .null => .null
  | .bool b => .bool b
  | .int n => .obj [("i", .str (toString n))]
  | .flt e => .obj [("f", .str (toString e))]
  | .str s => .str s
  | .arr xs => .arr (xs.map ofJVal)
  | .obj kvs => .obj [("m", .arr (kvs.map fun (k, v) => J.arr [.str k, ofJVal v]))]

end Koreo.Wire
