/-
  Wire format between the Python harness and the Lean models (one JSON document per line).
  values:  null | true/false | {"i":"<int>"} | {"f":"<eighths>"} | "str" | [..] | {"m":[[k,v],..]}
-/
import Lean.Data.Json
import Koreo.Json

namespace Koreo.Wire
open Lean (Json)

partial def toJVal (j : Json) : Except String JVal :=
  match j with
  | .null => pure .null
  | .bool b => pure (.bool b)
  | .str s => pure (.str s)
  | .arr xs => do pure (.arr (← xs.toList.mapM toJVal))
  | .num _ => throw "bare number on the wire"
  | .obj _ =>
    match j.getObjVal? "i" with
    | .ok (.str s) => match s.toInt? with
      | some n => pure (.int n)
      | none => throw s!"bad int {s}"
    | _ =>
    match j.getObjVal? "f" with
    | .ok (.str s) => match s.toInt? with
      | some n => pure (.flt n)
      | none => throw s!"bad float {s}"
    | _ =>
    match j.getObjVal? "m" with
    | .ok (.arr kvs) => do
      let kvs ← kvs.toList.mapM fun kv => match kv with
        | .arr #[.str k, v] => do pure (k, ← toJVal v)
        | _ => throw "bad map entry"
      pure (.obj kvs)
    | _ => throw "bad object on the wire"

partial def ofJVal : JVal → Json
  | .null => .null
  | .bool b => .bool b
  | .int n => Json.mkObj [("i", .str (toString n))]
  | .flt e => Json.mkObj [("f", .str (toString e))]
  | .str s => .str s
  | .arr xs => .arr (xs.map ofJVal).toArray
  | .obj kvs => Json.mkObj [("m", .arr (kvs.map fun (k, v) => Json.arr #[.str k, ofJVal v]).toArray)]

def optStr (j : Json) : Option String :=
  match j with
  | .str s => some s
  | _ => none

def ofOptStr : Option String → Json
  | some s => .str s
  | none => .null

end Koreo.Wire
