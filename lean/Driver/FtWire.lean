/-
  Wire decoding shared by the C18 and C19 drivers: outcomes, mock effects, assertions.
-/
import Driver.Wire
import Koreo.FunctionTest
namespace Koreo.Driver.Ft
open MiniJson Koreo Koreo.FT Koreo.Wire

def optWire (j : J) : Except String (Option JVal) :=
  match j with
  | .null => pure none
  | .obj [("some", v)] => do pure (some (← toJVal v))
  | _ => throw "expected null or {\"some\":v}"

def ofOptWire : Option JVal → J
  | none => .null
  | some v => .obj [("some", ofJVal v)]

/-- {"c":"ok","v":w} | {"c":"retry","d":"30","m":str|null} | {"c":"permFail"|"skip"|"depSkip","m":str|null} -/
def toOut (j : J) : Except String Out := do
  let c ← j.getStr "c"
  let m := (j.getD "m").str?
  match c with
  | "ok" => pure (.ok (← toJVal (j.getD "v")))
  | "depSkip" => pure (.depSkip m)
  | "skip" => pure (.skip m)
  | "permFail" => pure (.permFail m)
  | "retry" => pure (.retry (← j.getInt "d") m)
  | _ => throw s!"bad outcome class {c}"

def ofOut : Out → J
  | .ok v => .obj [("c", .str "ok"), ("v", ofJVal v)]
  | .depSkip m => .obj [("c", .str "depSkip"), ("m", J.ofOptStr m)]
  | .skip m => .obj [("c", .str "skip"), ("m", J.ofOptStr m)]
  | .permFail m => .obj [("c", .str "permFail"), ("m", J.ofOptStr m)]
  | .retry d m => .obj [("c", .str "retry"), ("d", .str (toString d)), ("m", J.ofOptStr m)]

/-- {"e":"none"} | {"e":"deleted"} | {"e":"wrote","m":w} -/
def toEff (j : J) : Except String Effect := do
  match (← j.getStr "e") with
  | "none" => pure .none
  | "deleted" => pure .deleted
  | "wrote" => pure (.wrote (← toJVal (j.getD "m")))
  | e => throw s!"bad effect {e}"

def ofEff : Effect → J
  | .none => .obj [("e", .str "none")]
  | .deleted => .obj [("e", .str "deleted")]
  | .wrote m => .obj [("e", .str "wrote"), ("m", ofJVal m)]

def toExpect (j : J) : Except String Expect := do
  let m := ((j.getD "m").str?).getD ""
  match (← j.getStr "c") with
  | "ok" => pure .ok
  | "depSkip" => pure (.depSkip m)
  | "skip" => pure (.skip m)
  | "permFail" => pure (.permFail m)
  | "retry" => pure (.retry m (← j.getInt "d"))
  | c => throw s!"bad expected class {c}"

/-- {"k":"outcome",…expect} | {"k":"return","v":w} | {"k":"resource","v":w} | {"k":"delete","b":bool} -/
def toAssertion (j : J) : Except String Assertion := do
  match (← j.getStr "k") with
  | "outcome" => pure (.outcome (← toExpect j))
  | "return" => pure (.ret (← toJVal (j.getD "v")))
  | "resource" => pure (.resource (← toJVal (j.getD "v")))
  | "delete" => pure (.delete (← j.getBool "b"))
  | k => throw s!"bad assertion kind {k}"

def toFnResult (j : J) : Except String FnResult := do
  pure { out := ← toOut (j.getD "out"), eff := ← toEff (j.getD "eff") }

def ofFnResult (r : FnResult) : J := .obj [("out", ofOut r.out), ("eff", ofEff r.eff)]

end Koreo.Driver.Ft
