import Driver.Rf678
def main : IO UInt32 := MiniJson.runLoop Koreo.Driver.Rf678.handle
