import Driver.FtWire
import Koreo.Lemmas.ExactCompare
import Koreo.MockApi
namespace Koreo.Driver.C19
open MiniJson Koreo Koreo.Exact Koreo.FT Koreo.Wire Koreo.Driver.Ft

/-- {"op":"match","t":w,"a":w}            → {"m":bool,"wf":bool}
    {"op":"key","fields":[w…],"o":w}      → {"k":str}            (`_obj_to_key`)
    {"op":"strip","v":w}                  → {"v":w}              (repaired `_strip_last_applied_annotation`)
    {"op":"verdict","as":assertion,"out":outcome,"eff":effect} → {"pass":bool}
    {"op":"conv-verdict","as":assertion,"out":outcome,"cur":opt,"calls":[{"c":"get"|"delete"|"write","body":w}…]}
      → {"pass":bool,"eff":effect}   (the verdict over `Mock.effectOf cur calls`: what the per-case mock
                                      holds after the conversation the Function had with it) -/
def handle (j : J) : Except String J := do
  match (← j.getStr "op") with
  | "match" =>
    let t ← toJVal (j.getD "t")
    let a ← toJVal (j.getD "a")
    pure (.obj [("m", .bool (exactMatch t a)), ("wf", .bool (wf t))])
  | "key" =>
    let fs ← (← j.getArr "fields").mapM toJVal
    let o ← toJVal (j.getD "o")
    pure (.obj [("k", .str (memberKey fs o))])
  | "strip" =>
    pure (.obj [("v", ofJVal (stripLastApplied (← toJVal (j.getD "v"))))])
  | "verdict" =>
    let a ← toAssertion (j.getD "as")
    let r ← toFnResult j
    pure (.obj [("pass", .bool (verdict a r))])
  | "conv-verdict" =>
    let a ← toAssertion (j.getD "as")
    let out ← toOut (j.getD "out")
    let cur ← optWire (j.getD "cur")
    let calls ← (← j.getArr "calls").mapM fun c => do
      match (← c.getStr "c") with
      | "get" => pure Mock.Call.get
      | "delete" => pure Mock.Call.delete
      | "write" => pure (Mock.Call.write (← toJVal (c.getD "body")))
      | x => throw s!"bad call {x}"
    let eff := Mock.effectOf cur calls
    pure (.obj [("pass", .bool (verdict a { out := out, eff := eff })), ("eff", ofEff eff)])
  | op => throw s!"bad op {op}"

end Koreo.Driver.C19

def main : IO UInt32 := MiniJson.runLoop Koreo.Driver.C19.handle
