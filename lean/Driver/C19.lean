import Driver.FtWire
import Koreo.Lemmas.ExactCompare
namespace Koreo.Driver.C19
open MiniJson Koreo Koreo.Exact Koreo.FT Koreo.Wire Koreo.Driver.Ft

/-- {"op":"match","t":w,"a":w}            → {"m":bool,"wf":bool}
    {"op":"key","fields":[w…],"o":w}      → {"k":str}            (`_obj_to_key`)
    {"op":"strip","v":w}                  → {"v":w}              (repaired `_strip_last_applied_annotation`)
    {"op":"verdict","as":assertion,"out":outcome,"eff":effect} → {"pass":bool} -/
def handle (j : J) : Except String J := do
  match (← j.getStr "op") with
  | "match" =>
    let t ← toJVal (j.getD "t")
    let a ← toJVal (j.getD "a")
    pure (.obj [("m", .bool (exactMatch t a)), ("wf", .bool (wf t))])
  | "key" =>
    let fs ← (← j.getArr "fields").mapM toJVal
    let o ← toJVal (j.getD "o")
    pure (.obj [("k", .str (memberKey fs o))])
  | "strip" =>
    pure (.obj [("v", ofJVal (stripLastApplied (← toJVal (j.getD "v"))))])
  | "verdict" =>
    let a ← toAssertion (j.getD "as")
    let r ← toFnResult j
    pure (.obj [("pass", .bool (verdict a r))])
  | op => throw s!"bad op {op}"

end Koreo.Driver.C19

def main : IO UInt32 := MiniJson.runLoop Koreo.Driver.C19.handle
