import Driver.MiniJson
import Koreo.ResourceFn
namespace Koreo.Driver.C07
open MiniJson Koreo.ResourceFn

def optBool (j : J) (k : String) : Option Bool := (j.getD k).bool?
def optInt (j : J) (k : String) : Option Int := (j.get? k).bind J.int?

def toPolicy : String → Except String Policy
  | "patch" => pure .patch
  | "recreate" => pure .recreate
  | "never" => pure .never
  | s => throw s!"bad policy {s}"

def toSituation : String → Except String Situation
  | "absent" => pure .absent
  | "presentMatching" => pure .presentMatching
  | "presentDrifted" => pure .presentDrifted
  | "presentNoOwnerRef" => pure .presentNoOwnerRef
  | "absentConflict" => pure .absentConflict
  | "presentDriftedRejected" => pure .presentDriftedRejected
  | "presentVanished" => pure .presentVanished
  | s => throw s!"bad situation {s}"

def actionName : Action → String
  | .noApiAtAll => "noApiAtAll" | .none => "none" | .create => "create" | .patch => "patch" | .delete => "delete"

def outcomeName : OutcomeClass → String
  | .ok => "ok" | .retry => "retry" | .precond => "precond" | .permFail => "permFail" | .raised => "raised"

/-- {"op":"cell","flags":{"readonly":true|null,…,"update":"patch"|null,"createDelay":"11"|null,
     "updateDelay":…},"precond":bool,"sit":"absent"|…}  (null = the key is omitted from the spec) -/
def handle (j : J) : Except String J := do
  match ← j.getStr "op" with
  | "cell" =>
    let f := j.getD "flags"
    let upd ← match (f.getD "update").str? with
      | some s => do pure (some (← toPolicy s))
      | none => pure none
    let fs : FlagSpec :=
      ⟨optBool f "readonly", optBool f "owned", optBool f "namespaced", optBool f "createEnabled",
       optBool f "deleteIfExists", upd, optInt f "createDelay", optInt f "updateDelay",
       (optBool f "createOverlay").getD false, (optBool f "pluralGiven").getD true⟩
    let c := fs.cfg (← j.getBool "precond")
    let s ← toSituation (← j.getStr "sit")
    let (a, o) := ResourceFn.decide c s
    let d := match delaySrc c s with
      | some src => J.str (toString (fs.delay src))
      | none => J.null
    pure (.obj [("action", .str (actionName a)), ("outcome", .str (outcomeName o)), ("delay", d),
                ("discovers", .bool (discovers c))])
  | op => throw s!"bad op {op}"

end Koreo.Driver.C07

def main : IO UInt32 := MiniJson.runLoop Koreo.Driver.C07.handle
