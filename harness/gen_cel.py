"""Generator of CEL expressions that knows, by construction, which step labels an expression
names statically (`steps.L` or `steps["L"]` with the bare identifier `steps` as receiver).

An expression is first an abstract tree (tuples), then printed with the minimal parentheses
celpy's grammar needs (plus a few gratuitous ones: `(e)` is a shape of its own for the analysis).

    e = Gen(rng, labels).expr()        # -> Node
    text(e), refs(e), dynamic(e)

Also: lark parse tree -> the compact wire form of lean/Driver/C14Core.lean (`tree_to_wire`).
"""
from __future__ import annotations

from lark import Token, Tree

KINDS = [
    "expr", "conditionalor", "conditionaland",
    "relation", "relation_lt", "relation_le", "relation_gt", "relation_ge", "relation_eq", "relation_ne",
    "relation_in",
    "addition", "addition_add", "addition_sub",
    "multiplication", "multiplication_mul", "multiplication_div", "multiplication_mod",
    "unary", "unary_not", "unary_neg",
    "member", "member_dot", "member_dot_arg", "member_index", "member_object",
    "primary", "literal", "dot_ident_arg", "dot_ident", "ident_arg", "ident", "paren_expr", "list_lit", "map_lit",
    "exprlist", "fieldinits", "mapinits",
]
TOKS = ["IDENT", "UINT_LIT", "FLOAT_LIT", "INT_LIT", "MLSTRING_LIT", "STRING_LIT", "BYTES_LIT", "BOOL_LIT", "NULL_LIT"]
KIDX = {k: i for i, k in enumerate(KINDS)}
TIDX = {t: i for i, t in enumerate(TOKS)}


class UnknownNode(Exception):
    """the parser produced a node kind / token type the model has no constructor for"""


def tree_to_wire(t):
    if isinstance(t, Tree):
        k = KIDX.get(str(t.data))
        if k is None:
            raise UnknownNode(f"rule {t.data}")
        return [k] + [tree_to_wire(c) for c in t.children]
    if isinstance(t, Token):
        i = TIDX.get(t.type)
        if i is None:
            raise UnknownNode(f"token {t.type}")
        return [-1 - i, str(t.value)]
    raise UnknownNode(f"child {type(t)}")


def tree_kinds(t, acc=None):
    acc = set() if acc is None else acc
    if isinstance(t, Tree):
        acc.add(str(t.data))
        for c in t.children:
            tree_kinds(c, acc)
    return acc


# --------------------------------------------------------------------------- abstract expressions
# node kinds (tuples):
#   ("steps", label, style)            steps.L | steps["L"] | steps['L']      <- the static references
#   ("var", name)                      bare identifier
#   ("lit", text)                      literal, already printed
#   ("dot", recv, name)                recv.name
#   ("idx", recv, index)               recv[index]
#   ("mcall", recv, name, [args])      recv.name(args)
#   ("macro", recv, name, var, [body…])   recv.map(var, body) …
#   ("call", name, [args])             name(args)
#   ("dcall", name, [args]) / ("dvar", name)     .name(args) / .name
#   ("obj", recv, [(field, e)…])       recv{field: e}
#   ("list", [e…]) / ("map", [(k, v)…]) / ("paren", e)
#   ("un", op, e) / ("bin", level, op, l, r) / ("tern", c, t, e)

RESERVED = {"as", "break", "const", "continue", "else", "for", "function", "if", "import", "let", "loop", "package",
            "namespace", "return", "var", "void", "while", "in", "true", "false", "null"}

FIELDS = ["name", "value", "spec", "status", "items", "id", "size", "metadata", "a", "b", "x", "ready", "count"]
INPUTS = ["a", "x", "name", "cfg", "items", "env", "n"]
FUNCS = ["size", "to_ref", "f", "string", "int", "self_ref", "lower", "has"]
METHODS = ["size", "contains", "startsWith", "endsWith", "f", "get", "overlay", "split", "flatten"]
MACROS = ["map", "filter", "all", "exists", "exists_one"]
MVARS = ["i", "it", "el", "acc"]
MSGS = ["Foo", "google.protobuf.Empty", "Bar"]
REL = ["<", "<=", ">", ">=", "==", "!=", "in"]
STRS = ['"abc"', "'abc'", '"a.b"', '"with space"', "'x[0]'", '""', "''", '"""tri"""', "'''tri'''", 'r"raw"', 'b"by"',
        '"é"', '"a\\nb"', '"name"', "'name'", '"0"']
NUMS = ["0", "1", "42", "-7", "1u", "2.5", "-0.5", "1e3", "0x1F", "7U"]
MISC = ["true", "false", "null"]


class Gen:
    def __init__(self, r, labels, depth=3, extra_vars=()):
        self.r = r
        self.labels = list(labels)
        self.depth = depth
        self.bound: list[str] = list(extra_vars)

    # -- leaves
    def steps_ref(self):
        lab = self.r.choice(self.labels)
        style = self.r.choice(["dot", "dot", "dq", "sq"])
        return ("steps", lab, style)

    def leaf(self):
        p = self.r.random()
        if p < 0.34 and self.labels:
            return self.steps_ref()
        if p < 0.50:
            return ("dot", ("var", "inputs"), self.r.choice(INPUTS))
        if p < 0.58:
            return ("dot", ("var", "parent"), self.r.choice(FIELDS))
        if p < 0.62 and self.bound:
            return ("var", self.r.choice(self.bound))
        if p < 0.70:
            return ("var", self.r.choice(["inputs", "parent", "steps", "locals", "resource", "steps2", "steps_x",
                                          "parental", "x"]))
        if p < 0.80:
            return ("lit", self.r.choice(STRS))
        if p < 0.92:
            return ("lit", self.r.choice(NUMS))
        return ("lit", self.r.choice(MISC))

    def args(self, d, lo=0, hi=3):
        return [self.expr(d - 1) for _ in range(self.r.randint(lo, hi))]

    # -- member level
    def member(self, d):
        if d <= 0:
            return self.leaf()
        p = self.r.random()
        if p < 0.22:
            return self.leaf()
        recv = self.receiver(d - 1)
        if p < 0.42:
            return ("dot", recv, self.r.choice(FIELDS))
        if p < 0.57:
            return ("idx", recv, self.index_expr(d - 1))
        if p < 0.68:
            return ("mcall", recv, self.r.choice(METHODS), self.args(d, 0, 2))
        if p < 0.80:
            v = self.r.choice(MVARS)
            self.bound.append(v)
            try:
                body = [self.expr(d - 1)]
                if self.r.random() < 0.15:
                    body.append(self.expr(d - 1))      # map(x, filter, transform)
            finally:
                self.bound.pop()
            return ("macro", recv, self.r.choice(MACROS), v, body)
        if p < 0.85:
            n = self.r.randint(0, 2)
            return ("obj", ("var", self.r.choice(MSGS)) if self.r.random() < 0.8 else recv,
                    [(self.r.choice(FIELDS), self.expr(d - 1)) for _ in range(n)])
        return self.primary(d)

    def receiver(self, d):
        """anything may stand to the left of `.`, `[` or `{`; non-member shapes get parentheses on printing"""
        p = self.r.random()
        if p < 0.55:
            return self.member(d)
        if p < 0.85:
            return self.primary(d)
        return self.expr(d)

    def index_expr(self, d):
        p = self.r.random()
        if p < 0.30:
            return ("lit", self.r.choice(STRS + NUMS))
        if p < 0.45:
            return ("lit", self.r.choice(NUMS))
        if p < 0.60:
            return self.leaf()
        return self.expr(d)

    def primary(self, d):
        p = self.r.random()
        if d <= 0 or p < 0.25:
            return self.leaf()
        if p < 0.45:
            name = self.r.choice(FUNCS)
            if name == "has":
                return ("call", "has", [("dot", self.member(d - 1), self.r.choice(FIELDS))])
            return ("call", name, self.args(d, 0, 2))
        if p < 0.60:
            return ("paren", self.expr(d - 1))
        if p < 0.75:
            return ("list", self.args(d, 0, 3))
        if p < 0.90:
            n = self.r.randint(0, 2)
            return ("map", [(self.map_key(d - 1), self.expr(d - 1)) for _ in range(n)])
        if p < 0.95:
            return ("dvar", self.r.choice(FIELDS))
        return ("dcall", self.r.choice(FUNCS), self.args(d, 0, 2))

    def map_key(self, d):
        return ("lit", self.r.choice(STRS)) if self.r.random() < 0.7 else self.expr(d)

    # -- operators
    def expr(self, d=None):
        d = self.depth if d is None else d
        if d <= 0:
            return self.leaf()
        p = self.r.random()
        if p < 0.45:
            return self.member(d)
        if p < 0.53:
            return ("un", self.r.choice(["!", "-", "!", "!!", "--"]), self.expr(d - 1))
        if p < 0.63:
            return ("bin", 4, self.r.choice(["+", "-"]), self.expr(d - 1), self.expr(d - 1))
        if p < 0.70:
            return ("bin", 5, self.r.choice(["*", "/", "%"]), self.expr(d - 1), self.expr(d - 1))
        if p < 0.80:
            return ("bin", 3, self.r.choice(REL), self.expr(d - 1), self.expr(d - 1))
        if p < 0.86:
            return ("bin", 2, "&&", self.expr(d - 1), self.expr(d - 1))
        if p < 0.92:
            return ("bin", 1, "||", self.expr(d - 1), self.expr(d - 1))
        return ("tern", self.expr(d - 1), self.expr(d - 1), self.expr(d - 1))


# --------------------------------------------------------------------------- printing

def _prec(e) -> int:
    k = e[0]
    if k == "tern":
        return 0
    if k == "bin":
        return e[1]
    if k == "un":
        return 6
    if k in ("dot", "idx", "mcall", "macro", "obj", "steps"):
        return 7
    return 8


def text(e, need: int = 0) -> str:
    s = _text(e)
    if need == 7 and e[0] == "lit" and s[:1] in "-.0123456789":
        return f"({s})"       # `1.x` / `-7.map(…)` do not lex as a member access on a number
    return f"({s})" if _prec(e) < need else s


def _args(xs) -> str:
    return ", ".join(text(x) for x in xs)


def _text(e) -> str:
    k = e[0]
    if k == "steps":
        _, lab, style = e
        return {"dot": f"steps.{lab}", "dq": f'steps["{lab}"]', "sq": f"steps['{lab}']"}[style]
    if k == "var":
        return e[1]
    if k == "lit":
        return e[1]
    if k == "dot":
        return f"{text(e[1], 7)}.{e[2]}"
    if k == "idx":
        return f"{text(e[1], 7)}[{text(e[2])}]"
    if k == "mcall":
        return f"{text(e[1], 7)}.{e[2]}({_args(e[3])})"
    if k == "macro":
        return f"{text(e[1], 7)}.{e[2]}({e[3]}, {_args(e[4])})"
    if k == "call":
        return f"{e[1]}({_args(e[2])})"
    if k == "dcall":
        return f".{e[1]}({_args(e[2])})"
    if k == "dvar":
        return f".{e[1]}"
    if k == "obj":
        return f"{text(e[1], 7)}{{{', '.join(f'{f}: {text(v)}' for f, v in e[2])}}}"
    if k == "list":
        return f"[{_args(e[1])}]"
    if k == "map":
        return "{" + ", ".join(f"{text(a)}: {text(b)}" for a, b in e[1]) + "}"
    if k == "paren":
        return f"({text(e[1])})"
    if k == "un":
        inner = text(e[2], 6)
        if e[1].endswith("-") and inner[:1] in "-0123456789.":
            inner = " " + inner   # keep `- 1` from lexing as the literal `-1`, and `--1` readable
        return f"{e[1]}{inner}"
    if k == "bin":
        _, lvl, op, l, r = e
        return f"{text(l, lvl)} {op} {text(r, lvl + 1)}"
    if k == "tern":
        return f"{text(e[1], 1)} ? {text(e[2], 1)} : {text(e[3], 0)}"
    raise ValueError(k)


_PLAIN_STR = __import__("re").compile(r"""(["'])([A-Za-z0-9_ ]+)\1""")


def refs(e) -> set[str]:
    """labels named statically: ground truth by construction"""
    out: set[str] = set()

    def go(x):
        if isinstance(x, tuple):
            if x and x[0] == "steps":
                out.add(x[1])
                return
            if len(x) == 3 and x[0] == "dot" and x[1] == ("var", "steps"):
                out.add(x[2])
                return
            if len(x) == 3 and x[0] == "idx" and x[1] == ("var", "steps") and x[2][0] == "lit":
                m = _PLAIN_STR.fullmatch(x[2][1])
                if m:
                    out.add(m.group(2))
                    return
            for y in x[1:]:
                go(y)
        elif isinstance(x, list):
            for y in x:
                go(y)

    go(e)
    return out


def shape_tags(e) -> set[str]:
    """which syntactic contexts occur (for the evidence distribution)"""
    out: set[str] = set()

    def go(x, ctx):
        if isinstance(x, tuple) and x:
            k = x[0]
            if k == "steps":
                out.add(f"ref-in:{ctx}")
                out.add(f"ref-style:{x[2]}")
                return
            if k in ("dot", "idx", "mcall", "macro", "obj"):
                rk = x[1][0] if isinstance(x[1], tuple) else "?"
                out.add(f"recv:{k}<-{rk}")
            if k == "idx":
                go(x[1], "receiver")
                go(x[2], "index")
                return
            if k == "macro":
                go(x[1], "receiver")
                for b in x[4]:
                    go(b, "macro-body")
                return
            if k in ("mcall",):
                go(x[1], "receiver")
                for a in x[3]:
                    go(a, "call-arg")
                return
            if k in ("call", "dcall"):
                for a in x[2]:
                    go(a, "call-arg")
                return
            if k == "list":
                for a in x[1]:
                    go(a, "list")
                return
            if k == "map":
                for a, b in x[1]:
                    go(a, "map-key")
                    go(b, "map-value")
                return
            if k == "obj":
                go(x[1], "receiver")
                for _, v in x[2]:
                    go(v, "message-field")
                return
            if k == "tern":
                go(x[1], "cond")
                go(x[2], "then")
                go(x[3], "else")
                return
            if k in ("dot",):
                go(x[1], "receiver")
                return
            if k == "paren":
                go(x[1], "paren")
                return
            if k == "un":
                go(x[2], "unary")
                return
            if k == "bin":
                go(x[3], f"op{x[2]}")
                go(x[4], f"op{x[2]}")
                return
    go(e, "top")
    return out


# the receivers the unrepaired extractor raised on (DESIGN.md section 6, F5) and relatives
ODD = [
    "to_ref(inputs.x).name", "(inputs.a).b", "[1,2][0]", "{'a':1}.a", "inputs.x[f(1)]", "inputs.x[(1)]",
    "Foo{a:1}.b", '"abc".size().x', "inputs.x[!a]", "inputs.x[-a]", 'inputs.x[""]', "inputs.x.f().y", ".a.b",
    "Foo{}.b", "[steps.aaa][0].x", "f(steps.aaa).g(steps.bbb).h", "(steps.aaa).x[steps['bbb'].y]",
    "{steps.aaa: 1}.k", "steps.aaa.size().x", 'steps["aaa"].map(i, i.x).y', "x[[1][0]]", "x[{1: 2}[1]]",
    "f().a", ".f(1).a", "(a ? b : c).d", "(a + b).c[0]", "[].x", "{}.y", "''.z", "1.5.q" if False else "(1.5).q",
    "true.t", "null.n", "b'x'.l", "a[b'x']", "a[1u]", "a[null]", "a[r'x']", "steps2.x", "stepsX.y", "steps_q.z",
    "parent2.x", "parentheses.x",
]
