"""C11 — static values in definitions reach results and resources unchanged.

proof:   lean/Koreo/Props/C11.lean over lean/Koreo/Encoder.lean (model of the REPAIRED encoder,
         fixes/F2-encoder.diff, and of celpy 0.3.0's literal lexing), + Gen/EncoderTables.lean
tie:     (a) escape table / delimiter rule read off the running encoder, celpy's CEL_ESCAPES,
         (b) exact-text differential  koreo.cel.encoder.encode_cel  vs  the Lean `encodeCel`,
         (c) the modelled third-party part: Lean `lexString` / `lexNumber` vs real celpy on the
             same literal texts
oracle:  the real pipeline (prepare_expression → celpy → convert_bools; ValueFunction return/locals;
         ResourceFunction resource/overlay → POST body; Workflow step inputs/state) compared with
         the value as written — independent of the model
"""
from __future__ import annotations

import json
import math
import re

from common import Check, Infra, LeanDriver, VERIF, ddmin, from_wire, rng, to_wire

# the documented exception, read strictly (DESIGN.md section 7)
NUMERAL = re.compile(r"-?[0-9]+(\.[0-9]+)?([eE][+-]?[0-9]+)?")
INT64 = (-(2 ** 63), 2 ** 63 - 1)

# --------------------------------------------------------------------------- expectations


def numeral_value(s: str):
    """the number a numeral string denotes (int when neither fraction nor exponent is written)"""
    if re.fullmatch(r"-?[0-9]+", s):
        return int(s)
    return float(s)


def in_domain_str(s: str) -> bool:
    """strings the property quantifies over: no expressions, no lone surrogates; numerals only
    when the number is a 64-bit integer / a finite float"""
    if s.startswith("="):
        return False
    if any(0xD800 <= ord(c) < 0xE000 for c in s):
        return False
    if NUMERAL.fullmatch(s):
        n = numeral_value(s)
        if isinstance(n, int):
            return INT64[0] <= n <= INT64[1]
        return math.isfinite(n)
    return True


def in_domain(v) -> bool:
    if isinstance(v, str):
        return in_domain_str(v)
    if isinstance(v, bool) or v is None:
        return True
    if isinstance(v, int):
        return INT64[0] <= v <= INT64[1]
    if isinstance(v, float):
        return math.isfinite(v)
    if isinstance(v, list):
        return all(in_domain(x) for x in v)
    if isinstance(v, dict):
        return all(isinstance(k, str) and not any(0xD800 <= ord(c) < 0xE000 for c in k) and in_domain(x)
                   for k, x in v.items())
    return False


def expected(v):
    """what must arrive: the value as written, numeral strings (values, not keys) as their number"""
    if isinstance(v, str):
        return numeral_value(v) if NUMERAL.fullmatch(v) else v
    if isinstance(v, list):
        return [expected(x) for x in v]
    if isinstance(v, dict):
        return {k: expected(x) for k, x in v.items()}
    return v


def tcanon(v):
    """type-faithful canonical text: bool ≠ int ≠ float ≠ str, floats by exact value (-0.0 = 0.0), strings by
    their code points (JSON text would re-join two lone surrogates into the character they came from),
    dict order kept out of it (a map is a set of entries)"""

    def st(x: str):
        return x if x.isascii() else {"cp": [ord(c) for c in x]}

    def go(x):
        if x is None or isinstance(x, bool):
            return x
        if isinstance(x, str):
            return st(x)
        if isinstance(x, int):
            return {"i": str(x)}
        if isinstance(x, float):
            return {"f": (x + 0.0).hex() if x != 0 else "0"}
        if isinstance(x, (list, tuple)):
            return [go(y) for y in x]
        if isinstance(x, dict):
            return {"m": sorted(([st(k) if isinstance(k, str) else {"nonstr": repr(k)}, go(y)] for k, y in x.items()),
                                key=lambda kv: json.dumps(kv[0]))}
        return {"other": type(x).__name__ + ":" + repr(x)[:80]}

    return json.dumps(go(v), ensure_ascii=True)


# --------------------------------------------------------------------------- generators

CONTROLS = [chr(i) for i in range(32)] + [chr(127)]
PUNCT = list("!\"#$%&'()*+,-./:;<=>?@[\\]^_`{|}~")
LOOKALIKES = ["\\n", "\\t", "\\r", "\\x41", "\\u0041", "\\U00000041", "\\101", "\\\\", "\\\"", "\\'", "\\a", "\\0",
              "\\", "\\q", "\\\n", "\\\u0661\u0662\u0663", "\\x4", "\\u00", "%s", "{}", "{0}", "${x}", "//", "/*", "r\"", "b\"", "\"\"\"",
              "'''", "\"\"", "\\\"\"\"", "r\"\"\"", "\n\"\"\"", "\"\"\"\n"]
UNI = ["\u00e9", "\u00df", "\u6f22", "\u5b57", "\U0001f600", "\u00a0", "\u2003", "\u0085", "\u2028", "\u2029",
       "\ufeff", "\u200b", "\u0661", "\u0662", "\uff11", "\uff12", "\u0be7", "\U0001d7d8", "\uffff", "\U0010ffff",
       "\u0130", "\u01c5", "\U0001f680", "\U0001f469\u200d\U0001f4bb", "\U00020000", "\U0002a6d6", "\U0001d400",
       "\U0001d7ce", "\U00010000", "\U000e0041", "a\U0001f600b", "\U0001f600\"", "\\\U0001f600"]
BLANKS = [" ", "  ", "\t", "\n", "\r\n", "\r", "\u00a0", " \n "]
WORDS = ["a", "b", "abc", "key", "value", "true", "false", "null", "True", "None", "inf", "nan", "Infinity", "-inf",
         "NaN", "+inf", "infinity", "e", "E", "x", "0x10", "0b1", "0o7", "1_0", "+5", "-", "--1", ".", "1.", ".5", "-.5",
         "1e", "1e+", "e5", "1e5.0", "1.2.3", "\u0661\u0662", "\uff11\uff12", "1,000", "1 000", "12u", "12U", "5f", "1L", "0.", "-0.", "1.e5",
         " 12", "12 ", "12\n", "\n12", "\t12", "12\t", "1 2", "- 1", "1e 5", "=x", "a=b", "has(x)", "inputs.a"]
NUMERALS = ["0", "-0", "00", "007", "-007", "1", "-1", "12", "3213", "72.3", "94.55", "-1.50e-3", "1e5", "1E5", "1e+5",
            "1E-5", "0.0", "-0.0", "0.125", "1.0", "10", "100", "1e0", "0e0", "9223372036854775807",
            "-9223372036854775808", "9223372036854775808", "-9223372036854775809", "99999999999999999999", "1e308",
            "1e309", "1e999", "-1e999", "4.9e-324", "1e-999", "0.1", "0.30000000000000004", "123456789.123456789",
            "1.7976931348623157e308", "00.5", "5e-1"]


def gen_numeral(r) -> str:
    s = "-" if r.random() < 0.3 else ""
    s += "".join(r.choice("0123456789") for _ in range(r.choice([1, 1, 2, 3, 5, 18, 19])))
    if r.random() < 0.4:
        s += "." + "".join(r.choice("0123456789") for _ in range(r.choice([1, 1, 2, 3, 8])))
    if r.random() < 0.3:
        s += r.choice("eE") + r.choice(["", "+", "-"]) + "".join(r.choice("0123456789") for _ in range(r.choice([1, 1, 2])))
    return s


def gen_near_numeral(r) -> str:
    """a numeral with one edit — almost always outside the exception"""
    s = list(r.choice(NUMERALS) if r.random() < 0.5 else gen_numeral(r))
    op = r.random()
    extra = r.choice(list(" _+-.eE,xu\n\t") + ["\u0661", "\uff11", "\u00a0", "0", "=", "\"", "\\"])
    i = r.randint(0, len(s))
    if op < 0.5:
        s.insert(i, extra)
    elif op < 0.7 and s:
        s[min(i, len(s) - 1)] = extra
    elif op < 0.85 and s:
        del s[min(i, len(s) - 1)]
    else:
        s = [extra] + s + [extra]
    return "".join(s)


def gen_quote_run_string(r) -> str:
    run = '"' * r.randint(1, 4)
    filler = r.choice(["", "a", "xy", "\\", "\n", " ", "\\n", "'"])
    where = r.choice(["start", "middle", "end", "all", "two"])
    if where == "start":
        return run + filler
    if where == "end":
        return filler + run
    if where == "middle":
        return filler + run + filler
    if where == "two":
        return run + filler + '"' * r.randint(1, 4)
    return run


def gen_string(r) -> str:
    k = r.random()
    if k < 0.10:
        return r.choice(WORDS)
    if k < 0.18:
        return r.choice(NUMERALS)
    if k < 0.26:
        return gen_numeral(r)
    if k < 0.36:
        return gen_near_numeral(r)
    if k < 0.46:
        return gen_quote_run_string(r)
    if k < 0.49:
        return ""
    if k < 0.54:
        return r.choice(CONTROLS + PUNCT + UNI)
    n = r.choice([1, 2, 2, 3, 3, 4, 5, 6, 8, 12])
    pools = [CONTROLS, PUNCT, LOOKALIKES, UNI, BLANKS, WORDS, ["\\", "\"", "\n", "\\", "\""], list("abcXYZ019")]
    pool = [p for p in pools if r.random() < 0.5] or [LOOKALIKES, PUNCT]
    return "".join(r.choice(r.choice(pool)) for _ in range(n))


_DIRECTIVES = None


def directive_keys() -> set:
    """the documented comparison directives (`x-koreo-compare-as-set` …), read off the code under test"""
    global _DIRECTIVES
    if _DIRECTIVES is None:
        from koreo import constants

        _DIRECTIVES = set(getattr(constants, "KOREO_DIRECTIVE_KEYS", ()))
    return _DIRECTIVES


def near_directive_keys() -> list:
    """ordinary keys that merely look like directives: they share the prefix, or differ from a directive name by
    one character (dropped, added, changed, case) — none of them IS a directive"""
    out = ["x-koreo-", "x-koreo", "x-koreo-tier", "x-koreo-note", "x-koreo-compare", "x-koreo-compare-as", "x-koreo-x",
           "x-koreo-compare-as-list", "xx-koreo-tier", "x-koreo.dev/tier", "koreo.dev/x-koreo-tier", "x-Koreo-tier",
           "X-KOREO-TIER", "x_koreo_tier", " x-koreo-tier", "x-koreo-tier ", "x-koreo-\u00e9", "x-koreo-\"q\"", "x-koreo-\\n"]
    for d in sorted(directive_keys()):
        out += [d[:-1], d + "s", d + " ", " " + d, d.upper(), d.capitalize(), d.replace("-", "_"), d.replace("-", "--", 1),
                d[1:], d[:8] + d[9:], d[:-1] + ("x" if d[-1] != "x" else "y"), d + "\n", d.replace("koreo", "k0reo")]
    return [k for k in dict.fromkeys(out) if k not in directive_keys()]


def has_directive_key(v) -> bool:
    """an exact directive name used as a map key anywhere: stripped from API payloads by design (C08), so such a
    value is judged on the routes that reach no API request only"""
    if isinstance(v, dict):
        return any(k in directive_keys() or has_directive_key(x) for k, x in v.items())
    if isinstance(v, list):
        return any(has_directive_key(x) for x in v)
    return False


API_ROUTES = {"rf", "rf-patch", "rf-drift", "ov-rf", "ov-create"}


def gen_key(r, used) -> str:
    for _ in range(20):
        k = r.random()
        if k < 0.62:
            k = gen_string(r)
        elif k < 0.74:
            k = r.choice(near_directive_keys())
        elif k < 0.77:
            k = r.choice(sorted(directive_keys()) or ["x-koreo-compare-as-set"])
        else:
            k = r.choice(["a", "b", "k", "name", "x-y", "0", "12", "=k", "k\\n", "k\n", "k\""])
        if k not in used and not any(0xD800 <= ord(c) < 0xE000 for c in k):
            used.add(k)
            return k
    k = f"k{len(used)}"
    used.add(k)
    return k


INTS = [0, 1, -1, 7, 10, 42, -273, 2 ** 31, -(2 ** 31), 2 ** 53, 2 ** 63 - 1, -(2 ** 63), 10 ** 15, 123456789012345678]


def gen_leaf(r, allow_expr=False):
    k = r.random()
    if k < 0.62:
        s = gen_string(r)
        if s.startswith("=") and not allow_expr:
            s = "x" + s
        return s
    if k < 0.72:
        return r.choice(INTS) if r.random() < 0.7 else r.randint(-10 ** 6, 10 ** 6)
    if k < 0.80:
        return r.randint(-(2 ** 40), 2 ** 40) / 8 if r.random() < 0.5 else r.choice([0.0, 0.5, 1.0, -1.5, 0.125, 99.375, -1024.0, 1e6])
    if k < 0.88:
        return r.random() < 0.5
    if k < 0.94:
        return None
    return [] if r.random() < 0.5 else {}


# what a flattening of nested keys into ONE string could be joined with (a key is any text, so a key may itself
# contain any of these): `a.b`, `a/b`, `a:b` … next to the nested chain a → b
PATH_SEPARATORS = [".", ".", ".", "/", ":", "-", "_", "", " ", "|", ",", "\x00", "']['", "\"][\"", "\n", "\\", "=", "->"]


def key_chains(v, prefix=()):
    """every chain of ≥ 2 keys that leads through nested non-empty maps of `v` (to a leaf or to a map)"""
    if isinstance(v, dict):
        for k, x in v.items():
            here = prefix + (k,)
            if len(here) >= 2:
                yield here
            yield from key_chains(x, here)


def regroup(r, chain, sep):
    """the same path spelled with fewer, joined segments: (a, b, c) → (a.b, c) | (a, b.c) | (a.b.c,)"""
    n = len(chain)
    for _ in range(8):
        cuts = [i for i in range(1, n) if r.random() < 0.35]
        if len(cuts) < n - 1:
            break
    else:
        cuts = []
    out, start = [], 0
    for c in cuts + [n]:
        out.append(sep.join(chain[start:c]))
        start = c
    return tuple(out)


def write_at(v: dict, path, leaf) -> bool:
    """write `leaf` at `path` (maps made on the way) unless something is in the way; True if written"""
    cur = v
    for k in path[:-1]:
        if k not in cur:
            cur[k] = {}
        if not isinstance(cur[k], dict):
            return False
        cur = cur[k]
    if path[-1] in cur:
        return False
    cur[path[-1]] = leaf
    return True


def add_path_alias(r, v: dict, times: int = 1):
    """a key (or shorter chain of keys) that SPELLS the path of a nested chain in the same map — `{a: {b: 1}, "a.b": 2}`,
    `{a: {b: {c: 1}}, "a.b": {c: 2}}`, `{"a.b": {c: 1}, a: {"b.c": 2}}` — holding a different value.  Legal and
    ordinary (label keys, ConfigMap file names have dots and slashes); the two places are different places."""
    import copy

    v = copy.deepcopy(v)
    for _ in range(times):
        chains = list(key_chains(v))
        if chains and r.random() < 0.8:
            chain = r.choice(chains)
        else:                                   # no nested chain yet: make one
            chain = tuple(r.choice(["a", "b", "c", "config", "yaml", "x", "0", "k", "app"]) for _ in range(r.choice([2, 2, 3])))
            if not write_at(v, chain, gen_leaf(r)):
                continue
        sep = r.choice(PATH_SEPARATORS)
        alias = regroup(r, chain, sep)
        if alias == tuple(chain):
            continue
        k = r.random()
        leaf = gen_leaf(r) if k < 0.7 else {chain[-1]: gen_leaf(r)} if k < 0.85 else [gen_leaf(r)]
        write_at(v, alias, leaf)
    return v


def gen_value(r, depth=3, allow_expr=False):
    k = r.random()
    if depth <= 0 or k < 0.45:
        return gen_leaf(r, allow_expr)
    n = r.choice([0, 1, 1, 2, 2, 3, 4])
    if k < 0.72:
        return [gen_value(r, depth - 1, allow_expr) for _ in range(n)]
    used: set = set()
    out = {gen_key(r, used): gen_value(r, depth - 1, allow_expr) for _ in range(n)}
    if r.random() < 0.15:
        out = add_path_alias(r, out, times=r.choice([1, 1, 2]))
    return out


# literal texts for the lexer differential (well-formed by construction: every backslash either starts a
# recognised escape or is followed by a character that starts none)

ESC_LETTERS = list("abfnrtv\"'\\")
PLAIN_AFTER_BACKSLASH = list("qzAZ gG!-+.,:;() {}[]")


def gen_literal_text(r) -> str:
    long_form = r.random() < 0.45
    n = r.choice([0, 1, 2, 3, 4, 6, 9])
    out = []
    for _ in range(n):
        k = r.random()
        if k < 0.30:
            c = r.choice(CONTROLS + PUNCT + UNI + list("abc012"))
            if c in ("\\", "\"", "\n"):
                c = "a"
            out.append(c)
        elif k < 0.50:
            out.append("\\" + r.choice(ESC_LETTERS))
        elif k < 0.58:
            out.append("\\x%02x" % r.randint(0, 255) if r.random() < 0.5 else "\\x%02X" % r.randint(0, 255))
        elif k < 0.66:
            out.append("\\%o%o%o" % (r.randint(0, 7), r.randint(0, 7), r.randint(0, 7)))
        elif k < 0.72:
            cp = r.choice([0x41, 0x22, 0x5c, 0xe9, 0x6f22, 0x2028, 0xa, 0x0, 0xffff, 0xd7ff, 0xe000])
            out.append("\\u%04x" % cp)
        elif k < 0.76:
            cp = r.choice([0x41, 0x22, 0x5c, 0x1f600, 0x10ffff, 0xa])
            out.append("\\U%08x" % cp)
        elif k < 0.84:
            out.append("\\" + r.choice(PLAIN_AFTER_BACKSLASH))
        elif k < 0.90:
            out.append(r.choice(["\\x4g", "\\xg1", "\\u12g4", "\\U0001f60", "\\8", "\\9a", "\\1a", "\\12a", "\\x", "\\u"]) + "z")
        elif long_form and k < 0.96:
            out.append(r.choice(['"', '""']) + r.choice(["a", " ", "\\n", "'"]))
        elif long_form:
            out.append(r.choice(["\n", "\r\n", "\r"]))
        else:
            out.append(r.choice(["'", "'''", " ", "//x", "r"]))
    body = "".join(out)
    q = '"""' if long_form else '"'
    return q + body + q


def gen_number_text(r) -> str:
    k = r.random()
    if k < 0.35:
        return gen_numeral(r)
    if k < 0.55:
        return r.choice(NUMERALS)
    base = r.choice(["1.", ".5", "-.5", "1.e5", ".5e-3", "-1.E+2", "0.", "-0.", "1e5", "12", "-12", "00.50", ".0", "-.0e0"])
    return base


# --------------------------------------------------------------------------- the implementation, observed

_ENV = None


def _env():
    global _ENV
    if _ENV is None:
        import celpy
        from koreo.cel.functions import koreo_function_annotations

        _ENV = celpy.Environment(annotations=koreo_function_annotations)
    return _ENV


def route_unit(v):
    """prepare_expression → celpy → convert_bools on `[v]` (a list, so that falsy values are compiled too)"""
    import celpy
    from koreo.cel.encoder import convert_bools
    from koreo.cel.prepare import prepare_expression
    from koreo.cel.evaluation import check_for_celevalerror

    p = prepare_expression(_env(), [v], "c11")
    if not isinstance(p, celpy.Runner):
        return ("prepare-failed", None)
    try:
        raw = p.evaluate({})
    except Exception as e:
        return ("evaluate-raised:" + type(e).__name__, None)
    if check_for_celevalerror(raw, "c11") is not None:
        return ("evaluation-error", None)
    got = convert_bools(raw)
    if not (isinstance(got, list) and len(got) == 1):
        return ("not-a-singleton-list", None)
    return ("ok", got[0])


def _obs(o):
    import koreo_util as ku

    return ku.outcome_class(o)


def route_vf(v):
    """the literal in a ValueFunction `return` (leaf, nested leaf) and in `locals` (read back through `=locals.lit`)"""
    import celpy
    import koreo_util as ku
    from koreo.cel.encoder import convert_bools
    from koreo.value_function.reconcile import reconcile_value_function

    ku.reset()

    async def go():
        spec = {"locals": {"lit": v}, "return": {"direct": v, "nest": {"inner": v}, "viaLocals": "=locals.lit"}}
        fn = await ku.offer_value_function("c11-vf", spec)
        if _obs(fn) != "ok":
            return ("prepare-" + _obs(fn), None)
        out = await reconcile_value_function("c11", fn, celpy.json_to_cel({}))
        if _obs(out) != "ok":
            return ("reconcile-" + _obs(out), None)
        got = convert_bools(out)
        if not isinstance(got, dict) or set(got) != {"direct", "nest", "viaLocals"} or not isinstance(got["nest"], dict):
            return ("bad-shape", None)
        return ("ok", {"return": got["direct"], "return.nested": got["nest"].get("inner", "<missing>"),
                       "locals": got["viaLocals"]})

    return ku.run(go())


def _meta_of(v):
    """static values under the metadata members the payload pipeline touches"""
    return {"annotations": {"c11/lit": v, "plain": "kept"}, "labels": {"c11-lit": v}, "finalizers": [v], "extra": {"deep": v}}


def _read_meta(body, suffix=""):
    md = body.get("metadata") if isinstance(body, dict) else None
    md = md if isinstance(md, dict) else {}

    def at(*path):
        x = md
        for k in path:
            if isinstance(x, dict) and k in x:
                x = x[k]
            elif isinstance(x, list) and isinstance(k, int) and k < len(x):
                x = x[k]
            else:
                return "<missing from the request body>"
        return x

    return {"metadata.annotations" + suffix: at("annotations", "c11/lit"), "metadata.labels" + suffix: at("labels", "c11-lit"),
            "metadata.finalizers" + suffix: at("finalizers", 0), "metadata.extra" + suffix: at("extra", "deep"),
            "metadata.annotations (overlay)" + suffix: at("annotations", "c11/ov")}


def route_rf(v):
    """the literal in a ResourceFunction `resource` and in an inline overlay; observed in the POST body"""
    import celpy
    import cluster
    import koreo_util as ku
    from koreo.resource_function.reconcile import reconcile_resource_function

    ku.reset()
    cl = cluster.Cluster()

    async def go():
        spec = {"apiConfig": {"apiVersion": "v1", "kind": "ConfigMap", "plural": "configmaps", "name": "c11-cm",
                              "namespace": "ns", "owned": False},
                "resource": {"data": v, "wrap": {"inner": [v]}, "metadata": _meta_of(v)},
                "overlays": [{"overlay": {"viaOverlay": v, "metadata": {"annotations": {"c11/ov": v}}}}],
                "create": {"overlay": {"viaCreate": v, "wrapCreate": {"inner": v}}}}
        fn = await ku.offer_resource_function("c11-rf", spec)
        if _obs(fn) != "ok":
            return ("prepare-" + _obs(fn), None)
        await reconcile_resource_function(api=cl, location="c11", function=fn, owner=("other", dict(ku.OWNER_REF)),
                                          inputs=celpy.json_to_cel({}))
        posts = [e for e in cl.log if e["method"] == "POST"]
        if len(posts) != 1:
            return (f"{len(posts)}-POSTs", None)
        body = posts[0]["body"]
        try:
            return ("ok", {"resource": body["data"], "resource.nested": body["wrap"]["inner"][0],
                           "overlay": body["viaOverlay"], "create.overlay": body["viaCreate"],
                           "create.overlay (nested)": body["wrapCreate"]["inner"], **_read_meta(body)})
        except Exception:
            return ("bad-body", None)

    return ku.run(go())


def route_wf(v):
    """the literal in a Workflow step's `inputs` (echoed by a ValueFunction) and `state`"""
    import celpy
    import koreo_util as ku
    from koreo.cel.encoder import convert_bools
    from koreo.workflow.reconcile import reconcile_workflow

    ku.reset()

    async def go():
        fn = await ku.offer_value_function("c11-echo", {"return": {"got": "=inputs.lit"}})
        if _obs(fn) != "ok":
            raise Infra("the echo ValueFunction does not prepare")
        ref = {"kind": "ValueFunction", "name": "c11-echo"}
        spec = {"crdRef": {"apiGroup": "c11.koreo.dev", "version": "v1", "kind": "T"},
                "steps": [
                    {"label": "stp", "ref": ref, "inputs": {"lit": v}, "state": {"st": v, "v_stp": "=value"}},
                    # consumes an earlier step's result next to the literal
                    {"label": "dep", "ref": ref, "inputs": {"lit": v, "prev": "=steps.stp.got"}, "state": {"v_dep": "=value"}},
                    {"label": "each", "ref": ref, "forEach": {"itemIn": "=[1, 2]", "inputKey": "item"},
                     "inputs": {"lit": v}, "state": {"v_each": "=value"}},
                    {"label": "dep-each", "ref": ref, "forEach": {"itemIn": "=[1, 2]", "inputKey": "item"},
                     "inputs": {"lit": v, "prev": "=steps.dep.got"}, "state": {"v_dep_each": "=value"}},
                    {"label": "cond", "ref": ref, "skipIf": "=false", "inputs": {"lit": v}, "state": {"v_cond": "=value"}},
                    {"label": "dep-cond", "ref": ref, "skipIf": "=false", "inputs": {"lit": v, "prev": "=steps.stp.got"},
                     "state": {"v_dep_cond": "=value"}},
                ]}
        wf = await ku.offer_workflow("c11-wf", spec)
        if _obs(wf) != "ok":
            return ("prepare-" + _obs(wf), None)
        res = await reconcile_workflow(api=None, workflow_key="c11-wf", owner=("ns", dict(ku.OWNER_REF)),
                                       trigger=celpy.json_to_cel({}), workflow=wf)
        if _obs(res.result) != "ok":
            return ("reconcile-" + _obs(res.result), None)
        if res.state_errors:
            return ("state-error", None)
        st = convert_bools(res.state)

        def got(key, *path):
            x = st.get(key, "<step value missing>") if isinstance(st, dict) else "<no state>"
            for k in path:
                if isinstance(x, dict) and k in x:
                    x = x[k]
                elif isinstance(x, list) and isinstance(k, int) and k < len(x):
                    x = x[k]
                else:
                    return "<the Function did not receive `lit`>"
            return x

        return ("ok", {"inputs": got("v_stp", "got"), "state": got("st"),
                       "inputs of a step with a dependency": got("v_dep", "got"),
                       "inputs of a forEach step (item 0)": got("v_each", 0, "got"),
                       "inputs of a forEach step (item 1)": got("v_each", 1, "got"),
                       "inputs of a forEach step with a dependency": got("v_dep_each", 1, "got"),
                       "inputs of a skipIf step": got("v_cond", "got"),
                       "inputs of a skipIf step with a dependency": got("v_dep_cond", "got")})

    return ku.run(go())


ABSENT = "__ABSENT__"   # base marker: nothing at the slot's path


def valid_slots(v) -> bool:
    """[[base, written], …]: written values are overlay LEAVES (anything but a non-empty map, which an overlay
    merges key by key — that is C12's subject), bases are any in-domain value or ABSENT"""
    return (isinstance(v, list) and all(
        isinstance(p, list) and len(p) == 2 and in_domain(p[0]) and in_domain(p[1])
        and not (isinstance(p[1], dict) and p[1]) for p in v))


def _slots(v):
    base = {f"s{i}": b for i, (b, _) in enumerate(v) if b != ABSENT}
    over = {f"s{i}": w for i, (_, w) in enumerate(v)}
    return base, over


def _read_slots(v, holder):
    return {f"slot {i} (base {tcanon(b)[:40]})": holder.get(f"s{i}", "<missing>") if isinstance(holder, dict) else "<no map>"
            for i, (b, w) in enumerate(v)}


def _rf_overlay(v, where: str):
    import celpy
    import cluster
    import koreo_util as ku
    from koreo.resource_function.reconcile import reconcile_resource_function

    ku.reset()
    cl = cluster.Cluster()
    base, over = _slots(v)

    async def go():
        spec = {"apiConfig": {"apiVersion": "v1", "kind": "ConfigMap", "plural": "configmaps", "name": "c11-cm",
                              "namespace": "ns", "owned": False},
                "resource": {"spec": {"keep": "kept", **base}}}
        if where == "overlays":
            spec["overlays"] = [{"overlay": {"spec": over}}]
        else:
            spec["create"] = {"overlay": {"spec": over}}
        fn = await ku.offer_resource_function("c11-rf", spec)
        if _obs(fn) != "ok":
            return ("prepare-" + _obs(fn), None)
        await reconcile_resource_function(api=cl, location="c11", function=fn, owner=("other", dict(ku.OWNER_REF)),
                                          inputs=celpy.json_to_cel({}))
        posts = [e for e in cl.log if e["method"] == "POST"]
        if len(posts) != 1:
            return (f"{len(posts)}-POSTs", None)
        body = posts[0]["body"]
        if not isinstance(body.get("spec"), dict) or body["spec"].get("keep") != "kept":
            return ("bad-body", None)
        return ("ok", _read_slots(v, body["spec"]))

    return ku.run(go())


def route_ov_rf(v):
    """written leaves in `overlays[].overlay` at paths where `resource` already holds something; POST body"""
    return _rf_overlay(v, "overlays")


def route_ov_create(v):
    """the same through `create.overlay`"""
    return _rf_overlay(v, "create")


def route_ov_vf(v):
    """written leaves in a ValueFunction `return` applied onto a base that already holds something there"""
    import celpy
    import koreo_util as ku
    from koreo.cel.encoder import convert_bools
    from koreo.value_function.reconcile import reconcile_value_function

    ku.reset()
    base, over = _slots(v)

    async def go():
        fn = await ku.offer_value_function("c11-vf", {"return": {"spec": over}})
        if _obs(fn) != "ok":
            return ("prepare-" + _obs(fn), None)
        out = await reconcile_value_function("c11", fn, celpy.json_to_cel({}),
                                             value_base=celpy.json_to_cel({"spec": {"keep": "kept", **base}}))
        if _obs(out) != "ok":
            return ("reconcile-" + _obs(out), None)
        got = convert_bools(out)
        if not isinstance(got, dict) or not isinstance(got.get("spec"), dict) or got["spec"].get("keep") != "kept":
            return ("bad-shape", None)
        return ("ok", _read_slots(v, got["spec"]))

    return ku.run(go())


STATE_STEPS = ["vf-no-return", "rf-no-return", "empty-foreach", "sub-workflow-empty-state", "vf-map", "foreach-two",
               "sub-workflow-with-state", "rf-with-return"]


def route_wf_state(v):
    """the literal in the `state` block of eight Ok steps whose Logic returns, in turn: null (a ValueFunction with a
    precondition but no `return`), null (a read-only ResourceFunction without `return`), [] (an empty forEach),
    {} (a sub-workflow with empty state), and the truthy counterparts (map, two-element list, non-empty state,
    a ResourceFunction `return`).  Every literal must be in Result.state."""
    import celpy
    import cluster
    import koreo_util as ku
    from koreo.cel.encoder import convert_bools
    from koreo.workflow.reconcile import reconcile_workflow

    ku.reset()
    cl = cluster.Cluster()
    cl.put("v1", "configmaps", "ns", "c11-live", {"apiVersion": "v1", "kind": "ConfigMap",
                                                  "metadata": {"name": "c11-live", "namespace": "ns"}, "data": {"k": "v"}})
    crd = {"apiGroup": "c11.koreo.dev", "version": "v1", "kind": "T"}
    api_config = {"apiVersion": "v1", "kind": "ConfigMap", "plural": "configmaps", "name": "c11-live", "namespace": "ns",
                  "owned": False, "readonly": True}

    async def need(x, what):
        if _obs(x) != "ok":
            raise Infra(f"fixture {what} does not prepare: {getattr(x, 'message', x)}")
        return x

    async def go():
        await need(await ku.offer_value_function("c11-check", {"preconditions": [
            {"assert": "=inputs.size > 0", "permFail": {"message": "size"}}]}), "c11-check")
        await need(await ku.offer_value_function("c11-echo", {"return": {"got": "=inputs.lit"}}), "c11-echo")
        await need(await ku.offer_resource_function("c11-read", {"apiConfig": api_config, "resource": {}}), "c11-read")
        await need(await ku.offer_resource_function("c11-read-ret", {"apiConfig": api_config, "resource": {},
                                                                      "return": {"name": "=resource.metadata.name"}}),
                   "c11-read-ret")
        await need(await ku.offer_workflow("c11-sub-empty", {"crdRef": crd, "steps": [
            {"label": "inner", "ref": {"kind": "ValueFunction", "name": "c11-echo"}, "inputs": {"lit": 1}}]}), "c11-sub-empty")
        await need(await ku.offer_workflow("c11-sub-state", {"crdRef": crd, "steps": [
            {"label": "inner", "ref": {"kind": "ValueFunction", "name": "c11-echo"}, "inputs": {"lit": 1},
             "state": {"inner": "x"}}]}), "c11-sub-state")
        logic = {
            "vf-no-return": {"ref": {"kind": "ValueFunction", "name": "c11-check"}, "inputs": {"size": 7}},
            "rf-no-return": {"ref": {"kind": "ResourceFunction", "name": "c11-read"}},
            "empty-foreach": {"ref": {"kind": "ValueFunction", "name": "c11-echo"},
                              "forEach": {"itemIn": "=[]", "inputKey": "lit"}},
            "sub-workflow-empty-state": {"ref": {"kind": "Workflow", "name": "c11-sub-empty"}},
            "vf-map": {"ref": {"kind": "ValueFunction", "name": "c11-echo"}, "inputs": {"lit": 1}},
            "foreach-two": {"ref": {"kind": "ValueFunction", "name": "c11-echo"},
                            "forEach": {"itemIn": "=[1, 2]", "inputKey": "lit"}},
            "sub-workflow-with-state": {"ref": {"kind": "Workflow", "name": "c11-sub-state"}},
            "rf-with-return": {"ref": {"kind": "ResourceFunction", "name": "c11-read-ret"}},
        }
        steps = [{"label": f"step{i}", **logic[name], "state": {f"st{i}": v}} for i, name in enumerate(STATE_STEPS)]
        wf = await ku.offer_workflow("c11-wf-state", {"crdRef": crd, "steps": steps})
        if _obs(wf) != "ok":
            return ("prepare-" + _obs(wf), None)
        res = await reconcile_workflow(api=cl, workflow_key="c11-wf-state", owner=("ns", dict(ku.OWNER_REF)),
                                       trigger=celpy.json_to_cel({}), workflow=wf)
        if _obs(res.result) != "ok":
            return ("reconcile-" + _obs(res.result), None)
        if res.state_errors:
            return ("state-error", None)
        st = convert_bools(res.state)
        if not isinstance(st, dict):
            return ("bad-shape", None)
        return ("ok", {f"state of step `{name}`": st.get(f"st{i}", "<missing from Result.state>")
                       for i, name in enumerate(STATE_STEPS)})

    return ku.run(go())


def route_rf_patch(v):
    """the UPDATE path: the object already exists and has drifted (one other leaf differs), default `update: patch`;
    the literal in `resource` and in an inline overlay is observed in the PATCH body"""
    import celpy
    import cluster
    import koreo_util as ku
    from koreo.resource_function.reconcile import reconcile_resource_function

    ku.reset()
    cl = cluster.Cluster()
    cl.put("v1", "configmaps", "ns", "c11-cm", {"apiVersion": "v1", "kind": "ConfigMap",
                                                "metadata": {"name": "c11-cm", "namespace": "ns"}, "marker": "drifted"})

    async def go():
        spec = {"apiConfig": {"apiVersion": "v1", "kind": "ConfigMap", "plural": "configmaps", "name": "c11-cm",
                              "namespace": "ns", "owned": False},
                "resource": {"marker": "wanted", "data": v, "wrap": {"inner": [v]}, "metadata": _meta_of(v)},
                "overlays": [{"overlay": {"viaOverlay": v, "metadata": {"annotations": {"c11/ov": v}}}}]}
        fn = await ku.offer_resource_function("c11-rf", spec)
        if _obs(fn) != "ok":
            return ("prepare-" + _obs(fn), None)
        await reconcile_resource_function(api=cl, location="c11", function=fn, owner=("other", dict(ku.OWNER_REF)),
                                          inputs=celpy.json_to_cel({}))
        muts = cl.mutations()
        if len(muts) != 1 or muts[0]["method"] != "PATCH":
            return ("-".join(m["method"] for m in muts) + "-instead-of-one-PATCH", None)
        body = muts[0]["body"]
        if not isinstance(body, dict) or body.get("marker") != "wanted":
            return ("bad-body", None)
        wrap = body.get("wrap")
        return ("ok", {"resource (PATCH body)": body.get("data", "<missing from the PATCH body>"),
                       "resource.nested (PATCH body)": wrap["inner"][0] if isinstance(wrap, dict) and isinstance(
                           wrap.get("inner"), list) and len(wrap["inner"]) == 1 else "<missing from the PATCH body>",
                       "overlay (PATCH body)": body.get("viaOverlay", "<missing from the PATCH body>"),
                       **_read_meta(body, " (PATCH body)")})

    return ku.run(go())


EDITED = "edited by somebody else"
OWN_LITERAL = "__LITERAL_OF_THE_ROUTE__"   # (OWN_LITERAL, written, delivered): a literal the route itself wrote next to `v`


def _edit_live(obj: dict, how: str) -> dict:
    """what another client does to the live object between two reconciles: it never touches the last-applied
    annotation (only koreo writes it).  `marker` = one unrelated managed leaf; `all` = every managed place"""
    import copy

    obj = copy.deepcopy(obj)
    obj["marker"] = EDITED
    if how == "all":
        obj["data"] = EDITED
        obj["wrap"] = {"inner": [EDITED, EDITED]}
        obj["viaOverlay"] = {"edited": EDITED}
        md = obj.setdefault("metadata", {})
        md.setdefault("annotations", {})["c11/lit"] = EDITED
        md["annotations"]["c11/ov"] = EDITED
        md["labels"] = {"c11-lit": EDITED}
        md["finalizers"] = [EDITED]
        md["extra"] = {"deep": EDITED}
    return obj


def route_rf_drift(v):
    """a SEQUENCE on one object: (1) the ResourceFunction creates it (POST; koreo stores its last-applied annotation),
    (2) nothing to do on the next reconcile (not judged), (3) somebody else edits the live object inside the managed
    sections, (4) the ResourceFunction reconciles again: exactly one PATCH, and its body must hold every literal of
    `resource` / the inline overlay exactly as written — `target == last-applied != live` is the ordinary drift case.
    Run twice: the edit touches one unrelated leaf only / every managed place."""
    import celpy
    import cluster
    import koreo_util as ku
    from koreo.resource_function.reconcile import reconcile_resource_function

    out = {}
    for how in ("marker", "all"):
        ku.reset()
        cl = cluster.Cluster()

        async def go():
            spec = {"apiConfig": {"apiVersion": "v1", "kind": "ConfigMap", "plural": "configmaps", "name": "c11-cm",
                                  "namespace": "ns", "owned": False},
                    "resource": {"marker": "wanted", "data": v, "wrap": {"inner": [v]}, "metadata": _meta_of(v)},
                    "overlays": [{"overlay": {"viaOverlay": v, "metadata": {"annotations": {"c11/ov": v}}}}]}
            fn = await ku.offer_resource_function("c11-rf", spec)
            if _obs(fn) != "ok":
                return ("prepare-" + _obs(fn), None)

            async def reconcile():
                await reconcile_resource_function(api=cl, location="c11", function=fn, owner=("other", dict(ku.OWNER_REF)),
                                                  inputs=celpy.json_to_cel({}))

            await reconcile()                                   # (1) create
            muts = cl.mutations()
            if [m["method"] for m in muts] != ["POST"] or len(cl.objects) != 1:
                return ("-".join(m["method"] for m in muts) + "-instead-of-one-POST", None)
            await reconcile()                                   # (2) steady state (whatever it does is not C11's)
            (key, live), = cl.objects.items()
            cl.objects[key] = _edit_live(live, how)             # (3) external edit
            since = len(cl.log)
            await reconcile()                                   # (4) the drift is repaired
            muts = cl.mutations(since)
            if len(muts) != 1 or muts[0]["method"] != "PATCH":
                return ("after-the-edit-" + "-".join(m["method"] for m in muts) + "-instead-of-one-PATCH", None)
            body = muts[0]["body"] if isinstance(muts[0]["body"], dict) else {}
            miss = "<missing from the PATCH body>"
            wrap = body.get("wrap")
            tag = f" (PATCH after create + external edit of {'one other leaf' if how == 'marker' else 'every managed place'})"
            return ("ok", ({"resource" + tag: body.get("data", miss),
                            "resource.nested" + tag: wrap["inner"][0] if isinstance(wrap, dict) and isinstance(
                                wrap.get("inner"), list) and len(wrap["inner"]) == 1 else miss,
                            "overlay" + tag: body.get("viaOverlay", miss), **_read_meta(body, tag),
                            # the route's own literal leaf `marker: wanted` of `resource` — the one that was edited
                            "resource.marker" + tag: (OWN_LITERAL, "wanted", body.get("marker", miss))}))

        status, got = ku.run(go())
        if status != "ok":
            return (f"{status} [{how}]", None)
        out.update(got)
    return ("ok", out)


ROUTES = {"unit": route_unit, "vf": route_vf, "rf": route_rf, "rf-patch": route_rf_patch, "rf-drift": route_rf_drift,
          "wf": route_wf, "wf-state": route_wf_state}
OV_ROUTES = {"ov-rf": route_ov_rf, "ov-create": route_ov_create, "ov-vf": route_ov_vf}
ALL_ROUTES = {**ROUTES, **OV_ROUTES}


def judge(route: str, v):
    """the property's clause on one route: None if the value arrived as written, else a description"""
    if route in API_ROUTES and has_directive_key(v):
        return None          # directives are stripped from payloads by design; judged on the other routes
    try:
        status, got = ALL_ROUTES[route](v)
    except Infra:
        raise
    except Exception as e:
        return f"{route}: raised {type(e).__name__}"
    if status != "ok":
        return f"{route}: {status}"
    if route in OV_ROUTES:
        for (place, g), (_, w) in zip(got.items(), v):
            if tcanon(g) != tcanon(expected(w)):
                return f"{route}: value delivered at {place} differs from the written one"
        return None
    want = tcanon(expected(v))
    if route == "unit":
        return None if tcanon(got) == want else "unit: delivered value differs from the written one"
    for place, g in got.items():
        if isinstance(g, tuple) and len(g) == 3 and g[0] == OWN_LITERAL:
            if tcanon(g[2]) != tcanon(expected(g[1])):
                return f"{route}: value delivered at `{place}` differs from the written one ({g[1]!r})"
        elif tcanon(g) != want:
            return f"{route}: value delivered at `{place}` differs from the written one"
    return None


def want_of(route: str, v):
    return [expected(w) for _, w in v] if route in OV_ROUTES else expected(v)


# --------------------------------------------------------------------------- shrinking

def _candidates(v):
    """strictly smaller variants of a value, most aggressive first"""
    if isinstance(v, str):
        n = len(v)
        if n > 1:
            yield v[: n // 2]
            yield v[n // 2:]
            for i in range(n):
                yield v[:i] + v[i + 1:]
    elif isinstance(v, list):
        for x in v:
            yield x
        if len(v) > 1:
            yield v[: len(v) // 2]
            yield v[len(v) // 2:]
            for i in range(len(v)):
                yield v[:i] + v[i + 1:]
        for i, x in enumerate(v):
            for c in _candidates(x):
                yield v[:i] + [c] + v[i + 1:]
    elif isinstance(v, dict):
        items = list(v.items())
        for k, x in items:
            yield x
        for k, x in items:
            if len(items) > 1 or x != 0:
                yield {k: 0}
        if len(items) > 1:
            for i in range(len(items)):
                yield dict(items[:i] + items[i + 1:])
        for i, (k, x) in enumerate(items):
            for c in _candidates(x):
                yield dict(items[:i] + [(k, c)] + items[i + 1:])
            for c in _candidates(k):
                if c not in v:
                    yield dict(items[:i] + [(c, x)] + items[i + 1:])


def shrink(v, fails, budget: int = 600, valid=None):
    """greedy descent to a smaller in-domain value on which `fails` still holds; every accepted step
    strictly shortens the canonical text, and at most `budget` candidates are tried"""
    tried = 0
    improved = True
    while improved and tried < budget:
        improved = False
        size = len(tcanon(v))
        for c in _candidates(v):
            if tried >= budget:
                break
            if len(tcanon(c)) >= size or not (valid or in_domain)(c):
                continue
            tried += 1
            try:
                bad = fails(c)
            except Infra:
                raise
            except Exception:
                bad = False
            if bad:
                v, improved = c, True
                break
    return v


def wire_str_safe(v):
    return to_wire(v)


# --------------------------------------------------------------------------- celpy as a literal lexer

_PARSER = None


def celpy_literal(text: str):
    """('str', s) | ('int', n) | ('dec', x) if real celpy reads `text` as ONE string / number literal, else None"""
    import celpy
    from celpy import celtypes

    env = _env()
    try:
        ast = env.compile(text)
    except Exception:
        return None
    node = ast
    while getattr(node, "children", None) is not None and len(node.children) == 1 and getattr(node, "data", "") != "literal":
        node = node.children[0]
    if getattr(node, "data", "") != "literal" or len(node.children) != 1:
        return None
    tok = node.children[0]
    if getattr(tok, "type", "") not in ("STRING_LIT", "MLSTRING_LIT", "INT_LIT", "FLOAT_LIT") or str(tok) != text:
        return None
    try:
        val = env.program(ast).evaluate({})
    except Exception:
        return None
    if isinstance(val, celtypes.StringType):
        return ("str", str(val))
    if isinstance(val, celtypes.IntType):
        return ("int", int(val))
    if isinstance(val, celtypes.DoubleType):
        return ("dec", float(val))
    return None


_LARK = None


def celpy_tokens(text: str):
    """the texts of the tokens real celpy's contextual lexer cuts `text` into while its LALR parser consumes them
    (None if lexing or parsing fails)"""
    global _LARK
    if _LARK is None:
        from celpy import celparser

        celparser.CELParser()
        _LARK = celparser.CELParser.CEL_PARSER
    try:
        ip = _LARK.parse_interactive(text)
        out = []
        for t in ip.lexer_state.lex(ip.parser_state):
            out.append(str(t))
            ip.feed_token(t)
        ip.feed_eof()
        return out
    except Exception:
        return None


def model_literal(ans_s, ans_n):
    """the model's reading of a text, in the same shape as `celpy_literal`"""
    if isinstance(ans_s, str):
        return ("str", ans_s)
    if isinstance(ans_n, dict) and "i" in ans_n:
        n = int(ans_n["i"])
        return ("int", n) if INT64[0] <= n <= INT64[1] else None   # IntType raises beyond 64 bits
    if isinstance(ans_n, dict) and "d" in ans_n:
        neg, m, x = ans_n["d"]
        try:
            return ("dec", float(("-" if neg else "") + m + "e" + x))
        except (OverflowError, ValueError):
            return None
    return None


def same_literal(a, b) -> bool:
    if a is None or b is None:
        return a is b
    if a[0] != b[0]:
        return False
    if a[0] == "dec":
        return a[1] == b[1] or (math.isnan(a[1]) and math.isnan(b[1]))
    return a[1] == b[1]


# --------------------------------------------------------------------------- the check

class Driver(LeanDriver):
    """LeanDriver whose answer stream is split at "\n" only: the model echoes texts containing U+0085, U+2028,
    form feeds … verbatim, and `str.splitlines` would break an answer line there"""

    def ask(self, reqs: list) -> list:
        import subprocess

        if not reqs:
            return []
        if not self.exe.exists():
            raise Infra("lean driver not built")
        data = "".join(json.dumps(q, ensure_ascii=True) + "\n" for q in reqs)
        p = subprocess.run([str(self.exe)], input=data.encode(), capture_output=True, timeout=3000)
        if p.returncode != 0:
            raise Infra(f"driver failed: {p.stderr[:500]!r}")
        lines = p.stdout.decode("utf-8").split("\n")
        if lines and lines[-1] == "":
            lines.pop()
        if len(lines) != len(reqs):
            raise Infra(f"driver answered {len(lines)} lines for {len(reqs)} requests")
        return [json.loads(l) for l in lines]


CORPUS = VERIF / "corpus" / "C11"


def impl_text(v):
    from koreo.cel.encoder import encode_cel

    try:
        return encode_cel(v)
    except Exception as e:
        return {"raised": type(e).__name__}


def wireable(v) -> bool:
    try:
        json.dumps(to_wire(v), ensure_ascii=True)
        return True
    except Exception:
        return False


MAX_VIOLATIONS = 8


def _fresh(ck, route, small) -> bool:
    """report each minimised witness once"""
    seen = ck.__dict__.setdefault("seen_witnesses", set())
    key = (route, tcanon(small))
    if key in seen:
        return False
    seen.add(key)
    return True


def oracle_batch(ck, values, route="unit"):
    """judge a batch of in-domain values on one route: all at once first, shrink on failure"""
    values = [v for v in values if in_domain(v)]
    if not values or getattr(ck, 'found_by_search', 0) >= MAX_VIOLATIONS:
        return
    bad = judge(route, values)
    ck.evaluated(len(values))
    if bad is None:
        return

    def fails(sub):
        return judge(route, sub) is not None

    small = shrink(ddmin(values, fails), fails)
    ck.found_by_search = getattr(ck, 'found_by_search', 0) + 1
    if not _fresh(ck, route, small):
        return
    ck.violate({"route": route, "value": to_wire(small), "expected": tcanon(expected(small))}, judge(route, small) or bad)


def run(tier: str) -> int:
    ck = Check("C11", tier)
    ck.trusted = [
        "Lean 4.33.0 kernel; axioms of every theorem ⊆ {propext, Classical.choice, Quot.sound}",
        "model lean/Koreo/Encoder.lean hand-transcribed from the repaired src/koreo/cel/encoder.py; escape table and "
        "delimiter rule read off the running encoder by harness/extractors/EncoderTables.py and proved equal to the model's",
        "celpy 0.3.0's string/number literal lexing and un-escaping (STRING_LIT, MLSTRING_LIT, INT_LIT, FLOAT_LIT, celstr, "
        "CEL_ESCAPES) — modelled as lexString/lexNumber, validated by this run's lexer differential",
        "celpy's contextual lexer on the emitted sub-language — modelled as the character-level `tokenize`: WHITESPACE "
        "ignored; FLOAT_LIT tried before INT_LIT and both before the MINUS operator where a value may start; greedy "
        "number match with an exponent only when complete; MLSTRING_LIT before STRING_LIT, first closing delimiter not "
        "consumed by an escape; an identifier run is BOOL_LIT/NULL_LIT exactly when it is true/false/null; single-character "
        "punctuation; the LALR parser builds lists/maps from the tokens as `pVal` does — validated by this run's "
        "token-stream differential (real celpy's lexer+parser vs the model tokenizer on emitted and hand-built texts)",
        "exact-text differential encode_cel vs the compiled Lean encodeCel (harness/c11.py)",
        "Python str(int), repr(float) for multiples of 1/8 below 2^50, re.fullmatch, str.translate (modelled)",
        "IEEE rounding of decimal numerals (float(text)) is not modelled: the model keeps the exact decimal",
    ]
    ck.assumptions = [
        "string values starting with '=' are expressions and outside the property",
        "numeral strings denote 64-bit integers / finite doubles (others are outside the quantifier)",
        "text without lone surrogates; map keys are strings; floats in the correspondence are multiples of 1/8 below 2^50",
    ]
    ck.prove(extractors=["EncoderTables"])
    if tier == "thorough":
        ck.leanchecker()

    quick = tier == "quick"
    drv = Driver("C11")

    # ---- corpus: minimised past failures, through every route
    for f in sorted(CORPUS.glob("*.json")):
        try:
            v = from_wire(json.load(open(f))["value"])
        except Exception as e:
            raise Infra(f"unreadable corpus file {f}: {e}")
        for route in (json.load(open(f)).get("routes") or list(ROUTES)):
            bad = judge(route, v)
            ck.evaluated()
            ck.count(f"corpus:{'fail' if bad else 'pass'}")
            if bad:
                ck.violate({"route": route, "value": to_wire(v), "expected": tcanon(want_of(route, v)), "corpus": f.name}, bad)

    # ---- (b) exact-text differential, and the model's own round trip on the same values
    r = rng("c11-text")
    n_text = 20000 if quick else 1000000
    tokq: list = []                      # emitted texts whose token stream is compared with real celpy's
    tok_budget = 4000 if quick else 60000
    done = 0
    while done < n_text:
        vals = []
        for i in range(min(50000, n_text - done)):
            v = gen_value(r, depth=r.choice([0, 0, 1, 2, 3]), allow_expr=True)
            if wireable(v):
                vals.append(v)
        done += 50000
        try:
            answers = drv.ask([{"op": "enc", "v": to_wire(v)} for v in vals])
        except Infra as e:
            answers = [None] * len(vals)
            ck.notes.append(f"model driver unavailable: {e}")
            ck.build_ok = False
        for v, ans in zip(vals, answers):
            ck.evaluated()
            mine = impl_text(v)
            kind = type(v).__name__
            ck.count(f"text:{kind}")
            if isinstance(v, str):
                ck.count("str:numeral" if NUMERAL.fullmatch(v) else "str:expr" if v.startswith("=") else
                         "str:quote" if '"' in v else "str:backslash" if "\\" in v else
                         "str:control" if any(ord(c) < 32 for c in v) else "str:other")
                if any(c in v for c in '"\\\n\r\t') or not v.isascii():
                    ck.nontriv("t:" + v)
            elif isinstance(v, (list, dict)) and v:
                ck.nontriv("t:" + tcanon(v))
            if ans is None:
                continue
            if "error" in ans:
                ck.disagree({"v": to_wire(v)}, ans, mine, "driver-error")
                continue
            if ans["t"] != mine:
                ck.disagree({"v": to_wire(v)}, ans["t"], mine, "encode_cel-text")
            if not ans["toks"]:
                ck.disagree({"v": to_wire(v)}, "token texts do not concatenate to the encoding", mine, "tokens-text")
            if ans["noExpr"] and ans["parsed"] != ans["want"]:
                ck.disagree({"v": to_wire(v)}, ans["parsed"], ans["want"], "model-roundtrip (theorem value_roundtrip)")
            if ans["noExpr"] and (not ans["tokenized"] or ans["chars"] != ans["want"]):
                ck.disagree({"v": to_wire(v)}, ans["chars"], ans["want"], "model-chars-roundtrip (theorem chars_roundtrip)")
            if ans["noExpr"] and isinstance(mine, str) and in_domain(v) and len(tokq) < tok_budget and (
                    isinstance(v, (list, dict)) or len(tokq) % 3 == 0):
                tokq.append(mine)
            ck.sample({"value": to_wire(v), "encode_cel": mine})

    # ---- (c0) the modelled third-party part, whole texts: real celpy's token stream vs the model tokenizer
    r2 = rng("c11-tok")
    extra = ["[-5,-0.125,1e5,1E-5,-1.50e-3,007,-0]", "[true,false,null]", "{\"\":\"\",\"k\":[\"\",\"\"]}", "[[],{},[[]],[{}]]",
             "[ 1 ,\t2 ,\n3 ]", "[1.,.5,1.e5,-.5]", "[truex]", "[nullable]", "[12e]", "[1e+]", "[-]", "[\"a\"\"b\"]", "[1 2]",
             "[\"\"\"\"]", "[\"\"\"\"\"\"]", "[\"\"\"a\"\"\"\"]", "[12u]", "[0x1F]", "['a']", "[r\"a\"]", "[b\"a\"]", "[1-2]", "[1,-2]"]
    for _ in range(200 if quick else 3000):
        extra.append("[" + ",".join(gen_number_text(r2) if r2.random() < 0.5 else gen_literal_text(r2)
                                    for _ in range(r2.choice([1, 2, 3]))) + "]")
    texts_tok = tokq + extra
    try:
        atok = drv.ask([{"op": "tok", "t": t} for t in texts_tok])
    except Infra as e:
        atok = []
        ck.notes.append(f"model driver unavailable: {e}")
        ck.build_ok = False
    for i, (t, ans) in enumerate(zip(texts_tok, atok)):
        ck.evaluated()
        real = celpy_tokens(t)
        model = None if isinstance(ans["toks"], dict) else ans["toks"]
        if isinstance(ans["parsed"], dict) and ans["parsed"].get("none"):
            # tokens that do not form a value of the sub-language (`[1-2]`, `[1 2]`, `["a""b"]`): real celpy lexes
            # by parser context there (a `-` after a literal is the operator) — outside what the model claims
            model = None
        emitted = i < len(tokq)
        ck.count("tokens:emitted-text" if emitted else f"tokens:hand-text-{'in' if model is not None else 'outside'}-sublanguage")
        if emitted:
            ck.nontriv("k:" + t)
            if real != model or model is None:
                ck.disagree({"text": t}, model, real, "celpy-token-stream (emitted text)")
        elif model is not None and real != model:
            # the model claims the text for the sub-language: real celpy must cut it the same way
            ck.disagree({"text": t}, model, real, "celpy-token-stream (hand-built text)")

    # ---- (c) the modelled third-party part: celpy's literal lexer vs lexString / lexNumber
    r = rng("c11-lex")
    n_lex = 8000 if quick else 120000
    strs = [gen_string(r) for _ in range(n_lex)]
    strs = [s for s in strs if wireable(s)]
    texts = [gen_literal_text(r) if r.random() < 0.7 else gen_number_text(r) for _ in range(n_lex // 2)]
    try:
        a1 = drv.ask([{"op": "str", "s": s} for s in strs])
        a2 = drv.ask([{"op": "lex", "t": t} for t in texts])
    except Infra as e:
        a1, a2 = [], []
        ck.notes.append(f"model driver unavailable: {e}")
        ck.build_ok = False

    def opt(x):
        return None if isinstance(x, dict) and x.get("none") else x

    for s, ans in zip(strs, a1):
        ck.evaluated()
        for text, ms, mn in ((ans["t"], opt(ans["lexs"]), opt(ans["lexn"])), (ans["q"], opt(ans["lexq"]), None)):
            if s.startswith("=") and text == ans["t"]:
                continue
            real = celpy_literal(text)
            model = model_literal(ms, mn)
            if real is None and model is None and NUMERAL.fullmatch(s) and text == s:
                ck.count("lex:numeral-out-of-range")
                continue
            ck.count(f"lex:{real[0] if real else 'none'}")
            if not same_literal(real, model):
                ck.disagree({"text": text}, model, real, "celpy-literal-lexer")
    for t, ans in zip(texts, a2):
        ck.evaluated()
        real = celpy_literal(t)
        model = model_literal(opt(ans["s"]), opt(ans["n"]))
        ck.count(f"lextext:{real[0] if real else 'none'}")
        ck.nontriv("l:" + t)
        if not same_literal(real, model):
            ck.disagree({"text": t}, model, real, "celpy-literal-lexer")

    # ---- property oracle on the implementation (independent of the model)
    search(ck, quick_budget=quick)

    return ck.finish(
        widen=lambda c: search(c, quick_budget=False, salt="widen"),
        rule="JSON values of depth 0-3 biased to hard strings (every ASCII control and punctuation character, escape "
             "look-alikes, quote runs of 1-4 at start/middle/end, numerals and one-edit near-numerals, Unicode digits, "
             "blanks, empty containers, int64 extremes, floats k/8): exact text of encode_cel vs the model; real celpy's token stream vs the model tokenizer on the "
             "emitted texts (and on hand-built texts of the sub-language incl. white space, 1. .5 1.e5); celpy vs the "
             "model lexer on the emitted literals and on hand-built literal texts; the real pipeline on seven routes "
             "(expression, ValueFunction return/locals, ResourceFunction resource/overlay POST body and — for an object that "
             "exists and drifted — PATCH body, and the PATCH body of the sequence create → steady reconcile → external edit of the "
             "live object → reconcile; maps in which a key spells the path of a nested chain beside it (a.b next to a → b, "
             "16 separators); Workflow inputs/state, Workflow `state` of eight Ok steps whose Logic returns null, null, [], {} and their truthy "
             "counterparts) and, for written overlay leaves incl. {} [] \"\", on three overlay-onto-base routes "
             "(overlays[].overlay, create.overlay, ValueFunction return on a base) over bases holding non-empty "
             "maps/lists/scalars. non-trivial = strings containing a quote, backslash, newline, CR, tab or non-ASCII "
             "character, non-empty containers, literal texts; distinct by value/text",
    )


def search(ck, quick_budget: bool, salt: str = ""):
    r = rng("c11-oracle" + salt)
    # every ASCII character alone, doubled, after a backslash, before a quote — as value and as key
    singles = []
    for cp in list(range(128)) + [0x85, 0xa0, 0x661, 0x2028, 0xff11, 0x1f600]:
        ch = chr(cp)
        for s in (ch, ch + ch, "\\" + ch, ch + "\\", '"' + ch, ch + '"', "a" + ch + "b"):
            singles.append(s)
    singles += WORDS + NUMERALS + LOOKALIKES
    singles = [s for s in singles if in_domain_str(s)]
    for i in range(0, len(singles), 40):
        chunk = singles[i:i + 40]
        for s in chunk:
            ck.count("oracle:systematic-string")
        oracle_batch(ck, chunk, "unit")
        oracle_batch(ck, [{s: i} for i, s in enumerate(chunk)], "unit")
    n_unit = 1200 if quick_budget else 30000
    for _ in range(n_unit):
        batch = []
        for _ in range(12):
            v = gen_value(r, depth=r.choice([0, 0, 0, 1, 2]))
            if in_domain(v):
                batch.append(v)
                ck.count("oracle:unit-value")
        oracle_batch(ck, batch, "unit")
    for nv in ([None], {"a": None}, {"a": {"b": None, "c": 1}, "d": None}, [None, {"v": None}, 0], {"": None},
               {"k": [], "m": {}, "s": "", "z": 0, "f": False, "n": None}):
        for route in ("vf", "rf", "rf-patch", "rf-drift", "wf", "wf-state"):
            ck.count(f"oracle:{route}")
            oracle_batch_e2e(ck, nv, route)
    # keys that look like comparison directives but are not (shared prefix, one character off): as top-level data keys,
    # as label-style nested keys, inside lists — on every route, the API payload routes included; and the exact
    # directive names on the routes that reach no API request (there they are ordinary keys)
    near = [k for k in near_directive_keys() if in_domain_str(k)]
    near_value = {"labels": {k: "v" for k in near}, "items": [{k: i} for i, k in enumerate(near[:12])],
                  **{k: i for i, k in enumerate(near)}}
    exact_value = {"labels": {k: ["a"] for k in sorted(directive_keys())}, **{k: i for i, k in enumerate(sorted(directive_keys()))}}
    for route in ("unit", "vf", "rf", "rf-patch", "rf-drift", "wf", "wf-state"):
        ck.count(f"oracle:{route}")
        ck.count("oracle:near-directive-keys", len(near))
        oracle_batch_e2e(ck, near_value, route)
        if route not in API_ROUTES:
            oracle_batch_e2e(ck, exact_value, route)
    for route in OV_ROUTES:
        ck.count(f"oracle:{route}")
        oracle_batch_e2e(ck, [[{"a": 1}, [{k: 1 for k in near}]], [ABSENT, [{k: [k]} for k in near[:8]]], [[1], near[:6]]], route)
    # keys that spell the path of a nested chain beside them (every separator; alias of a leaf, of a map, of a prefix, two
    # groupings of one path, the alias first / last) — on every route incl. the overlay-type blocks (return, overlay,
    # create.overlay) where a written map is taken apart key by key
    for sep in dict.fromkeys(PATH_SEPARATORS):
        j = lambda *ks: sep.join(ks)
        alias_values = [
            {"p": {"q": "nested"}, j("p", "q"): "flat"},
            {j("p", "q"): 1, "p": {"q": True, "r": 2.5}},
            {"d": {"p": {"q": 1, "r": "x"}, j("p", "q"): False, j("p", "r"): [1, "two", {"k": "v"}]}},
            {j("p", "q"): {"r": "one"}, "p": {j("q", "r"): "two", "q": {"r": None}}, j("p", "q", "r"): 3},
        ]
        for av in alias_values:
            for route in ROUTES:
                if route == "rf-drift" and sep != ".":      # three reconciles × two edits per value: one separator
                    continue                                 # there (its request bodies are built as on rf-patch)
                ck.count(f"oracle:{route}")
                ck.count("oracle:path-alias-keys")
                oracle_batch_e2e(ck, av, route)
        for route in OV_ROUTES:
            ck.count(f"oracle:{route}")
            oracle_batch_e2e(ck, [[{"a": 1}, [alias_values[0]]], [ABSENT, [alias_values[3], alias_values[1]]]], route)
    n_e2e = 150 if quick_budget else 3000
    for i in range(n_e2e):
        batch = []
        for _ in range(6):
            v = gen_value(r, depth=r.choice([0, 0, 1, 2]))
            if in_domain(v):
                batch.append(v)
        used: set = set()
        composite = {gen_key(r, used): b for b in batch[:3]}
        composite["list"] = batch[3:]
        if i % 3 == 0 and isinstance(composite, dict):
            composite = add_path_alias(r, composite, times=r.choice([1, 2]))
            ck.count("oracle:composite-with-path-alias-keys")
        for route in ("vf", "rf", "rf-patch", "rf-drift", "wf", "wf-state"):
            if route == "rf-drift" and quick_budget and i % 2:
                continue
            ck.count(f"oracle:{route}")
            if in_domain(composite):
                oracle_batch_e2e(ck, composite, route)
    # written leaves (empty map / list / string among them) over bases that already hold something there
    systematic = [[[b, w] for w in EMPTIES[:4]] for b in BASES[:4]] + [[[b, {}] for b in BASES]]
    n_ov = 60 if quick_budget else 1500
    for i in range(n_ov + len(systematic)):
        slots = systematic[i] if i < len(systematic) else gen_slots(r)
        if not slots or not valid_slots(slots):
            continue
        for b, w in slots:
            ck.count("ov:written-" + ("empty-map" if w == {} and isinstance(w, dict) else "empty-list" if w == [] and isinstance(w, list)
                                      else "empty-str" if w == "" else type(w).__name__))
            ck.count("ov:base-" + ("absent" if b == ABSENT else "nonempty-map" if isinstance(b, dict) and b else
                                   "nonempty-list" if isinstance(b, list) and b else "empty" if b in ({}, [], "") else "scalar"))
        for route in OV_ROUTES:
            ck.count(f"oracle:{route}")
            oracle_batch_e2e(ck, slots, route)


BASES = [{"a": 1}, {"a": {"b": [1]}, "c": "x"}, {"": ""}, [1, 2], ["x"], "text", 7, 1.5, True, None, {}, [], "", 0, False, ABSENT]
EMPTIES = [{}, [], "", 0, False, None, 0.0]


def gen_slots(r):
    """[[base, written leaf], …] — every kind of base under every kind of written leaf, biased to the empty ones"""
    slots = []
    for _ in range(r.choice([2, 3, 4, 6])):
        base = r.choice(BASES) if r.random() < 0.8 else gen_value(r, depth=2)
        k = r.random()
        if k < 0.45:
            w = r.choice(EMPTIES)
        elif k < 0.8:
            w = gen_leaf(r)
        else:
            w = [gen_value(r, depth=1) for _ in range(r.choice([0, 1, 2]))]
        if isinstance(w, dict) and w:
            w = [w]
        if in_domain(base) and in_domain(w):
            slots.append([base, w])
    return slots


def oracle_batch_e2e(ck, v, route):
    if getattr(ck, 'found_by_search', 0) >= MAX_VIOLATIONS:
        return
    bad = judge(route, v)
    ck.evaluated()
    if bad is None:
        return

    def fails(x):
        return judge(route, x) is not None

    if route in OV_ROUTES:
        small = shrink(v, fails, valid=valid_slots)
        ck.found_by_search = getattr(ck, 'found_by_search', 0) + 1
        if _fresh(ck, route, small):
            ck.violate({"route": route, "value": to_wire(small), "expected": tcanon(want_of(route, small))},
                       judge(route, small) or bad)
        return
    small = shrink(v, fails)
    ck.found_by_search = getattr(ck, 'found_by_search', 0) + 1
    if not _fresh(ck, route, small):
        return
    ck.violate({"route": route, "value": to_wire(small), "expected": tcanon(expected(small))}, judge(route, small) or bad)


def replay(path: str) -> int:
    data = json.load(open(path))
    rc = 0
    cases = data.get("violations", [])
    if not cases and "value" in data:          # a corpus file
        cases = [{"case": {"route": rt, "value": data["value"]}} for rt in (data.get("routes") or list(ROUTES))]
    for v in cases:
        case = v["case"]
        route = case["route"]
        value = from_wire(case["value"])
        bad = judge(route, value)
        status, got = ALL_ROUTES[route](value)
        print("replay:", json.dumps({"route": route, "value": case["value"]}, ensure_ascii=True))
        print("   written :", tcanon(want_of(route, value)))
        print("   arrived :", status, tcanon(got) if status == "ok" else "")
        print("   verdict :", bad or "as written")
        rc = rc or (1 if bad else 0)
    for d in data.get("no_longer_checks", []):
        print("replay: no longer checks:", json.dumps(d, ensure_ascii=True)[:600])
        rc = rc or 1
    return rc
