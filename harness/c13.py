"""C13 — first false assertion decides the outcome; unevaluable ones fail safe.

proof:   lean/Koreo/Props/C13.lean over lean/Koreo/Predicates.lean, + Gen/PredicateTable.lean
tie:     (a) filter condition, ordered case table and control flow of predicate_helpers.py /
             evaluate_predicates regenerated from the source (harness/extractors/Predicates.py),
         (b) generated assertion lists through the real code in three ways —
               unit: predicate_extractor + evaluate_predicates (schema bypassed: unknown kinds, odd delays),
               vf:   prepare_value_function + reconcile_value_function,
               rf:   prepare_resource_function + reconcile_resource_function against harness/cluster.py
                     (lists as preconditions and as postconditions) —
             and through the compiled Lean model; compared: outcome class, the deciding predicate's
             message and delay, and the trace of evaluation sites / API requests.
oracle:  the property's clauses evaluated on what the real code did, independent of the model.
"""
from __future__ import annotations

import itertools
import json

from common import Check, Infra, LeanDriver, ddmin, rng

KINDS = ["ok", "skip", "depSkip", "retry", "permFail"]
NB = 20  # size of inputs.b

# ---- building blocks: (CEL source as written in the spec, abstract value handed to the model)

def assert_true(r, i):
    return r.choice(["=true", f"=inputs.b[{i}]", f"=!inputs.nb[{i}]", "=inputs.n > 3", '=inputs.s == "str"',
                     "=has(inputs.s)", f"=inputs.b[{i}] || false", "=1 == 1"])


def assert_false(r, i):
    return r.choice(["=false", f"=inputs.b[{i}]", f"=!inputs.nb[{i}]", "=inputs.n < 3", '=inputs.s == "other"',
                     "=has(inputs.absent)", f"=inputs.b[{i}] && true", "=1 == 2"])


NONBOOL = ['="x"', "=1", "=null", "abc", "true", "false", "1", "=inputs.s", "=inputs.n", "={}", "=[true]", '=""', "=0"]
FAILING = ["=inputs.missing", "=1/0 == 1", "=1/0", "=inputs.s + 1 == 2", '=split(inputs.s, "") == []',
           "=inputs.b[99]", "=inputs.missing.deeper == 1", "=to_ref({}) == {}"]
MSG_OK = [("not ready", "not ready"), ("waiting on x", "waiting on x"), ("m", "m"), ("=inputs.s", "str"),
          ('="a" + "b"', "ab"), ("=string(inputs.n)", "5"), ("=inputs.n", "5"), ("Resource: a/b, c.", "Resource: a/b, c."),
          ('=inputs.s + "-" + inputs.s', "str-str")]
MSG_FAIL = ["=inputs.missing", "=1/0", '="a" + 1', '=split(inputs.s, "")', "=to_ref({})"]
# delays for the schema-bypassing path: (source, abstract) — abstract = what `int(delay)` + the whole-number rule
# of the repaired retry arm (/repo 7c6f12a, F13) gives: an int, a bool (0/1), an integral float, a numeral string ⇒ that
# integer (measured on /repo b49864f: `=2.0` ⇒ 2, `=0.0 - 3.0` ⇒ -3); a fractional float or anything int() rejects ⇒
# notInt (PermFail 'Invalid retry delay')
DELAY_ODD = [("=inputs.n", "5"), ("=1/0", "failed"), ("=inputs.missing", "failed"), ('="abc"', "notInt"), ("=1.5", "notInt"),
             ("=true", "1"), ("=false", "0"), ("=2.0", "2"), ("=0.0 - 3.0", "-3"), ('="12"', "12"), ('="1.0"', "notInt"),
             ("=0 - 4", "-4"), ("=[1]", "notInt"), ("=null", "notInt"), ("={}", "notInt")]
DELAY_INT = [0, 1, 5, 7, 30, 60, 3600, -1]


def gen_pred(r, i, mode, want=None, schema=True):
    """one predicate reading inputs.b[i]; `want` forces the assertion's abstract value (t/f/nb/fail)"""
    a = want or r.choice(["t", "t", "f", "f", "f"])
    truth = None
    if a == "t":
        src = assert_true(r, i)
    elif a == "f":
        src = assert_false(r, i)
    elif a == "nb":
        src = r.choice(NONBOOL)
    else:
        src = r.choice(FAILING)
    if a in ("t", "f"):
        truth = a == "t"
    kind = r.choice(KINDS) if schema or r.random() < 0.85 else "other"
    # message
    pm = r.random()
    if mode == "clean" or pm < 0.92:
        msrc, mval = r.choice(MSG_OK)
    else:
        msrc, mval = r.choice(MSG_FAIL), None
    # delay
    dsrc, dval, has_delay = None, "0", False
    if kind == "retry":
        has_delay = True
        if schema or r.random() < 0.5 or mode == "clean":
            d = r.choice(DELAY_INT)
            dsrc, dval = d, str(d)
        else:
            dsrc, dval = r.choice(DELAY_ODD)
    elif not schema and mode != "clean" and r.random() < 0.1:
        has_delay = True
        dsrc, dval = r.choice(DELAY_ODD)
    p = {"a": a, "src": src, "k": kind, "msrc": msrc, "m": mval, "d": dval, "bi": i}
    if truth is not None:
        p["truth"] = truth
    if has_delay:
        p["dsrc"] = dsrc
    if kind == "ok" and (schema or r.random() < 0.7):
        # `ok: {}` — no message at all
        p["msrc"], p["m"] = None, ""
    if kind == "other" and r.random() < 0.5:
        p["bare"] = True            # no outcome key at all
        p["msrc"], p["m"] = None, ""
        p.pop("dsrc", None)
        p["d"] = "0"
    return p


def gen_list(r, schema=True, base=0, cap=20):
    """a list of 0-20 predicates (reading inputs.b[base…]) + the shape it was drawn from"""
    n = min(cap, r.choice([0, 1, 1, 2, 2, 3, 3, 4, 5, 6, 8, 10, 13, 16, 20]))
    shape = r.choice(["clean", "clean", "mixed", "nonbool", "failing", "alltrue", "failmsg"])
    ps = []
    for i in range(n):
        if shape == "alltrue":
            ps.append(gen_pred(r, base + i, "mixed", want="t", schema=schema))
        elif shape == "clean":
            ps.append(gen_pred(r, base + i, "clean", schema=schema))
        else:
            ps.append(gen_pred(r, base + i, "mixed", schema=schema))
    if n and shape in ("nonbool", "failing"):
        for _ in range(r.choice([1, 1, 2])):
            i = r.randrange(n)
            ps[i] = gen_pred(r, base + i, "mixed", want="nb" if shape == "nonbool" else "fail", schema=schema)
    if n and shape == "failmsg":
        i = r.randrange(n)
        ps[i]["msrc"], ps[i]["m"] = r.choice(MSG_FAIL), None
        ps[i].pop("bare", None)
        if ps[i]["k"] == "ok" and schema:
            ps[i]["k"] = "skip"
    return ps, shape


def inputs_for(*lists, variant="orig"):
    """`variant`: "orig" | "twin_b" (1/0 in place of true/false) | "twin_n" (5.0 in place of 5): inputs that are
    ==-equal (and hash-equal) in Python but of another JSON type"""
    b = [True] * NB
    for ps in lists:
        for p in ps:
            if "truth" in p:
                b[p["bi"]] = p["truth"]
    nb = [not x for x in b]
    if variant == "twin_b":
        b, nb = [int(x) for x in b], [int(x) for x in nb]
    return {"b": b, "nb": nb, "n": 5.0 if variant == "twin_n" else 5, "s": "str"}


def twin_of(ps, variant):
    """the abstract list the same predicates denote under the twin inputs"""
    if variant == "orig":
        return ps
    out = []
    for p in ps:
        q = dict(p)
        if variant == "twin_b" and ("inputs.b[" in p["src"] or "inputs.nb[" in p["src"]):
            q["a"] = "nb"           # `!1`, `1 || false`, `!0` …: not a boolean / an error: PermFail either way
            q.pop("truth", None)
        if variant == "twin_n" and p.get("msrc") in ("=inputs.n", "=string(inputs.n)") and p["m"] is not None:
            q["m"] = "5.0"
        out.append(q)
    return out


def twin_case(c, variant):
    if variant == "orig":
        return c
    c2 = dict(c)
    for k in ("ps", "pre", "post"):
        if k in c2:
            c2[k] = twin_of(c2[k], variant)
    return c2


SCHEDULES = [["orig"], ["orig"], ["orig", "twin_b"], ["twin_b", "orig"], ["orig", "twin_b", "orig"], ["orig", "twin_n"],
             ["twin_n", "orig"]]


def pack(passes):
    """[(variant, observation)] -> the first observation made with the original inputs, carrying all passes"""
    first = next(o for v, o in passes if v == "orig")
    first = dict(first)
    first["passes"] = [[v, o] for v, o in passes]
    return first


def spec_of(ps):
    """the list as it is written in a Function's spec"""
    out = []
    for p in ps:
        d = {"assert": p["src"]}
        if not p.get("bare"):
            body = {}
            if p["msrc"] is not None:
                body["message"] = p["msrc"]
            if "dsrc" in p:
                body["delay"] = p["dsrc"]
            d["warn" if p["k"] == "other" else p["k"]] = body
        out.append(d)
    return out


def wire_of(ps):
    return [{"a": p["a"], "k": p["k"], "m": p["m"], "d": p["d"]} for p in ps]


# ---- the property, computed from the abstract case alone (independent of the Lean model)

def expected(ps):
    """'continue' | ('decided', class, message, delay|None) | 'permFail' | 'unconstrained'"""
    if any(p["a"] in ("nb", "fail") for p in ps):
        return "permFail"
    false_ones = [p for p in ps if p["a"] == "f"]
    if any(p["m"] is None or p["d"] == "failed" for p in false_ones):
        return "permFail"
    if not false_ones:
        return "continue"
    p = false_ones[0]
    if p["k"] == "ok":
        return "continue"
    if p["k"] == "other":
        return "unconstrained"
    if p["k"] == "retry":
        if p["d"] == "notInt":
            return "unconstrained"
        return ("decided", "retry", p["m"], int(p["d"]))
    return ("decided", p["k"], p["m"], None)


def judge(ps, obs, where):
    """obs = {"c": class or 'continue', "m":…, "d":…, "trace":[…]}; returns a complaint or None"""
    exp = expected(ps)
    cont = obs["c"] == "continue"
    if exp == "continue":
        if not cont:
            return f"{where}: no assertion decides, yet the outcome is {obs['c']} ({obs.get('m')!r})"
    elif exp == "permFail":
        if cont or obs["c"] != "permFail":
            return f"{where}: an assertion or message is unevaluable / not a boolean, outcome {obs['c']} instead of PermFail"
    elif exp == "unconstrained":
        pass
    else:
        _, cls, msg, delay = exp
        if cont or obs["c"] != cls:
            return f"{where}: first false assertion is {cls} but the outcome is {obs['c']}"
        if obs.get("m") != msg:
            return f"{where}: message {obs.get('m')!r} is not the deciding predicate's ({msg!r})"
        if cls == "retry" and obs.get("d") != delay:
            return f"{where}: delay {obs.get('d')!r} is not the deciding predicate's ({delay})"
    return None


# ---- running the real code

class Tracer:
    """records which prepared expression celpy evaluates (third-party class patched from here)"""

    def __init__(self):
        import celpy

        self.events: list = []
        self.sites: dict[int, str] = {}
        self.cluster = None
        self._seen_api = 0
        cls = celpy.InterpretedRunner
        if not getattr(cls, "_verif_c13", False):
            orig = cls.evaluate
            tracer_ref = Tracer

            def evaluate(runner, *a, **kw):
                t = tracer_ref.current
                if t is not None:
                    t.flush_api()
                    t.events.append(t.sites.get(id(runner), "other"))
                return orig(runner, *a, **kw)

            cls.evaluate = evaluate
            cls._verif_c13 = True
        Tracer.current = self

    current = None

    def flush_api(self):
        if self.cluster is not None:
            n = len(self.cluster.log)
            self.events.extend(["api"] * (n - self._seen_api))
            self._seen_api = n

    def start(self, sites, cluster=None):
        self.events, self.sites, self.cluster, self._seen_api = [], sites, cluster, 0

    def stop(self):
        self.flush_api()
        ev = self.events
        self.events, self.sites, self.cluster = [], {}, None
        return ev


def obs_outcome(o, ku):
    c = ku.outcome_class(o)
    d = {"c": c}
    if c != "ok":
        d["m"] = o.message
        d["loc"] = o.location
    if c == "retry":
        d["d"] = o.delay
    return d


def run_unit(ps, env_mod, schedule=("orig",)):
    """predicate_extractor once, then evaluate_predicates on the same program once per entry of `schedule`"""
    celpy, ku, predicate_extractor, evaluate_predicates, annotations = env_mod
    env = celpy.Environment(annotations=annotations)
    prog = predicate_extractor(env, spec_of(ps))
    if prog is None:
        return {"c": "continue"}
    if not isinstance(prog, celpy.Runner):
        return {"c": "prepare-" + ku.outcome_class(prog), "m": prog.message}
    passes = []
    for variant in schedule:
        out = evaluate_predicates(prog, {"inputs": celpy.json_to_cel(inputs_for(ps, variant=variant))},
                                  "unit:spec.preconditions")
        passes.append((variant, {"c": "continue"} if out is None else obs_outcome(out, ku)))
    return pack(passes)


VF_BODY = {"locals": {"a": "=inputs.n + 1"}, "return": {"v": "=locals.a", "w": {"x": "=inputs.s"}}}


def run_vf(ps, tracer, has_return=True, schedule=("orig",)):
    import celpy
    import koreo_util as ku
    from koreo import result
    from koreo.value_function.prepare import prepare_value_function
    from koreo.value_function.reconcile import reconcile_value_function

    spec = {"preconditions": spec_of(ps)}
    if not ps:
        spec = {}
    if has_return:
        spec.update(VF_BODY)

    async def go():
        prepared = await prepare_value_function("f", spec)
        if not isinstance(prepared, tuple):
            return {"c": "prepare-" + ku.outcome_class(prepared), "m": prepared.message, "trace": []}
        fn = prepared[0]
        sites = {}
        if fn.preconditions:
            sites[id(fn.preconditions)] = "preconditions"
        if fn.local_values:
            sites[id(fn.local_values)] = "locals"
        if fn.return_value:
            sites[id(fn.return_value.values)] = "return"
        passes = []
        for variant in schedule:        # the same prepared Function, reconciled again
            tracer.start(sites)
            try:
                out = await reconcile_value_function("wf.spec.steps.s", fn,
                                                     celpy.json_to_cel(inputs_for(ps, variant=variant)))
            finally:
                trace = tracer.stop()
            o = obs_outcome(out, ku)
            o["trace"] = trace
            if o["c"] == "ok":
                o["v"] = ku.plain(out)
            passes.append((variant, o))
        return pack(passes)

    return ku.run(go())


RF_BASE = {
    "apiConfig": {"apiVersion": "verif.koreo.dev/v1", "kind": "Gadget", "plural": "gadgets", "name": "=inputs.s",
                  "namespace": "ns", "owned": False},
    "locals": {"a": "=inputs.n + 1"},
    "resource": {"spec": {"x": "=locals.a"}},
    "return": {"v": "=has(resource.spec) ? resource.spec.x : inputs.n"},
}
RF_OBJ = {"apiVersion": "verif.koreo.dev/v1", "kind": "Gadget", "metadata": {"name": "str", "namespace": "ns"},
          "spec": {"x": 6}}


def run_rf(pre, post, crud, tracer, lookup="notNeeded", schedule=("orig",), has_return=True):
    """`lookup`: notNeeded (apiConfig.plural given) | found | unknownKind — the two latter use a kind kr8s
    does not know, no `plural`, and a cold plural cache, so the first thing `reconcile_krm_resource` does
    after evaluating apiConfig is a discovery request (`api.lookup_kind`, logged as method LOOKUP)"""
    import copy

    import celpy
    import koreo_util as ku
    from cluster import Cluster
    from koreo.resource_function.prepare import prepare_resource_function
    from koreo.resource_function.reconcile import reconcile_resource_function

    from koreo.constants import PLURAL_LOOKUP_NEEDED

    spec = copy.deepcopy(RF_BASE)
    plural, obj = "gadgets", RF_OBJ
    if lookup != "notNeeded":
        del spec["apiConfig"]["plural"]
        spec["apiConfig"]["kind"] = "Widget"
        plural, obj = "widgets", {**RF_OBJ, "kind": "Widget"}
    if not has_return:
        del spec["return"]
    if crud == "okReadonly":
        spec["apiConfig"]["readonly"] = True
    if crud in ("deletedAbsent", "deleting"):
        spec["apiConfig"]["deleteIfExists"] = True
    if pre:
        spec["preconditions"] = spec_of(pre)
    if post:
        spec["postconditions"] = spec_of(post)
    def fresh_cluster():            # the same cluster situation for every reconcile
        cl = Cluster()
        cl.log_lookups = True
        if lookup == "unknownKind":
            cl.unknown_kinds = {"Widget"}
        if crud not in ("createRetry", "deletedAbsent"):
            cl.put("verif.koreo.dev/v1", plural, "ns", "str", obj)
        return cl

    async def go():
        ku.reset()
        prepared = await prepare_resource_function("rf", spec)
        if not isinstance(prepared, tuple):
            return {"c": "prepare-" + ku.outcome_class(prepared), "m": prepared.message, "trace": []}
        fn = prepared[0]
        sites = {}
        for runner, name in [(fn.preconditions, "preconditions"), (fn.local_values, "locals"),
                             (fn.crud_config.resource_id, "apiConfig"),
                             (getattr(fn.crud_config.resource_template, "template", None), "resource"),
                             (fn.postconditions, "postconditions"), (fn.return_value, "return")]:
            if runner:
                sites[id(runner)] = name
        api_cls = fn.crud_config.resource_api
        passes = []
        for variant in schedule:        # the same prepared Function, reconciled again
            cl = fresh_cluster()
            inp = inputs_for(pre, post, variant=variant)   # preconditions read b[0..9], postconditions b[10..19]
            if lookup != "notNeeded":
                # the kr8s class is shared between prepares and memoises the discovered plural: make it cold again
                api_cls.plural = api_cls.endpoint = PLURAL_LOOKUP_NEEDED
                ku.kind_lookup._reset()
            tracer.start(sites, cl)
            try:
                res = await reconcile_resource_function(cl, "wf.spec.steps.s", fn, ("ns", dict(ku.OWNER_REF)),
                                                        celpy.json_to_cel(inp))
            finally:
                trace = tracer.stop()
                if lookup != "notNeeded":
                    api_cls.plural = api_cls.endpoint = PLURAL_LOOKUP_NEEDED
            o = obs_outcome(res.outcome, ku)
            o["trace"] = trace
            o["mutations"] = len(cl.mutations())
            passes.append((variant, o))
        return pack(passes)

    return ku.run(go())


# ---- model answers -> the same observation shape

def model_obs(ans, body_class):
    """driver answer (decide / run) -> {"c","m","d","own"}"""
    r = ans["r"]
    if r == "continue":
        return {"c": "continue"}
    if r == "body":
        return {"c": body_class[ans["tag"]]}
    o = {"c": r}
    if "why" in ans:
        o["own"] = False
    else:
        o["own"] = True
        o["m"] = ans["m"]
    if r == "retry":
        o["d"] = int(ans["d"])
    return o


def agree(model, impl):
    """compare the property-relevant abstraction only"""
    if model["c"] != impl["c"]:
        return False
    if model.get("own"):
        if model.get("m") != impl.get("m"):
            return False
        if model["c"] == "retry" and model.get("d") != impl.get("d"):
            return False
    return True


BODY_VF = {"return": "ok", "null": "ok"}
BODY_RF = {"return": "ok", "retry": "retry", "lookupFailed": "permFail"}


class Impl:
    """the real code, and the property's clauses evaluated on what it did"""

    def __init__(self):
        import celpy
        import koreo_util as ku
        from koreo.cel.evaluation import evaluate_predicates
        from koreo.cel.functions import koreo_function_annotations
        from koreo.predicate_helpers import predicate_extractor

        self.env_mod = (celpy, ku, predicate_extractor, evaluate_predicates, koreo_function_annotations)
        self.tracer = Tracer()

    def run(self, mode, c):
        sched = c.get("schedule", ["orig"])
        if mode == "unit":
            return run_unit(c["ps"], self.env_mod, sched)
        if mode == "vf":
            return run_vf(c["ps"], self.tracer, c["ret"], sched)
        return run_rf(c["pre"], c["post"], c["crud"], self.tracer, c.get("lookup", "notNeeded"), sched,
                      c.get("ret", True))

    def safe_run(self, mode, c):
        try:
            return self.run(mode, c)
        except Exception as e:  # nothing may escape
            return {"c": "exception", "m": repr(e), "trace": []}

    @staticmethod
    def complaints(mode, c, got):
        """every reconcile of the same prepared Function, judged against what its own inputs denote"""
        passes = got.get("passes") or [["orig", got]]
        for i, (variant, o) in enumerate(passes):
            bad = Impl.complaints_one(mode, twin_case(c, variant), o)
            if bad is not None:
                if len(passes) > 1:
                    kinds = {"orig": "the original inputs", "twin_b": "1/0 in place of true/false",
                             "twin_n": "5.0 in place of 5"}
                    return f"reconcile #{i + 1} of the same prepared Function ({kinds[variant]}; schedule {[v for v, _ in passes]}): {bad}"
                return bad
        return None

    @staticmethod
    def complaints_one(mode, c, got):
        """the property's clauses on one observation; a description or None"""
        if got["c"] == "exception":
            return f"{mode}: an exception escaped: {got['m']}"
        if got["c"].startswith("prepare-"):
            return (f"{mode}: a schema-valid predicate list was rejected at prepare time: {got.get('m')}"
                    if mode != "unit" else None)
        if mode == "unit":
            return judge(c["ps"], got, "unit")
        if mode == "vf":
            # the generated body always evaluates, so the Function is Ok exactly when the preconditions continued
            body = [e for e in got["trace"] if e != "preconditions"]
            o = dict(got)
            if got["c"] == "ok":
                o["c"] = "continue"
            bad = judge(c["ps"], o, "vf")
            if bad:
                return bad
            if c["ps"] and got["trace"][:1] != ["preconditions"]:
                return f"vf: the preconditions were not evaluated first ({got['trace']})"
            if o["c"] != "continue" and body:
                return f"vf: outcome {got['c']} decided by the preconditions, yet {body} were evaluated"
            if o["c"] == "continue" and c["ret"] and body != ["locals", "return"]:
                return f"vf: preconditions continue but the body trace is {body}"
            return None
        # rf
        pre, post, trace = c["pre"], c["post"], got["trace"]
        e_pre = expected(pre)
        if pre and trace[:1] != ["preconditions"]:
            if trace[:1] == ["api"]:
                return (f"rf: the cluster was touched before the preconditions were evaluated ({trace[:3]}; "
                        f"outcome {got['c']} {got.get('m')!r})")
            return f"rf: preconditions were not the first thing evaluated ({trace[:3]})"
        after_pre = trace[1:] if pre else trace
        if e_pre == "unconstrained":
            return None
        if e_pre != "continue":
            bad = judge(pre, got, "rf preconditions")
            if bad:
                return bad
            if after_pre:
                return (f"rf: preconditions decided ({got['c']}) but {after_pre} happened afterwards "
                        f"(cluster touched: {'api' in after_pre})")
            return None
        if "locals" not in after_pre or "api" not in after_pre:
            return f"rf: preconditions continue but the function did not proceed ({trace}, outcome {got['c']} {got.get('m')!r})"
        if c.get("lookup") == "unknownKind":
            if got["c"] != "permFail" or "postconditions" in trace or "return" in trace:
                return f"rf: the kind is unknown to the cluster, yet outcome {got['c']} with trace {trace}"
            return None
        if c["crud"] in ("createRetry", "deleting"):
            if got["c"] != "retry" or "postconditions" in trace or "return" in trace:
                return f"rf: {c['crud']} path gave {got['c']} with trace {trace}"
            return None
        if post and "postconditions" not in trace:
            return f"rf: postconditions were not evaluated ({trace})"
        if "postconditions" in trace and "api" in trace[trace.index("postconditions"):]:
            return "rf: the cluster was touched after the postconditions"
        e_post = expected(post)
        ran_return = "return" in trace
        if e_post == "unconstrained":
            return None
        if e_post == "continue":
            if got["c"] != "ok" or (not ran_return and c.get("ret", True)):
                return f"rf: postconditions continue but outcome {got['c']} ({got.get('m')!r}), trace {trace}"
            return None
        bad = judge(post, got, "rf postconditions")
        if bad:
            return bad
        if ran_return:
            return f"rf: postconditions decided ({got['c']}) but `return` was evaluated"
        return None


def run(tier: str) -> int:
    ck = Check("C13", tier)
    ck.trusted = [
        "Lean 4.33.0 kernel; axioms of every theorem ⊆ {propext, Classical.choice, Quot.sound}",
        "model lean/Koreo/Predicates.lean hand-transcribed from predicate_helpers.py, evaluate_predicates and the "
        "two reconcile functions; filter text, case table and control flow regenerated from the source by "
        "harness/extractors/Predicates.py and proved equal to the model's",
        "celpy 0.3.0 as an oracle: what each assertion/message/delay evaluates to (boolean / other type / error) is "
        "fixed by construction of the generated expression; map literals keep member errors, `!` of a non-bool is "
        "an error, `filter` is an error if its condition is an error for any element (validated by the differential)",
        "differential harness/c13.py (unit, ValueFunction and ResourceFunction paths vs the compiled Lean model)",
        "harness/cluster.py in-memory API (request log)",
    ]
    ck.assumptions = [
        "a failing message of an assertion that passes is not constrained (DESIGN.md section 7); the model follows the code (ignored)",
        "unknown outcome keys and non-integer delays are only reachable with the CRD schema bypassed (unit path); "
        "the oracle leaves their outcome unconstrained, the correspondence pins it to PermFail",
        "messages are texts without quotes/backslashes/newlines and not numeral-looking (encoder defects are C11's)",
    ]
    ck.prove(extractors=["Predicates"])

    r = rng("c13")
    impl = Impl()
    drv = LeanDriver("C13")

    n_unit, n_vf, n_rf = (1500, 1100, 400) if tier == "quick" else (18000, 12000, 4000)
    cases = []  # (mode, payload)
    for _ in range(n_unit):
        ps, shape = gen_list(r, schema=False)
        cases.append(("unit", {"ps": ps, "shape": shape}))
    for _ in range(n_vf):
        ps, shape = gen_list(r, schema=True)
        cases.append(("vf", {"ps": ps, "shape": shape, "ret": r.random() < 0.85 or not ps}))
    for _ in range(n_rf):
        where = r.choice(["pre", "post", "both"])
        pre, s1 = gen_list(r, schema=True, cap=10) if where != "post" else ([], "none")
        post, s2 = gen_list(r, schema=True, base=10, cap=10) if where != "pre" else ([], "none")
        cases.append(("rf", {"pre": pre, "post": post, "shape": f"{s1}/{s2}",
                             "crud": r.choice(["okReadonly", "okMatch", "okMatch", "createRetry", "deletedAbsent", "deletedAbsent",
                                               "deleting"]),
                             "lookup": r.choice(["notNeeded", "notNeeded", "found", "found", "unknownKind"]),
                             "ret": r.random() < 0.7}))
    exhaustive = 0
    if tier == "thorough":
        # every kind assignment × truth assignment for length ≤ 4 (ValueFunction), ≤ 3 (ResourceFunction pre / post)
        for n in range(0, 5):
            for kinds in itertools.product(KINDS, repeat=n):
                for truth in itertools.product([True, False], repeat=n):
                    def mk(base):
                        return [{"a": "t" if t else "f", "src": f"=inputs.b[{base + i}]", "truth": t, "k": k, "bi": base + i,
                                 "msrc": None if k == "ok" else f"m{i}", "m": "" if k == "ok" else f"m{i}",
                                 "d": str(i + 1) if k == "retry" else "0", **({"dsrc": i + 1} if k == "retry" else {})}
                                for i, (k, t) in enumerate(zip(kinds, truth))]
                    cases.append(("vf", {"ps": mk(0), "shape": "exhaustive", "ret": True}))
                    exhaustive += 1
                    if n <= 3:
                        cases.append(("rf", {"pre": mk(0), "post": [], "shape": "exhaustive/none", "crud": "okMatch",
                                             "lookup": ["notNeeded", "found", "unknownKind"][exhaustive % 3]}))
                        cases.append(("rf", {"pre": [], "post": mk(10), "shape": "none/exhaustive",
                                             "crud": ["okMatch", "deletedAbsent", "okReadonly"][exhaustive % 3],
                                             "ret": exhaustive % 2 == 0}))
                        exhaustive += 2

    def req_of(mode, c):
        if mode == "unit":
            return {"op": "decide", "ps": wire_of(c["ps"])}
        if mode == "vf":
            return {"op": "vf", "pre": wire_of(c["ps"]), "ret": c["ret"]}
        return {"op": "rf", "pre": wire_of(c["pre"]), "post": wire_of(c["post"]), "crud": c["crud"],
                "lookup": c.get("lookup", "notNeeded"), "ret": c.get("ret", True)}

    # a share of the prepared Functions is reconciled several times, with inputs that are ==-equal in Python but of
    # another JSON type (true/1, false/0, 5/5.0), in both orders
    for mode, c in cases:
        if c["shape"].startswith("exhaustive") or "exhaustive" in c["shape"]:
            c["schedule"] = ["orig"]
        else:
            c["schedule"] = r.choice(SCHEDULES)
    reqs, req_index = [], {}
    for i, (mode, c) in enumerate(cases):
        for variant in dict.fromkeys(c["schedule"]):
            req_index[(i, variant)] = len(reqs)
            reqs.append(req_of(mode, twin_case(c, variant)))
    try:
        answers = drv.ask(reqs)
    except Infra as e:
        if ck.build_ok:
            raise
        answers = [None] * len(reqs)
        ck.notes.append(f"model driver unavailable: {e}")

    for i, (mode, c) in enumerate(cases):
        ck.evaluated()
        got = impl.safe_run(mode, c)
        ck.count(f"schedule:{'+'.join(c['schedule'])}")
        lists = [c["ps"]] if "ps" in c else [c["pre"], c["post"]]
        for ps in lists:
            ck.count(f"len:{len(ps)}")
            for p in ps:
                ck.count(f"assert:{p['a']}")
                ck.count(f"kind:{p['k']}")
                if p["m"] is None:
                    ck.count("message:failing")
                if p["d"] in ("failed", "notInt"):
                    ck.count(f"delay:{p['d']}")
        ck.count(f"mode:{mode}")
        if mode == "rf":
            ck.count(f"plural-lookup:{c.get('lookup', 'notNeeded')}")
            ck.count(f"rf-return:{'yes' if c.get('ret', True) else 'none'}")
        ck.count(f"shape:{c['shape']}")
        ck.count(f"outcome:{got['c']}")
        nfalse = sum(1 for ps in lists for p in ps if p["a"] == "f")
        if nfalse >= 2 or any(p["a"] in ("nb", "fail") for ps in lists for p in ps):
            ck.nontriv(json.dumps([mode, [wire_of(ps) for ps in lists], c.get("crud"), c.get("ret")], sort_keys=True))
        if 2 <= sum(len(ps) for ps in lists) <= 4:
            ck.sample({"mode": mode, "spec": [spec_of(ps) for ps in lists],
                       "impl": {k: v for k, v in got.items() if k != "loc"}}, limit=6)

        bad = impl.complaints(mode, c, got)
        if bad is not None:
            small = dict(c)
            if len(ck.violations) < 5:      # shrink the first few only
                for key in ("ps", "pre", "post"):
                    if key in small and len(small[key]) > 1:
                        def fails(sub, mode=mode, key=key):
                            c2 = dict(small)
                            c2[key] = sub
                            return impl.complaints(mode, c2, impl.safe_run(mode, c2)) is not None
                        small[key] = ddmin(small[key], fails)
            got_small = impl.safe_run(mode, small)
            ck.violate({"mode": mode, "case": small,
                        "spec": {k: spec_of(small[k]) for k in ("ps", "pre", "post") if k in small},
                        "inputs": inputs_for(*[small[k] for k in ("ps", "pre", "post") if k in small]),
                        "impl": got_small},
                       impl.complaints(mode, small, got_small) or bad)

        if got["c"].startswith("prepare-") or got["c"] == "exception":
            continue
        for k, (variant, o) in enumerate(got.get("passes") or [["orig", got]]):
            ans = answers[req_index[(i, variant)]]
            if ans is None:
                continue
            if "error" in ans:
                raise Infra(f"driver rejected a request: {ans['error']}")
            cv = twin_case(c, variant)
            label = f"reconcile #{k + 1} ({variant}) " if len(c["schedule"]) > 1 else ""
            if mode == "unit":
                m = model_obs(ans, {})
                if not agree(m, o):
                    ck.disagree({"mode": mode, "ps": wire_of(cv["ps"]), "spec": spec_of(cv["ps"]), "schedule": c["schedule"]},
                                m, o, label + "decide-observables")
            else:
                m = model_obs(ans["out"], BODY_VF if mode == "vf" else BODY_RF)
                mt, it = ans["trace"], o["trace"]
                if not cv.get("ps", cv.get("pre")):
                    mt = [e for e in mt if e != "preconditions"]   # an empty list is compiled to "no program"
                if mode == "rf" and not cv["post"]:
                    mt = [e for e in mt if e != "postconditions"]
                if not agree(m, o) or mt != it:
                    ck.disagree({"mode": mode, "schedule": c["schedule"],
                                 "case": {kk: (wire_of(v) if kk in ("ps", "pre", "post") else v) for kk, v in cv.items()},
                                 "spec": {kk: spec_of(cv[kk]) for kk in ("ps", "pre", "post") if kk in cv}},
                                {"out": m, "trace": mt}, {"out": o, "trace": it}, label + "function-outcome-and-trace")

    if tier == "thorough":
        ck.cov["exhaustive"] = True
        ck.cov["exhaustive_cases"] = exhaustive
        ck.leanchecker()
    return ck.finish(
        rule="generated lists of 0-20 predicates (kinds ok/skip/depSkip/retry/permFail [+unknown on the unit path], "
             "assertions true/false by literal, by inputs.b[i] and by comparisons, non-boolean and failing assertions at "
             "random positions, failing messages/delays) through predicate_extractor+evaluate_predicates, through "
             "prepare/reconcile_value_function and through prepare/reconcile_resource_function (pre- and postconditions, "
             "three cluster situations); thorough adds every kind × truth assignment for length ≤ 4 (VF) and ≤ 3 (RF pre, "
             "RF post). non-trivial = at least two false assertions, or a non-boolean/failing assertion present; "
             "distinct by mode + abstract list(s)",
    )


def replay(path: str) -> int:
    data = json.load(open(path))
    impl = Impl()
    rc = 0
    for v in data.get("violations", []):
        mode, c = v["case"]["mode"], v["case"]["case"]
        got = impl.safe_run(mode, c)
        bad = impl.complaints(mode, c, got)
        print("replay:", json.dumps(v["case"].get("spec")), "->", json.dumps(got, default=str), "::", bad)
        rc = rc or (1 if bad else 0)
    return rc
