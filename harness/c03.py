"""C03 — outcome aggregation: severity-maximal, order-insensitive, lossless.

proof:   lean/Koreo/Props/C03.lean over lean/Koreo/Result.lean, + Gen/ResultTable.lean
tie:     (a) dispatch table / separator / delay operator regenerated from result.py,
         (b) differential  koreo.result.combine / unwrapped_combine  vs  the Lean model
oracle:  the property's own clauses evaluated on the implementation's answers
"""
from __future__ import annotations

import json

from common import Check, LeanDriver, canon, ddmin, rng, to_wire

RANK = {"depSkip": 0, "skip": 1, "ok": 2, "retry": 3, "permFail": 4}
MSGS = [None, "", "a", "b", "boom", "x, y", " ", "é", "0"]
LOCS = [None, "", "l1", "l2", "spec.steps[0]"]
VALS = [None, True, False, 0, 1, -7, 2**70, 1.5, "", "s", [], [1, [2]], {}, {"k": 1}, {"a": {"b": [None]}}]


def gen_outcome(r, classes=None):
    c = r.choice(classes or ["depSkip", "skip", "ok", "retry", "permFail"])
    o = {"c": c}
    if c == "ok":
        o["v"] = r.choice(VALS)
        o["l"] = r.choice(LOCS)
    else:
        o["m"] = r.choice(MSGS)
        o["l"] = r.choice(LOCS)
        if c == "retry":
            o["d"] = r.choice([0, 0, 1, 5, 5, 30, 60, 61, 3600, -1])
    return o


def gen_seq(r):
    n = r.choice([0, 1, 1, 2, 2, 3, 3, 4, 5, 6, 8, 12])
    mode = r.random()
    if mode < 0.25:
        cls = r.sample(["depSkip", "skip", "ok", "retry", "permFail"], r.randint(1, 3))
    else:
        cls = None
    return [gen_outcome(r, cls) for _ in range(n)]


WORDS = ["region", "is", "not", "allowed", "by", "the", "organisation", "policy", "waiting", "for", "instance",
         "to", "become", "ready", "quota", "exceeded", "in", "zone", "Æther", "naïve", "x, y", "timeout", "429",
         "admission", "webhook", "denied", "request", ":", "spec.replicas", "must", "be", ">=", "1"]


def long_message(r, stem, i, size):
    """a distinct, realistic message of roughly `size` characters (item name first, as a per-item failure reads)"""
    text = f"{stem}-{i:03d}:"
    while len(text) < size:
        text += " " + r.choice(WORDS)
    return text


def gen_long_seq(r):
    """The 'many / long messages' dimension: what a forEach over dozens of items, or a few server / CEL error
    texts, hands to combine.  Up to 100 outcomes, messages from a few to ~900 characters, mostly several
    outcomes of one error class (the class whose messages must all be kept) among outcomes of other classes."""
    n = r.choice([2, 3, 5, 8, 16, 24, 40, 64, 100])
    style = r.choice(["short", "medium", "medium", "long", "mixed"])
    sizes = {"short": (4, 14), "medium": (40, 90), "long": (200, 900), "mixed": (4, 900)}[style]
    top = r.choice(["retry", "permFail", "permFail", None])
    seq = []
    for i in range(n):
        if top is not None and r.random() < 0.7:
            c = top
        else:
            c = r.choice(["depSkip", "skip", "ok", "retry", "permFail"])
        o = {"c": c, "l": r.choice(LOCS + [f"step[{i}]"])}
        if c == "ok":
            o["v"] = r.choice(VALS)
        else:
            o["m"] = r.choice(MSGS) if r.random() < 0.1 else long_message(r, c, i, r.randint(*sizes))
            if c == "retry":
                o["d"] = r.choice([0, 1, 5, 30, 60, 61, 3600]) + r.randint(0, 3)
        seq.append(o)
    return seq


def size_bucket(n):
    for b in (16, 64, 256, 1024, 4096, 16384):
        if n <= b:
            return f"<={b}"
    return ">16384"


def to_impl(o, result):
    c = o["c"]
    if c == "ok":
        return result.Ok(o["v"], location=o["l"])
    if c == "retry":
        return result.Retry(delay=o["d"], message=o["m"], location=o["l"])
    return {"depSkip": result.DepSkip, "skip": result.Skip, "permFail": result.PermFail}[c](
        message=o["m"], location=o["l"])


def obs_of_impl(x, result, unwrapped=False):
    """canonical observation of an implementation answer"""
    if isinstance(x, result.DepSkip):
        return {"c": "depSkip", "m": x.message, "l": x.location}
    if isinstance(x, result.Skip):
        return {"c": "skip", "m": x.message, "l": x.location}
    if isinstance(x, result.PermFail):
        return {"c": "permFail", "m": x.message, "l": x.location}
    if isinstance(x, result.Retry):
        return {"c": "retry", "d": str(x.delay), "m": x.message, "l": x.location}
    if isinstance(x, result.Ok):
        return {"c": "ok", "v": to_wire(x.data), "l": x.location}
    if unwrapped:
        return {"c": "ok", "v": to_wire(x), "l": None}
    return {"c": "??", "repr": repr(x)}


def to_req(o):
    w = {"c": o["c"], "l": o.get("l")}
    if o["c"] == "ok":
        w["v"] = to_wire(o["v"])
    else:
        w["m"] = o.get("m")
    if o["c"] == "retry":
        w["d"] = str(o["d"])
    return w


def impl_combine(seq, result):
    return obs_of_impl(result.combine([to_impl(o, result) for o in seq]), result)


def safe_obs(x, result, unwrapped=False):
    try:
        return obs_of_impl(x, result, unwrapped)
    except Exception as e:  # e.g. an internal wrapper object where a JSON value should be
        return {"c": "??", "repr": repr(e)}


def reuse_problem(kind, seq, perm_idx, result):
    """Aggregate the SAME outcome objects several times (sequence, a permutation, sequence again):
    the inputs must not be modified and the answers must not depend on earlier aggregations."""
    unwrapped = kind == "unwrapped"
    objs = [o["v"] if (unwrapped and o["c"] == "ok") else to_impl(o, result) for o in seq]
    fn = result.unwrapped_combine if unwrapped else result.combine
    before = [safe_obs(x, result, unwrapped) for x in objs]
    first = safe_obs(fn(list(objs)), result, unwrapped)
    safe_obs(fn([objs[i] for i in perm_idx]), result, unwrapped)
    again = safe_obs(fn(list(objs)), result, unwrapped)
    fresh = impl_unwrapped(seq, result) if unwrapped else impl_combine(seq, result)
    after = [safe_obs(x, result, unwrapped) for x in objs]
    if before != after:
        return "combining modified its input outcomes"
    if first != again or first != fresh:
        return "aggregating the same outcomes again gives a different answer"
    return None


def impl_unwrapped(seq, result):
    xs = [o["v"] if o["c"] == "ok" else to_impl(o, result) for o in seq]
    return obs_of_impl(result.unwrapped_combine(xs), result, unwrapped=True)


def truthy_join(ms):
    return ", ".join(m for m in ms if m)


def oracle(seq, got, unwrapped=False):
    """the property's clauses, independent of the model; returns a description or None"""
    if not seq:
        return None if got["c"] == "skip" else f"empty sequence gave {got['c']}"
    top = max(seq, key=lambda o: RANK[o["c"]])["c"]
    if got["c"] != top:
        return f"class {got['c']} but most severe present is {top}"
    winners = [o for o in seq if o["c"] == top]
    if top == "ok":
        want = [to_wire(o["v"]) for o in winners]
        if got["v"] != want:
            return "Ok values are not the sequence's Ok values in order"
    if top == "retry":
        if int(got["d"]) != max(o["d"] for o in winners):
            return f"delay {got['d']} is not the longest Retry delay"
    if top in ("retry", "permFail"):
        want = winners[0]["m"] if len(winners) == 1 else truthy_join(o["m"] for o in winners)
        if got["m"] != want:
            return f"message {got['m']!r} does not keep every message of the winning class ({want!r})"
    return None


def workflow_clause(ck, r, tier):
    """'A Workflow reports Ok only if none of its steps is waiting or failed' on the real
    reconcile_workflow: generated workflows (harness/gen_wf.py) against the in-memory cluster, a
    fault-free pass plus every API-call index as a crash point; every condition the pass emits
    names a step's (or the workflow's) outcome, so overall Ok with a Wait/Failure condition, or
    an overall class that is not the most severe condition class, is a violation."""
    import gen_wf
    import wf_run

    n = 14 if tier == "quick" else 150
    rank = {"depSkip": 0, "skip": 1, "ok": 2, "retry": 3, "permFail": 4}
    done = 0
    for attempt in range(n * 12):
        if done >= n:
            break
        # every third workflow is forEach-heavy with creating ResourceFunctions (items aggregate inside a step)
        if attempt % 3 == 2:
            case = gen_wf.gen_case(r, rf_prob=0.95, p_ok=1.0, err=0.0, subs=False, p_foreach=0.85, p_skipif=0.0,
                                   p_switch=0.0, n=r.choice([1, 2, 3]))
        else:
            case = gen_wf.gen_case(r, rf_prob=0.7)
        prep = wf_run.prepare_case(case)
        if prep.problems:
            continue
        base = wf_run.run_prepared(prep)
        if not base.get("log"):
            continue
        # a call whose exception is not handled inside the Function (PATCH / DELETE) crashes the step's task:
        # make sure most workflows contain one
        if not any(m in ("PATCH", "DELETE") for m, _ in base["log"]) and attempt % 4:
            continue
        done += 1
        passes = [(None, base)]
        for i in range(len(base["log"])):
            for kind in ("raise-before", "raise-after"):
                passes.append(({str(i): kind}, wf_run.run_prepared(prep, faults={i: kind})))
            # the same crash, but late: every other step has finished by then (nothing left to cancel)
            late = (lambda j, m, k, i=i: 3.0 if j == i else 0.0)
            passes.append(({str(i): "raise-before", "late": True},
                           wf_run.run_prepared(prep, faults={i: "raise-before"}, extra_latency=late)))
        # two faults in one pass: a create answered 500 (PermFail by the Function's own contract) while
        # another resource's call never answers (cancelled at the step time-out => Retry): PermFail is
        # the most severe outcome present, also when both sit in one forEach step
        posts = [i for i, (m, _) in enumerate(base["log"]) if m == "POST"]
        pairs = [(i, j) for i in posts for j in range(len(base["log"]))
                 if j != i and base["log"][j][1] != base["log"][i][1]]
        r.shuffle(pairs)
        for i, j in pairs[: (6 if tier == "quick" else 16)]:
            obs2 = wf_run.run_prepared(prep, faults={i: 500, j: "hang"})
            hit = {(e["method"], e["fault"]) for e in obs2["cluster"].log if e.get("fault") is not None}
            ck.evaluated()
            ck.count("workflow-pass:two-faults")
            if ("POST", 500) in hit and any(f == "hang" for _, f in hit) and not obs2.get("raised") \
                    and "overall" in obs2:
                ck.nontriv(json.dumps(["wf2", gen_wf.to_req(case), i, j], sort_keys=True, default=str))
                if obs2["overall"]["c"] != "permFail":
                    ck.violate({"workflow": gen_wf.to_req(case), "faults": {str(i): 500, str(j): "hang"},
                                "overall": obs2["overall"], "conditions": obs2["conditions"]},
                               "a create failed permanently (HTTP 500) in this pass but the Workflow's outcome is "
                               f"{obs2['overall']['c']}, not the most severe outcome present")
        for faults, obs in passes:
            ck.evaluated()
            ck.count("workflow-pass:" + ("faulty" if faults else "clean"))
            if obs.get("raised") or "overall" not in obs:
                continue  # an escaping exception is C09's subject
            classes = [wf_run.REASON_CLASS.get(c[1]) for c in obs["conditions"]]
            worst = [c for c in classes if c in ("retry", "permFail")]
            if worst:
                ck.nontriv(json.dumps(["wf", gen_wf.to_req(case), faults], sort_keys=True, default=str))
            overall = obs["overall"]["c"]
            if overall == "ok" and worst:
                ck.violate({"workflow": gen_wf.to_req(case), "faults": faults, "conditions": obs["conditions"]},
                           "the Workflow reports Ok although a step is waiting or failed")
            elif worst and rank.get(overall, 9) < max(rank[c] for c in worst):
                ck.violate({"workflow": gen_wf.to_req(case), "faults": faults, "conditions": obs["conditions"],
                            "overall": overall},
                           "the Workflow's outcome is less severe than one of its steps' outcomes")


def foreach_clause(ck, r, tier):
    """Aggregation inside a forEach step under a time-out: the items' outcomes are combined like any
    other sequence.  A forEach over a creating ResourceFunction (one object per item); in one pass one
    item's create is answered 500 (PermFail) while another item's call never answers (cancelled at
    the step time-out => Retry).  The most severe outcome present is PermFail."""
    import asyncio
    import celpy
    import koreo_util as ku
    from cluster import Cluster
    from vloop import VirtualLoop
    from koreo.workflow.reconcile import reconcile_workflow

    n = 6 if tier == "quick" else 60
    for _ in range(n):
        k = r.randint(2, 5)
        items = [f"it{i}" for i in range(k)]
        perm_item, hang_item = r.sample(items, 2)
        hang_method = r.choice(["GET", "POST"])
        extra_step = r.random() < 0.5

        async def prepare():
            ku.reset()
            await ku.offer_resource_function("make-obj", {
                "apiConfig": {"apiVersion": "agg.test/v1", "kind": "AggObj", "plural": "aggobjs",
                              "name": "=inputs.name", "namespace": "ns"},
                "resource": {"spec": {"v": "=inputs.name"}},
                "return": {"name": "=inputs.name"}})
            await ku.offer_value_function("plain", {"return": {"x": 1}})
            steps = [{"label": "fan-out", "ref": {"kind": "ResourceFunction", "name": "make-obj"},
                      "forEach": {"itemIn": "=" + json.dumps(items), "inputKey": "name"},
                      "condition": {"type": "FanOut", "name": "fan out"}}]
            if extra_step:
                steps.insert(0, {"label": "first-step", "ref": {"kind": "ValueFunction", "name": "plain"}})
            return await ku.offer_workflow("agg-foreach", {"steps": steps})

        wf = ku.run(prepare())
        cl = Cluster()

        def fault_for(i, method, key):
            return None

        class C(Cluster):
            async def _begin(self, method, key, namespace, body):
                name = key[3]
                idx = self.calls
                if method == "POST" and name == perm_item:
                    self.faults[idx] = 500
                elif name == hang_item and method == hang_method:
                    self.faults[idx] = "hang"
                return await super()._begin(method, key, namespace, body)

        cl = C()
        loop = VirtualLoop()
        try:
            asyncio.set_event_loop(loop)
            res = loop.run_until_complete(reconcile_workflow(
                api=cl, workflow_key="agg-foreach", owner=("ns", dict(ku.OWNER_REF)),
                trigger=celpy.json_to_cel({}), workflow=wf))
        except BaseException as e:  # escaping exceptions are C09's subject
            ck.count("foreach-timeout:raised")
            continue
        finally:
            try:
                for t in asyncio.all_tasks(loop):
                    t.cancel()
                loop.run_until_complete(asyncio.sleep(0))
            except BaseException:
                pass
            asyncio.set_event_loop(None)
            loop.close()
        ck.evaluated()
        ck.count("foreach-timeout-pass")
        hit = {(e["method"], e["fault"]) for e in cl.log if e.get("fault") is not None}
        if ("POST", 500) not in hit or not any(f == "hang" for _, f in hit):
            continue
        overall = ku.outcome_class(res.result)
        case = {"items": items, "permanently_failing_item": perm_item, "hanging_item": hang_item,
                "hanging_call": hang_method, "extra_step": extra_step, "overall": ku.outcome_obs(res.result)}
        ck.nontriv(json.dumps(["foreach-timeout", items, perm_item, hang_item, hang_method, extra_step]))
        if overall != "permFail":
            ck.violate(case, f"an item of the forEach step failed permanently (create answered 500) but the Workflow's "
                             f"outcome is {overall}: the items' outcomes were not combined to the most severe one")


def foreach_items_clause(ck, r, tier):
    """Aggregation of the iterations of a forEach step: each item decides its own outcome (a ValueFunction
    whose preconditions turn the item into Ok / Skip / Retry(delay, message) / PermFail(message)); the
    step's — and, with one step, the Workflow's — outcome must be the combination of the items' ERROR
    outcomes: PermFail if an item failed, else Retry with the longest delay if an item waits (every message
    of the winning class kept), else Ok (the list of per-item values); the same class/delay for the items
    in any order."""
    import celpy
    import koreo_util as ku
    from cluster import Cluster
    from koreo.workflow.reconcile import reconcile_workflow

    delays = [5, 15, 30, 45, 180, 600]
    vf = {
        "preconditions": [   # the schema wants a literal integer delay: one assertion per delay value
            {"assert": f"=!(inputs.item.kind == 'retry' && inputs.item.delay == {d})",
             "retry": {"message": "=inputs.item.msg", "delay": d}} for d in delays
        ] + [
            {"assert": "=inputs.item.kind != 'perm'", "permFail": {"message": "=inputs.item.msg"}},
            {"assert": "=inputs.item.kind != 'skip'", "skip": {"message": "=inputs.item.msg"}},
        ],
        "return": {"seen": "=inputs.item.msg"},
    }

    def gen_items():
        k = r.randint(2, 6)
        items = []
        for i in range(k):
            kind = r.choice(["ok", "ok", "skip", "retry", "retry", "retry", "perm", "perm"])
            items.append({"kind": kind, "msg": f"m{i}-{kind}", "delay": r.choice(delays)})
        if r.random() < 0.5:     # same class several times: what "lossless" and "longest delay" are about
            top = r.choice(["retry", "perm"])
            for it in r.sample(items, min(len(items), r.randint(2, 3))):
                it["kind"] = top
                it["msg"] = it["msg"].split("-")[0] + "-" + top
            if top == "retry":
                items = [it for it in items if it["kind"] != "perm"]
        return items

    async def one_pass(items):
        ku.reset()
        await ku.offer_value_function("per-item", vf)
        wf = await ku.offer_workflow("agg-items", {"steps": [
            {"label": "fan", "ref": {"kind": "ValueFunction", "name": "per-item"},
             "forEach": {"itemIn": "=" + json.dumps(items), "inputKey": "item"}}]})
        res = await reconcile_workflow(api=Cluster(), workflow_key="agg-items", owner=("ns", dict(ku.OWNER_REF)),
                                       trigger=celpy.json_to_cel({}), workflow=wf)
        return ku.outcome_obs(res.result)

    def gen_many_items(rb):
        """a forEach over dozens of items, most of them waiting / failed with a sentence-long message of their
        own (every message starts with the item's name and ends with its number: none is part of another)"""
        k = rb.randint(12, 48)
        top = rb.choice(["retry", "perm"])
        size = rb.choice([(20, 40), (50, 90), (50, 90), (120, 300)])
        items = []
        for i in range(k):
            kind = top if rb.random() < 0.8 else rb.choice(["ok", "skip", "retry"] + (["perm"] if top == "perm" else []))
            items.append({"kind": kind, "delay": rb.choice(delays),
                          "msg": long_message(rb, f"item-{kind}", i, rb.randint(*size)) + f" (#{i:03d})"})
        return items

    n = 40 if tier == "quick" else 800
    n_many = 6 if tier == "quick" else 80
    rb = rng("c03-foreach-many")
    shrunk = []
    rank = {"ok": 2, "skip": 1, "depSkip": 0, "retry": 3, "perm": 4}
    cls_name = {"perm": "permFail"}
    for round_no in range(n + n_many):
        many = round_no >= n
        items = gen_many_items(rb) if many else gen_items()
        if len(items) < 2:
            continue
        if many:
            ck.count("foreach-items-pass:dozens-of-items")
        shuffled = list(items)
        (rb if many else r).shuffle(shuffled)
        try:
            got = ku.run(one_pass(items))
            got_p = ku.run(one_pass(shuffled))
        except BaseException as e:   # escaping exceptions are C09's subject
            ck.count("foreach-items:raised")
            continue
        ck.evaluated()
        ck.count("foreach-items-pass")
        top = max(items, key=lambda it: rank[it["kind"]])["kind"]
        winners = [it for it in items if it["kind"] == top]
        if len(winners) > 1 or len({it["kind"] for it in items}) > 1:
            ck.nontriv(json.dumps(["foreach-items", items], sort_keys=True))
        # the forEach aggregation is an ERROR combination (reconcile.py: only Retry / PermFail items are combined);
        # when no item is waiting or failed the step is Ok with the list of per-item values (a skipped item is a
        # value in that list), so the expected class is Ok then
        want = cls_name.get(top, top) if top in ("retry", "perm") else "ok"
        case = {"items": items, "workflow_outcome": got, "workflow_outcome_items_shuffled": got_p}
        bad = None
        if got["c"] != want:
            bad = f"the most severe item outcome is {want} but the forEach step / Workflow reports {got['c']}"
        elif top == "retry" and got.get("delay") != max(it["delay"] for it in winners):
            bad = (f"Retry delay {got.get('delay')} is not the longest delay among the waiting items "
                   f"({max(it['delay'] for it in winners)})")
        elif top in ("retry", "perm") and any(it["msg"] not in (got.get("msg") or "") for it in winners):
            bad = "the message of an item of the winning class is missing from the combined outcome"
        elif got_p["c"] != got["c"] or got_p.get("delay") != got.get("delay"):
            bad = "class / delay of the combined outcome depends on the order of the items"
        elif top in ("retry", "perm") and any(it["msg"] not in (got_p.get("msg") or "") for it in winners):
            bad = ("with the items in another order the message of an item of the winning class is missing from "
                   "the combined outcome")
        if bad and many and not shrunk:
            shrunk.append(1)   # one shrunk witness is enough (each probe is two reconciliations)
            # shrink: the fewest items (order kept) for which a winning-class message is still lost
            def lost(sub):
                tops = [it for it in sub if it["kind"] == top]
                o = ku.run(one_pass(sub))
                return o["c"] != want or any(it["msg"] not in (o.get("msg") or "") for it in tops)
            src = items if lost(items) else shuffled
            if lost(src):
                small = ddmin(src, lost)
                case = {"items": small, "workflow_outcome": ku.run(one_pass(small))}
        if bad:
            ck.violate(case, bad)


def prepare_clause(ck, r, tier):
    """The aggregation sites at prepare time (workflow/prepare.py: refSwitch cases, steps): the readiness
    of a refSwitch with several cases, and of a Workflow with several steps, must be the combination of
    the individual readiness outcomes — most severe class, longest Retry delay, every message of the
    winning class, whatever the order of cases/steps.  Individual outcomes are measured by preparing
    each case/step alone through the real prepare_workflow."""
    import celpy
    import koreo_util as ku
    from cluster import Cluster
    from koreo import result
    from koreo.workflow.prepare import prepare_workflow
    from koreo.workflow.reconcile import reconcile_workflow

    pool = [
        {"kind": "ValueFunction", "name": "good-vf"},
        {"kind": "ValueFunction", "name": "missing-vf"},
        {"kind": "ValueFunction", "name": "broken-vf"},
        {"kind": "ResourceFunction", "name": "missing-rf"},
        {"kind": "ResourceFunction", "name": "broken-rf"},
        {"kind": "Workflow", "name": "missing-wf"},
        {"kind": "ValueFunction", "name": "other-good-vf"},
    ]

    def ready_obs(res):
        if not isinstance(res, tuple):
            return {"prepare": ku.outcome_obs(res)}
        sr = res[0].steps_ready
        if isinstance(sr, result.Ok) or ku.outcome_class(sr) == "ok":
            return {"c": "ok"}
        o = ku.outcome_obs(sr)
        return {"c": o["c"], "d": o.get("delay"), "m": o.get("msg") or ""}

    async def body():
        ku.reset()
        await ku.offer_value_function("good-vf", {"return": {"a": 1}})
        await ku.offer_value_function("other-good-vf", {"return": {"b": 2}})
        await ku.offer_value_function("broken-vf", {"return": {"a": "=1 +"}})
        await ku.offer_resource_function("broken-rf", {"apiConfig": {"apiVersion": "v1", "kind": "ConfigMap",
                                                                       "name": "=1 +", "namespace": "ns"}})
        n = 40 if tier == "quick" else 600
        for _ in range(n):
            k = r.randint(2, 5)
            refs = [r.choice(pool) for _ in range(k)]
            mode = r.choice(["switch", "steps"])

            # in "steps" mode some steps do not prepare at all (unparsable switchOn => PermFail ErrorStep) and
            # labels may repeat (each repeat is itself a PermFail ErrorStep): every one of them must be kept
            broken = [mode == "steps" and r.random() < 0.3 for _ in refs]
            labels = [f"step-{i}" for i in range(k)]
            if mode == "steps" and r.random() < 0.4:
                j = r.randrange(1, k)
                labels[j] = labels[r.randrange(0, j)]

            def step_for(i, ref, label):
                if broken[i]:
                    return {"label": label, "refSwitch": {"switchOn": f"=parent.kind + (unbalanced {i}",
                                                          "cases": [{"case": "x", **ref}]}}
                return {"label": label, "ref": ref}

            def spec_for(rs, single=None):
                if mode == "switch":
                    cases = [{"case": f"c{i}", **ref} for i, ref in enumerate(rs)]
                    return {"steps": [{"label": "sw-step", "refSwitch": {"switchOn": "=parent.kind", "cases": cases}}]}
                if single is not None:
                    return {"steps": [step_for(single, rs[0], f"step-{single}")]}
                return {"steps": [step_for(i, refs[i], labels[i]) for i in (range(k) if rs is refs else perm_idx)]}

            perm_idx = list(range(k))
            r.shuffle(perm_idx)
            if mode == "switch":
                singles = [ready_obs(await prepare_workflow("agg-wf", spec_for([ref]))) for ref in refs]
                combined_res = await prepare_workflow("agg-wf", spec_for(refs))
                combined = ready_obs(combined_res)
                combined_p = ready_obs(await prepare_workflow("agg-wf", spec_for([refs[i] for i in perm_idx])))
            else:
                singles = [ready_obs(await prepare_workflow("agg-wf", spec_for([ref], single=i)))
                           for i, ref in enumerate(refs)]
                combined_res = await prepare_workflow("agg-wf", spec_for(refs))
                combined = ready_obs(combined_res)
                combined_p = combined if len(set(labels)) < k else \
                    ready_obs(await prepare_workflow("agg-wf", spec_for(None)))
                # a step whose label repeats an earlier one is not prepared at all: its outcome is the
                # duplicate-label PermFail, not whatever the step alone would give
                singles = [({"c": "permFail", "m": "Duplicate step-label"} if labels[i] in labels[:i] else singles[i])
                           for i in range(k)]
            ck.evaluated()
            ck.count(f"prepare-aggregation:{mode}")
            if any("prepare" in x for x in singles + [combined, combined_p]):
                continue  # the definition itself was rejected: not an aggregation
            rank = {"ok": 2, "skip": 1, "depSkip": 0, "retry": 3, "permFail": 4}
            top = max(singles, key=lambda x: rank[x["c"]])["c"]
            winners = [x for x in singles if x["c"] == top]
            if len({x["c"] for x in singles}) > 1 or len(winners) > 1:
                ck.nontriv(json.dumps(["prep", mode, refs], sort_keys=True))
            case = {"mode": mode, "refs": refs, "labels": labels, "broken": broken, "singles": singles,
                    "combined": combined}
            bad = None
            if combined["c"] != top:
                bad = f"readiness class {combined['c']} but the most severe individual readiness is {top}"
            elif top == "retry" and combined.get("d") != max(x["d"] for x in winners):
                bad = f"readiness delay {combined.get('d')} is not the longest individual delay"
            elif top in ("retry", "permFail") and any(x["m"] and x["m"] not in combined["m"] for x in winners):
                bad = "a message of the winning class is missing from the combined readiness"
            elif combined_p["c"] != combined["c"] or combined_p.get("d") != combined.get("d"):
                bad = "readiness class/delay depends on the order of cases/steps"
            if bad:
                ck.violate(case, bad)
                continue
            # the gate in reconcile_workflow hands the combined readiness on (only the location is prefixed):
            # class, delay and every message must survive it
            if combined["c"] != "ok" and isinstance(combined_res, tuple):
                gate = await reconcile_workflow(api=Cluster(), workflow_key="agg-wf", owner=("ns", dict(ku.OWNER_REF)),
                                                trigger=celpy.json_to_cel({}), workflow=combined_res[0])
                g = ku.outcome_obs(gate.result)
                ck.count("prepare-aggregation:gate")
                bad = None
                if g["c"] != combined["c"]:
                    bad = f"a Workflow whose readiness is {combined['c']} is reconciled to {g['c']}"
                elif combined["c"] == "retry" and g.get("delay") != combined.get("d"):
                    bad = (f"the Workflow's readiness is Retry with delay {combined.get('d')} but reconciling it "
                           f"reports delay {g.get('delay')}")
                elif any(x["m"] and x["m"] not in (g.get("msg") or "") for x in winners):
                    bad = "a message of the winning class is missing from the outcome of reconciling the not-ready Workflow"
                if bad:
                    ck.violate({**case, "reconciled": g}, bad)

    ku.run(body())


def replay_corpus(ck, result):
    """corpus/C03/*.json: {"cases": [{"op": "combine" | "unwrapped", "seq": [outcome, ...]}]} — the oracle's clauses
    on each sequence and on its reverse"""
    from common import VERIF
    for f in sorted((VERIF / "corpus" / "C03").glob("*.json")):
        for case in json.load(open(f)).get("cases", []):
            kind, seq = case["op"], case["seq"]
            u = kind == "unwrapped"
            for order, xs in (("as filed", seq), ("reversed", seq[::-1])):
                ck.evaluated()
                ck.count("corpus")
                try:
                    got = impl_unwrapped(xs, result) if u else impl_combine(xs, result)
                    bad = oracle(xs, got, u)
                except Exception as e:
                    got, bad = None, f"combine raised {e!r}"
                if bad:
                    ck.violate({"op": kind, "seq": xs, "impl": got, "corpus": f.name, "order": order}, bad)
                    break


def run(tier: str) -> int:
    from koreo import result

    ck = Check("C03", tier)
    ck.trusted = [
        "Lean 4.33.0 kernel; axioms of every theorem ⊆ {propext, Classical.choice, Quot.sound}",
        "model lean/Koreo/Result.lean hand-transcribed from src/koreo/result.py; dispatch table, separator and "
        "delay operator regenerated from the source by harness/extract.py and proved equal to the model's",
        "differential harness/c03.py (combine, unwrapped_combine vs the compiled Lean model)",
        "Python's functools.reduce, str.join, max on ints (modelled as foldl, joinStrs, Int max)",
    ]
    ck.assumptions = ["input outcomes never carry the internal _OkData wrapper (Outcome.isInput)",
                      "Ok values are JSON values with floats restricted to multiples of 1/8"]
    ck.prove(extractors=["ResultTable"])

    replay_corpus(ck, result)

    r = rng("c03")
    n = 4000 if tier == "quick" else 150000
    drv = LeanDriver("C03")
    cases = []
    for i in range(n):
        seq = gen_seq(r)
        kind = "unwrapped" if r.random() < 0.3 else "combine"
        perm = list(seq)
        r.shuffle(perm)
        cases.append((kind, seq, perm))
    # many / long messages (the aggregation of a large forEach, long error texts); its own stream, so the
    # cases above are the same as before this dimension existed
    rl = rng("c03-long")
    for i in range(250 if tier == "quick" else 6000):
        seq = gen_long_seq(rl)
        kind = "unwrapped" if rl.random() < 0.3 else "combine"
        perm = list(seq)
        rl.shuffle(perm)
        cases.append((kind, seq, perm))
    reqs = [{"op": k, "xs": [to_req(o) if not (k == "unwrapped" and o["c"] == "ok")
                               else {"c": "val", "v": to_wire(o["v"])} for o in seq]} for k, seq, _ in cases]
    try:
        answers = drv.ask(reqs)
    except Exception as e:
        answers = [None] * len(reqs)
        ck.notes.append(f"model driver unavailable: {e}")
        ck.build_ok = ck.build_ok and False

    def impl(kind, seq):
        return impl_unwrapped(seq, result) if kind == "unwrapped" else impl_combine(seq, result)

    for (kind, seq, perm), ans in zip(cases, answers):
        ck.evaluated()
        try:
            got = impl(kind, seq)
            got_p = impl(kind, perm)
        except Exception as e:
            ck.violate({"kind": kind, "seq": seq}, f"combine raised {e!r}")
            continue
        ck.count(f"class:{got['c']}")
        ck.count(f"len:{len(seq)}" if len(seq) <= 12 else f"len:{size_bucket(len(seq))}")
        if got["c"] in ("retry", "permFail"):
            ck.count("winning-messages-joined-chars:" + size_bucket(
                len(truthy_join(o["m"] for o in seq if o["c"] == got["c"]))))
        ck.count(f"op:{kind}")
        classes = {o["c"] for o in seq}
        if len(classes) >= 2:
            ck.nontriv(json.dumps([kind, [to_req(o) for o in seq]], sort_keys=True))
        ck.sample({"op": kind, "seq": [to_req(o) for o in seq], "impl": got})
        # oracle on the implementation
        u = kind == "unwrapped"
        bad = oracle(seq, got, u)
        if bad is None and got_p["c"] != got["c"]:
            bad = f"class changes under permutation: {got['c']} vs {got_p['c']}"
        if bad is None and got["c"] == "retry" and got_p.get("d") != got.get("d"):
            bad = "Retry delay changes under permutation"
        if bad is None and oracle(perm, got_p, u) is not None:
            # the permuted sequence is a sequence too: every clause holds for it as well (which messages
            # survive must not depend on where they stand)
            bad = "for a permutation of the sequence: " + oracle(perm, got_p, u)
        if bad is not None:
            def fails(sub, kind=kind, u=u):
                return oracle(sub, impl(kind, sub), u) is not None
            if oracle(seq, got, u):
                small = ddmin(seq, fails)
            elif oracle(perm, got_p, u):
                small = ddmin(perm, fails)
            else:
                small = seq
            ck.violate({"op": kind, "seq": small, "impl": impl(kind, small)}, bad)
        elif seq:
            perm_idx = list(range(len(seq)))
            r.shuffle(perm_idx)
            try:
                rb = reuse_problem(kind, seq, perm_idx, result)
            except Exception as e:
                rb = f"combine raised {e!r} when the same outcomes were aggregated again"
            if rb is not None:
                def fails2(sub, kind=kind):
                    idx = list(range(len(sub)))[::-1]
                    try:
                        return reuse_problem(kind, sub, idx, result) is not None
                    except Exception:
                        return True
                small = ddmin(seq, fails2) if fails2(seq) else seq
                ck.violate({"op": kind, "seq": small, "reuse": True}, rb)
        # correspondence
        if ans is not None:
            model = dict(ans)
            if u and model.get("c") == "ok":
                model["l"] = None
            mine = dict(got)
            if mine != model:
                ck.disagree({"op": kind, "seq": [to_req(o) for o in seq]}, model, mine, "combine-observables")

    if tier == "thorough":
        ck.leanchecker()
    try:
        workflow_clause(ck, r, tier)
    except Exception as e:  # the workflow harness belongs to C01/C02/C09; its own trouble is not a C03 verdict
        ck.clause_crashed("workflow clause", e)
    try:
        foreach_clause(ck, r, tier)
    except Exception as e:
        ck.clause_crashed("forEach time-out aggregation clause", e)
    try:
        foreach_items_clause(ck, r, tier)
    except Exception as e:
        ck.clause_crashed("forEach item aggregation clause", e)
    try:
        prepare_clause(ck, r, tier)
    except Exception as e:
        ck.clause_crashed("prepare-time aggregation clause", e)

    return ck.finish(
        rule="random outcome sequences (length 0-12, all five classes, None/empty/non-empty messages and "
             "locations, JSON values, delays incl. 0/equal/negative) each with a random permutation, through "
             "combine and unwrapped_combine; non-trivial = at least two distinct classes present; distinct by "
             "operation+sequence; plus generated workflows through the real reconcile_workflow with every API-call "
             "index as a crash point (overall outcome vs the conditions' classes); plus (own stream) sequences of "
             "2-100 outcomes with distinct messages of 4-900 characters, mostly of one error class, and forEach "
             "steps over 12-48 items with a sentence-long message each (every winning-class message kept, in the "
             "given and in a shuffled order); corpus/C03 replayed first",
    )


def replay(path: str) -> int:
    from koreo import result

    data = json.load(open(path))
    rc = 0
    for v in data.get("violations", []):
        case = v["case"]
        kind, seq = case["op"], case["seq"]
        got = impl_unwrapped(seq, result) if kind == "unwrapped" else impl_combine(seq, result)
        bad = oracle(seq, got, kind == "unwrapped")
        if case.get("reuse"):
            try:
                bad = reuse_problem(kind, seq, list(range(len(seq)))[::-1], result)
            except Exception as e:
                bad = repr(e)
        print("replay:", json.dumps(case), "->", got, "::", bad)
        rc = rc or (1 if bad else 0)
    return rc
