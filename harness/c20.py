"""C20 — preparing any definition never crashes; schema violations are rejected first.

proof:   lean/Koreo/Props/C20.lean: the reference analysis is total on every tree celpy's grammar
         admits (given DispatchComplete, decided over the regenerated tables), the name pattern never
         yields None, the schema gate comes first
tie:     (a) Gen/CelTables.lean regenerated (grammar, dispatch, raise sites, patterns, gate position),
         (b) expression stream: every generated shape in every expression-bearing field of the five
             kinds through the real prepare_* and cache.prepare_and_cache; real extract vs the model,
         (c) spec stream: well-formed specs mutated at random paths, independent verdict from the
             `jsonschema` package (python3-vt side process) over the same CRD schemas
oracle:  result in {prepared, PermFail, Retry} and never raised; a spec jsonschema rejects is answered
         with PermFail and neither celpy.Environment.compile nor a cache lookup happened before
"""
from __future__ import annotations

import copy
import gc
import json
import subprocess
import sys
import time

import common
from common import Check, LeanDriver, rng
import c14
import gen_cel
from gen_cel import Gen, UnknownNode, text, tree_to_wire

KINDS = ["ValueFunction", "ResourceFunction", "ResourceTemplate", "Workflow", "FunctionTest"]
CRD_FILES = {"ValueFunction": "value-function.yaml", "ResourceFunction": "resource-function.yaml",
             "ResourceTemplate": "resource-template.yaml", "Workflow": "workflow.yaml",
             "FunctionTest": "function-test.yaml"}

# --------------------------------------------------------------------------- very large integers
# CPython refuses int <-> decimal str beyond 4300 digits (that refusal is one of the things under test), so
# the harness itself never prints such a number: replay / corpus files carry {"$bigint": "<hex>"} (hex is exempt)
# and the side process gets its input with the limit lifted for the duration of one json.dumps.

BIG = 10 ** 5000


def dumps_big(v, **kw) -> str:
    old = sys.get_int_max_str_digits()
    sys.set_int_max_str_digits(0)
    try:
        return json.dumps(v, **kw)
    finally:
        sys.set_int_max_str_digits(old)


def encode_case(v):
    """JSON-safe copy: huge ints become {"$bigint": hex}"""
    if isinstance(v, bool) or v is None or isinstance(v, (str, float)):
        return v
    if isinstance(v, int):
        return {"$bigint": hex(v)} if abs(v) >= 10 ** 4000 else v
    if isinstance(v, dict):
        return {k: encode_case(x) for k, x in v.items()}
    if isinstance(v, (list, tuple)):
        return [encode_case(x) for x in v]
    return v


def decode_case(v):
    if isinstance(v, dict):
        if set(v) == {"$bigint"}:
            return int(v["$bigint"], 16)
        return {k: decode_case(x) for k, x in v.items()}
    if isinstance(v, list):
        return [decode_case(x) for x in v]
    return v


def jcopy(v):
    """deep copy of a JSON value without recursion (the harness must not be what fails on a deeply nested spec)"""
    if not isinstance(v, (dict, list)):
        return v
    root = {} if isinstance(v, dict) else []
    todo = [(v, root)]
    while todo:
        src, dst = todo.pop()
        items = src.items() if isinstance(src, dict) else enumerate(src)
        for k, x in items:
            if isinstance(x, dict):
                y = {}
                todo.append((x, y))
            elif isinstance(x, list):
                y = []
                todo.append((x, y))
            else:
                y = x
            if isinstance(dst, dict):
                dst[k] = y
            else:
                dst.append(y)
    return root


# --------------------------------------------------------------------------- kr8s' class registry
# kr8s.objects.get_class walks every APIObject subclass ever created in the process: a class registered by one
# case must not influence an unrelated later case.

def registry_poison():
    """registered classes on which `get_class`'s `cls_group, cls_version = cls.version.split("/")` fails"""
    from kr8s._objects import APIObject

    out, todo = [], [APIObject]
    while todo:
        c = todo.pop()
        todo.extend(c.__subclasses__())
        v = getattr(c, "version", None)
        if isinstance(v, str) and v.count("/") > 1:
            out.append(c)
    return out


def registry_cleanup():
    """forget what a case registered (prepared functions are dropped with the cache; anything still alive and
    poisonous is neutralised)"""
    for c in registry_poison():
        c.version = "neutralised/v0"


# --------------------------------------------------------------------------- instrumentation

COUNTS = {"compile": 0, "lookup": 0}
_installed = False


def install_counters():
    """count celpy.Environment.compile calls and cache lookups (wrappers installed from the harness)"""
    global _installed
    if _installed:
        return
    import celpy
    import koreo.cache
    import koreo.function_test.prepare
    import koreo.workflow.prepare

    orig_compile = celpy.Environment.compile

    def compile_(self, *a, **k):
        COUNTS["compile"] += 1
        return orig_compile(self, *a, **k)

    celpy.Environment.compile = compile_
    orig_get = koreo.cache.get_resource_from_cache

    def get_(*a, **k):
        COUNTS["lookup"] += 1
        return orig_get(*a, **k)

    koreo.cache.get_resource_from_cache = get_
    for mod in (koreo.workflow.prepare, koreo.function_test.prepare):
        if getattr(mod, "get_resource_from_cache", None) is orig_get:
            mod.get_resource_from_cache = get_
    _installed = True


def preparer(kind):
    from koreo.function_test.prepare import prepare_function_test
    from koreo.function_test.structure import FunctionTest
    from koreo.resource_function.prepare import prepare_resource_function
    from koreo.resource_function.structure import ResourceFunction
    from koreo.resource_template.prepare import prepare_resource_template
    from koreo.resource_template.structure import ResourceTemplate
    from koreo.value_function.prepare import prepare_value_function
    from koreo.value_function.structure import ValueFunction
    from koreo.workflow.prepare import prepare_workflow
    from koreo.workflow.structure import Workflow

    return {"ValueFunction": (ValueFunction, prepare_value_function),
            "ResourceFunction": (ResourceFunction, prepare_resource_function),
            "ResourceTemplate": (ResourceTemplate, prepare_resource_template),
            "Workflow": (Workflow, prepare_workflow),
            "FunctionTest": (FunctionTest, prepare_function_test)}[kind]


_serial = [0]


def impl_prepare(kind: str, spec, via_cache: bool = False, isolate: bool = True, name: str | None = None,
                 outcome: str | None = None) -> dict:
    """{"r": prepared|permFail|retry|skip|depSkip|raised, "compile": n, "lookup": m, "msg": …}
    `isolate`: clean kr8s' class registry afterwards (off inside a sequence case);
    `name`: the cache key (a later definition refers to it); `outcome`: instead of the real preparer, one that
    answers Retry / PermFail (a definition that is cached in that state, whatever the reason)"""
    try:
        return _impl_prepare(kind, spec, via_cache, name, outcome)
    finally:
        if isolate and kind == "ResourceFunction":
            registry_cleanup()


_KEEP: list | None = None     # inside a sequence case: what was prepared stays alive, as it would in an operator


def _impl_prepare(kind: str, spec, via_cache: bool = False, name: str | None = None,
                  outcome: str | None = None) -> dict:
    import koreo_util as ku
    from koreo import cache

    install_counters()
    cls, prep = preparer(kind)
    COUNTS["compile"] = COUNTS["lookup"] = 0
    _serial[0] += 1
    name = name or f"under-test-{_serial[0]}"
    if outcome:
        from koreo import result as kres

        async def prep(key, spec_, _o=outcome):   # noqa: F811
            return (kres.Retry(message="not yet", delay=7, location=key) if _o == "retry"
                    else kres.PermFail(message="broken", location=key))
    try:
        if via_cache:
            got = ku.run(cache.prepare_and_cache(resource_class=cls, preparer=prep,
                                                 metadata={"name": name, "resourceVersion": "1"},
                                                 spec=expand_deep(spec)))
            c = ku.outcome_class(got)
            r = "prepared" if c == "ok" else c
        else:
            got = ku.run(prep(name, expand_deep(spec)))
            if isinstance(got, tuple):
                r = "prepared"
            else:
                c = ku.outcome_class(got)
                r = "odd-return" if c == "ok" else c
        msg = str(getattr(got, "message", ""))[:100] if r != "prepared" else ""
        if _KEEP is not None:
            _KEEP.append(got)
    except BaseException as e:  # noqa: BLE001   (that it raises is the observation)
        if isinstance(e, (KeyboardInterrupt, SystemExit)):
            raise
        import traceback

        frames = [f for f in traceback.extract_tb(e.__traceback__) if "/harness/" not in f.filename]
        where = ""
        if frames:
            own = [f for f in frames if "/koreo/" in f.filename]
            f = (own or frames)[-1]
            where = f" [in {f.filename.rsplit('/', 2)[-2]}/{f.filename.rsplit('/', 1)[-1]}:{f.name}]"
        r, msg = "raised", type(e).__name__ + ": " + str(e)[:120] + where
    return {"r": r, "compile": COUNTS["compile"], "lookup": COUNTS["lookup"], "msg": msg}


# --------------------------------------------------------------------------- well-formed specs

def base_spec(kind: str, r):
    if kind == "ValueFunction":
        s = {"preconditions": [{"assert": "=inputs.a > 0", "permFail": {"message": "bad"}},
                               {"assert": "=has(inputs.b)", "retry": {"message": "wait", "delay": 5}},
                               {"assert": "=true", "defaultReturn": {"v": 1}, "ok": {}}][: r.randint(0, 3)],
             "locals": {"x": "=inputs.a", "y": 3},
             "return": {"v": "=locals.x", "nested": {"k": [1, "=inputs.b"]}}}
        if not s["preconditions"]:
            del s["preconditions"]
        return s
    if kind == "ResourceFunction":
        s = {"apiConfig": {"apiVersion": "v1", "kind": "ConfigMap", "name": "=inputs.name", "namespace": "ns",
                           "owned": True, "plural": "configmaps"},
             "preconditions": [{"assert": "=inputs.a > 0", "skip": {"message": "no"}}],
             "locals": {"x": "=inputs.a"},
             "overlays": [{"overlay": {"metadata": {"labels": {"k": "=inputs.name"}}}, "skipIf": "=inputs.skip"},
                          {"overlayRef": {"kind": "ValueFunction", "name": "vf_ok1"}, "inputs": {"a": "=inputs.a"}}],
             "create": {"enabled": True, "delay": 10, "overlay": {"data": {"c": "=inputs.c"}}},
             "update": r.choice([{"patch": {"delay": 5}}, {"recreate": {"delay": 5}}, {"never": {}}]),
             "delete": r.choice([{"abandon": {}}, {"destroy": {}}]),
             "postconditions": [{"assert": "=resource.status.ready", "retry": {"message": "w", "delay": 3}}],
             "return": {"r": "=resource.metadata.name"}}
        if r.random() < 0.5:
            s["resource"] = {"data": {"k": "=inputs.k"}}
        else:
            s["resourceTemplateRef"] = {"name": "=inputs.tmpl"}
        return s
    if kind == "ResourceTemplate":
        return {"template": {"apiVersion": "v1", "kind": "ConfigMap", "metadata": {"name": "n"}, "data": {"a": "b"}},
                "context": {"a": 1}}
    if kind == "Workflow":
        return {"crdRef": {"apiGroup": "g.example", "version": "v1", "kind": "Thing"},
                "steps": [{"label": "first", "ref": {"kind": "ValueFunction", "name": "vf_ok1"},
                           "inputs": {"a": "=parent.spec.size"}, "condition": {"type": "First", "name": "first"}},
                          {"label": "second", "refSwitch": {"switchOn": "=steps.first.v", "cases": [
                              {"case": "a", "kind": "ValueFunction", "name": "vf_ok1"},
                              {"case": "b", "kind": "ResourceFunction", "name": "rf_ok", "default": True}]},
                           "skipIf": "=steps.first.v == 0",
                           "forEach": {"itemIn": "=steps.first.items", "inputKey": "item"},
                           "inputs": {"a": "=steps.first.v"}, "state": {"seen": "=steps.first.v"}}]}
    if kind == "FunctionTest":
        return {"functionRef": {"kind": "ResourceFunction", "name": "rf_ok"},
                "inputs": {"name": "n", "k": "v"},
                "currentResource": {"apiVersion": "v1", "kind": "ConfigMap", "metadata": {"name": "n"}},
                "testCases": [{"label": "creates", "expectResource": {"apiVersion": "v1", "kind": "ConfigMap"}},
                              {"variant": True, "inputOverrides": {"name": "m"},
                               "overlayResource": {"data": {"k": "=inputs.k"}}, "expectOutcome": {"ok": {}}},
                              {"skip": True, "expectOutcome": {"retry": {"message": "w", "delay": 1}}},
                              {"expectDelete": True}, {"expectReturn": {"r": "n"}}]}
    raise ValueError(kind)


# every expression-bearing field: kind -> [(slot name, function(spec, "=expr"))]
def _set(path):
    def f(spec, v):
        cur = spec
        for p in path[:-1]:
            if isinstance(cur, dict):
                cur = cur.setdefault(p, {} if not isinstance(p, int) else [])
            else:
                cur = cur[p]
        if isinstance(cur, list):
            cur[path[-1]] = v
        else:
            cur[path[-1]] = v
    return f


def _vf_pre(spec, v):
    spec["preconditions"] = [{"assert": v, "permFail": {"message": "m"}}]


def _rf_pre(which):
    def f(spec, v):
        spec[which] = [{"assert": v, "retry": {"message": "m", "delay": 1}}]
    return f


def _rf_tmpl(spec, v):
    spec.pop("resource", None)
    spec["resourceTemplateRef"] = {"name": v}


def _rf_inline(spec, v):
    spec.pop("resourceTemplateRef", None)
    spec["resource"] = {"data": {"k": v}, "lst": [v]}


SLOTS = {
    "ValueFunction": [("preconditions.assert", _vf_pre), ("locals", _set(["locals", "x"])),
                      ("return", _set(["return", "v"])), ("return.nested", _set(["return", "nested", "k"]))],
    "ResourceFunction": [("preconditions.assert", _rf_pre("preconditions")), ("postconditions.assert", _rf_pre("postconditions")),
                         ("locals", _set(["locals", "x"])), ("apiConfig.name", _set(["apiConfig", "name"])),
                         ("apiConfig.namespace", _set(["apiConfig", "namespace"])),
                         ("resource", _rf_inline), ("resourceTemplateRef.name", _rf_tmpl),
                         ("overlays.skipIf", _set(["overlays", 0, "skipIf"])),
                         ("overlays.overlay", _set(["overlays", 0, "overlay", "metadata"])),
                         ("overlays.inputs", _set(["overlays", 1, "inputs", "a"])),
                         ("create.overlay", _set(["create", "overlay", "data"])), ("return", _set(["return", "r"]))],
    "Workflow": [("skipIf", _set(["steps", 1, "skipIf"])), ("forEach.itemIn", _set(["steps", 1, "forEach", "itemIn"])),
                 ("inputs", _set(["steps", 1, "inputs", "a"])), ("state", _set(["steps", 1, "state", "seen"])),
                 ("refSwitch.switchOn", _set(["steps", 1, "refSwitch", "switchOn"])),
                 ("inputs.first", _set(["steps", 0, "inputs", "a"]))],
    "FunctionTest": [("overlayResource", _set(["testCases", 1, "overlayResource", "data"])),
                     ("inputOverrides", _set(["testCases", 1, "inputOverrides", "name"])),
                     ("inputs", _set(["inputs", "name"])), ("expectReturn", _set(["testCases", 4, "expectReturn", "r"]))],
    "ResourceTemplate": [("template", _set(["template", "data", "a"])), ("context", _set(["context", "a"]))],
}


def setup_world():
    c14.setup_cache()
    c14.setup_ft_cache()


# --------------------------------------------------------------------------- expression stream

def expr_case_ok(res) -> str | None:
    if res["r"] == "raised":
        return f"raised {res['msg']}"
    if res["r"] not in ("prepared", "permFail", "retry"):
        return f"returned {res['r']} instead of a prepared resource or a PermFail/Retry"
    return None


# whole field values (not "=" + expression): nothing, blanks or comments after the prefix, a second prefix, very
# long lines, several lines with the syntax error on a later one
DEGENERATE = ["=", "==", "= ", "=\n", "=\n\n", "=//c", "= // only a comment", "=\t \n ", "===",
              "=1 +\n2 +\n)", "=\n\n1 +", "={'a':\n 1,\n 'b': }", "=" + "inputs.a + " * 1500 + ")",
              "=" + "(" * 60, "= ", "=\r\n)", "=inputs.a\n//c\n+", "= =", "=\"unterminated", "='" + "''open"]


def run_degenerate(ck: Check, r):
    """each degenerate source as the whole value of every expression-bearing field"""
    setup_world()
    for val in DEGENERATE:
        for kind in KINDS:
            for slot, place in SLOTS[kind]:
                spec = base_spec(kind, r)
                place(spec, val)
                via = r.random() < 0.2
                res = impl_prepare(kind, spec, via_cache=via)
                ck.evaluated()
                ck.count(f"degenerate:{res['r']}")
                ck.nontriv(hash(f"{kind}.{slot}:{val}"))
                bad = expr_case_ok(res)
                if bad and len(ck.violations) < 200:
                    ck.violate({"kind": "prepare", "resource": kind, "slot": slot, "spec": encode_case(spec),
                                "via_cache": via},
                               f"prepare of {kind} with the field value {val[:40]!r} in {slot} {bad}")


def run_expressions(ck: Check, drv: LeanDriver, n: int, r, batch: int = 1500):
    run_degenerate(ck, r)
    setup_world()
    slots = [(k, nm, f) for k in KINDS for nm, f in SLOTS[k]]
    first = [(None, s) for s in gen_cel.ODD]
    done = 0
    serial = 0
    while done < n or first:
        sources, first = first, []
        for _ in range(min(batch, n - done)):
            g = Gen(r, r.sample(c14.LABELS, r.randint(1, 3)), depth=r.choice([1, 2, 2, 3, 3, 4]))
            e = g.expr()
            sources.append((e, text(e)))
        done += min(batch, n - done)
        serial = _expression_batch(ck, drv, sources, slots, r, serial)
        setup_world()   # the cache grows with every prepare_and_cache


def _expression_batch(ck: Check, drv: LeanDriver, sources, slots, r, serial: int) -> int:
    reqs, keep = [], []
    for e, src in sources:
        i = serial
        serial += 1
        # (1) the reference analysis itself
        tree, got = c14.impl_extract(src)
        ck.evaluated()
        ck.count(f"extract:{got[0]}")
        if tree is not None:
            if got[0] == "raise":
                small = src
                if e is not None and len(ck.violations) < 40:
                    try:
                        small = text(c14.shrink_expr(e, lambda s: c14.impl_extract(text(s))[1][0] == "raise"))
                    except Exception:
                        pass
                if len(ck.violations) < 200:
                    ck.violate({"kind": "extract", "text": small},
                               f"extract_argument_structure raised on a parseable expression: {c14.impl_extract(small)[1][1]}")
                else:
                    ck.count("further-violations")
            try:
                reqs.append({"op": "extract", "t": tree_to_wire(tree)})
                keep.append((src, got))
            except UnknownNode as u:
                ck.disagree({"kind": "extract", "text": src}, "no constructor", str(u), "parse-tree-kinds")
            for k in gen_cel.tree_kinds(tree):
                ck.count(f"kind:{k}")
        # (2) in a field of a definition, through the real prepare_* (the odd receivers: every slot)
        todo = slots if e is None and i < 16 else [slots[(i * 7 + j) % len(slots)] for j in range(2)]
        for kind, slot, place in todo:
            spec = base_spec(kind, r)
            place(spec, "=" + src)
            via = r.random() < 0.25
            res = impl_prepare(kind, spec, via_cache=via)
            ck.evaluated()
            ck.count(f"{kind}.{slot}:{res['r']}")
            ck.count("via:" + ("cache.prepare_and_cache" if via else "prepare_*"))
            ck.nontriv(hash(f"{kind}.{slot}:{src}"))
            bad = expr_case_ok(res)
            if bad:
                if len(ck.violations) < 200:
                    ck.violate({"kind": "prepare", "resource": kind, "slot": slot, "spec": encode_case(spec), "via_cache": via},
                               f"prepare of {kind} with `{src}` in {slot} {bad}")
                else:
                    ck.count("further-violations")
            ck.sample({"resource": kind, "slot": slot, "expr": src, "result": res["r"]})
    answers = c14.ask(ck, drv, reqs)
    for (src, got), ans in zip(keep, answers):
        if ans is None:
            continue
        if len(ck.disagreements) > 300:
            ck.count("further-disagreements")
            continue
        model = "raise" if "raise" in ans else "ok" if "ok" in ans else "driver-error"
        if model != got[0]:
            ck.disagree({"kind": "extract", "text": src}, model, got[0], "extract-returns")
        elif model == "ok" and sorted(set(ans["ok"])) != sorted(set(got[1])):
            ck.disagree({"kind": "extract", "text": src}, sorted(set(ans["ok"])), got[1], "extract-keys")
    return serial


# --------------------------------------------------------------------------- spec stream

JUNK = [None, True, False, 0, 1, -3, 1.5, "", "s", "=inputs.x", "=1 +", [], {}, [1], ["a", {"b": 1}], {"a": 1},
        {"message": "m"}, 10 ** 20, BIG, -BIG, 1.0, 1e308, "a/b/c"]

# numeric leaves: integral floats, non-integral, bounds of 64 bits, beyond the int<->str digit limit, look-alikes
NUMBERS = [1.0, 0.0, -1.0, 2.5, 1e308, -1e308, 1e-9, 0, -1, 2 ** 31, 2 ** 63 - 1, 2 ** 63, 2 ** 64, -(2 ** 63) - 1,
           10 ** 20, 10 ** 4299, BIG, -BIG, True, False, "1.0", "5", None]

# apiVersion / kind strings: what kr8s' get_class / new_class split on
API_STRINGS = ["a/b/c", "x/y/z/w", "a//b", "/", "//", "apps/v1", "example.com/v1", "v1", "Foo.example.com", "Foo.v2",
               "Foo/v2", "a\u0000b", "", " ", "é/ü/ß", "a.b/c.d/e"]


_READ_KEYS: list | None = None


def read_keys() -> list:
    """every key the prepare code reads from a spec (`x.get("k")`, `x["k"]`, `case {"k": …}`), from the sources:
    the schema leaves some of them unconstrained where the code dereferences them"""
    global _READ_KEYS
    if _READ_KEYS is None:
        import ast

        keys = set()
        src = common.REPO / "src" / "koreo"
        for rel in ("value_function/prepare.py", "resource_function/prepare.py", "resource_template/prepare.py",
                    "workflow/prepare.py", "function_test/prepare.py", "ref_helpers.py", "predicate_helpers.py",
                    "cel/prepare.py"):
            try:
                tree = ast.parse((src / rel).read_text())
            except Exception:
                continue
            for n in ast.walk(tree):
                if isinstance(n, ast.Call) and isinstance(n.func, ast.Attribute) and n.func.attr in ("get", "pop") \
                        and n.args and isinstance(n.args[0], ast.Constant) and isinstance(n.args[0].value, str):
                    keys.add(n.args[0].value)
                elif isinstance(n, ast.Subscript) and isinstance(n.slice, ast.Constant) and isinstance(n.slice.value, str):
                    keys.add(n.slice.value)
                elif isinstance(n, ast.MatchMapping):
                    keys.update(k.value for k in n.keys if isinstance(k, ast.Constant) and isinstance(k.value, str))
        _READ_KEYS = sorted(keys) or ["condition", "state", "name", "kind"]
    return _READ_KEYS


def deep_value(r, depth: int):
    """maps and lists nested `depth` levels — as a marker; `expand_deep` builds the value right before the
    real code gets it (the harness' own walks, copies and JSON files never see the deep structure)"""
    return {"$deep": [depth, r.choice(["map", "list", "mix"]), r.choice([1, "s", "=inputs.a", None])]}


def _build_deep(depth, style, leaf, cap=None):
    """`cap`: only the outermost `cap` levels (same outer shape, shallow inside)"""
    v = leaf
    for i in range(0 if cap is None else max(0, depth - cap), depth):
        v = {"a": v} if style == "map" or (style == "mix" and i % 2) else [v]
    return v


def _is_deep(x) -> bool:
    return (isinstance(x, dict) and set(x) == {"$deep"} and isinstance(x["$deep"], list) and len(x["$deep"]) == 3
            and isinstance(x["$deep"][0], int) and not isinstance(x["$deep"][0], bool) and 0 <= x["$deep"][0] <= 10000
            and x["$deep"][1] in ("map", "list", "mix") and not isinstance(x["$deep"][2], (dict, list)))


def expand_deep(v, cap: int | None = None):
    """copy of a spec with every `$deep` marker replaced by the nested value (at most `cap` levels)"""
    def conv(x):
        if _is_deep(x):
            d, style, leaf = x["$deep"]
            return _build_deep(d, style, leaf, cap), True
        return x, False

    v, done = conv(v)
    if done or not isinstance(v, (dict, list)):
        return v
    root = {} if isinstance(v, dict) else []
    todo = [(v, root)]
    while todo:
        src, dst = todo.pop()
        for k, x in (src.items() if isinstance(src, dict) else enumerate(src)):
            x, done = conv(x)
            if not done and isinstance(x, dict):
                y = {}
                todo.append((x, y))
            elif not done and isinstance(x, list):
                y = []
                todo.append((x, y))
            else:
                y = x
            if isinstance(dst, dict):
                dst[k] = y
            else:
                dst.append(y)
    return root


def paths(v, pre=()):
    """every (path, value) in a JSON value"""
    yield pre, v
    if isinstance(v, dict):
        for k, x in v.items():
            yield from paths(x, pre + (k,))
    elif isinstance(v, list):
        for i, x in enumerate(v):
            yield from paths(x, pre + (i,))


def get_at(v, path):
    for p in path:
        v = v[p]
    return v


def set_at(v, path, new):
    if not path:
        return new
    cur = v
    for p in path[:-1]:
        cur = cur[p]
    cur[path[-1]] = new
    return v


def mutate(kind: str, spec, r):
    """(mutated spec, tag); a second mutation may meet shapes the first one destroyed"""
    try:
        return _mutate(kind, spec, r)
    except (AttributeError, KeyError, TypeError, IndexError, ValueError):
        return copy.deepcopy(spec), "none"


def _mutate(kind: str, spec, r):
    s = copy.deepcopy(spec)
    op = r.choice(["none", "type", "type", "type", "delete", "delete", "oversize", "enum", "oneof", "extra",
                   "junk-root", "two", "number", "number", "apistr", "ghost", "ghost", "ghost", "deep", "prune", "prune"])
    if op == "none":
        return s, op
    if op == "two":
        s, _ = mutate(kind, s, r)
        s2, t2 = mutate(kind, s, r)
        return s2, "two:" + t2
    if op == "junk-root" or not isinstance(s, dict):
        return r.choice(JUNK), "junk-root"
    if op == "prune":
        # a sparser definition: several optional parts left out (most stay schema-valid: `create` without `overlay`,
        # no `create` / `update` / `locals` at all, a test case with fewer members, …)
        for _ in range(r.randint(1, 5)):
            dicts = [(p, v) for p, v in paths(s) if isinstance(v, dict) and v]
            if not dicts:
                break
            p, d = r.choice(dicts)
            del d[r.choice(list(d))]
        return s, op
    ps = list(paths(s))
    if op == "ghost":
        # a key the code reads, put where the schema may not expect (or constrain) it, with a value of any type
        dicts = [(p, v) for p, v in ps if isinstance(v, dict)]
        p, d = r.choice(dicts)
        d[r.choice(read_keys())] = copy.deepcopy(r.choice(JUNK))
        return s, op
    if op == "deep":
        # deep nesting inside a free-form block (or anywhere)
        dicts = [(p, v) for p, v in ps if isinstance(v, dict) and p]
        if not dicts:
            return s, "none"
        p, d = r.choice(dicts)
        depth = r.choice([10, 50, 120, 300, 700, 1100, 1600, 2500, 5000])
        d[r.choice(list(d) or ["deep"]) if r.random() < 0.5 else "deep"] = deep_value(r, depth)
        return s, f"deep:{depth}"
    if op == "number":
        # a numeric leaf (delays, counts, static values) — or, failing that, any scalar leaf — gets another number
        nums = [(p, v) for p, v in ps if isinstance(v, (int, float)) and not isinstance(v, bool)]
        leaves = nums if nums and r.random() < 0.8 else [(p, v) for p, v in ps if p and not isinstance(v, (dict, list))]
        if not leaves:
            return s, "none"
        p, _ = r.choice(leaves)
        return set_at(s, p, r.choice(NUMBERS)), op
    if op == "apistr":
        cands = [(p, v) for p, v in ps if p and p[-1] in ("apiVersion", "kind", "apiGroup", "version", "plural")
                 and isinstance(v, str)]
        if not cands:
            return s, "none"
        p, _ = r.choice(cands)
        return set_at(s, p, r.choice(API_STRINGS)), op
    if op == "type":
        p, old = r.choice(ps)
        new = r.choice([j for j in JUNK if type(j) is not type(old)] or JUNK)
        return set_at(s, p, copy.deepcopy(new)), op
    if op == "delete":
        dicts = [(p, v) for p, v in ps if isinstance(v, dict) and v]
        if not dicts:
            return s, "none"
        p, d = r.choice(dicts)
        del d[r.choice(list(d))]
        return s, op
    if op == "oversize":
        lists = [(p, v) for p, v in ps if isinstance(v, list) and v]
        if not lists:
            return s, "none"
        p, l = r.choice(lists)
        n = r.choice([11, 21, 25])
        proto = l[0]
        while len(l) < n:
            x = copy.deepcopy(proto)
            if isinstance(x, dict) and "label" in x:
                x["label"] = f"lbl_{len(l)}"
            if isinstance(x, dict) and "case" in x:
                x["case"] = f"c{len(l)}"
                x.pop("default", None)
            l.append(x)
        return s, f"{op}:{n}"
    if op == "enum":
        cands = [(p, v) for p, v in ps if p and p[-1] == "kind" and isinstance(v, str)]
        if not cands:
            return s, "none"
        p, _ = r.choice(cands)
        return set_at(s, p, r.choice(["Bogus", "", "valuefunction", "Workflow", "ResourceTemplate"])), op
    if op == "oneof":
        if kind == "Workflow" and s.get("steps"):
            st = r.choice(s["steps"])
            if r.random() < 0.5:
                st["ref"] = {"kind": "ValueFunction", "name": "vf_ok1"}
                st["refSwitch"] = {"switchOn": "=1", "cases": [{"case": "a", "kind": "ValueFunction", "name": "vf_ok1"}]}
                return s, "oneof-both"
            st.pop("ref", None)
            st.pop("refSwitch", None)
            return s, "oneof-neither"
        if kind == "ResourceFunction":
            if r.random() < 0.5:
                s["resource"] = {"a": 1}
                s["resourceTemplateRef"] = {"name": "x"}
                return s, "oneof-both"
            s.pop("resource", None)
            s.pop("resourceTemplateRef", None)
            return s, "oneof-neither"
        outcomes = [(p, v) for p, v in ps if isinstance(v, dict) and ("assert" in v or p[-1:] == ("expectOutcome",))]
        if outcomes:
            p, d = r.choice(outcomes)
            if r.random() < 0.5:
                d["skip"] = {"message": "s"}
                d["depSkip"] = {"message": "d"}
                return s, "oneof-both"
            for k in ("ok", "skip", "depSkip", "retry", "permFail"):
                d.pop(k, None)
            return s, "oneof-neither"
        if kind == "ValueFunction":
            s.pop("preconditions", None)
            s.pop("return", None)
            return s, "anyof-neither"
        return s, "none"
    if op == "extra":
        dicts = [(p, v) for p, v in ps if isinstance(v, dict)]
        if not dicts:
            return s, "none"
        p, d = r.choice(dicts)
        d["unexpectedKey"] = r.choice(JUNK)
        return s, op
    return s, "none"


SIDE = r'''
import json, sys, jsonschema
sys.set_int_max_str_digits(0)
data = json.load(sys.stdin)
vals = {k: jsonschema.Draft7Validator(s) for k, s in data["schemas"].items()}
out = []
for kind, spec in data["specs"]:
    try:
        errs = sorted(vals[kind].iter_errors(spec), key=lambda e: list(map(str, e.absolute_path)))
        out.append([not errs, (errs[0].message[:120] if errs else "")])
    except Exception as e:
        out.append([None, repr(e)[:120]])
json.dump(out, sys.stdout)
'''


def crd_schemas() -> dict:
    import yaml

    out = {}
    for kind, fn in CRD_FILES.items():
        path = common.REPO / "src" / "koreo" / "schema" / fn
        for doc in yaml.safe_load_all(path.read_text()):
            if not doc or doc.get("kind") != "CustomResourceDefinition":
                continue
            for v in doc["spec"]["versions"]:
                if v["name"] == "v1beta1":
                    out[kind] = v["schema"]["openAPIV3Schema"]["properties"]["spec"]
    if set(out) != set(KINDS):
        raise common.Infra(f"could not read the bundled CRD schemas: {sorted(out)}")
    return out


def independent_verdicts(specs: list) -> list:
    """[[valid?, first error]] from the jsonschema package, run under python3-vt in a side process"""
    # a deeply nested value is judged through a 3-level stand-in of the same shape (the free-form blocks it sits in
    # are not looked into by the schema; elsewhere its first levels decide)
    payload = dumps_big({"schemas": crd_schemas(), "specs": [[k, expand_deep(sp, cap=3)] for k, sp in specs]})
    try:
        p = subprocess.run(["python3-vt", "-c", SIDE], input=payload, capture_output=True, text=True, timeout=900)
    except (FileNotFoundError, subprocess.TimeoutExpired) as e:
        raise common.Infra(f"jsonschema side process: {e}")
    if p.returncode != 0:
        raise common.Infra(f"jsonschema side process failed: {p.stderr[-300:]}")
    return json.loads(p.stdout)


def jsonable(v) -> bool:
    try:
        dumps_big(v)
        return True
    except (TypeError, ValueError):
        return False


def spec_oracle(verdict, res) -> str | None:
    valid = verdict[0]
    if res["r"] == "raised":
        return f"raised {res['msg']}"
    if res["r"] not in ("prepared", "permFail", "retry"):
        return f"returned {res['r']} instead of a prepared resource or a PermFail/Retry"
    if valid is False:
        if res["r"] != "permFail":
            return f"violates the CRD schema ({verdict[1]}) but the result is {res['r']}"
        if res["compile"] or res["lookup"]:
            return (f"violates the CRD schema ({verdict[1]}) and is rejected, but only after "
                    f"{res['compile']} compile(s) and {res['lookup']} cache lookup(s)")
    return None


def shrink_spec(kind, spec, fails):
    """greedy: replace sub-values by smaller ones / drop keys while it still fails"""
    cur = copy.deepcopy(spec)
    changed = True
    budget = 60
    while changed and budget > 0:
        changed = False
        for p, v in list(paths(cur)):
            if budget <= 0:
                break
            cands = []
            if isinstance(v, dict):
                for k in list(v):
                    c = copy.deepcopy(cur)
                    del get_at(c, p)[k]
                    cands.append(c)
            elif isinstance(v, list) and len(v) > 1:
                for i in range(len(v)):
                    c = copy.deepcopy(cur)
                    del get_at(c, p)[i]
                    cands.append(c)
            for c in cands:
                budget -= 1
                try:
                    if fails(c):
                        cur, changed = c, True
                        break
                except Exception:
                    pass
            if changed:
                break
    return cur


def run_specs(ck: Check, drv: LeanDriver, n: int, r, batch: int = 5000):
    done = 0
    while done < n:
        m = min(batch, n - done)
        setup_world()
        _spec_batch(ck, drv, m, r, done)
        done += m


def _spec_batch(ck: Check, drv: LeanDriver, n: int, r, offset: int):
    cases = []
    for i in range(n):
        kind = KINDS[(offset + i) % len(KINDS)]
        spec, tag = mutate(kind, base_spec(kind, r), r)
        if not jsonable(spec):
            continue
        cases.append((kind, spec, tag))
    verdicts = independent_verdicts([[k, s] for k, s, _ in cases])
    reqs, keep = [], []
    for (kind, spec, tag), verdict in zip(cases, verdicts):
        via = r.random() < 0.2 and isinstance(spec, dict)
        res = impl_prepare(kind, spec, via_cache=via)
        ck.evaluated()
        ck.count(f"mutation:{tag.split(':')[0]}")
        ck.count(f"schema:{'valid' if verdict[0] else 'invalid' if verdict[0] is False else 'unknown'}->{res['r']}")
        ck.count(f"spec-kind:{kind}")
        if verdict[0] is False:
            ck.nontriv(hash(dumps_big([kind, spec], sort_keys=True, default=str)))
        bad = spec_oracle(verdict, res)
        if bad:
            def fails(c, kind=kind, via=via):
                v = independent_verdicts([[kind, c]])[0]
                return spec_oracle(v, impl_prepare(kind, c, via_cache=via)) is not None
            small, what = spec, bad
            if len(ck.violations) < 3 and isinstance(spec, (dict, list)):   # each probe costs a side process
                try:
                    small = shrink_spec(kind, spec, fails)
                    v2 = independent_verdicts([[kind, small]])[0]
                    what = spec_oracle(v2, impl_prepare(kind, small, via_cache=via)) or bad
                except common.Infra:
                    small = spec
            if len(ck.violations) < 200:
                ck.violate({"kind": "spec", "resource": kind, "spec": encode_case(small), "via_cache": via,
                            "mutation": tag}, f"{kind}: {what}")
            else:
                ck.count("further-violations")
        if verdict[0] is not None and res["r"] != "raised":
            reqs.append({"op": "gate", "valid": bool(verdict[0]),
                         "body": res["r"] if res["r"] in ("prepared", "permFail", "retry") else "prepared",
                         "compiles": res["compile"], "lookups": res["lookup"]})
            keep.append((kind, spec, verdict, res))
    answers = c14.ask(ck, drv, reqs)
    for (kind, spec, verdict, res), ans in zip(keep, answers):
        if ans is None:
            continue
        if verdict[0] is False and len(ck.disagreements) <= 300:
            mine = {"trace": ["validate"] + ["compile"] * res["compile"] + ["lookup"] * res["lookup"], "result": res["r"]}
            if ans != mine:
                ck.disagree({"kind": "spec", "resource": kind, "spec": encode_case(spec)}, ans, mine, "schema-gate-first")


# --------------------------------------------------------------------------- sequences of prepares in one process

_kind_serial = [0]


def fresh_kind() -> str:
    _kind_serial[0] += 1
    return f"Widget{_kind_serial[0]}"


def gen_sequence(r):
    """(steps, pure): 2-5 prepares; `pure` = only `apiVersion` varies (fresh plain kinds), the model's domain"""
    n = r.randint(2, 5)
    pure = r.random() < 0.5
    steps = []
    for i in range(n):
        last = i == n - 1
        if not pure and not last and r.random() < 0.15:
            k = r.choice(["FunctionTest", "Workflow", "ValueFunction"])
            steps.append({"resource": k, "spec": base_spec(k, r), "via_cache": r.random() < 0.3})
            continue
        spec = (base_spec("ResourceFunction", r) if not pure and r.random() < 0.2 else
                {"apiConfig": {"apiVersion": "v1", "kind": "ConfigMap", "name": "n", "namespace": "ns"},
                 "resource": {"data": {"k": "v"}}})
        api = spec["apiConfig"]
        api.pop("plural", None)
        if last and not pure:
            api["apiVersion"] = r.choice(["v1", "example.com/v1", "apps/v1"])
            api["kind"] = r.choice([fresh_kind(), "ConfigMap", "Deployment"])
        else:
            api["apiVersion"] = r.choice(API_STRINGS) if r.random() < 0.6 else r.choice(["v1", "example.com/v1"])
            api["kind"] = fresh_kind() if pure or r.random() < 0.7 else r.choice(API_STRINGS)
        steps.append({"resource": "ResourceFunction", "spec": spec, "via_cache": (not pure) and r.random() < 0.3})
    return steps, pure


_dep_serial = [0]

ODD_INPUT_EXPRS = ["inputs.x", "inputs2.zone", 'inputs["zone"]', 'inputs[".zone"]', "inputs_extra.y", "inputsX",
                   "inputs[0]", "inputs.a.b", "inputs", "has(inputs.opt)", "inputs.items.map(i, i.v)", "inputs[inputs.k]",
                   "steps.x", "parent.y"]


def gen_dependency(r, name: str):
    """a definition other definitions refer to, in some state of health; step None = it does not exist"""
    kind = r.choice(["ValueFunction", "ValueFunction", "ResourceFunction", "ResourceFunction", "Workflow", "Workflow"])
    flavour = r.choice(["healthy", "healthy", "healthy", "absent", "permfail", "cached-retry", "cached-permfail",
                        "not-ready"])
    step = {"resource": kind, "via_cache": True, "name": name}
    if flavour == "absent":
        return kind, flavour, None
    if flavour in ("cached-retry", "cached-permfail"):
        step["outcome"] = "retry" if flavour == "cached-retry" else "permfail"
        step["spec"] = {}
        return kind, flavour, step
    if kind == "ValueFunction":
        exprs = r.sample(ODD_INPUT_EXPRS, r.randint(1, 4))
        spec = {"return": {f"r{i}": "=" + e for i, e in enumerate(exprs)}}
        if r.random() < 0.4:
            spec["locals"] = {"l": "=" + r.choice(ODD_INPUT_EXPRS)}
        if r.random() < 0.3:
            spec["preconditions"] = [{"assert": "=" + r.choice(ODD_INPUT_EXPRS) + " != null", "skip": {"message": "s"}}]
        if flavour == "permfail":
            spec["return"]["bad"] = "=1 +"
    elif kind == "ResourceFunction":
        spec = {"apiConfig": {"apiVersion": "v1", "kind": "ConfigMap", "name": "=inputs.t", "namespace": "ns"}}
        spec.update(copy.deepcopy(r.choice(list(c14.RF_TMPL.values()))[0]))
        if flavour == "permfail":
            spec["return"] = {"bad": "=1 +"}
    else:
        ok_step = {"label": "first", "ref": {"kind": "ValueFunction", "name": "vf_ok1"}, "inputs": {"a": "=parent.size"}}
        spec = {"steps": [ok_step]}
        if flavour == "permfail":          # rejected by the schema gate: a PermFail is cached
            spec = {"steps": [{"ref": {"kind": "ValueFunction", "name": "vf_ok1"}}]}
        elif flavour == "not-ready":       # cached as a Workflow whose steps_ready is an error, each flavour
            spec = r.choice([
                {"steps": [ok_step, dict(ok_step)]},                                                    # duplicate label
                {"steps": [dict(ok_step, inputs={"a": "=steps.later.v"}),
                           {"label": "later", "ref": {"kind": "ValueFunction", "name": "vf_ok1"}}]},  # forward reference
                {"steps": [{"label": "waits", "ref": {"kind": "ValueFunction", "name": "vf_missing"}}]},  # Retry
                {"steps": [{"label": "waits", "ref": {"kind": "ValueFunction", "name": "vf_bad"}}]},      # Retry (unhealthy)
                {"steps": [dict(ok_step, skipIf="=1 +")]},                                              # parse error
                {"steps": []},                                                                           # no steps
            ])
    step["spec"] = spec
    return kind, flavour, step


def gen_dependent_sequence(r):
    """first a definition is cached (or not), then definitions that refer to it are prepared"""
    _dep_serial[0] += 1
    name = f"dep{_dep_serial[0]}"
    kind, flavour, first = gen_dependency(r, name)
    steps = [first] if first else []
    for _ in range(r.randint(1, 2)):
        via = r.random() < 0.4
        users = ["workflow-ref", "workflow-switch"]
        if kind == "ValueFunction":
            users += ["overlayRef", "overlayRef", "function-test"]
        if kind == "ResourceFunction":
            users += ["function-test", "function-test", "function-test"]
        user = r.choice(users)
        if user == "overlayRef":
            given = r.sample(["x", "zone", "a", "y", "k"], r.randint(0, 3))
            ov = {"overlayRef": {"kind": "ValueFunction", "name": name}}
            if given:
                ov["inputs"] = {g: "=inputs." + g for g in given}
            if r.random() < 0.3:
                ov["skipIf"] = "=inputs.skip"
            spec = {"apiConfig": {"apiVersion": "v1", "kind": "ConfigMap", "name": "n", "namespace": "ns"},
                    "resource": {"data": {"k": "v"}}, "overlays": [ov]}
            steps.append({"resource": "ResourceFunction", "spec": spec, "via_cache": via})
        elif user == "workflow-ref":
            spec = {"steps": [{"label": "uses", "ref": {"kind": kind, "name": name}, "inputs": {"x": "=parent.x"}}]}
            steps.append({"resource": "Workflow", "spec": spec, "via_cache": via})
        elif user == "workflow-switch":
            cases = [{"case": "a", "kind": kind, "name": name, "default": r.random() < 0.5},
                     {"case": "b", "kind": "ValueFunction", "name": "vf_ok1"}]
            if r.random() < 0.5:
                # a list-map key is not unique for koreo's validator: a second entry with the same `case` shadows the
                # first one in `logic_map`; the two entries' functions are in different states of health
                twin = r.choice(["a", "b"])
                other = r.choice([("ValueFunction", "vf_ok1"), ("ValueFunction", "vf_ok2"), ("ValueFunction", "vf_missing"),
                                  ("ValueFunction", "vf_bad"), (kind, name)])
                cases.append({"case": twin, "kind": other[0], "name": other[1],
                              "default": (not any(c.get("default") for c in cases)) and r.random() < 0.6})
            r.shuffle(cases)
            spec = {"steps": [{"label": "uses", "refSwitch": {"switchOn": "=parent.kind", "cases": cases}}]}
            steps.append({"resource": "Workflow", "spec": spec, "via_cache": via})
        else:
            # the template name of a ResourceFunction under test (`=inputs.t`, `=locals.p`, …) is evaluated per test
            # case: let it come out as every JSON type, through `inputs` and through `inputOverrides`
            tvals = ["a", 5, 2.5, True, None, ["x", "y"], {"k": "v"}, [], {}, [["n"]], {"a": {"b": 1}}]
            spec = {"functionRef": {"kind": kind, "name": name}, "inputs": {"t": r.choice(tvals), "x": 1},
                    "testCases": [{"expectReturn": {"r0": 1}},
                                  {"inputOverrides": {"t": r.choice(tvals)}, "expectReturn": {"r0": 2}},
                                  {"inputOverrides": {"t": r.choice(tvals), "x": r.choice(tvals)}, "expectDelete": False}
                                  ][: r.randint(1, 3)]}
            if r.random() < 0.3:
                del spec["inputs"]
            steps.append({"resource": "FunctionTest", "spec": spec, "via_cache": via})
    return steps, f"{kind}:{flavour}"


def forget_dependencies(steps):
    """a sequence starts from a cache that holds none of the definitions it names (`dep<n>`): what an earlier
    run — or a shrinking attempt that kept the defining step — left there must not make a later one pass or fail"""
    import re

    import koreo_util as ku
    from koreo import cache

    names = set(re.findall(r"dep\d+", dumps_big(steps, default=str)))
    if not names:
        return

    async def go():
        for nm in names:
            for kind in ("ValueFunction", "ResourceFunction", "Workflow"):
                await cache.delete_from_cache(resource_class=preparer(kind)[0], cache_key=nm)

    ku.run(go())


def run_sequence(steps) -> list:
    """the steps one after the other in one registry lifetime (whatever was prepared stays referenced)"""
    global _KEEP
    registry_cleanup()
    forget_dependencies(steps)
    _KEEP = []
    try:
        return [impl_prepare(st["resource"], st["spec"], via_cache=st.get("via_cache", False), isolate=False,
                             name=st.get("name"), outcome=st.get("outcome"))
                for st in steps]
    finally:
        _KEEP = None
        registry_cleanup()


def sequence_oracle(steps, results) -> str | None:
    for i, (st, res) in enumerate(zip(steps, results)):
        bad = expr_case_ok(res)
        if bad:
            api = st["spec"].get("apiConfig", {}) if isinstance(st["spec"], dict) else {}
            return (f"prepare #{i + 1} of {len(steps)} in one process ({st['resource']} "
                    f"{api.get('apiVersion')!r}/{api.get('kind')!r}) {bad}")
    return None


def run_sequences(ck: Check, drv: LeanDriver, n: int, r):
    setup_world()
    reqs, keep = [], []
    for i in range(n):
        if i % 2:
            steps, flavour = gen_dependent_sequence(r)
            pure = False
            ck.count(f"dependency:{flavour}")
        else:
            steps, pure = gen_sequence(r)
        results = run_sequence(steps)
        ck.evaluated()
        ck.count(f"sequence:len{len(steps)}")
        ck.count("sequence:" + ("refers-to-earlier" if i % 2 else "apiVersion-only" if pure else "mixed"))
        for res in results:
            ck.count(f"sequence-step:{res['r']}")
        ck.nontriv(hash(dumps_big(steps, sort_keys=True, default=str)))
        bad = sequence_oracle(steps, results)
        if bad:
            if len(ck.violations) < 40:
                small = common.ddmin(steps, lambda sub: sequence_oracle(sub, run_sequence(sub)) is not None)
                bad = sequence_oracle(small, run_sequence(small)) or bad
            else:
                small = steps
            if len(ck.violations) < 200:
                ck.violate({"kind": "sequence", "steps": encode_case(small)}, bad)
        if pure and not any(res["r"] == "raised" for res in results):
            reqs.append({"op": "registry", "versions": [st["spec"]["apiConfig"]["apiVersion"] for st in steps]})
            keep.append((steps, results))
        if i % 500 == 499:
            setup_world()
            gc.collect()
    answers = c14.ask(ck, drv, reqs)
    for (steps, results), ans in zip(keep, answers):
        if ans is None:
            continue
        mine = [res["r"] for res in results]
        if ans.get("results") != mine or ans.get("usable") is not True:
            ck.disagree({"kind": "sequence", "steps": encode_case(steps)}, ans, mine, "registry-sequence")


# --------------------------------------------------------------------------- refSwitch: cases x health of each case's function

SWITCH_CASE_VALUES = ["a", "b", "c", "", "a"]


def gen_switch_workflow(r):
    """a schema-valid Workflow with a `refSwitch` step of 1-5 cases: `case` values drawn WITH replacement (the bundled
    schema as koreo validates it does not make `case` unique: a later entry shadows an earlier one in `logic_map`),
    each entry's function ready / cached as a failure / not cached at all, independently; none, one or two defaults at
    any position"""
    n = r.choice([1, 2, 2, 3, 3, 4, 5])
    values = [r.choice(SWITCH_CASE_VALUES) for _ in range(n)] if r.random() < 0.7 else [f"c{i}" for i in range(n)]
    cases = []
    for v in values:
        kind, name = r.choice(c14.READY_REFS) if r.random() < 0.55 else r.choice(c14.REFS)
        cases.append({"case": v, "kind": kind, "name": name})
    d = r.random()
    for i in (r.sample(range(n), 1) if d < 0.7 else [] if d < 0.85 else r.sample(range(n), min(2, n))):
        cases[i]["default"] = True
    step = {"label": "pick", "refSwitch": {"switchOn": "=" + r.choice(["parent.spec.flavour", "parent.kind", "inputs.k",
                                                                          "has(parent.x) ? 'a' : 'b'"]),
                                           "cases": cases}}
    if r.random() < 0.6:
        step["inputs"] = {"x": "=parent.spec.x"}
    steps = [step]
    if r.random() < 0.3:
        steps.insert(0, {"label": "before", "ref": {"kind": "ValueFunction", "name": "vf_ok1"}, "inputs": {"a": "=parent.n"}})
    return {"steps": steps}


def switch_shape(spec) -> str:
    cases = [c for st in spec["steps"] for c in (st.get("refSwitch") or {}).get("cases", [])]
    seen, shadowed_bad, shadowed = {}, False, False
    for i, c in enumerate(cases):
        seen.setdefault(c["case"], []).append(i)
    for idxs in seen.values():
        for i in idxs[:-1]:
            shadowed = True
            if (cases[i]["kind"], cases[i]["name"]) in c14.NOT_READY:
                shadowed_bad = True
    return "shadowed-unready" if shadowed_bad else "shadowed" if shadowed else "distinct"


def _switch_fails(spec, via_cache) -> str | None:
    got = c14.impl_workflow(spec)
    if "raise" in got:
        return f"prepare_workflow raised {got['raise']}"
    if via_cache:
        bad = expr_case_ok(impl_prepare("Workflow", spec, via_cache=True))
        if bad:
            return f"cache.prepare_and_cache of the Workflow {bad}"
    return None


def run_switches(ck: Check, drv: LeanDriver, n: int, r):
    """C20 on `_load_logic_switch`: whatever the cases are and whatever state each case's function is in, preparing
    never raises; what it answers (steps, readiness, subscriptions, parent properties) is compared with the model"""
    setup_world()
    env_entries = [c14.cache_state(k, nm) for k, nm in c14.REFS]
    reqs, keep = [], []
    for i in range(n):
        spec = gen_switch_workflow(r)
        via = r.random() < 0.3
        got = c14.impl_workflow(spec)
        ck.evaluated()
        ck.count("switch:" + switch_shape(spec))
        ck.count("switch-result:" + ("raise" if "raise" in got else "gate" if "gate" in got else got["ready"]))
        ck.nontriv(hash(json.dumps(spec, sort_keys=True)))
        bad = _switch_fails(spec, via)
        if bad:
            if len(ck.violations) < 40:
                sw_i = next(j for j, st in enumerate(spec["steps"]) if "refSwitch" in st)

                def rebuilt(cases, sw_i=sw_i):
                    s2 = jcopy(spec)
                    s2["steps"] = [s2["steps"][sw_i]]
                    s2["steps"][0]["refSwitch"]["cases"] = cases
                    return s2

                small = common.ddmin(spec["steps"][sw_i]["refSwitch"]["cases"],
                                     lambda sub: bool(sub) and _switch_fails(rebuilt(sub), via) is not None)
                cand = rebuilt(small)
                bad2 = _switch_fails(cand, via)
                if bad2:
                    spec, bad = cand, bad2
            if len(ck.violations) < 200:
                ck.violate({"kind": "prepare", "resource": "Workflow", "spec": encode_case(spec), "via_cache": via},
                           f"{bad}; refSwitch cases: " + json.dumps(
                               [[c["case"], c["name"], bool(c.get("default"))] for st in spec["steps"]
                                for c in (st.get("refSwitch") or {}).get("cases", [])]))
        if "gate" in got:
            continue
        try:
            reqs.append(c14.workflow_request(spec, env_entries))
        except Exception as e:  # noqa: BLE001
            if "raise" not in got:
                raise
            continue
        keep.append((spec, got))
    answers = c14.ask(ck, drv, reqs, chunk=500)
    for (spec, got), ans in zip(keep, answers):
        if ans is None:
            continue
        if "raise" in ans or "raise" in got:
            if ("raise" in ans) != ("raise" in got):
                ck.disagree({"kind": "prepare", "resource": "Workflow", "spec": spec},
                            ans if "raise" in ans else "prepared", got, "switch-raises")
            continue
        model = c14.canon_model_wf(ans)
        mine = {k: got[k] for k in ("steps", "ready", "watched", "pp")}
        if model != mine:
            ck.disagree({"kind": "prepare", "resource": "Workflow", "spec": spec}, model, mine, "refSwitch-observables")


# --------------------------------------------------------------------------- members the schema leaves open

PREPARE_MODULES = {
    "ValueFunction": ["value_function/prepare.py", "predicate_helpers.py", "cel/prepare.py"],
    "ResourceFunction": ["resource_function/prepare.py", "predicate_helpers.py", "cel/prepare.py"],
    "ResourceTemplate": ["resource_template/prepare.py"],
    "Workflow": ["workflow/prepare.py", "cel/prepare.py"],
    "FunctionTest": ["function_test/prepare.py", "ref_helpers.py", "predicate_helpers.py", "cel/prepare.py"],
}
GHOST_VALUES = ["s", 7, ["x"], True, {"a": 1}]


def keys_read_by(kind: str) -> list:
    import ast

    keys = set()
    for rel in PREPARE_MODULES[kind]:
        try:
            tree = ast.parse((common.REPO / "src" / "koreo" / rel).read_text())
        except Exception:
            continue
        for n in ast.walk(tree):
            if isinstance(n, ast.Call) and isinstance(n.func, ast.Attribute) and n.func.attr in ("get", "pop") \
                    and n.args and isinstance(n.args[0], ast.Constant) and isinstance(n.args[0].value, str):
                keys.add(n.args[0].value)
            elif isinstance(n, ast.Subscript) and isinstance(n.slice, ast.Constant) and isinstance(n.slice.value, str):
                keys.add(n.slice.value)
            elif isinstance(n, ast.MatchMapping):
                keys.update(k.value for k in n.keys if isinstance(k, ast.Constant) and isinstance(k.value, str))
    return sorted(keys)


def ghost_placements(kind: str, spec, schema) -> list:
    """(path of a mapping in the spec, key): a key the kind's prepare code reads, at a place where the CRD schema
    does not declare it — i.e. a member the schema leaves unconstrained and the code may dereference"""
    out = []
    keys = keys_read_by(kind)
    for p, v in paths(spec):
        if not isinstance(v, dict):
            continue
        node, free = schema, False
        for q in p:
            if node is None:
                break
            if node.get("x-kubernetes-preserve-unknown-fields"):
                free = True
                break
            node = node.get("items") if isinstance(q, int) else (node.get("properties") or {}).get(q)
        if free or (node is not None and node.get("x-kubernetes-preserve-unknown-fields")):
            continue          # payload (inputs, return, template, …), not structure the code walks by key
        declared = (node.get("properties") or {}) if node is not None else {}
        out += [(p, k) for k in keys if k not in declared]
    return out


TYPE_VALUES = [None, True, 7, 1.5, "s", ["x"], {"a": 1}, [], {}]


def declared_placements(spec, schema) -> list:
    """(path of a mapping in the spec, declared property): every member the CRD schema declares at a mapping the
    well-formed spec has — present in the spec or not"""
    out = []
    for p, v in paths(spec):
        if not isinstance(v, dict):
            continue
        node = schema
        for q in p:
            if node is None or node.get("x-kubernetes-preserve-unknown-fields"):
                node = None
                break
            node = node.get("items") if isinstance(q, int) else (node.get("properties") or {}).get(q)
        if node is None:
            continue
        out += [(p, k) for k in (node.get("properties") or {})]
    return out


def run_ghosts(ck: Check, r, every_value: bool):
    """systematically: every undeclared-but-read key at every mapping of a well-formed spec of each kind, holding a
    value of each non-mapping type (quick: one value per placement, in rotation)"""
    setup_world()
    schemas = crd_schemas()
    cases = []
    for kind in KINDS:
        spec = base_spec(kind, r)
        for i, (p, k) in enumerate(ghost_placements(kind, spec, schemas[kind])):
            vals = GHOST_VALUES if every_value else [GHOST_VALUES[(i + common.seed()) % 4]]
            for val in vals:
                sp = copy.deepcopy(spec)
                get_at(sp, p)[k] = copy.deepcopy(val)
                cases.append((kind, sp, ".".join(map(str, p)) + "." + k))
        # and every declared member holding a value of every JSON type
        for i, (p, k) in enumerate(declared_placements(spec, schemas[kind])):
            vals = TYPE_VALUES if every_value else [TYPE_VALUES[(i + j + common.seed()) % len(TYPE_VALUES)] for j in (0, 4)]
            for val in vals:
                sp = copy.deepcopy(spec)
                get_at(sp, p)[k] = copy.deepcopy(val)
                cases.append((kind, sp, ".".join(map(str, p)) + "." + k + "=" + type(val).__name__))
    verdicts = independent_verdicts([[k, sp] for k, sp, _ in cases])
    for (kind, sp, where), verdict in zip(cases, verdicts):
        res = impl_prepare(kind, sp)
        ck.evaluated()
        ck.count(f"ghost:{'valid' if verdict[0] else 'invalid'}->{res['r']}")
        ck.nontriv(hash(kind + where + repr(type(get_at(sp, [])))))
        bad = spec_oracle(verdict, res)
        if bad and len(ck.violations) < 200:
            small = sp
            if len(ck.violations) < 6:
                def fails(c, kind=kind):
                    v = independent_verdicts([[kind, c]])[0]
                    return spec_oracle(v, impl_prepare(kind, c)) is not None
                try:
                    small = shrink_spec(kind, sp, fails)
                except common.Infra:
                    pass
            ck.violate({"kind": "spec", "resource": kind, "spec": encode_case(small), "mutation": f"ghost:{where}"},
                       f"{kind}: undeclared member `{where}`: {bad}")


def run_foreach_condition(ck: Check, drv: LeanDriver):
    """`forEach.condition` (not in the CRD schema) holding every kind of value: real prepare_workflow vs the model"""
    c14.setup_cache()
    env_entries = [c14.cache_state(k, nm) for k, nm in c14.REFS]
    vals = [{"type": "Each", "name": "n"}, {}, None, "", 0, "s", 7, 1.5, True, ["x"], [], {"other": 1}]
    reqs, keep = [], []
    for val in vals:
        for extra in ({}, {"inputKey": ""}):
            fe = {"itemIn": "=steps.first.items", "inputKey": "item", "condition": val, **extra}
            spec = {"steps": [{"label": "first", "ref": {"kind": "ValueFunction", "name": "vf_ok1"}},
                              {"label": "second", "ref": {"kind": "ValueFunction", "name": "vf_ok2"}, "forEach": fe}]}
            got = c14.impl_workflow(spec)
            ck.evaluated()
            ck.count("forEach.condition:" + ("raise" if "raise" in got else "gate" if "gate" in got else
                                             "prepared" if "deps" in got["steps"][1] else got["steps"][1]["err"]))
            if "raise" in got:
                if len(ck.violations) < 200:
                    ck.violate({"kind": "prepare", "resource": "Workflow", "spec": spec},
                               f"prepare of Workflow with forEach.condition = {val!r} raised {got['raise']}")
                continue
            if "gate" in got:
                continue
            reqs.append(c14.workflow_request(spec, env_entries))
            keep.append((spec, got))
    for (spec, got), ans in zip(keep, c14.ask(ck, drv, reqs)):
        if ans is None:
            continue
        model = c14.canon_model_wf(ans)
        mine = {k: got[k] for k in ("steps", "ready", "watched", "pp")}
        if model != mine:
            ck.disagree({"kind": "workflow", "spec": spec}, model, mine, "forEach.condition")


# --------------------------------------------------------------------------- overlayRef inputs vs the model

def run_overlay_inputs(ck: Check, drv: LeanDriver, n: int, r):
    """a cached ValueFunction with odd input names, then a ResourceFunction with an `overlayRef` to it: which names
    does the real `_prepare_overlays` report as missing (INPUTS_NAME_PATTERN, `None` names) vs the model"""
    import re

    import koreo_util as ku
    from koreo import cache
    from koreo.resource_function.prepare import INPUTS_NAME_PATTERN, prepare_resource_function
    from koreo.value_function.structure import ValueFunction

    setup_world()
    reqs, keep = [], []
    for i in range(n):
        _dep_serial[0] += 1
        name = f"dep{_dep_serial[0]}"
        exprs = r.sample(ODD_INPUT_EXPRS, r.randint(1, 4))
        vf_spec = {"return": {f"r{j}": "=" + e for j, e in enumerate(exprs)}}
        res = impl_prepare("ValueFunction", vf_spec, via_cache=True, name=name)
        vf = cache.get_resource_from_cache(resource_class=ValueFunction, cache_key=name)
        if res["r"] != "prepared" or vf is None:
            continue
        keys = sorted(vf.dynamic_input_keys)
        provided = r.sample(["x", "zone", "a", "y", "k", "opt", "items"], r.randint(0, 4))
        ov = {"overlayRef": {"kind": "ValueFunction", "name": name}}
        if provided:
            ov["inputs"] = {g: "=inputs." + g for g in provided}
        spec = {"apiConfig": {"apiVersion": "v1", "kind": "ConfigMap", "name": "n", "namespace": "ns"},
                "resource": {"data": {"k": "v"}}, "overlays": [ov]}
        ck.evaluated()
        try:
            got = ku.run(prepare_resource_function("uses-" + name, copy.deepcopy(spec)))
        except Exception as e:  # noqa: BLE001
            ck.violate({"kind": "sequence", "steps": [
                {"resource": "ValueFunction", "via_cache": True, "name": name, "spec": vf_spec},
                {"resource": "ResourceFunction", "spec": spec}]},
                f"prepare_resource_function raised {type(e).__name__}: {str(e)[:100]}")
            continue
        if not isinstance(got, tuple):
            continue
        overlays = got[0].crud_config.overlays
        cls = ku.outcome_class(overlays)
        if cls == "ok":
            mine_missing = None
        elif cls == "permFail" and "expected the following inputs" in (overlays.message or ""):
            mine_missing = sorted(re.findall(r'"([^"]*)"', overlays.message.split("expected the following inputs", 1)[1]))
        else:
            ck.count(f"overlay-inputs:other-{cls}")
            continue
        mine_needed = sorted({"<None>" if m.group("name") is None else m.group("name")
                              for m in (INPUTS_NAME_PATTERN.match(k) for k in keys) if m})
        ck.count("overlay-inputs:" + ("complete" if mine_missing is None else
                                      "None-name-missing" if "None" in mine_missing else "missing"))
        ck.nontriv(hash(json.dumps([keys, sorted(provided)])))
        reqs.append({"op": "overlayInputs", "keys": keys, "provided": provided})
        keep.append((vf_spec, spec, mine_needed, mine_missing))
    answers = c14.ask(ck, drv, reqs)
    for (vf_spec, spec, mine_needed, mine_missing), ans in zip(keep, answers):
        if ans is None:
            continue
        m_needed = sorted({"<None>" if x is None else x for x in ans.get("needed", [])})
        m_missing = None if ans.get("missing") is None else sorted(x.strip('"') for x in ans["missing"])
        if "raise" in ans or m_needed != mine_needed or m_missing != mine_missing:
            ck.disagree({"kind": "overlay-inputs", "vf": vf_spec, "rf": spec}, [m_needed, m_missing, ans.get("raise")],
                        [mine_needed, mine_missing], "overlayRef-missing-inputs")


# --------------------------------------------------------------------------- corpus / replay

def replay_case(case) -> str | None:
    case = decode_case(case)
    k = case.get("kind")
    if k == "sequence":
        setup_world()
        return sequence_oracle(case["steps"], run_sequence(case["steps"]))
    if k == "extract":
        tree, got = c14.impl_extract(case["text"])
        return f"extract_argument_structure raised: {got[1]}" if got[0] == "raise" else None
    if k == "prepare":
        setup_world()
        res = impl_prepare(case["resource"], case["spec"], via_cache=case.get("via_cache", False))
        bad = expr_case_ok(res)
        return f"prepare of {case['resource']} {bad}" if bad else None
    if k == "spec":
        setup_world()
        # as in the stream, well-formed specs of the kind have been prepared in this process before
        import random
        for i in range(6):
            impl_prepare(case["resource"], base_spec(case["resource"], random.Random(i)))
        v = independent_verdicts([[case["resource"], case["spec"]]])[0]
        return spec_oracle(v, impl_prepare(case["resource"], case["spec"], via_cache=case.get("via_cache", False)))
    return f"unknown case kind {k}"


def run_corpus(ck: Check):
    d = common.VERIF / "corpus" / "C20"
    n = 0
    for f in sorted(d.glob("*.json")) if d.is_dir() else []:
        data = json.loads(f.read_text())
        for case in data.get("cases", [data] if "kind" in data else []):
            n += 1
            ck.evaluated()
            bad = replay_case(case)
            if bad:
                ck.violate(encode_case(case), f"[corpus {f.name}] {bad}")
    ck.count("corpus-cases", n)


def run(tier: str) -> int:
    ck = Check("C20", tier)
    ck.trusted = [
        "Lean 4.33.0 kernel; axioms of every theorem ⊆ {propext, Classical.choice, Quot.sound}",
        "model lean/Koreo/CelAst.lean hand-transcribed from structure_extractor.py; grammar regenerated from lark's "
        "compiled rules; the model is proved to agree with fact tables regenerated by PROBING the real code "
        "(extract_argument_structure on trees covering every node type at every position, _prepare_overlays' missing-"
        "input report, the schema gate of the five prepare_* on violating specs); the scan of statement shapes is "
        "kept as information only",
        "celpy 0.3.0 / lark: that the parser only yields trees of its grammar (validated by the parse-tree differential)",
        "fastjsonschema's reading of the bundled CRDs, cross-checked against the jsonschema package (Draft 7)",
        "Python-level exceptions inside the prepare bodies on schema-valid specs are searched, not proved",
    ]
    ck.assumptions = [
        "schema violation = the structural OpenAPI part (types, required, enum, min/max, oneOf/anyOf); "
        "x-kubernetes-validations rules are not enforced by the bundled validator and not counted (DESIGN 7)",
        "definitions do not reference themselves through the cache (a cycle is the registry's SubscriptionCycle, C17)",
    ]
    ck.prove(extractors=["CelTables"])
    if tier == "thorough" and ck.build_ok:
        ck.leanchecker()
    drv = LeanDriver("C20")
    r = rng("c20")
    quick = tier == "quick"
    run_corpus(ck)
    t0 = time.time()
    run_expressions(ck, drv, 2600 if quick else 50000, r)
    ck.notes.append(f"expression stream: {time.time() - t0:.1f}s")
    t0 = time.time()
    run_ghosts(ck, r, every_value=not quick)
    run_foreach_condition(ck, drv)
    run_specs(ck, drv, 3000 if quick else 80000, r)
    ck.notes.append(f"spec stream: {time.time() - t0:.1f}s")
    t0 = time.time()
    run_sequences(ck, drv, 800 if quick else 12000, r)
    run_switches(ck, drv, 400 if quick else 8000, r)
    run_overlay_inputs(ck, drv, 150 if quick else 3000, r)
    c14.report_setup_failures(ck, "C20")
    ck.notes.append(f"sequence stream: {time.time() - t0:.1f}s")
    return ck.finish(
        rule="expression stream: random CEL expressions of every syntactic shape (incl. index / call / member on "
             "parenthesised, literal, list, map, call and message receivers) placed in every expression-bearing field "
             "of ValueFunction, ResourceFunction, ResourceTemplate, Workflow and FunctionTest, through prepare_* and "
             "cache.prepare_and_cache; spec stream: well-formed specs of the five kinds mutated at random paths (type "
             "confusion, deleted parts, oversized lists, wrong enum, both/neither of a oneOf, extra keys, junk roots) "
             "with the verdict of the jsonschema package; numeric leaves replaced by integral / non-integral floats, "
             "64-bit bounds, integers beyond the int<->str digit limit, look-alike strings; apiVersion / kind strings "
             "kr8s splits on; sequences of 2-5 prepares in one process (kr8s class registry kept alive) ending in an "
             "ordinary one; non-trivial = a (kind, field, expression) placement, or a "
             "spec the independent validator rejects; distinct by text",
    )


def replay(path: str) -> int:
    data = json.load(open(path))
    rc = 0
    for v in data.get("violations", []) or [{"case": c} for c in data.get("cases", [])]:
        bad = replay_case(v["case"])
        print("replay:", json.dumps(v["case"], default=str)[:300], "::", bad)
        rc = rc or (1 if bad else 0)
    return rc
