"""C17 — subscription registry stays consistent, acyclic and delivers exactly.

proof:   lean/Koreo/Props/C17.lean over lean/Koreo/Registry.lean (+ Gen/RegistryCatch.lean)
tie:     (a) the handler set around `put_nowait` regenerated from registry.py,
         (b) random / exhaustive operation sequences through koreo.registry and the compiled model,
             observables after every op: both maps, every registered queue, the op's outcome
oracle:  the property's clauses evaluated on what the real module did (inverse views, acyclicity by
         DFS, refused => unchanged, deliveries exact, notify never raises, deregister releases),
         independent of the Lean model
"""
from __future__ import annotations

import asyncio
import itertools
import json
import signal

from common import Check, Infra, LeanDriver, VERIF, ddmin, rng

CORPUS = VERIF / "corpus" / "C17"


# --------------------------------------------------------------------------- the implementation side

class KindA: ...


class KindB: ...


def nsalt(n):
    """a history's universe is `n` or `[n, salt]`; the salt only renames the resources (other hashes, hence
    other set iteration orders) and is invisible to the model"""
    return (n[0], n[1]) if isinstance(n, (list, tuple)) else (n, 0)


def universe(registry, n=6, salt=0):
    R = registry.Resource
    base = [R(KindA, "a"), R(KindA, "b"), R(KindB, "a"), R(KindB, "c", "ns"), R(KindA, "a", "ns"), R(KindB, "b")]
    if salt == 0 and n <= 6:
        return base[:n]
    kinds = [KindA, KindB]
    return [R(kinds[(i + salt) % 2], f"r{salt}-{i * 7919 % 1009}-{i}", "ns" if (i + salt) % 5 == 0 else None)
            for i in range(n)]


class RecQ(asyncio.LifoQueue):
    """a LifoQueue that records what happens to it, so deliveries are observable without consuming"""

    def __init__(self, owner: int, maxsize: int = 0):
        super().__init__(maxsize)
        self.owner = owner
        self.cap = maxsize
        self.stack = []        # bottom … top
        self.puts = []         # every item ever put
        self.done = 0
        self.was_shut = False

    def _put(self, item):
        super()._put(item)
        self.stack.append(item)
        self.puts.append(item)

    def _get(self):
        item = super()._get()
        for i in range(len(self.stack) - 1, -1, -1):
            if self.stack[i] is item:
                del self.stack[i]
                break
        return item

    def task_done(self):
        super().task_done()
        self.done += 1

    def shutdown(self, immediate=False):
        super().shutdown(immediate)
        self.was_shut = True


class Diverged(Exception):
    pass


def _alarm(signum, frame):
    raise Diverged()


class Impl:
    """one history against the real module"""

    def __init__(self, registry, n: int):
        self.reg = registry
        n, salt = nsalt(n)
        self.n = n
        self.res = universe(registry, n, salt)
        self.idx = {r: i for i, r in enumerate(self.res)}
        self.queues: list[RecQ] = []
        self.held = [set(), set()]   # set objects the "caller" keeps and re-uses / mutates
        registry._reset_registries()

    # -- observation
    def item(self, it):
        if isinstance(it, self.reg.Kill):
            return "K"
        if isinstance(it, self.reg.ResourceEvent):
            t = it.event_time
            return ["E", self.idx.get(it.resource, -1), t if isinstance(t, int) and not isinstance(t, bool) else None]
        return ["?", repr(type(it))]

    def snap_q(self, q):
        if not isinstance(q, RecQ):
            return {"foreign": type(q).__name__}
        return {"items": [self.item(x) for x in reversed(q.stack)], "shut": q.was_shut,
                "unfinished": len(q.puts) - q.done, "cap": q.cap}

    def registered(self, i):
        return self.reg._SUBSCRIPTION_QUEUES.get(self.res[i])

    def state(self):
        g = self.reg
        # read the two views WITHOUT creating entries: the public getters index a defaultdict, which would
        # insert an empty set for every resource looked at — and `_check_for_cycles` tells "has no entry"
        # from "has an empty entry" (its `continue` branch), so observing must not turn one into the other
        so = getattr(g, "_SUBSCRIBER_RESOURCES", None)
        sr = getattr(g, "_RESOURCE_SUBSCRIBERS", None)

        def peek(d, getter, r):
            return d.get(r, ()) if isinstance(d, dict) else getter(r)
        return {
            "subs": [sorted(self.idx.get(x, -1) for x in peek(so, g.get_subscriptions, r)) for r in self.res],
            "subscribers": [sorted(self.idx.get(x, -1) for x in peek(sr, g.get_subscribers, r)) for r in self.res],
            "queues": [None if self.registered(i) is None else self.snap_q(self.registered(i)) for i in range(self.n)],
        }

    def container(self, op):
        """the `resources` argument of subscribe_only_to in the shape the op asks for"""
        rs = [self.res[x] for x in op["rs"]]
        via = op.get("via", "list")
        if via == "tuple":
            return tuple(rs)
        if via == "set":
            return set(rs)
        if via == "frozenset":
            return frozenset(rs)
        if via in ("h0", "h1"):       # a set object the caller re-uses across calls
            h = self.held[int(via[1])]
            h.clear()
            h.update(rs)
            return h
        return rs

    # -- one operation; returns the canonical outcome
    def apply(self, op):
        g, R = self.reg, self.res
        k = op["op"]
        marks = [(q, len(q.puts)) for q in self.queues]
        before_q = self.registered(op["r"]) if k == "deregister" else None
        self.last_new, self.last_released = {}, None
        out = None
        guard = k in ("subscribe", "only")
        if guard:
            signal.setitimer(signal.ITIMER_REAL, 1.0)
        try:
            if k == "register":
                q = RecQ(op["r"], op["cap"])
                got = g.register(R[op["r"]], q)
                if got is q:
                    self.queues.append(q)
                    marks.append((q, 0))
            elif k == "subscribe":
                g.subscribe(R[op["s"]], R[op["r"]])
            elif k == "only":
                g.subscribe_only_to(R[op["s"]], self.container(op))
            elif k == "mutate":      # the caller changes a set it once handed over; not a registry operation
                h = self.held[op["h"]]
                (h.add if op["add"] else h.discard)(R[op["x"]])
            elif k == "unsubscribe":
                g.unsubscribe(R[op["s"]], R[op["r"]])
            elif k == "notify":
                g.notify_subscribers(R[op["r"]], op["t"])
            elif k == "kill":
                g.kill_resource(R[op["r"]])
            elif k == "deregister":
                g.deregister(R[op["r"]], op["t"])
            else:
                raise Infra(f"bad op {op}")
        except g.SubscriptionCycle:
            out = {"k": "cycle"}
        except KeyError:
            out = {"k": "keyError"}
        except asyncio.QueueShutDown:
            out = {"k": "raised", "e": "QueueShutDown"}
        except asyncio.QueueFull:
            out = {"k": "raised", "e": "QueueFull"}
        except Diverged:
            out = {"k": "diverged"}
        except Infra:
            raise
        except Exception as e:  # anything else is an observation too
            out = {"k": "exception", "cls": type(e).__name__}
        finally:
            if guard:
                signal.setitimer(signal.ITIMER_REAL, 0)
        # who received an event during this op
        to = sorted(q.owner for q, m in marks
                    if any(isinstance(x, g.ResourceEvent) for x in q.puts[m:]))
        self.last_new = {q.owner: [self.item(x) for x in q.puts[m:]] for q, m in marks if len(q.puts) > m}
        self.last_released = before_q
        if out is None:
            if k in ("register", "notify"):
                out = {"k": "delivered", "to": to}
            elif k == "deregister":
                out = {"k": "released", "q": None if before_q is None else self.snap_q(before_q), "to": to}
            else:
                out = {"k": "ok"}
        return out


# --------------------------------------------------------------------------- the property, on the implementation

def reach(subs, start):
    seen, todo = set(), list(start)
    while todo:
        x = todo.pop()
        if x in seen:
            continue
        seen.add(x)
        todo.extend(subs[x])
    return seen


def has_cycle(subs):
    n = len(subs)
    color = [0] * n
    for root in range(n):
        if color[root]:
            continue
        stack = [(root, iter(subs[root]))]
        color[root] = 1
        while stack:
            node, it = stack[-1]
            for nxt in it:
                if color[nxt] == 1:
                    return True
                if color[nxt] == 0:
                    color[nxt] = 1
                    stack.append((nxt, iter(subs[nxt])))
                    break
            else:
                color[node] = 2
                stack.pop()
    return False


def q_live(q):
    return q is not None and not q["shut"] and not (q["cap"] > 0 and len(q["items"]) >= q["cap"])


def oracle_history(registry, n, ops):
    """run the history on the real module and evaluate the property's clauses after every op;
    returns ((index, description) of the first broken clause or None, the trace of (out, state))"""
    trace = []
    bad = _oracle_history(registry, n, ops, trace)
    return bad, trace


def _oracle_history(registry, n, ops, trace):
    im = Impl(registry, n)
    n = im.n
    empty = {"subs": [[] for _ in range(n)], "subscribers": [[] for _ in range(n)], "queues": [None] * n}
    before = empty
    try:
        for i, op in enumerate(ops):
            out = im.apply(op)
            after = im.state()
            trace.append({"out": out, "state": after})
            k = op["op"]
            if out["k"] == "diverged":
                return i, "cycle check did not terminate within 1 s"
            if out["k"] == "raised":
                return i, f"{k} raised {out['e']} (notifying must never fail because a subscriber was killed or deregistered)"
            if out["k"] == "exception":
                return i, f"{k} raised {out['cls']}"
            # inverse views
            for a in range(n):
                for b in range(n):
                    if (b in after["subs"][a]) != (a in after["subscribers"][b]):
                        return i, f"views are not inverse after {k}: {a} watches {b} = {b in after['subs'][a]}, {b} watched by {a} = {a in after['subscribers'][b]}"
            if has_cycle(after["subs"]):
                return i, f"subscription graph has a cycle after {k}"
            # refusals
            if k in ("subscribe", "only"):
                wanted = [op["r"]] if k == "subscribe" else list(op["rs"])
                closes = op["s"] in reach(before["subs"], wanted)
                if closes and out["k"] != "cycle":
                    return i, "a subscription that closes a cycle was not refused"
            if out["k"] in ("cycle", "keyError") and after != before:
                return i, f"a refused {k} ({out['k']}) changed the registry"
            if k == "kill":
                r = op["r"]
                qb, qa = before["queues"][r], after["queues"][r]
                if out["k"] != "ok":
                    return i, (f"kill_resource of {'a registered' if qb is not None else 'an unregistered'} resource "
                               f"raised ({out['k']}); killing never raises and is a no-op for an unregistered resource")
                if qb is None:
                    if after != before:
                        return i, "kill_resource of an unregistered resource changed the registry"
                else:
                    if qa is None:
                        return i, "kill_resource removed the queue (it must stay registered until deregister)"
                    if not qa["shut"]:
                        return i, f"after kill_resource the queue is not shut down (it keeps accepting events): {qa}"
                    if not qb["shut"]:
                        full = qb["cap"] > 0 and len(qb["items"]) >= qb["cap"]
                        want_items = qb["items"] if full else ["K"] + qb["items"]
                        if qa["items"] != want_items:
                            return i, f"after kill_resource the queue does not hold the Kill item on top: {qa['items']}"
                    elif qa != qb:
                        return i, "kill_resource of an already killed resource changed its queue"
                    rest_b = dict(before, queues=[q for x, q in enumerate(before["queues"]) if x != r])
                    rest_a = dict(after, queues=[q for x, q in enumerate(after["queues"]) if x != r])
                    if rest_a != rest_b:
                        return i, "kill_resource changed something besides the killed resource's queue"
            if k == "mutate" and after != before:
                return i, "the registry changed when a caller mutated a set it had passed to subscribe_only_to"
            # deliveries
            if k in ("register", "notify", "deregister"):
                r = op["r"]
                qs_before = list(before["queues"])
                if k == "register" and qs_before[r] is None:
                    qs_before[r] = {"items": [], "shut": False, "unfinished": 0, "cap": op["cap"]}
                notified = not (k == "register" and before["queues"][r] is not None)
                t = op.get("t")
                expect = [x for x in before["subscribers"][r]
                          if x != r and q_live(qs_before[x])] if notified else []
                if out["to"] != sorted(expect):
                    return i, f"{k}({r}) delivered to {out['to']}, current subscribers with a live queue are {sorted(expect)}"
                for x in range(n):
                    new = im.last_new.get(x, [])
                    events = [e for e in new if e != "K"]
                    if x in expect:
                        if events != [["E", r, t]]:
                            return i, f"subscriber {x} received {events} instead of exactly one event from {r}"
                    elif events:
                        return i, f"{x} is not a live subscriber of {r} but received {events}"
                for x in range(n):
                    if x == r:
                        continue
                    qa, qb = after["queues"][x], qs_before[x]
                    if x in expect:
                        want = dict(qb, items=[["E", r, t]] + qb["items"], unfinished=qb["unfinished"] + 1)
                    else:
                        want = qb
                    if qa != want:
                        return i, f"queue of {x} changed unexpectedly during {k}({r})"
            # deregister releases
            if k == "deregister":
                r = op["r"]
                if after["queues"][r] is not None:
                    return i, "deregister left the queue registered"
                if after["subs"][r] or any(r in after["subscribers"][b] for b in range(n)):
                    return i, "deregister left subscriptions of the resource behind"
                q = im.last_released
                if q is not None:
                    s = im.snap_q(q)
                    if s["items"] or not s["shut"] or s["unfinished"] != 0:
                        return i, f"released queue not drained / shut down / finished: {s}"
                    try:
                        q.get_nowait()
                        return i, "get on the released queue did not raise QueueShutDown"
                    except asyncio.QueueShutDown:
                        pass
                    except asyncio.QueueEmpty:
                        return i, "released queue is empty but not shut down (a blocked get would hang)"
                    co = q.join()
                    try:
                        co.send(None)
                        co.close()
                        return i, "join() on the released queue would block"
                    except StopIteration:
                        pass
                    except Exception:
                        return i, "join() on the released queue would block"
            before = after
    finally:
        registry._reset_registries()
    return None


# --------------------------------------------------------------------------- generation

def gen_history(r):
    n = r.choice([4, 4, 5, 6])
    length = r.choice([1, 2, 3, 5, 8, 12, 20, 30, 40, 60, 80]) if r.random() < 0.5 else r.randint(1, 80)
    ops = []
    edges = set()       # generator's rough idea of who watches whom
    t = 0

    def res():
        return r.randrange(n)

    if r.random() < 0.6:   # most histories start with some registered resources
        for x in r.sample(range(n), r.randint(1, n)):
            ops.append({"op": "register", "r": x, "cap": r.choice([0, 0, 0, 0, 1, 2])})
    while len(ops) < length:
        t += 1
        x = r.random()
        if x < 0.16:
            ops.append({"op": "register", "r": res(), "cap": r.choice([0, 0, 0, 0, 1, 2])})
        elif x < 0.34:
            a, b = res(), res()
            if edges and r.random() < 0.35:   # try to close a cycle: subscribe the end of a chain to its start
                s0, r0 = r.choice(sorted(edges))
                reachable = reach([[y for (x2, y) in edges if x2 == i] for i in range(n)], [r0])
                a, b = r.choice(sorted(reachable)), s0
            ops.append({"op": "subscribe", "s": a, "r": b})
            edges.add((a, b))
        elif x < 0.46:
            a = res()
            rs = [res() for _ in range(r.choice([0, 1, 1, 2, 2, 3, 4]))]
            via = r.choice(["list", "list", "tuple", "set", "frozenset", "h0", "h0", "h1"])
            ops.append({"op": "only", "s": a, "rs": rs, "via": via})
            edges = {(s, y) for (s, y) in edges if s != a} | {(a, y) for y in rs}
            if via[0] == "h":
                y = r.random()
                if y < 0.3:      # the same set object handed to a second subscriber
                    b = res()
                    ops.append({"op": "only", "s": b, "rs": rs, "via": via})
                    edges = {(s, z) for (s, z) in edges if s != b} | {(b, z) for z in rs}
                elif y < 0.6:    # … or mutated by the caller afterwards
                    ops.append({"op": "mutate", "h": int(via[1]), "x": res(), "add": r.random() < 0.6})
        elif x < 0.56:
            if edges and r.random() < 0.7:
                a, b = r.choice(sorted(edges))
            else:
                a, b = res(), res()
            ops.append({"op": "unsubscribe", "s": a, "r": b})
            edges.discard((a, b))
        elif x < 0.74:
            ops.append({"op": "notify", "r": res(), "t": t})
        elif x < 0.82:
            a = res()
            ops.append({"op": "kill", "r": a})
            if r.random() < 0.5:      # kill-then-notify what it watches
                tgt = [y for (s, y) in edges if s == a]
                if tgt:
                    t += 1
                    ops.append({"op": "notify", "r": r.choice(tgt), "t": t})
        elif x < 0.92:
            a = res()
            ops.append({"op": "deregister", "r": a, "t": t})
            edges = {(s, y) for (s, y) in edges if s != a}
            if r.random() < 0.5:      # deregister-then-subscribe / re-register
                t += 1
                ops.append(r.choice([{"op": "subscribe", "s": a, "r": res()},
                                     {"op": "register", "r": a, "cap": 0},
                                     {"op": "notify", "r": a, "t": t}]))
        else:                          # redundant repetition
            if ops:
                ops.append(dict(r.choice(ops)))
    return n, ops[:80]


def gen_wide_history(r, salt):
    """a wide universe: the level the cycle check expands holds many leaves (resources that never
    subscribed to anything, i.e. without an entry in `_SUBSCRIBER_RESOURCES`) next to the one node whose
    subscriptions lead back to the subscriber — whatever order the set is walked in, the cycle must be found"""
    n = r.randint(10, 36)
    ids = list(range(n))
    r.shuffle(ids)
    x = ids[0]
    chain = ids[1:1 + r.choice([1, 1, 2, 3])]          # chain[0] -> … -> chain[-1] -> x  ("watches")
    rest = ids[1 + len(chain):]
    ops = []
    t = 0
    for a in r.sample(ids, r.randint(0, 4)):
        ops.append({"op": "register", "r": a, "cap": 0})
    nodes = chain + [x]
    for a, b in zip(nodes, nodes[1:]):
        extra = r.sample(rest, r.randint(0, min(6, len(rest))))   # inner levels hold leaves too
        if extra or r.random() < 0.5:
            rs = extra + [b]
            r.shuffle(rs)
            ops.append({"op": "only", "s": a, "rs": rs, "via": r.choice(["list", "tuple", "set"])})
        else:
            ops.append({"op": "subscribe", "s": a, "r": b})
    leaves = r.sample(rest, r.randint(min(3, len(rest)), len(rest)))
    y = r.random()
    if y < 0.7:          # closes the cycle through a level full of leaves: must be refused
        rs = leaves + [chain[0]]
        r.shuffle(rs)
        ops.append({"op": "only", "s": x, "rs": rs, "via": r.choice(["list", "tuple", "set", "frozenset"])})
    elif y < 0.85:       # leaves first (accepted), then the single closing edge
        ops.append({"op": "only", "s": x, "rs": leaves, "via": "list"})
        ops.append({"op": "subscribe", "s": x, "r": chain[0]})
    else:                # no cycle: accepted
        ops.append({"op": "only", "s": x, "rs": leaves, "via": "list"})
    for _ in range(r.randint(0, 4)):
        t += 1
        a, b = r.choice(ids), r.choice(ids)
        ops.append(r.choice([{"op": "subscribe", "s": a, "r": b}, {"op": "notify", "r": a, "t": t},
                             {"op": "kill", "r": a}, {"op": "unsubscribe", "s": a, "r": b},
                             {"op": "deregister", "r": a, "t": t}]))
    return [n, salt], ops


def alphabet3():
    """the op alphabet of the exhaustive box over resources {0,1,2}"""
    A = []
    for r in range(3):
        A.append({"op": "register", "r": r, "cap": 0})
        A.append({"op": "notify", "r": r, "t": 1})
        A.append({"op": "kill", "r": r})
        A.append({"op": "deregister", "r": r, "t": 2})
        A.append({"op": "only", "s": r, "rs": []})
        A.append({"op": "only", "s": r, "rs": [x for x in range(3) if x != r], "via": "set"})
        A.append({"op": "only", "s": r, "rs": [(r + 1) % 3], "via": "h0"})
    for s in range(3):
        for r in range(3):
            if s != r:
                A.append({"op": "subscribe", "s": s, "r": r})
                A.append({"op": "unsubscribe", "s": s, "r": r})
    A.append({"op": "subscribe", "s": 0, "r": 0})
    A.append({"op": "mutate", "h": 0, "x": 0, "add": True})
    return A


def mentions(op):
    out = []
    for k in ("s", "r", "x"):
        if k in op:
            out.append(op[k])
    out += op.get("rs", [])
    return out


def canonical(seq):
    """first-mentioned resource is 0, the next new one 1, … (sequences are enumerated up to renaming)"""
    nxt = 0
    for op in seq:
        for x in mentions(op):
            if x > nxt:
                return False
            if x == nxt:
                nxt += 1
    return True


# --------------------------------------------------------------------------- the check

def load_corpus():
    out = []
    if CORPUS.exists():
        for f in sorted(CORPUS.glob("*.json")):
            d = json.loads(f.read_text())
            out.append((f.name, d["n"], d["ops"]))
    return out


SHRINK_FIRST = 5     # failing histories that get delta-debugged
STOP_AFTER = 40      # failing histories after which a run stops exploring (the verdict is settled)


def explore(ck, registry, drv, cases, what, keep_samples=True):
    """correspondence + property oracle on a batch of (n, ops); False = stop exploring"""
    reqs = [{"n": nsalt(n)[0], "ops": ops} for n, ops in cases]
    try:
        answers = drv.ask(reqs)
    except Infra as e:
        if ck.build_ok:
            ck.notes.append(f"model driver unavailable: {e}")
        ck.build_ok = False
        answers = [None] * len(cases)
    for (n, ops), ans in zip(cases, answers):
        ck.evaluated()
        ck.count(f"{what}:len:{min(len(ops) // 10 * 10, 80)}")
        bad, got = oracle_history(registry, n, ops)
        # correspondence (on the prefix the implementation executed)
        if isinstance(ans, dict) and "error" in ans:
            ck.disagree({"n": n, "ops": ops}, ans, None, "driver-error")
        elif ans is not None:
            for i, (g, m) in enumerate(zip(got, ans)):
                if g != m:
                    if len(ck.disagreements) < 50:
                        ck.disagree({"n": n, "ops": ops[:i + 1], "at": i, "batch": what}, m, g,
                                    "registry-observables (outcome, both maps, queues) after every op")
                    break
        if bad is not None:
            i, msg = bad
            if len(ck.violations) < SHRINK_FIRST and "terminate" not in msg:
                def fails(sub, n=n):
                    return oracle_history(registry, n, sub)[0] is not None
                small = ddmin(ops[:i + 1], fails)
                b2 = oracle_history(registry, n, small)[0]
                ck.violate({"n": n, "ops": small}, b2[1] if b2 else msg)
            else:   # enough minimised witnesses: record the cut history as it is
                ck.violate({"n": n, "ops": ops[:i + 1]}, msg)
            if len(ck.violations) >= STOP_AFTER:
                ck.notes.append(f"exploration stopped after {STOP_AFTER} failing histories")
                return False
            continue
        # distribution / non-triviality from what the implementation did
        kinds = set()
        for op, g in zip(ops, got):
            ck.count(f"op:{op['op']}")
            ck.count(f"out:{g['out']['k']}")
            kinds.add(g["out"]["k"])
            if g["out"].get("to"):
                kinds.add("delivery")
                ck.count("deliveries", len(g["out"]["to"]))
            if op["op"] in ("notify", "register", "deregister"):
                r = op["r"]
                qs = g["state"]["queues"]
                if any(qs[x] is not None and qs[x]["shut"] for x in g["state"]["subscribers"][r]):
                    ck.count("notify-with-shut-down-subscriber")
                    kinds.add("skip-shut")
        if len(kinds) >= 3:
            ck.nontriv(json.dumps([n, ops], sort_keys=True))
        if keep_samples and 4 <= len(ops) <= 12 and len(kinds) >= 3:
            ck.sample({"n": n, "ops": ops, "outs": [g["out"] for g in got]})
    return True


def run(tier: str) -> int:
    from koreo import registry
    import koreo_util  # noqa: F401  (silences koreo's logging)

    ck = Check("C17", tier)
    ck.trusted = [
        "Lean 4.33.0 kernel; axioms of every theorem ⊆ {propext, Classical.choice, Quot.sound}",
        "model lean/Koreo/Registry.lean hand-transcribed from src/koreo/registry.py (sets as duplicate-free "
        "lists, asyncio.LifoQueue as items/shut-down flag/unfinished count/maxsize); the except-clause around "
        "put_nowait is regenerated from the source (harness/extractors/RegistryCatch.py) and proved equal to the model's",
        "differential harness/c17.py: the same operation sequences through koreo.registry and the compiled model, "
        "full observation after every operation",
        "asyncio.LifoQueue (put_nowait / shutdown / get_nowait / task_done / join) behaves as modelled; Python set/dict",
    ]
    ck.assumptions = [
        "sequential use: no consumer task takes items between operations (monitors belong to C16)",
        "every resource registers a queue of its own (the API would allow sharing one queue object)",
        "event times are supplied integers; register's time.monotonic() stamp is compared as 'some time'",
    ]
    ck.prove(extractors=["RegistryCatch"])
    if tier == "thorough" and ck.build_ok:
        ck.leanchecker()
    drv = LeanDriver("C17")
    old = signal.signal(signal.SIGALRM, _alarm)
    try:
        # corpus first
        for name, n, ops in load_corpus():
            ck.count("corpus")
            go = explore(ck, registry, drv, [(n, ops)], "corpus", keep_samples=False)
        r = rng("c17")
        total = 3000 if tier == "quick" else 200000
        done = 0
        go = True
        while go and done < total:
            batch = [gen_history(r) for _ in range(min(2000, total - done))]
            go = explore(ck, registry, drv, batch, "random")
            done += len(batch)
        # wide universes: levels full of leaves, resource names (hence hashes and set orders) vary per history
        rw = rng("c17-wide")
        total_w = 800 if tier == "quick" else 40000
        done = 0
        while go and done < total_w:
            batch = [gen_wide_history(rw, 1 + done + j) for j in range(min(1000, total_w - done))]
            go = explore(ck, registry, drv, batch, "wide", keep_samples=False)
            done += len(batch)
        # exhaustive box
        A = alphabet3()
        depth = 3 if tier == "quick" else 4
        seqs = [list(s) for s in itertools.product(A, repeat=depth) if canonical(s)]
        ck.cov["exhaustive_box"] = {"resources": 3, "alphabet": len(A), "max_len": depth,
                                    "sequences_up_to_renaming": len(seqs)}
        for i in range(0, len(seqs), 5000):
            if not go:
                break
            go = explore(ck, registry, drv, [(3, s) for s in seqs[i:i + 5000]], "box", keep_samples=False)
        ck.cov["exhaustive"] = go
    finally:
        signal.signal(signal.SIGALRM, old)
        signal.setitimer(signal.ITIMER_REAL, 0)

    return ck.finish(
        rule="wide-universe sequences (10-36 freshly named resources per history, a subscription chain whose "
             "levels hold up to 30 leaves without any subscription entry, closed into a cycle through such a "
             "level) and random operation sequences (1-80 ops, 4-6 resources of two kinds/namespaces, register with "
             "unbounded and bounded queues, subscribe biased towards closing cycles, subscribe_only_to with "
             "duplicates, unsubscribe of present and absent edges, notify, kill-then-notify, "
             "deregister-then-subscribe, verbatim repetitions) plus every sequence of exactly "
             f"{3 if tier == 'quick' else 4} ops (hence every shorter one as a prefix) over 3 resources from a "
             "35-op alphabet, up to renaming of resources; non-trivial = at least three different kinds of "
             "outcome (ok / cycle / keyError / delivery / skipped shut-down subscriber / released) in one history; "
             "distinct by (universe size, op list)",
    )


def replay(path: str) -> int:
    from koreo import registry
    import koreo_util  # noqa: F401

    data = json.load(open(path))
    cases = [v["case"] for v in data.get("violations", [])] if "violations" in data else [data]
    old = signal.signal(signal.SIGALRM, _alarm)
    rc = 0
    try:
        for case in cases:
            bad, got = oracle_history(registry, case["n"], case["ops"])
            if bad is None:
                # some failures depend on the iteration order of Python sets (string hashes change from
                # process to process): the same history under other resource names is the same case
                for salt in range(1, 41):
                    bad, got = oracle_history(registry, [nsalt(case["n"])[0], salt], case["ops"])
                    if bad is not None:
                        print(f"replay: fails with the resources renamed (salt {salt})")
                        break
            outs = [g["out"] for g in got]
            print("replay:", json.dumps(case), "->", json.dumps(outs), "::", bad)
            rc = rc or (1 if bad else 0)
    finally:
        signal.signal(signal.SIGALRM, old)
    return rc
